//! End-to-end fetch with the gix crate against `git upload-pack` (file transport), compared with `git fetch`.
use crate::{block, obj_field, parse_obj, push_block, Obj};
use gix::odb::Write as _;
use gixv_common::{f_str, num, tag, Case, Rng, Verdict};
use std::collections::{BTreeMap, BTreeSet, HashMap};
use std::path::{Path, PathBuf};
use std::sync::atomic::{AtomicBool, AtomicUsize, Ordering};

#[derive(Clone, Debug, PartialEq)]
pub enum Val {
    Obj(usize),
    Sym(Vec<u8>),
}
#[derive(Clone, Debug)]
pub struct FetchCase {
    pub proto: u8,
    pub algo: u8,  // b'c' | b's' | b'n'
    pub tags: u8,  // b'n' none | b'a' all | b'i' included
    pub depth: u32,
    pub wt: bool,
    /// 0: the client has full history; n: the client is a shallow repository of that depth
    pub lshallow: u32,
    pub objs: Vec<Obj>,
    pub srefs: Vec<(Vec<u8>, Val)>,
    pub lrefs: Vec<(Vec<u8>, Val)>,
    pub specs: Vec<Vec<u8>>,
}

fn ref_field(r: &(Vec<u8>, Val)) -> Vec<u8> {
    let mut v = r.0.clone();
    match &r.1 {
        Val::Obj(i) => v.extend_from_slice(format!(",d,{i}").as_bytes()),
        Val::Sym(t) => {
            v.extend_from_slice(b",s,");
            v.extend_from_slice(t);
        }
    }
    v
}
fn parse_ref(f: &[u8]) -> (Vec<u8>, Val) {
    let t: Vec<&[u8]> = f.split(|b| *b == b',').collect();
    if t.len() < 3 {
        return (Vec::new(), Val::Obj(0));
    }
    if t[1] == b"s" {
        (t[0].to_vec(), Val::Sym(t[2].to_vec()))
    } else {
        (t[0].to_vec(), Val::Obj(std::str::from_utf8(t[2]).ok().and_then(|s| s.parse().ok()).unwrap_or(0)))
    }
}
pub fn to_case(f: &FetchCase) -> Case {
    let mut c = vec![
        tag("fetch"),
        num(f.proto),
        vec![f.algo],
        vec![f.tags],
        num(f.depth),
        num(f.wt as u8),
        num(f.lshallow),
    ];
    push_block(&mut c, f.objs.iter().map(obj_field).collect());
    push_block(&mut c, f.srefs.iter().map(ref_field).collect());
    push_block(&mut c, f.lrefs.iter().map(ref_field).collect());
    push_block(&mut c, f.specs.clone());
    c
}
pub fn parse(c: &Case) -> FetchCase {
    let (objs, at) = block(c, 7);
    let (srefs, at) = block(c, at);
    let (lrefs, at) = block(c, at);
    let (specs, _) = block(c, at);
    FetchCase {
        proto: gixv_common::f_u64(c, 1) as u8,
        algo: f_str(c, 2).first().copied().unwrap_or(b'c'),
        tags: f_str(c, 3).first().copied().unwrap_or(b'n'),
        depth: gixv_common::f_u64(c, 4) as u32,
        wt: f_str(c, 5) == b"1",
        lshallow: gixv_common::f_u64(c, 6) as u32,
        objs: objs.iter().map(|f| parse_obj(f)).collect(),
        srefs: srefs.iter().map(|f| parse_ref(f)).collect(),
        lrefs: lrefs.iter().map(|f| parse_ref(f)).collect(),
        specs,
    }
}

const TIME_BASE: i64 = 1_000_000_000;
const EMPTY_TREE: &str = "4b825dc642cb6eb9a060e54bf8d69288fbee4904";

/// (kind, bytes, id) of every object of the universe, in index order
pub fn materialize(objs: &[Obj]) -> Vec<(gix::objs::Kind, Vec<u8>, gix::ObjectId)> {
    let mut out: Vec<(gix::objs::Kind, Vec<u8>, gix::ObjectId)> = Vec::new();
    for (i, o) in objs.iter().enumerate() {
        let (kind, data) = match o {
            Obj::Commit { time, parents } => {
                let mut s = format!("tree {EMPTY_TREE}\n");
                for p in parents {
                    if let Some(po) = out.get(*p) {
                        s.push_str(&format!("parent {}\n", po.2));
                    }
                }
                let t = TIME_BASE + time;
                s.push_str(&format!("author a <a@b> {t} +0000\ncommitter a <a@b> {t} +0000\n\nc{i}\n"));
                (gix::objs::Kind::Commit, s.into_bytes())
            }
            Obj::Tag { target } => {
                let (tk, tid) = match out.get(*target) {
                    Some(t) => (t.0, t.2),
                    None => (gix::objs::Kind::Blob, gix::ObjectId::null(gix::hash::Kind::Sha1)),
                };
                (
                    gix::objs::Kind::Tag,
                    format!("object {tid}\ntype {tk}\ntag t{i}\ntagger a <a@b> {TIME_BASE} +0000\n\nt{i}\n").into_bytes(),
                )
            }
            Obj::Blob | Obj::Absent => (gix::objs::Kind::Blob, format!("b{i}").into_bytes()),
        };
        let id = gix::objs::compute_hash(gix::hash::Kind::Sha1, kind, &data);
        out.push((kind, data, id));
    }
    out
}

fn closure(objs: &[Obj], roots: impl Iterator<Item = usize>) -> BTreeSet<usize> {
    let mut seen = BTreeSet::new();
    let mut todo: Vec<usize> = roots.collect();
    while let Some(i) = todo.pop() {
        if i >= objs.len() || !seen.insert(i) {
            continue;
        }
        match &objs[i] {
            Obj::Commit { parents, .. } => todo.extend(parents.iter().copied()),
            Obj::Tag { target } => todo.push(*target),
            _ => {}
        }
    }
    seen
}

/// objects within `depth` commits of the roots, and the commits whose parents were cut off
fn shallow_closure(objs: &[Obj], roots: &[usize], depth: u32) -> (BTreeSet<usize>, BTreeSet<usize>) {
    let mut best: BTreeMap<usize, u32> = BTreeMap::new();
    let mut todo: Vec<(usize, u32)> = roots.iter().map(|r| (*r, 1)).collect();
    while let Some((i, d)) = todo.pop() {
        if i >= objs.len() || best.get(&i).map_or(false, |b| *b <= d) {
            continue;
        }
        best.insert(i, d);
        match &objs[i] {
            Obj::Commit { parents, .. } => {
                if d < depth {
                    todo.extend(parents.iter().map(|p| (*p, d + 1)));
                }
            }
            Obj::Tag { target } => todo.push((*target, d)),
            _ => {}
        }
    }
    let present: BTreeSet<usize> = best.keys().copied().collect();
    let boundary = present
        .iter()
        .copied()
        .filter(|i| matches!(&objs[*i], Obj::Commit { parents, .. } if parents.iter().any(|p| !present.contains(p))))
        .collect();
    (present, boundary)
}

pub struct Scratch(pub PathBuf);
static COUNTER: AtomicUsize = AtomicUsize::new(0);
impl Scratch {
    pub fn new() -> Scratch {
        let base = if Path::new("/dev/shm").is_dir() { PathBuf::from("/dev/shm") } else { std::env::temp_dir() };
        let dir = base.join(format!("gixv-c31-{}-{}", std::process::id(), COUNTER.fetch_add(1, Ordering::SeqCst)));
        let _ = std::fs::remove_dir_all(&dir);
        std::fs::create_dir_all(&dir).expect("mkdir scratch");
        Scratch(dir)
    }
}
impl Drop for Scratch {
    fn drop(&mut self) {
        let _ = std::fs::remove_dir_all(&self.0);
    }
}

/// hand-made repository: `git_dir` gets HEAD, config, objects (loose), refs (loose)
fn make_repo(
    git_dir: &Path,
    bare: bool,
    head: &Val,
    mat: &[(gix::objs::Kind, Vec<u8>, gix::ObjectId)],
    objs: &[Obj],
    refs: &[(Vec<u8>, Val)],
    shallow_depth: u32,
) {
    use std::os::unix::ffi::OsStrExt;
    std::fs::create_dir_all(git_dir.join("objects/pack")).expect("mkdir");
    std::fs::create_dir_all(git_dir.join("objects/info")).expect("mkdir");
    std::fs::create_dir_all(git_dir.join("refs/heads")).expect("mkdir");
    std::fs::create_dir_all(git_dir.join("refs/tags")).expect("mkdir");
    std::fs::write(
        git_dir.join("config"),
        format!(
            "[core]\n\trepositoryformatversion = 0\n\tbare = {}\n[user]\n\tname = u\n\temail = u@e\n[gc]\n\tauto = 0\n",
            bare
        ),
    )
    .expect("config");
    let odb = gix::odb::loose::Store::at(git_dir.join("objects"), gix::hash::Kind::Sha1);
    odb.write_buf(gix::objs::Kind::Tree, b"").expect("empty tree");
    let roots = refs.iter().filter_map(|(_, v)| if let Val::Obj(i) = v { Some(*i) } else { None });
    let head_root = if let Val::Obj(i) = head { Some(*i) } else { None };
    let all_roots: Vec<usize> = roots.chain(head_root).collect();
    let present = if shallow_depth == 0 {
        closure(objs, all_roots.iter().copied())
    } else {
        let (present, boundary) = shallow_closure(objs, &all_roots, shallow_depth);
        if !boundary.is_empty() {
            let mut lines: Vec<String> = boundary.iter().map(|i| mat[*i].2.to_string()).collect();
            lines.sort();
            std::fs::write(git_dir.join("shallow"), lines.join("\n") + "\n").expect("shallow");
        }
        present
    };
    for i in present {
        let (kind, data, id) = &mat[i];
        let got = odb.write_buf(*kind, data).expect("write object");
        assert_eq!(&got, id);
    }
    let val = |v: &Val| match v {
        Val::Obj(i) => format!("{}\n", mat[*i].2).into_bytes(),
        Val::Sym(t) => [b"ref: ", &t[..], b"\n"].concat(),
    };
    for (name, v) in refs {
        let p = git_dir.join(std::ffi::OsStr::from_bytes(name));
        std::fs::create_dir_all(p.parent().expect("parent")).expect("mkdir ref");
        std::fs::write(p, val(v)).expect("write ref");
    }
    std::fs::write(git_dir.join("HEAD"), val(head)).expect("HEAD");
}

pub struct World {
    pub scratch: Scratch,
    pub server: PathBuf,
    pub client_git_dir: PathBuf,
    pub client_top: PathBuf,
    pub mat: Vec<(gix::objs::Kind, Vec<u8>, gix::ObjectId)>,
    pub index_of: HashMap<gix::ObjectId, usize>,
}
pub fn build_world(f: &FetchCase) -> World {
    let scratch = Scratch::new();
    let mat = materialize(&f.objs);
    let server = scratch.0.join("server.git");
    let shead = f.srefs.iter().find(|(n, _)| n == b"HEAD").map(|(_, v)| v.clone()).unwrap_or(Val::Sym(b"refs/heads/main".to_vec()));
    let srefs: Vec<(Vec<u8>, Val)> = f.srefs.iter().filter(|(n, _)| n != b"HEAD").cloned().collect();
    make_repo(&server, true, &shead, &mat, &f.objs, &srefs, 0);
    let (client_top, client_git_dir) = if f.wt {
        let top = scratch.0.join("client");
        (top.clone(), top.join(".git"))
    } else {
        let d = scratch.0.join("client.git");
        (d.clone(), d)
    };
    make_repo(&client_git_dir, !f.wt, &Val::Sym(b"refs/heads/main".to_vec()), &mat, &f.objs, &f.lrefs, f.lshallow);
    let index_of = mat.iter().enumerate().map(|(i, m)| (m.2, i)).collect();
    World { scratch, server, client_git_dir, client_top, mat, index_of }
}

pub struct GixResult {
    pub remote_refs_empty: bool,
    pub mappings: Vec<String>,
    pub updates: Vec<String>,
    pub edits: Vec<String>,
}
pub enum GixError {
    NoMapping,
    Validate,
    Other(String),
}

fn algo_name(a: u8) -> &'static str {
    match a {
        b's' => "skipping",
        b'n' => "noop",
        _ => "consecutive",
    }
}

pub fn gix_fetch(f: &FetchCase, w: &World) -> Result<GixResult, GixError> {
    use gix::remote::fetch::refs::update::{Mode, TypeChange};
    let other = |e: &dyn std::fmt::Display| GixError::Other(e.to_string());
    let opts = gix::open::Options::isolated().config_overrides([
        format!("protocol.version={}", f.proto),
        format!("fetch.negotiationAlgorithm={}", algo_name(f.algo)),
    ]);
    let repo = gix::open_opts(&w.client_git_dir, opts).map_err(|e| other(&e))?;
    let tags = match f.tags {
        b'a' => gix::remote::fetch::Tags::All,
        b'i' => gix::remote::fetch::Tags::Included,
        _ => gix::remote::fetch::Tags::None,
    };
    let remote = repo
        .remote_at(w.server.to_str().expect("utf8 path"))
        .map_err(|e| other(&e))?
        .with_fetch_tags(tags)
        .with_refspecs(f.specs.iter().map(|s| gix::bstr::BString::from(s.clone())), gix::remote::Direction::Fetch)
        .map_err(|e| other(&e))?;
    let con = remote.connect(gix::remote::Direction::Fetch).map_err(|e| other(&e))?;
    let prep = match con.prepare_fetch(gix::progress::Discard, Default::default()) {
        Ok(p) => p,
        Err(gix::remote::fetch::prepare::Error::RefMap(gix::remote::ref_map::Error::MappingValidation(_))) => {
            return Err(GixError::Validate)
        }
        Err(e) => return Err(other(&e)),
    };
    let prep = if f.depth > 0 {
        prep.with_shallow(gix::remote::fetch::Shallow::DepthAtRemote(f.depth.try_into().expect("non-zero")))
    } else {
        prep
    };
    let out = match prep.receive(gix::progress::Discard, &AtomicBool::new(false)) {
        Ok(o) => o,
        Err(gix::remote::fetch::Error::NoMapping { .. }) => return Err(GixError::NoMapping),
        Err(e) => {
            let mut s = e.to_string();
            let mut src: Option<&dyn std::error::Error> = std::error::Error::source(&e);
            while let Some(c) = src {
                s.push_str(" <- ");
                s.push_str(&c.to_string());
                src = c.source();
            }
            return Err(GixError::Other(s));
        }
    };
    let nspecs = f.specs.len();
    let mappings: Vec<String> = out
        .ref_map
        .mappings
        .iter()
        .map(|m| {
            let si = match m.spec_index {
                gix::remote::fetch::SpecIndex::ExplicitInRemote(i) => i,
                gix::remote::fetch::SpecIndex::Implicit(i) => nspecs + i,
            };
            format!(
                "{}>{}@{}",
                m.remote.as_name().map(|n| n.to_string()).unwrap_or_else(|| "?".into()),
                m.local.as_ref().map(|n| n.to_string()).unwrap_or_else(|| "-".into()),
                si
            )
        })
        .collect();
    let update_refs = match &out.status {
        gix::remote::fetch::Status::NoPackReceived { update_refs, .. } => update_refs,
        gix::remote::fetch::Status::Change { update_refs, .. } => update_refs,
    };
    let updates: Vec<String> = update_refs
        .updates
        .iter()
        .map(|u| {
            let m = match &u.mode {
                Mode::NoChangeNeeded => "NoChange",
                Mode::FastForward => "FastForward",
                Mode::Forced => "Forced",
                Mode::New => "New",
                Mode::ImplicitTagNotSentByRemote => "ImplicitTagNotSent",
                Mode::RejectedSourceObjectNotFound { .. } => "RejNotFound",
                Mode::RejectedTagUpdate => "RejTag",
                Mode::RejectedNonFastForward => "RejNonFF",
                Mode::RejectedToReplaceWithUnborn => "RejUnborn",
                Mode::RejectedCurrentlyCheckedOut { .. } => "RejCheckedOut",
            };
            let tc = match u.type_change {
                None => 0,
                Some(TypeChange::DirectToSymbolic) => 1,
                Some(TypeChange::SymbolicToDirect) => 2,
            };
            format!("{}/{}/{}", m, tc, u.edit_index.map(|i| i.to_string()).unwrap_or_else(|| "-".into()))
        })
        .collect();
    let show_target = |t: &gix::refs::Target| match t {
        gix::refs::Target::Object(id) => format!("o{}", w.index_of.get(id).map(|i| i.to_string()).unwrap_or_else(|| id.to_string())),
        gix::refs::Target::Symbolic(n) => format!("s{}", n.as_bstr()),
    };
    let edits: Vec<String> = update_refs
        .edits
        .iter()
        .map(|e| match &e.change {
            gix::refs::transaction::Change::Update { new, log, .. } => format!(
                "{}={}{}",
                e.name.as_bstr(),
                show_target(new),
                if log.message == "no-op" { "!" } else { "" }
            ),
            gix::refs::transaction::Change::Delete { .. } => format!("{}=deleted", e.name.as_bstr()),
        })
        .collect();
    Ok(GixResult { remote_refs_empty: out.ref_map.remote_refs.is_empty(), mappings, updates, edits })
}

/// all refs below refs/ with their direct targets, sorted by name, read with a fresh handle
fn gix_refs(w: &World) -> Vec<String> {
    let repo = match gix::open_opts(&w.client_git_dir, gix::open::Options::isolated()) {
        Ok(r) => r,
        Err(_) => return vec!["<unreadable>".into()],
    };
    let mut v: Vec<(String, String)> = Vec::new();
    if let Ok(p) = repo.references() {
        if let Ok(it) = p.all() {
            for r in it.flatten() {
                let t = match r.target() {
                    gix::refs::TargetRef::Object(id) => format!(
                        "o{}",
                        w.index_of.get(&id.to_owned()).map(|i| i.to_string()).unwrap_or_else(|| id.to_string())
                    ),
                    gix::refs::TargetRef::Symbolic(n) => format!("s{}", n.as_bstr()),
                };
                v.push((r.name().as_bstr().to_string(), t));
            }
        }
    }
    v.sort();
    v.into_iter().map(|(n, t)| format!("{n}={t}")).collect()
}

pub fn imp(c: &Case) -> String {
    let f = parse(c);
    if f.tags == b'i' || f.depth > 0 || f.lshallow > 0 {
        return "e2e-only".into();
    }
    let w = build_world(&f);
    match gix_fetch(&f, &w) {
        Ok(r) => {
            if r.remote_refs_empty {
                return "empty-remote".into();
            }
            format!(
                "ok m: {} u: {} e: {} r: {}",
                r.mappings.join(" "),
                r.updates.join(" "),
                r.edits.join(" "),
                gix_refs(&w).join(" ")
            )
        }
        Err(GixError::NoMapping) => "err NoMapping".into(),
        Err(GixError::Validate) => "err Validate".into(),
        Err(GixError::Other(_)) => "err Other".into(),
    }
}

fn git(dir: &Path, cwd: &Path, home: &Path) -> std::process::Command {
    let mut c = std::process::Command::new("git");
    c.current_dir(cwd);
    c.arg("--git-dir").arg(dir);
    for v in [
        "GIT_DIR", "GIT_WORK_TREE", "GIT_CONFIG", "GIT_CONFIG_PARAMETERS", "GIT_CONFIG_COUNT", "GIT_NAMESPACE",
        "GIT_PROTOCOL", "GIT_INDEX_FILE", "GIT_OBJECT_DIRECTORY", "GIT_ALTERNATE_OBJECT_DIRECTORIES",
    ] {
        c.env_remove(v);
    }
    c.env("GIT_CONFIG_NOSYSTEM", "1").env("HOME", home).env("GIT_TERMINAL_PROMPT", "0");
    c
}

fn copy_dir(from: &Path, to: &Path) {
    std::fs::create_dir_all(to).expect("mkdir copy");
    for e in std::fs::read_dir(from).expect("read_dir").flatten() {
        let p = e.path();
        let t = to.join(e.file_name());
        if p.is_dir() {
            copy_dir(&p, &t);
        } else {
            std::fs::copy(&p, &t).expect("copy");
        }
    }
}

/// `refname -> resolved object id` as git sees the repository
fn git_refs(dir: &Path, cwd: &Path, home: &Path) -> Result<BTreeMap<String, String>, String> {
    let out = git(dir, cwd, home)
        .args(["for-each-ref", "--format=%(refname) %(objectname)"])
        .output()
        .map_err(|e| e.to_string())?;
    if !out.status.success() {
        return Err(format!("for-each-ref: {}", String::from_utf8_lossy(&out.stderr)));
    }
    Ok(String::from_utf8_lossy(&out.stdout)
        .lines()
        .filter_map(|l| l.split_once(' ').map(|(a, b)| (a.to_string(), b.to_string())))
        .collect())
}

pub fn prop(c: &Case) -> Verdict {
    let f = parse(c);
    let w = build_world(&f);
    let home = w.scratch.0.clone();
    // identical copy for git
    let (top2, dir2) = if f.wt {
        let t = w.scratch.0.join("client2");
        copy_dir(&w.client_top, &t);
        (t.clone(), t.join(".git"))
    } else {
        let d = w.scratch.0.join("client2.git");
        copy_dir(&w.client_git_dir, &d);
        (d.clone(), d)
    };
    let before = match git_refs(&dir2, &top2, &home) {
        Ok(r) => r,
        Err(e) => return Verdict::fail("harness-git", e),
    };
    let gix_res = gix_fetch(&f, &w);
    // git fetch into the copy
    let mut cmd = git(&dir2, &top2, &home);
    cmd.args(["-c", &format!("protocol.version={}", f.proto)])
        .args(["-c", &format!("fetch.negotiationAlgorithm={}", algo_name(f.algo))])
        .args(["-c", "gc.auto=0", "-c", "maintenance.auto=false", "-c", "fetch.showForcedUpdates=true"])
        .arg("fetch")
        .arg("--no-recurse-submodules")
        .arg("--no-write-fetch-head");
    match f.tags {
        b'a' => {
            cmd.arg("--tags");
        }
        b'i' => {}
        _ => {
            cmd.arg("--no-tags");
        }
    }
    if f.depth > 0 {
        cmd.arg(format!("--depth={}", f.depth));
    }
    cmd.arg(&w.server);
    for s in &f.specs {
        cmd.arg(String::from_utf8_lossy(s).to_string());
    }
    let gout = match cmd.output() {
        Ok(o) => o,
        Err(e) => return Verdict::fail("harness-git", e.to_string()),
    };
    let gerr = String::from_utf8_lossy(&gout.stderr).to_string();
    let git_fatal = gout.status.code() == Some(128) || gerr.contains("fatal:");
    let after_git = match git_refs(&dir2, &top2, &home) {
        Ok(r) => r,
        Err(e) => return Verdict::fail("harness-git", e),
    };
    let after_gix = match git_refs(&w.client_git_dir, &w.client_top, &home) {
        Ok(r) => r,
        Err(e) => return Verdict::fail("harness-git", e),
    };
    // connectivity of what gix produced
    let fsck = git(&w.client_git_dir, &w.client_top, &home)
        .args(["fsck", "--connectivity-only", "--no-dangling"])
        .output();
    let fsck_bad = match &fsck {
        Ok(o) => {
            let t = format!("{}{}", String::from_utf8_lossy(&o.stdout), String::from_utf8_lossy(&o.stderr));
            // a symbolic ref whose target does not exist (possible before the fetch already) is reported as
            // `invalid sha1 pointer 0000…`; that is not about objects
            let bad: Vec<&str> = t
                .lines()
                .filter(|l| !l.contains("invalid sha1 pointer 0000000000000000000000000000000000000000"))
                .filter(|l| !l.starts_with("notice:") && !l.starts_with("Checking") && !l.trim().is_empty())
                .filter(|l| !l.starts_with("dangling ") && !l.starts_with("unreachable "))
                .collect();
            if bad.is_empty() {
                None
            } else {
                Some(bad.join(" / "))
            }
        }
        Err(e) => Some(e.to_string()),
    };
    let shallow = |d: &Path| -> Vec<String> {
        let mut v: Vec<String> = std::fs::read_to_string(d.join("shallow"))
            .unwrap_or_default()
            .lines()
            .map(|s| s.to_string())
            .collect();
        v.sort();
        v
    };
    let kind = format!(
        "v{}{}{}{}",
        f.proto,
        f.algo as char,
        f.tags as char,
        if f.depth > 0 || f.lshallow > 0 { "-shallow" } else { "" }
    );
    match gix_res {
        Err(GixError::NoMapping) => {
            if after_git == before {
                Verdict::ok(false, "no-mapping")
            } else {
                Verdict::fail("gix-no-mapping-git-updates", gerr)
            }
        }
        Err(GixError::Validate) => {
            if git_fatal {
                Verdict::ok(false, "both-refuse-conflict")
            } else {
                Verdict::fail("gix-refuses-conflict", gerr)
            }
        }
        Err(GixError::Other(e)) => {
            if git_fatal && after_git == before {
                Verdict::ok(false, "both-refuse")
            } else {
                Verdict::fail(format!("gix-fetch-fails-{kind}"), e)
            }
        }
        Ok(_) => {
            if let Some(t) = fsck_bad {
                // git's ref store refuses to put anything but a commit below refs/heads/ ("trying to write non-commit
                // object to branch"); gix writes what the refspec says
                if t.split(" / ").all(|l| l.contains("refs/heads/") && l.contains("not a commit")) {
                    return Verdict::fail("branch-points-to-non-commit", t);
                }
                return Verdict::fail(format!("fsck-{kind}"), t.replace('\n', " "));
            }
            if git_fatal {
                // git refuses the whole fetch (e.g. into a checked-out branch, conflicting destinations)
                let cls = if gerr.contains("refusing to fetch into") {
                    // gix must at least leave that branch alone
                    // (git refuses even when the checked-out branch is unborn; gix, like git's own
                    // update_local_ref, only protects a branch that exists)
                    let name = "refs/heads/main";
                    if before.contains_key(name) && after_gix.get(name) != before.get(name) {
                        return Verdict::fail("checked-out-branch-updated", format!("{:?}", after_gix.get(name)));
                    }
                    "git-dies-checked-out"
                } else {
                    "git-dies"
                };
                return Verdict::ok(false, cls);
            }
            if after_gix != after_git {
                let mut diff = Vec::new();
                let names: BTreeSet<&String> = after_gix.keys().chain(after_git.keys()).collect();
                let mut classes = BTreeSet::new();
                for n in names {
                    let (a, b) = (after_gix.get(n), after_git.get(n));
                    if a != b {
                        let short = |x: Option<&String>| {
                            x.map(|h| {
                                w.mat
                                    .iter()
                                    .position(|m| m.2.to_string() == *h)
                                    .map(|i| i.to_string())
                                    .unwrap_or_else(|| h.clone())
                            })
                            .unwrap_or_else(|| "-".into())
                        };
                        diff.push(format!("{n}: gix {} git {} (was {})", short(a), short(b), short(before.get(n))));
                        classes.insert(classify_diff(&f, &w, n, a, b, before.get(n)));
                    }
                }
                // several refs differ: an unexplained class wins, otherwise the first explained one
                const GENERIC: &[&str] = &[
                    "refs-differ",
                    "gix-rejects-git-updates",
                    "gix-updates-git-rejects",
                    "gix-rejects-git-updates-tag-object",
                    "gix-updates-git-rejects-tag-object",
                    "auto-follow-tag-not-fetched",
                ];
                let cls = classes
                    .iter()
                    .find(|c| GENERIC.contains(&c.as_str()))
                    .or_else(|| classes.iter().next())
                    .cloned()
                    .unwrap_or_else(|| "refs-differ".to_string());
                return Verdict::fail(cls, format!("{} | git: {}", diff.join("; "), gerr.replace('\n', " ")));
            }
            if (f.depth > 0 || f.lshallow > 0) && shallow(&w.client_git_dir) != shallow(&dir2) {
                // connectivity was checked above and the refs agree: only the recorded boundary differs (git marks the
                // fetched tips shallow even when the client happens to have their parents already)
                return Verdict::ok(false, "shallow-boundary-recorded-differently");
            }
            Verdict::ok(after_git != before, format!("fetch-{kind}"))
        }
    }
}

/// a stable class for one differing ref
fn classify_diff(
    f: &FetchCase,
    w: &World,
    name: &str,
    gix_v: Option<&String>,
    git_v: Option<&String>,
    before: Option<&String>,
) -> String {
    let idx = |x: Option<&String>| x.and_then(|h| w.mat.iter().position(|m| m.2.to_string() == *h));
    let is_tag_obj = |x: Option<&String>| idx(x).map_or(false, |i| matches!(f.objs[i], Obj::Tag { .. }));
    // a destination that is (or was, or becomes) a symbolic ref: gix keeps/creates symbolic refs for symbolic remote
    // refs and never writes through them, git writes the id through the symref
    let is_sym_file = std::fs::read(w.client_git_dir.join(name)).map_or(false, |c| c.starts_with(b"ref: "));
    let sym_related = f.lrefs.iter().any(|(n, v)| match v {
        Val::Sym(t) => n == name.as_bytes() || t == name.as_bytes(),
        _ => false,
    });
    if is_sym_file || sym_related {
        return "symref-destination".into();
    }
    if f.tags == b'i' && name.starts_with("refs/tags/") && gix_v.is_none() && git_v.is_some() {
        return "auto-follow-tag-not-fetched".into();
    }
    if gix_v == before && git_v != before {
        // a genuine fast-forward that gix's time-limited ancestry walk cannot see: every path from the new commit
        // to the old one passes through a commit that is older than the old one
        if let (Some(o), Some(n)) = (idx(before), idx(git_v)) {
            if let (Obj::Commit { time: cutoff, .. }, Obj::Commit { .. }) = (&f.objs[o], &f.objs[n]) {
                let reach = |limit: Option<i64>| -> bool {
                    let mut seen = BTreeSet::new();
                    let mut todo = vec![n];
                    while let Some(i) = todo.pop() {
                        if let Obj::Commit { time, parents } = &f.objs[i] {
                            if limit.map_or(false, |l| *time < l) || !seen.insert(i) {
                                continue;
                            }
                            if i == o {
                                return true;
                            }
                            todo.extend(parents.iter().copied());
                        }
                    }
                    false
                };
                if reach(None) && !reach(Some(*cutoff)) {
                    return "ff-rejected-clock-skew".into();
                }
            }
        }
        if is_tag_obj(git_v) || is_tag_obj(before) {
            return "gix-rejects-git-updates-tag-object".into();
        }
        return "gix-rejects-git-updates".into();
    }
    if git_v == before && gix_v != before {
        // a shallow fetch: git looks at ancestry through the grafts of the new shallow boundary and sees no
        // fast-forward where the client in fact has the old commit below the boundary; gix walks the real parents
        if f.depth > 0 || f.lshallow > 0 {
            return "ff-through-shallow-boundary".into();
        }
        if is_tag_obj(gix_v) || is_tag_obj(before) {
            return "gix-updates-git-rejects-tag-object".into();
        }
        return "gix-updates-git-rejects".into();
    }
    "refs-differ".into()
}

// ------------------------------------------------------------------------------------------ generator
const BRANCHES: &[&str] = &["main", "a", "b", "c/d"];
const TAGS: &[&str] = &["v1", "v2", "w"];
const SPECS: &[&str] = &[
    "+refs/heads/*:refs/remotes/o/*",
    "+refs/heads/*:refs/remotes/o/*",
    "refs/heads/*:refs/remotes/o/*",
    "refs/heads/*:refs/remotes/o/*",
    "refs/heads/*:refs/heads/*",
    "+refs/heads/*:refs/heads/*",
    "refs/heads/main:refs/heads/main",
    "refs/heads/a:refs/remotes/o/x",
    "+refs/heads/a:refs/remotes/o/b",
    "refs/tags/*:refs/tags/*",
    "+refs/tags/*:refs/tags/*",
    "refs/tags/*:refs/rt/*",
    "refs/tags/v1:refs/heads/fromtag",
    "HEAD:refs/remotes/o/HEAD",
    "refs/*:refs/*",
    "+refs/*:refs/*",
    "refs/heads/c/*:refs/remotes/o/c/*",
];

fn random_objs(rng: &mut Rng, n: usize) -> Vec<Obj> {
    let mut objs: Vec<Obj> = Vec::new();
    let skew = rng.chance(1, 5);
    let spread = *rng.pick(&[1i64, 2, 4]);
    for i in 0..n {
        if i > 0 && rng.chance(1, 6) {
            // a tag of something earlier (mostly a commit), rarely a blob
            if rng.chance(1, 12) {
                objs.push(Obj::Blob);
            } else {
                objs.push(Obj::Tag { target: rng.below(i as u64) as usize });
            }
            continue;
        }
        let commits: Vec<usize> = (0..i).filter(|j| matches!(objs[*j], Obj::Commit { .. })).collect();
        let np = if commits.is_empty() { 0 } else { *rng.pick(&[0usize, 1, 1, 1, 1, 1, 2, 2]) };
        let mut parents: Vec<usize> = Vec::new();
        for _ in 0..np {
            let k = if rng.chance(3, 4) { commits.len() - 1 - rng.below(2.min(commits.len() as u64)) as usize } else { rng.below(commits.len() as u64) as usize };
            if !parents.contains(&commits[k]) {
                parents.push(commits[k]);
            }
        }
        let base = 1 + (i as i64) / spread;
        let time = if skew { (base + rng.range(-3, 3)).max(1) } else { base };
        objs.push(Obj::Commit { time, parents });
    }
    objs
}

pub fn random(rng: &mut Rng) -> Case {
    let n = *rng.pick(&[2usize, 3, 4, 6, 6, 8, 8, 10, 14]);
    let objs = random_objs(rng, n);
    let commits: Vec<usize> = (0..n).filter(|j| matches!(objs[*j], Obj::Commit { .. })).collect();
    let anyobj = |rng: &mut Rng| rng.below(n as u64) as usize;
    let commit = |rng: &mut Rng| {
        if rng.chance(2, 3) {
            commits[commits.len() - 1 - rng.below(3.min(commits.len() as u64)) as usize]
        } else {
            *rng.pick(&commits)
        }
    };
    let mut srefs: Vec<(Vec<u8>, Val)> = Vec::new();
    for b in BRANCHES {
        if rng.chance(3, 5) {
            srefs.push((format!("refs/heads/{b}").into_bytes(), Val::Obj(commit(rng))));
        }
    }
    for t in TAGS {
        if rng.chance(2, 5) {
            let v = if rng.chance(1, 2) { commit(rng) } else { anyobj(rng) };
            srefs.push((format!("refs/tags/{t}").into_bytes(), Val::Obj(v)));
        }
    }
    if rng.chance(1, 10) {
        srefs.push((b"refs/other/x".to_vec(), Val::Obj(anyobj(rng))));
    }
    // HEAD: symbolic to main (born or unborn), sometimes to another branch, rarely detached
    let head = match rng.below(10) {
        0 => Val::Obj(commit(rng)),
        1 => Val::Sym(b"refs/heads/a".to_vec()),
        _ => Val::Sym(b"refs/heads/main".to_vec()),
    };
    srefs.push((b"HEAD".to_vec(), head));

    // the client's previous state
    let mut lrefs: Vec<(Vec<u8>, Val)> = Vec::new();
    let mut taken: BTreeSet<Vec<u8>> = BTreeSet::new();
    let mut add = |lrefs: &mut Vec<(Vec<u8>, Val)>, name: String, v: Val| {
        let name = name.into_bytes();
        if taken.insert(name.clone()) {
            lrefs.push((name, v));
        }
    };
    let server_val = |srefs: &Vec<(Vec<u8>, Val)>, name: &str| -> Option<usize> {
        srefs.iter().find(|(n, _)| n == name.as_bytes()).and_then(|(_, v)| if let Val::Obj(i) = v { Some(*i) } else { None })
    };
    let density = *rng.pick(&[0u64, 1, 2, 2, 3]);
    for b in BRANCHES {
        for ns in ["refs/remotes/o", "refs/heads"] {
            if rng.below(4) < density {
                // same as the server, an ancestor-ish earlier commit, or anything
                let sv = server_val(&srefs, &format!("refs/heads/{b}"));
                let v = match (rng.below(4), sv) {
                    (0, Some(s)) => s,
                    (1, Some(s)) => match &objs[s] {
                        Obj::Commit { parents, .. } if !parents.is_empty() => parents[0],
                        _ => commit(rng),
                    },
                    _ => commit(rng),
                };
                add(&mut lrefs, format!("{ns}/{b}"), Val::Obj(v));
            }
        }
    }
    for t in TAGS {
        for ns in ["refs/tags", "refs/rt"] {
            if rng.below(5) < density {
                let sv = server_val(&srefs, &format!("refs/tags/{t}"));
                let v = match (rng.below(3), sv) {
                    (0, Some(s)) => s,
                    (1, _) => anyobj(rng),
                    _ => commit(rng),
                };
                add(&mut lrefs, format!("{ns}/{t}"), Val::Obj(v));
            }
        }
    }
    if rng.chance(1, 6) {
        add(&mut lrefs, "refs/remotes/o/x".into(), Val::Obj(commit(rng)));
    }
    if rng.chance(1, 6) {
        add(&mut lrefs, "refs/heads/fromtag".into(), Val::Obj(commit(rng)));
    }
    if rng.chance(1, 5) {
        let v = match rng.below(3) {
            0 => Val::Sym(b"refs/remotes/o/main".to_vec()),
            1 => Val::Sym(b"refs/remotes/o/a".to_vec()),
            _ => Val::Obj(commit(rng)),
        };
        add(&mut lrefs, "refs/remotes/o/HEAD".into(), v);
    }
    let nspecs = *rng.pick(&[1usize, 1, 1, 2, 2, 3]);
    let mut specs: Vec<Vec<u8>> = Vec::new();
    for _ in 0..nspecs {
        let s = rng.pick(SPECS).as_bytes().to_vec();
        if !specs.contains(&s) {
            specs.push(s);
        }
    }
    let tags = *rng.pick(&[b'n', b'n', b'n', b'a', b'i']);
    let depth = if rng.chance(1, 8) { rng.range(1, 3) as u32 } else { 0 };
    let f = FetchCase {
        proto: *rng.pick(&[1u8, 2, 2]),
        algo: *rng.pick(&[b'c', b'c', b's', b'n']),
        tags,
        depth,
        wt: rng.chance(1, 6),
        lshallow: if rng.chance(1, 7) { rng.range(1, 3) as u32 } else { 0 },
        objs,
        srefs,
        lrefs,
        specs,
    };
    to_case(&f)
}

pub fn boundary(out: &mut Vec<Case>) {
    let c = |t: i64, p: &[usize]| Obj::Commit { time: t, parents: p.to_vec() };
    let r = |n: &str, i: usize| (n.as_bytes().to_vec(), Val::Obj(i));
    let s = |n: &str, t: &str| (n.as_bytes().to_vec(), Val::Sym(t.as_bytes().to_vec()));
    let base = FetchCase {
        proto: 2,
        algo: b'c',
        tags: b'n',
        depth: 0,
        wt: false,
        lshallow: 0,
        objs: vec![c(1, &[]), c(2, &[0]), c(3, &[1]), c(3, &[0])],
        srefs: vec![r("refs/heads/main", 2), s("HEAD", "refs/heads/main")],
        lrefs: vec![],
        specs: vec![b"refs/heads/*:refs/remotes/o/*".to_vec()],
    };
    for proto in [1u8, 2] {
        for algo in [b'c', b's', b'n'] {
            // clone-like: nothing local
            out.push(to_case(&FetchCase { proto, algo, ..base.clone() }));
            // fast-forward, up to date, non-fast-forward (rejected / forced)
            for (local, spec) in [
                (1usize, "refs/heads/*:refs/remotes/o/*"),
                (2, "refs/heads/*:refs/remotes/o/*"),
                (3, "refs/heads/*:refs/remotes/o/*"),
                (3, "+refs/heads/*:refs/remotes/o/*"),
            ] {
                out.push(to_case(&FetchCase {
                    proto,
                    algo,
                    lrefs: vec![r("refs/remotes/o/main", local)],
                    specs: vec![spec.as_bytes().to_vec()],
                    ..base.clone()
                }));
            }
        }
    }
    // tags: existing tag differs (rejected unless forced), annotated tag, all tags
    let tagged = FetchCase {
        objs: vec![c(1, &[]), c(2, &[0]), Obj::Tag { target: 1 }, c(3, &[1])],
        srefs: vec![r("refs/heads/main", 3), r("refs/tags/v1", 2), r("refs/tags/v2", 1), s("HEAD", "refs/heads/main")],
        ..base.clone()
    };
    for (spec, tags) in [("refs/tags/*:refs/tags/*", b'n'), ("+refs/tags/*:refs/tags/*", b'n'), ("refs/heads/*:refs/remotes/o/*", b'a'), ("refs/heads/*:refs/remotes/o/*", b'i'), ("refs/tags/*:refs/rt/*", b'n')] {
        out.push(to_case(&FetchCase {
            tags,
            lrefs: vec![r("refs/tags/v1", 0), r("refs/rt/v1", 0), r("refs/rt/v2", 0)],
            specs: vec![spec.as_bytes().to_vec()],
            ..tagged.clone()
        }));
    }
    // HEAD as source: symbolic on the remote, target mapped / not mapped; unborn remote HEAD
    out.push(to_case(&FetchCase {
        specs: vec![b"refs/heads/*:refs/remotes/o/*".to_vec(), b"HEAD:refs/remotes/o/HEAD".to_vec()],
        ..base.clone()
    }));
    out.push(to_case(&FetchCase { specs: vec![b"HEAD:refs/remotes/o/HEAD".to_vec()], ..base.clone() }));
    out.push(to_case(&FetchCase {
        srefs: vec![r("refs/heads/a", 2), s("HEAD", "refs/heads/main")],
        lrefs: vec![r("refs/remotes/o/HEAD", 1)],
        specs: vec![b"HEAD:refs/remotes/o/HEAD".to_vec(), b"refs/heads/*:refs/remotes/o/*".to_vec()],
        ..base.clone()
    }));
    // empty server
    out.push(to_case(&FetchCase { srefs: vec![s("HEAD", "refs/heads/main")], ..base.clone() }));
    // nothing matches
    out.push(to_case(&FetchCase { specs: vec![b"refs/tags/*:refs/tags/*".to_vec()], ..base.clone() }));
    // conflicting destinations
    out.push(to_case(&FetchCase {
        srefs: vec![r("refs/heads/main", 2), r("refs/heads/a", 1), s("HEAD", "refs/heads/main")],
        specs: vec![b"refs/heads/main:refs/remotes/o/x".to_vec(), b"refs/heads/a:refs/remotes/o/x".to_vec()],
        ..base.clone()
    }));
    // checked-out branch as destination
    out.push(to_case(&FetchCase {
        wt: true,
        lrefs: vec![r("refs/heads/main", 1)],
        specs: vec![b"refs/heads/*:refs/heads/*".to_vec()],
        ..base.clone()
    }));
    // shallow: depth 1 clone-like, then deepen
    for algo in [b'c', b's'] {
        out.push(to_case(&FetchCase { depth: 1, algo, ..base.clone() }));
        out.push(to_case(&FetchCase { depth: 2, algo, lrefs: vec![r("refs/remotes/o/main", 1)], ..base.clone() }));
    }
    // the client is a shallow repository and fetches an update without asking for a depth
    for algo in [b'c', b's'] {
        for proto in [1u8, 2] {
            out.push(to_case(&FetchCase {
                proto,
                algo,
                lshallow: 1,
                objs: vec![c(1, &[]), c(2, &[0]), c(3, &[1]), c(4, &[2]), c(5, &[3])],
                srefs: vec![r("refs/heads/main", 4), s("HEAD", "refs/heads/main")],
                lrefs: vec![r("refs/remotes/o/main", 2)],
                ..base.clone()
            }));
        }
    }
    // clock skew: the fast-forward path passes through a commit older than the local tip
    out.push(to_case(&FetchCase {
        objs: vec![c(5, &[]), c(2, &[0]), c(9, &[1])],
        srefs: vec![r("refs/heads/main", 2), s("HEAD", "refs/heads/main")],
        lrefs: vec![r("refs/remotes/o/main", 0)],
        ..base.clone()
    }));
}
