(* C31 — theorems. Only statements and `exact`; proofs are in ProofsUpdate.v / ProofsNeg.v. *)
From Coq Require Import List ZArith.
From GixV.Base Require Import Bytes Outcome.
From GixV.C31 Require Import Model Spec ProofsUpdate ProofsNeg.
Import ListNotations.
Local Open Scope N_scope.

(* ---- ref updates ------------------------------------------------------------------------------------------ *)
(* An existing direct destination, the new object present: the value the destination has after update() is the
   value of git's update_local_ref table (up to date / checked out / tag rule / fast-forward / forced / rejected),
   with gix's own fast-forward test `ff` in the place of git's in_merge_bases. *)
Theorem update_refs_is_git_rules :
  forall rp specs its ms m sp l i ff,
    rid (mp_remote m) = Some i -> rsymtarget (mp_remote m) = None -> exists_obj rp i = true ->
    rget (r_refs rp) (mp_local m) = Some (TObj l) ->
    nth_error specs (mp_spec m) = Some sp ->
    is_fast_forward rp l i = Ok (ff, false) ->
    exists st, one_mapping rp specs its ms (mkU [] [] []) m = Ok st /\
      gix_value l st =
      TObj (git_value l i (git_update_local_ref l i (mp_local m) (sp_force sp)
                             (bmem (mp_local m) (r_checked_out rp)) true ff)).
Proof. exact one_mapping_value. Qed.

(* … and the reported Mode is the row of that table *)
Theorem update_mode_is_git_row :
  forall rp specs its ms m sp l i ff,
    rid (mp_remote m) = Some i -> exists_obj rp i = true ->
    rget (r_refs rp) (mp_local m) = Some (TObj l) ->
    nth_error specs (mp_spec m) = Some sp ->
    is_fast_forward rp l i = Ok (ff, false) ->
    exists st u, one_mapping rp specs its ms (mkU [] [] []) m = Ok st /\ us_updates st = [u] /\
      u_mode u = (if bmem (mp_local m) (r_checked_out rp) then RejectedCurrentlyCheckedOut else
                  match git_update_local_ref l i (mp_local m) (sp_force sp)
                          (bmem (mp_local m) (r_checked_out rp)) true ff with
                  | GUpToDate => NoChangeNeeded | GRejectCheckedOut => RejectedCurrentlyCheckedOut
                  | GUpdateTag => Forced | GRejectTag => RejectedTagUpdate | GStore => Forced
                  | GFastForward => FastForward | GForced => Forced | GRejectNonFF => RejectedNonFastForward
                  end).
Proof. exact one_mapping_mode. Qed.

(* gix's fast-forward test is sound: it says "fast-forward" only if the old commit is an ancestor of the new one
   among the commits present locally (git's in_merge_bases) — for every object graph, including clock skew,
   missing parents (shallow) and cycles of ids. *)
Theorem fast_forward_sound :
  forall rp l r fo, is_fast_forward rp l r = Ok (true, fo) -> is_ancestor rp l r.
Proof. exact ProofsUpdate.fast_forward_sound. Qed.

(* It is NOT complete: with a commit on the way that is older than the local tip, a genuine fast-forward is
   refused (class ff-rejected-clock-skew). Witness: 0 (time 5) <- 1 (time 2) <- 2 (time 9). *)
Definition skew_repo : repo :=
  mkRepo [OCommit 5 []; OCommit 2 [0]; OCommit 9 [1]] [0; 1; 2] [(bs "refs/remotes/o/main", TObj 0)] [].
Theorem fast_forward_complete_refuted :
  exists rp l r, is_ancestor rp l r /\ is_fast_forward rp l r = Ok (false, false).
Proof.
  exists skew_repo, 0, 2. split; [| vm_compute; reflexivity].
  unfold is_ancestor. eapply reach_step; [eapply reach_step; [apply reach_refl|] |].
  - exists 9%Z, [1]. split; [vm_compute; reflexivity | now left].
  - exists 2%Z, [0]. split; [vm_compute; reflexivity | now left].
Qed.

(* a destination that does not exist is created with exactly the remote's value *)
Theorem new_ref_gets_remote_value :
  forall rp specs its ms m i,
    rid (mp_remote m) = Some i -> rsymtarget (mp_remote m) = None -> exists_obj rp i = true ->
    rget (r_refs rp) (mp_local m) = None ->
    one_mapping rp specs its ms (mkU [] [] []) m =
      Ok (mkU [mkEdit (mp_local m) (ExistingMustMatch (TObj i)) (TObj i) false] [mkUpd New 0 (Some 0%nat)] []).
Proof. exact one_mapping_new. Qed.

(* a ref is never pointed at an object that did not arrive *)
Theorem missing_object_is_never_referenced :
  forall rp specs its ms st m i,
    rid (mp_remote m) = Some i -> exists_obj rp i = false ->
    exists st', one_mapping rp specs its ms st m = Ok st' /\ us_edits st' = us_edits st.
Proof. exact one_mapping_missing_object. Qed.

(* any rejection (any kind of mapping, symbolic and unborn remotes included) adds no edit *)
Theorem rejected_update_makes_no_edit :
  forall rp specs its ms st m st' u rest,
    one_mapping rp specs its ms st m = Ok st' -> us_updates st' = u :: rest -> rejected (u_mode u) = true ->
    us_edits st' = us_edits st /\ u_edit u = None.
Proof. exact one_mapping_rejected_no_edit. Qed.

(* the transaction's effect on the store: the edited name reads the new value, every other name is untouched *)
Theorem edit_sets_exactly_one_ref :
  forall r n t, rget (rset r n t) n = Some t /\ forall k, bytes_eqb k n = false -> rget (rset r n t) k = rget r k.
Proof. intros r n t. split; [apply rget_rset_same | intros k; apply rget_rset_other]. Qed.

(* `<p>*:<q>*` maps the names p ++ rest, and only those, to q ++ rest (git's match_name_with_pattern) *)
Theorem glob_refspec_maps_prefix :
  forall f p q name,
    spec_match (mkSpec f (p ++ [star]) (q ++ [star])) name =
    match strip_prefix p name with Some rest => Some (q ++ rest) | None => None end.
Proof. exact glob_spec_matches. Qed.

(* ---- negotiation ------------------------------------------------------------------------------------------ *)
(* For both algorithms, any object graph (missing parents, tags and blobs as tips, clock skew) and any sequence
   of known_common / add_tip / next_have / in_common_with_remote calls: every `have` is a commit of the local odb. *)
Theorem negotiation_haves_sound :
  forall a o ops outs s',
    nrun a o nst0 ops [] [] = Ok (outs, s') ->
    forall i, In (OHave (Some i)) outs -> is_local_commit o i.
Proof. intros a o ops outs s' H. eapply nrun_haves_local; [| exact H]. intros i []. Qed.

(* objects that are not available are ignored by the queueing step of both algorithms … *)
Theorem missing_tip_is_ignored :
  forall o s i mark, gget (n_g s) i = None -> find_commit o i = None ->
    c_add_to_queue o s i mark = mkN (n_revs s) (n_ncr s) (n_g s) /\
    s_add_to_queue o s i mark = mkN (n_revs s) (n_ncr s) (n_g s).
Proof. intros. split; [now apply c_add_to_queue_missing | now apply s_add_to_queue_missing]. Qed.

(* … and, after the fix, by the skipping algorithm's parent step (before: a panic at the shallow boundary) *)
Theorem skipping_survives_shallow_boundary :
  forall o s entry p, gget (n_g s) p = None -> find_commit o p = None ->
    s_push_parent o s entry p = Ok (false, mkN (n_revs s) (n_ncr s) (n_g s)).
Proof. exact s_push_parent_missing. Qed.

(* the `have` window grows like git's next_flush *)
Theorem window_size_is_git :
  forall st c, window_size st None = 16 /\ window_size st (Some c) = git_next_flush st c.
Proof. intros. split; [reflexivity | apply window_size_is_next_flush]. Qed.

(* ---- non-vacuity ------------------------------------------------------------------------------------------ *)
Definition ex_repo : repo :=
  mkRepo [OCommit 1 []; OCommit 2 [0]; OCommit 3 [1]; OCommit 3 [0]] [0; 1; 2; 3]
         [(bs "refs/remotes/o/main", TObj 1); (bs "refs/remotes/o/side", TObj 3)] [].
Definition ex_specs := [mkSpec false (bs "refs/heads/*") (bs "refs/remotes/o/*")].
Example ex_fast_forward :
  fetch_refs ex_repo ex_specs None [RDirect (bs "refs/heads/main") 2] =
  Ok ([mkMap (RDirect (bs "refs/heads/main") 2) (bs "refs/remotes/o/main") 0],
      [mkEdit (bs "refs/remotes/o/main") (MustExistAndMatch (TObj 1)) (TObj 2) false],
      [mkUpd FastForward 0 (Some 0%nat)]).
Proof. vm_compute. reflexivity. Qed.
Example ex_rejected :
  fetch_refs ex_repo ex_specs None [RDirect (bs "refs/heads/side") 2] =
  Ok ([mkMap (RDirect (bs "refs/heads/side") 2) (bs "refs/remotes/o/side") 0], [],
      [mkUpd RejectedNonFastForward 0 None]).
Proof. vm_compute. reflexivity. Qed.
Example ex_ff_hypothesis : is_fast_forward ex_repo 1 2 = Ok (true, false).
Proof. vm_compute. reflexivity. Qed.
Example ex_negotiation :
  exists s, nrun Consecutive (r_odb ex_repo) nst0 [AddTip 2; NextHave; NextHave; AckRecent 0; NextHave] [] [] =
            Ok ([OUnit; OHave (Some 2); OHave (Some 1); OKnown false; OHave None], s).
Proof. eexists. vm_compute. reflexivity. Qed.
Example ex_shallow_boundary :
  exists s, nrun Skipping [OCommit 3 [7]] nst0 [AddTip 0; NextHave; NextHave] [] [] =
            Ok ([OUnit; OHave (Some 0); OHave None], s).
Proof. eexists. vm_compute. reflexivity. Qed.
