(* C31 — negotiation: every `have` names a local commit; objects that are not available are ignored. *)
From Coq Require Import List Lia ZArith.
From GixV.Base Require Import Bytes Outcome.
From GixV.C31 Require Import Model.
Import ListNotations.
Local Open Scope N_scope.

Definition is_local_commit (o : odb) (i : id) : Prop := exists t ps, find_commit o i = Some (t, ps).

Lemma c_next_have_local fuel : forall o s i s',
  c_next_have fuel o s = Ok (Some i, s') -> is_local_commit o i.
Proof.
  induction fuel as [|f IH]; intros o s i s' H; cbn [c_next_have] in H; [discriminate|].
  destruct (qpop (n_revs s)) as [[[k j] revs']|]; [| discriminate].
  cbn [n_ncr n_g n_revs] in H.
  destruct (N.eqb (n_ncr s) 0); [discriminate|].
  destruct (gget (n_g s) j) as [m|]; [| discriminate].
  destruct (find_commit o j) as [[t ps]|] eqn:Hc; [| discriminate].
  match type of H with (obind ?x _ = _) => destruct x as [s2| | |]; try discriminate end.
  cbn [obind] in H.
  destruct (has (N.lor (m_flags m) POPPED) COMMON).
  - match type of H with (obind ?x _ = _) => destruct x as [s3| | |]; try discriminate end.
    cbn [obind] in H. eapply IH; exact H.
  - destruct (has (N.lor (m_flags m) POPPED) COMMON_REF);
      (match type of H with (obind ?x _ = _) => destruct x as [s3| | |]; try discriminate end);
      cbn [obind] in H; inversion H; subst; exists t, ps; exact Hc.
Qed.

Lemma s_next_have_local fuel : forall o s i s',
  s_next_have fuel o s = Ok (Some i, s') -> is_local_commit o i.
Proof.
  induction fuel as [|f IH]; intros o s i s' H; cbn [s_next_have] in H; [discriminate|].
  destruct (qpop (n_revs s)) as [[[k j] revs']|]; [| discriminate].
  cbn [n_ncr n_g n_revs] in H.
  destruct (N.eqb (n_ncr s) 0); [discriminate|].
  destruct (gget (n_g s) j) as [m|]; [| discriminate].
  destruct (find_commit o j) as [[t ps]|] eqn:Hc; [| discriminate].
  match type of H with (obind ?x _ = _) => destruct x as [s2| | |]; try discriminate end.
  cbn [obind] in H.
  match type of H with (obind ?x _ = _) => destruct x as [[pushed s3]| | |]; try discriminate end.
  cbn [obind] in H.
  match type of H with ((if ?c then _ else _) = _) => destruct c end.
  - inversion H; subst. exists t, ps; exact Hc.
  - eapply IH; exact H.
Qed.

(* whatever the sequence of calls: a `have` is a commit of the local object database *)
Lemma nstep_have_local a o s i s' : nstep a o s NextHave = Ok (OHave (Some i), s') -> is_local_commit o i.
Proof.
  destruct a; cbn [nstep]; intros H.
  - destruct (c_next_have (have_fuel o s) o s) as [[h s2]| | |] eqn:E; cbn [obind] in H; try discriminate.
    inversion H; subst. eapply c_next_have_local; exact E.
  - destruct (s_next_have (have_fuel o s) o s) as [[h s2]| | |] eqn:E; cbn [obind] in H; try discriminate.
    inversion H; subst. eapply s_next_have_local; exact E.
Qed.

Lemma nstep_have_shape a o s op out s' i :
  nstep a o s op = Ok (out, s') -> out = OHave (Some i) -> op = NextHave.
Proof.
  intros H ->. destruct a, op; cbn [nstep] in H; try reflexivity;
    repeat match type of H with
    | (obind ?x _ = _) => destruct x as [[? ?]| | |] eqn:?; cbn [obind] in H; try discriminate
    | (obind ?x _ = _) => destruct x as [?| | |] eqn:?; cbn [obind] in H; try discriminate
    end; try discriminate.
Qed.

Lemma nrun_haves_local a o : forall ops s sent acc outs s',
  (forall i, In (OHave (Some i)) acc -> is_local_commit o i) ->
  nrun a o s ops sent acc = Ok (outs, s') ->
  forall i, In (OHave (Some i)) outs -> is_local_commit o i.
Proof.
  induction ops as [|op r IH]; intros s sent acc outs s' Hacc H i Hi; cbn [nrun] in H.
  - inversion H; subst. apply Hacc. now apply in_rev.
  - match type of H with (obind ?x _ = _) => destruct x as [[out s1]| | |] eqn:E; cbn [obind] in H; try discriminate end.
    eapply IH; [| exact H | exact Hi].
    intros j [Hj | Hj]; [| now apply Hacc].
    subst out.
    assert (Hop := nstep_have_shape _ _ _ _ _ _ _ E eq_refl).
    destruct op; try discriminate.
    + (* the op as given is NextHave *) eapply nstep_have_local. exact E.
    + (* AckRecent resolves to InCommon or stays: never a have *)
      destruct (nth_error sent (N.to_nat k)); discriminate.
Qed.

(* ---- objects that are not available locally are ignored (shallow boundary, missing tips) ---- *)
Lemma get_or_insert_missing o g i upd : gget g i = None -> find_commit o i = None -> get_or_insert o g i upd = (None, g).
Proof. intros Hg Hf. unfold get_or_insert. now rewrite Hg, Hf. Qed.

Lemma c_add_to_queue_missing o s i mark :
  gget (n_g s) i = None -> find_commit o i = None ->
  c_add_to_queue o s i mark = mkN (n_revs s) (n_ncr s) (n_g s).
Proof. intros Hg Hf. unfold c_add_to_queue. now rewrite (get_or_insert_missing _ _ _ _ Hg Hf). Qed.

Lemma s_add_to_queue_missing o s i mark :
  gget (n_g s) i = None -> find_commit o i = None ->
  s_add_to_queue o s i mark = mkN (n_revs s) (n_ncr s) (n_g s).
Proof. intros Hg Hf. unfold s_add_to_queue. now rewrite (get_or_insert_missing _ _ _ _ Hg Hf). Qed.

(* the repaired behaviour: a parent beyond the shallow boundary is "not pushed" and nothing changes — before the
   fix this call was a panic for every entry that is neither COMMON nor ADVERTISED *)
Lemma s_push_parent_missing o s entry p :
  gget (n_g s) p = None -> find_commit o p = None ->
  s_push_parent o s entry p = Ok (false, mkN (n_revs s) (n_ncr s) (n_g s)).
Proof.
  intros Hg Hf. unfold s_push_parent. rewrite Hg.
  rewrite (s_add_to_queue_missing _ _ _ _ Hg Hf). cbn [n_g]. now rewrite Hg.
Qed.

(* lib.rs window_size = git fetch-pack.c next_flush *)
Definition git_next_flush (stateless : bool) (count : N) : N :=
  if stateless then (if N.ltb count 16384 then N.shiftl count 1 else count * 11 / 10)
  else if N.ltb count 32 then N.shiftl count 1 else count + 32.
Lemma window_size_is_next_flush st c : window_size st (Some c) = git_next_flush st c.
Proof. unfold window_size, git_next_flush. rewrite N.shiftl_mul_pow2. change (2 ^ 1) with 2. reflexivity. Qed.
