(* C31 — specification side: git 2.39 builtin/fetch.c `update_local_ref` as a decision table, ancestry in the
   local object database, and what "the value git fetch would set" means for one destination. *)
From GixV.Base Require Import Bytes Outcome.
From GixV.C31 Require Import Model.
Local Open Scope N_scope.

(* parent relation among the commits that are present locally *)
Definition parent_of (rp : repo) (c p : id) : Prop :=
  exists t ps, lcommit rp c = Some (t, ps) /\ In p ps.
Inductive reach (rp : repo) : id -> id -> Prop :=
| reach_refl : forall a, reach rp a a
| reach_step : forall a b c, reach rp a b -> parent_of rp b c -> reach rp a c.
(* `old` is an ancestor of (or equal to) `new`: what git's in_merge_bases(old, new) decides *)
Definition is_ancestor (rp : repo) (old new : id) : Prop := reach rp new old.

(* builtin/fetch.c update_local_ref for a destination that exists (old is not the null id) and whose new object
   is present; `both_commits`: old and new peel to commits (lookup_commit_reference_gently). *)
Inductive git_verdict :=
| GUpToDate | GRejectCheckedOut | GUpdateTag | GRejectTag | GStore | GFastForward | GForced | GRejectNonFF.
Definition git_update_local_ref (old new : id) (name : bytes) (force checked_out both_commits in_merge_bases : bool)
  : git_verdict :=
  if N.eqb old new then GUpToDate
  else if checked_out then GRejectCheckedOut
  else if is_tag_name name then (if force then GUpdateTag else GRejectTag)
  else if negb both_commits then GStore
  else if in_merge_bases then GFastForward
  else if force then GForced
  else GRejectNonFF.
(* the value of the destination after git fetch *)
Definition git_value (old new : id) (v : git_verdict) : id :=
  match v with
  | GUpToDate | GRejectCheckedOut | GRejectTag | GRejectNonFF => old
  | GUpdateTag | GStore | GFastForward | GForced => new
  end.

(* the value of the destination after gix's update: the edit's new value if there is an edit, else the old one *)
Definition gix_value (old : id) (st : ustate) : target :=
  match us_edits st with
  | e :: _ => e_new e
  | [] => TObj old
  end.
