(* C31 — the ref-update rules: update() against git's update_local_ref; soundness of the fast-forward test. *)
From Coq Require Import List Lia ZArith.
From GixV.Base Require Import Bytes BytesFacts Outcome.
From GixV.C31 Require Import Model Spec.
Import ListNotations.
Local Open Scope N_scope.

(* ---------------- fast-forward walk ---------------- *)
Lemma ff_fresh_sub rp c ps : forall seen acc seen' add,
  ff_fresh rp c ps seen acc = (seen', add) -> forall x, In x add -> In x acc \/ In x ps.
Proof.
  induction ps as [|p r IH]; intros seen acc seen' add H x Hx; cbn [ff_fresh] in H.
  - inversion H; subst. now left.
  - destruct (mem p seen).
    + destruct (IH _ _ _ _ H x Hx); [now left | right; now right].
    + destruct (IH _ _ _ _ H x Hx) as [Ha | Hr]; [| right; now right].
      destruct (Z.leb c (ptime rp p)); [| now left].
      apply in_app_or in Ha. destruct Ha as [Ha | [-> | []]]; [now left | right; now left].
Qed.

Lemma ff_walk_sound fuel : forall rp cutoff want root queue seen,
  (forall q, In q queue -> reach rp root q) ->
  ff_walk fuel rp cutoff want queue seen = Ok true -> reach rp root want.
Proof.
  induction fuel as [|f IH]; intros rp cutoff want root queue seen Hq H; cbn [ff_walk] in H; [discriminate|].
  destruct queue as [|i q]; [discriminate|].
  destruct (lcommit rp i) as [[t ps]|] eqn:Hc.
  - destruct (N.eqb i want) eqn:He.
    + apply N.eqb_eq in He. subst. apply Hq. now left.
    + destruct (ff_fresh rp cutoff ps seen []) as [seen' add] eqn:Hf.
      eapply IH; [| exact H].
      intros x Hx. apply in_app_or in Hx. destruct Hx as [Hx | Hx].
      * apply Hq. now right.
      * destruct (ff_fresh_sub _ _ _ _ _ _ _ Hf x Hx) as [[] | Hp].
        eapply reach_step; [apply Hq; now left |]. exists t, ps. split; assumption.
  - eapply IH; [| exact H]. intros x Hx. apply Hq. now right.
Qed.

(* gix never calls an update a fast-forward unless the old commit is an ancestor of the new one *)
Lemma fast_forward_sound rp l r fo : is_fast_forward rp l r = Ok (true, fo) -> is_ancestor rp l r.
Proof.
  unfold is_fast_forward, is_ancestor. intros H.
  destruct (lfind rp l) as [[lt lps| |]|]; try discriminate.
  - destruct (lcommit rp r) as [[rt rps]|]; [| discriminate].
    destruct (Z.leb lt rt).
    + destruct (ff_walk (ff_fuel rp) rp lt l [r] [r]) as [b| | |] eqn:Hw; cbn in H; try discriminate.
      destruct b; [| discriminate].
      eapply ff_walk_sound; [| exact Hw]. intros q [<- | []]. constructor.
    + cbn in H. discriminate.
Qed.

(* ---------------- one existing direct destination ---------------- *)
Lemma new_value_direct rp remote ms i : rsymtarget remote = None -> rid remote = Some i -> new_value rp remote ms = TObj i.
Proof. intros Hs Hi. unfold new_value. now rewrite Hs, Hi. Qed.

Lemma is_tag_name_spec n : is_tag_name n = true <-> exists r, n = bs "refs/tags/" ++ r.
Proof.
  unfold is_tag_name. split.
  - destruct (strip_prefix (bs "refs/tags/") n) as [r|] eqn:H; [| discriminate]. intros _. exists r.
    revert H. generalize (bs "refs/tags/"). intros p. revert n. induction p as [|a p IH]; intros n H;
      cbn [strip_prefix app] in *.
    + now inversion H.
    + destruct n as [|b n]; [discriminate|]. destruct (beqb a b) eqn:E; [| discriminate].
      apply beqb_eq in E. subst. f_equal. now apply IH.
  - intros [r ->]. generalize (bs "refs/tags/"). intros p. induction p as [|a p IH]; cbn [strip_prefix app]; [reflexivity|].
    rewrite (proj2 (beqb_eq a a) eq_refl). exact IH.
Qed.

Section OneMapping.
  Variables (rp : repo) (specs : list spec) (its : option nat) (ms : list mapping) (m : mapping) (sp : spec).
  Variables (l i : id) (ff : bool).
  Hypothesis Hrid : rid (mp_remote m) = Some i.
  Hypothesis Hnosym : rsymtarget (mp_remote m) = None.
  Hypothesis Hexists : exists_obj rp i = true.
  Hypothesis Hlocal : rget (r_refs rp) (mp_local m) = Some (TObj l).
  Hypothesis Hspec : nth_error specs (mp_spec m) = Some sp.
  Hypothesis Hff : is_fast_forward rp l i = Ok (ff, false).

  Let name := mp_local m.
  Let co := bmem name (r_checked_out rp).
  Let verdict := git_update_local_ref l i name (sp_force sp) co true ff.

  (* the value the destination has after gix's update is the value git fetch would set, where git's
     in_merge_bases is replaced by gix's own fast-forward test `ff` *)
  Lemma one_mapping_value :
    exists st, one_mapping rp specs its ms (mkU [] [] []) m = Ok st /\ gix_value l st = TObj (git_value l i verdict).
  Proof.
    unfold one_mapping. rewrite Hrid, Hexists. cbn [negb]. rewrite Hlocal, Hspec.
    subst verdict co name. unfold git_update_local_ref.
    destruct (bmem (mp_local m) (r_checked_out rp)) eqn:Hco.
    - eexists; split; [reflexivity|]. cbn. destruct (N.eqb l i) eqn:E; [apply N.eqb_eq in E; now subst | reflexivity].
    - cbn [peel]. destruct (N.eqb l i) eqn:E.
      + cbn. rewrite (new_value_direct _ _ _ _ Hnosym Hrid). eexists; split; [reflexivity|]. cbn.
        apply N.eqb_eq in E. now subst.
      + destruct (is_tag_name (mp_local m)) eqn:Ht.
        * destruct (sp_force sp); cbn.
          -- rewrite (new_value_direct _ _ _ _ Hnosym Hrid). eexists; split; reflexivity.
          -- eexists; split; reflexivity.
        * rewrite Hff. cbn. destruct ff; cbn.
          -- rewrite (new_value_direct _ _ _ _ Hnosym Hrid). eexists; split; reflexivity.
          -- rewrite Bool.orb_false_r. destruct (sp_force sp); cbn.
             ++ rewrite (new_value_direct _ _ _ _ Hnosym Hrid). eexists; split; reflexivity.
             ++ eexists; split; reflexivity.
  Qed.

  (* and the reported mode names the same row of git's table *)
  Lemma one_mapping_mode :
    exists st u, one_mapping rp specs its ms (mkU [] [] []) m = Ok st /\ us_updates st = [u] /\
      u_mode u = (if co then RejectedCurrentlyCheckedOut else
                  match verdict with
                  | GUpToDate => NoChangeNeeded | GRejectCheckedOut => RejectedCurrentlyCheckedOut
                  | GUpdateTag => Forced | GRejectTag => RejectedTagUpdate | GStore => Forced
                  | GFastForward => FastForward | GForced => Forced | GRejectNonFF => RejectedNonFastForward
                  end).
  Proof.
    unfold one_mapping. rewrite Hrid, Hexists. cbn [negb]. rewrite Hlocal, Hspec.
    subst verdict co name. unfold git_update_local_ref.
    destruct (bmem (mp_local m) (r_checked_out rp)) eqn:Hco.
    - do 2 eexists; split; [reflexivity|]. split; reflexivity.
    - cbn [peel]. destruct (N.eqb l i) eqn:E.
      + cbn. do 2 eexists; split; [reflexivity|]. split; reflexivity.
      + destruct (is_tag_name (mp_local m)) eqn:Ht.
        * destruct (sp_force sp); cbn; do 2 eexists; (split; [reflexivity|]); split; reflexivity.
        * rewrite Hff. cbn. destruct ff; cbn.
          -- do 2 eexists; split; [reflexivity|]. split; reflexivity.
          -- rewrite Bool.orb_false_r. destruct (sp_force sp); cbn;
               do 2 eexists; (split; [reflexivity|]); split; reflexivity.
  Qed.
End OneMapping.

(* a destination that does not exist yet is created with the remote's value *)
Lemma one_mapping_new rp specs its ms m i :
  rid (mp_remote m) = Some i -> rsymtarget (mp_remote m) = None -> exists_obj rp i = true ->
  rget (r_refs rp) (mp_local m) = None ->
  one_mapping rp specs its ms (mkU [] [] []) m =
    Ok (mkU [mkEdit (mp_local m) (ExistingMustMatch (TObj i)) (TObj i) false] [mkUpd New 0 (Some 0%nat)] []).
Proof.
  intros Hrid Hs He Hl. unfold one_mapping. rewrite Hrid, He. cbn [negb]. rewrite Hl.
  rewrite (new_value_direct _ _ _ _ Hs Hrid). reflexivity.
Qed.

(* an object that did not arrive is never written into a ref *)
Lemma one_mapping_missing_object rp specs its ms st m i :
  rid (mp_remote m) = Some i -> exists_obj rp i = false ->
  exists st', one_mapping rp specs its ms st m = Ok st' /\ us_edits st' = us_edits st.
Proof.
  intros Hrid He. unfold one_mapping. rewrite Hrid, He. cbn [negb].
  eexists; split; reflexivity.
Qed.

(* a rejected update makes no edit: the destination keeps its value *)
Definition rejected (md : mode) : bool :=
  match md with
  | RejectedSourceObjectNotFound | RejectedTagUpdate | RejectedNonFastForward
  | RejectedCurrentlyCheckedOut | ImplicitTagNotSentByRemote => true
  | _ => false
  end.
Ltac atomic x :=
  lazymatch x with
  | context [if _ then _ else _] => fail
  | context [match ?y with _ => _ end] => fail
  | _ => idtac
  end.
Lemma one_mapping_rejected_no_edit rp specs its ms st m st' u rest :
  one_mapping rp specs its ms st m = Ok st' -> us_updates st' = u :: rest -> rejected (u_mode u) = true ->
  us_edits st' = us_edits st /\ u_edit u = None.
Proof.
  unfold one_mapping. intros H Hu Hr. unfold push_update in H.
  repeat (first
    [ progress cbn [obind] in H
    | match type of H with
      | context [if ?x then _ else _] => atomic x; destruct x eqn:?; try discriminate
      | context [match ?x with _ => _ end] => atomic x; destruct x eqn:?; try discriminate
      | context [obind (is_fast_forward ?a ?b ?c) _] => destruct (is_fast_forward a b c) as [[? ?]| | |] eqn:?; try discriminate
      end ]).
  all: try discriminate.
  all: apply Ok_inj in H; subst st'; cbn in Hu; inversion Hu; subst; cbn in Hr; try discriminate; split; reflexivity.
Qed.

(* ---------------- the reference store ---------------- *)
Lemma bytes_eqb_refl a : bytes_eqb a a = true.
Proof. now apply bytes_eqb_eq. Qed.
Lemma rget_rset_same r n t : rget (rset r n t) n = Some t.
Proof.
  induction r as [|[k v] r IH]; cbn; [now rewrite bytes_eqb_refl|].
  destruct (bytes_eqb n k) eqn:E; cbn; rewrite E; [reflexivity | exact IH].
Qed.
Lemma rget_rset_other r n t k : bytes_eqb k n = false -> rget (rset r n t) k = rget r k.
Proof.
  intros Hk. induction r as [|[k' v] r IH]; cbn; [now rewrite Hk|].
  destruct (bytes_eqb n k') eqn:E; cbn.
  - apply bytes_eqb_eq in E. subst. now rewrite Hk.
  - destruct (bytes_eqb k k'); [reflexivity | exact IH].
Qed.

(* ---------------- refspec matching of the modelled family ---------------- *)
Lemma strip_prefix_app p : forall rest, strip_prefix p (p ++ rest) = Some rest.
Proof. induction p as [|a p IH]; intros rest; cbn [strip_prefix app]; [reflexivity|]. rewrite (proj2 (beqb_eq a a) eq_refl). apply IH. Qed.
Lemma strip_prefix_inv p : forall s rest, strip_prefix p s = Some rest -> s = p ++ rest.
Proof.
  induction p as [|a p IH]; intros s rest H; cbn [strip_prefix] in H; [now inversion H|].
  destruct s as [|b s]; [discriminate|]. destruct (beqb a b) eqn:E; [| discriminate].
  apply beqb_eq in E. subst. cbn [app]. f_equal. now apply IH.
Qed.
Lemma glob_prefix_app p : glob_prefix (p ++ [star]) = Some p.
Proof. unfold glob_prefix. rewrite rev_app_distr. cbn [rev app]. rewrite (proj2 (beqb_eq star star) eq_refl). now rewrite rev_involutive. Qed.

(* `<p>*:<q>*` maps exactly the names p ++ rest, to q ++ rest — git's match_name_with_pattern for a trailing star *)
Lemma glob_spec_matches f p q name :
  spec_match (mkSpec f (p ++ [star]) (q ++ [star])) name =
  match strip_prefix p name with Some rest => Some (q ++ rest) | None => None end.
Proof. unfold spec_match. cbn [sp_src sp_dst]. now rewrite !glob_prefix_app. Qed.
