(* C31 — executable model of the decision logic of a fetch (as the code IS):
     gix-negotiate/src/consecutive.rs   add_to_queue, mark_common, known_common, add_tip, next_have,
                                        in_common_with_remote
     gix-negotiate/src/skipping.rs      add_to_queue, mark_common, push_parent, known_common, add_tip, next_have,
                                        in_common_with_remote (incl. the assert! and the u16 ttl arithmetic)
     gix-negotiate/src/lib.rs           window_size
     gix-revwalk/src/queue.rs           PriorityQueue = std BinaryHeap ordered by the key only
     gix-revwalk/src/graph/mod.rs       Graph::get_or_insert_commit (an id that is absent or no commit: None, nothing stored)
     gix/src/remote/connection/fetch/update_refs/mod.rs   update, new_value_by_remote,
                                        update_needs_adjustment_as_edits_symbolic_target_is_missing
     gix-traverse/src/commit/simple.rs  the ByCommitTimeCutoff walk as used by the fast-forward test
     gix/src/remote/connection/ref_map.rs + gix-refspec match_group for the refspec family
                                        `[+]<full name>:<full name>` and `[+]<prefix>*:<prefix>*`
   The object database is one list of objects; the id of an object is its position.  No proofs here. *)
From GixV.Base Require Import Bytes Outcome.
Local Open Scope N_scope.

Definition id := N.
Inductive obj :=
| OCommit (time : Z) (parents : list id)
| OTag (target : id)
| OBlob.
Definition odb := list obj.
Definition find (o : odb) (i : id) : option obj := nth_error o (N.to_nat i).
Definition find_commit (o : odb) (i : id) : option (Z * list id) :=
  match find o i with Some (OCommit t ps) => Some (t, ps) | _ => None end.

Fixpoint mem (x : id) (l : list id) : bool :=
  match l with [] => false | y :: r => if N.eqb x y then true else mem x r end.

Notation res A := (outcome A unit).
Local Open Scope outcome_scope.

(* ---- std::collections::BinaryHeap<Item<K, V>>, Item ordered by key only (library/alloc binary_heap:
   push = sift_up(0, old_len); pop = swap last to 0, sift_down_to_bottom(0), sift_up) ---------------- *)
Section Heap.
  Context {K V : Type}.
  Variable le : K -> K -> bool.
  Definition heap := list (K * V).

  Fixpoint set_nth (l : heap) (n : nat) (x : K * V) : heap :=
    match l, n with
    | [], _ => []
    | _ :: t, O => x :: t
    | h :: t, S n' => h :: set_nth t n' x
    end.
  Definition swap (l : heap) (i j : nat) : heap :=
    match nth_error l i, nth_error l j with
    | Some a, Some b => set_nth (set_nth l i b) j a
    | _, _ => l
    end.
  Definition key_le_at (l : heap) (i j : nat) : bool :=
    match nth_error l i, nth_error l j with
    | Some a, Some b => le (fst a) (fst b)
    | _, _ => true
    end.

  Fixpoint sift_up (fuel : nat) (l : heap) (pos : nat) : heap :=
    match fuel with
    | O => l
    | S fuel' =>
        match pos with
        | O => l
        | S _ =>
            let parent := Nat.div (pos - 1) 2 in
            if key_le_at l pos parent then l
            else sift_up fuel' (swap l pos parent) parent
        end
    end.

  Definition heap_push (l : heap) (x : K * V) : heap :=
    let l' := l ++ [x] in sift_up (length l') l' (length l).

  Fixpoint sift_down_to_bottom (fuel : nat) (l : heap) (pos : nat) (en : nat) : heap * nat :=
    match fuel with
    | O => (l, pos)
    | S fuel' =>
        let child := (2 * pos + 1)%nat in
        if Nat.leb child (en - 2) && Nat.leb 2 en then
          let child' := if key_le_at l child (child + 1) then (child + 1)%nat else child in
          sift_down_to_bottom fuel' (swap l pos child') child' en
        else if Nat.eqb child (en - 1) && Nat.leb 1 en then (swap l pos child, child)
        else (l, pos)
    end.

  Definition heap_pop (l : heap) : option ((K * V) * heap) :=
    match rev l with
    | [] => None
    | last :: _ =>
        match removelast l with
        | [] => Some (last, [])
        | top :: rest =>
            let l1 := last :: rest in
            let '(l2, pos) := sift_down_to_bottom (length l1) l1 0 (length l1) in
            Some (top, sift_up (length l2) l2 pos)
        end
    end.
  Definition heap_peek (l : heap) : option (K * V) := hd_error l.
End Heap.

(* ================================ gix-negotiate ======================================== *)
(* Flags (lib.rs bitflags) as bit positions *)
Definition COMPLETE := 1.   Definition ALTERNATE := 2.  Definition COMMON := 4.  Definition SEEN := 8.
Definition POPPED := 16.    Definition COMMON_REF := 32. Definition ADVERTISED := 64.
Definition has (f m : N) : bool := negb (N.eqb (N.land f m) 0).      (* intersects / contains for one bit *)

Record meta := mkM { m_flags : N; m_ottl : N; m_ttl : N }.
Definition meta0 := mkM 0 0 0.
Definition with_flags (m : meta) (f : N) := mkM f (m_ottl m) (m_ttl m).
Definition add_flags (f : N) (m : meta) := with_flags m (N.lor (m_flags m) f).

(* Graph::map, only the per-commit data; parents and commit time are read from the odb *)
Definition gmap := list (id * meta).
Fixpoint gget (g : gmap) (i : id) : option meta :=
  match g with [] => None | (j, m) :: r => if N.eqb i j then Some m else gget r i end.
Fixpoint gset (g : gmap) (i : id) (m : meta) : gmap :=
  match g with
  | [] => [(i, m)]
  | (j, m') :: r => if N.eqb i j then (j, m) :: r else (j, m') :: gset r i m
  end.
Definition gflags (g : gmap) (i : id) : option N := option_map m_flags (gget g i).
Definition gseen (g : gmap) (i : id) : bool :=
  match gflags g i with Some f => has f SEEN | None => false end.

(* Graph::get_or_insert_commit(id, update): Some (time, parents, data BEFORE update) and the new map; None when
   the id is not in the map and the odb has no commit of that name (then nothing is stored). *)
Definition get_or_insert (o : odb) (g : gmap) (i : id) (upd : meta -> meta)
  : option (Z * list id * meta) * gmap :=
  match gget g i with
  | Some m =>
      match find_commit o i with
      | Some (t, ps) => (Some (t, ps, m), gset g i (upd m))
      | None => (None, g)     (* cannot happen: entries are only made for commits *)
      end
  | None =>
      match find_commit o i with
      | Some (t, ps) => (Some (t, ps, meta0), gset g i (upd meta0))
      | None => (None, g)
      end
  end.

Definition qpush {V} := @heap_push Z V Z.leb.
Definition qpop {V} := @heap_pop Z V Z.leb.

Record nst := mkN { n_revs : @heap Z id; n_ncr : N; n_g : gmap }.
Definition nst0 := mkN [] 0 [].

(* `self.non_common_revs -= 1` on usize: debug-build overflow check *)
Definition dec_ncr (s : nst) : res nst :=
  if N.eqb (n_ncr s) 0 then Panic else Ok (mkN (n_revs s) (n_ncr s - 1) (n_g s)).

(* ---------------- consecutive.rs ---------------- *)
Definition c_add_to_queue (o : odb) (s : nst) (i : id) (mark : N) : nst :=
  match get_or_insert o (n_g s) i (add_flags mark) with
  | (Some (t, _, before), g') =>
      let has_mark := has (m_flags before) mark in
      let is_common := has (N.lor (m_flags before) mark) COMMON in
      if has_mark then mkN (n_revs s) (n_ncr s) g'
      else mkN (qpush (n_revs s) (t, i)) (if is_common then n_ncr s else n_ncr s + 1) g'
  | (None, g') => mkN (n_revs s) (n_ncr s) g'
  end.

(* the `for parent_id in commit.parents.clone()` loop of mark_common *)
Fixpoint c_mark_parents (o : odb) (s : nst) (q : @heap Z (id * N)) (gen : N) (ps : list id)
  : res (nst * @heap Z (id * N)) :=
  match ps with
  | [] => Ok (s, q)
  | p :: r =>
      match get_or_insert o (n_g s) p (add_flags COMMON) with
      | (Some (t, _, before), g') =>
          let s1 := mkN (n_revs s) (n_ncr s) g' in
          let prev := m_flags before in
          if has prev COMMON then c_mark_parents o s1 q gen r
          else
            s2 <- (if has prev SEEN && negb (has prev POPPED) then dec_ncr s1 else Ok s1) ;;
            c_mark_parents o s2 (qpush q (t, (p, gen + 1))) gen r
      | (None, g') => c_mark_parents o (mkN (n_revs s) (n_ncr s) g') q gen r
      end
  end.

Fixpoint c_mark_loop (fuel : nat) (o : odb) (all_unseen : bool) (s : nst) (q : @heap Z (id * N)) : res nst :=
  match fuel with
  | O => OutOfFuel
  | S fuel' =>
      match qpop q with
      | None => Ok s
      | Some ((_, (i, gen)), q') =>
          if negb (gseen (n_g s) i) then
            c_mark_loop fuel' o all_unseen (c_add_to_queue o s i SEEN) q'
          else if all_unseen || N.ltb gen 2 then
            match get_or_insert o (n_g s) i (fun m => m) with
            | (Some (_, ps, _), g') =>
                '(s1, q1) <- c_mark_parents o (mkN (n_revs s) (n_ncr s) g') q' gen ps ;;
                c_mark_loop fuel' o all_unseen s1 q1
            | (None, g') => c_mark_loop fuel' o all_unseen (mkN (n_revs s) (n_ncr s) g') q'
            end
          else c_mark_loop fuel' o all_unseen s q'
      end
  end.

Definition mark_fuel (o : odb) : nat := S (S (length o)).

(* mark_common(id, mode, ancestors): this_too = Mark::ThisCommitAndAncestors *)
Definition c_mark_common (o : odb) (s : nst) (i : id) (this_too all_unseen : bool) : res nst :=
  match get_or_insert o (n_g s) i (fun m => m) with
  | (Some (t, _, before), g') =>
      let s0 := mkN (n_revs s) (n_ncr s) g' in
      if has (m_flags before) COMMON then Ok s0
      else
        s1 <- (if this_too then
                 let s' := mkN (n_revs s0) (n_ncr s0) (gset g' i (add_flags COMMON before)) in
                 if has (m_flags before) SEEN && negb (has (m_flags before) POPPED) then dec_ncr s' else Ok s'
               else Ok s0) ;;
        c_mark_loop (mark_fuel o) o all_unseen s1 (qpush [] (t, (i, 0)))
  | (None, g') => Ok (mkN (n_revs s) (n_ncr s) g')
  end.

Definition c_known_common (o : odb) (s : nst) (i : id) : res nst :=
  if negb (gseen (n_g s) i) then
    c_mark_common o (c_add_to_queue o s i (N.lor COMMON_REF SEEN)) i false false
  else Ok s.

Definition c_add_tip (o : odb) (s : nst) (i : id) : res nst := Ok (c_add_to_queue o s i SEEN).

Fixpoint c_have_parents (o : odb) (s : nst) (mark : N) (ps : list id) : res nst :=
  match ps with
  | [] => Ok s
  | p :: r =>
      let s1 := if negb (gseen (n_g s) p) then c_add_to_queue o s p mark else s in
      s2 <- (if has mark COMMON then c_mark_common o s1 p false true else Ok s1) ;;
      c_have_parents o s2 mark r
  end.

Fixpoint c_next_have (fuel : nat) (o : odb) (s : nst) : res (option id * nst) :=
  match fuel with
  | O => OutOfFuel
  | S fuel' =>
      match qpop (n_revs s) with
      | None => Ok (None, s)
      | Some ((_, i), revs') =>
          let s := mkN revs' (n_ncr s) (n_g s) in
          if N.eqb (n_ncr s) 0 then Ok (None, s)
          else
            match gget (n_g s) i, find_commit o i with
            | Some m, Some (_, ps) =>
                let f := N.lor (m_flags m) POPPED in
                let s1 := mkN (n_revs s) (n_ncr s) (gset (n_g s) i (with_flags m f)) in
                s2 <- (if negb (has f COMMON) then dec_ncr s1 else Ok s1) ;;
                let '(r, mark) :=
                  if has f COMMON then (None, N.lor COMMON SEEN)
                  else if has f COMMON_REF then (Some i, N.lor COMMON SEEN)
                  else (Some i, SEEN) in
                s3 <- c_have_parents o s2 mark ps ;;
                match r with
                | Some i => Ok (Some i, s3)
                | None => c_next_have fuel' o s3
                end
            | _, _ => Panic      (* expect("it was added to the graph by now") *)
            end
      end
  end.

Definition have_fuel (o : odb) (s : nst) : nat := S (length o + length (n_revs s)).

Definition c_in_common (o : odb) (s : nst) (i : id) : res (bool * nst) :=
  let known := match gflags (n_g s) i with Some f => has f COMMON | None => false end in
  s' <- c_mark_common o s i true false ;;
  Ok (known, s').

(* ---------------- skipping.rs ---------------- *)
Definition s_add_to_queue (o : odb) (s : nst) (i : id) (mark : N) : nst :=
  match get_or_insert o (n_g s) i (add_flags (N.lor mark SEEN)) with
  | (Some (t, _, _), g') =>
      mkN (qpush (n_revs s) (t, i)) (if has mark COMMON then n_ncr s else n_ncr s + 1) g'
  | (None, g') => mkN (n_revs s) (n_ncr s) g'
  end.

Fixpoint s_mark_parents (o : odb) (s : nst) (q : @heap Z id) (ps : list id) : nst * @heap Z id :=
  match ps with
  | [] => (s, q)
  | p :: r =>
      match gget (n_g s) p with
      | None => s_mark_parents o s q r                         (* !graph.contains(&parent_id) *)
      | Some _ =>
          match get_or_insert o (n_g s) p (add_flags COMMON) with
          | (Some (t, _, before), g') =>
              let s1 := mkN (n_revs s) (n_ncr s) g' in
              let f := m_flags before in
              if negb (has f SEEN) || has f COMMON then s_mark_parents o s1 q r
              else s_mark_parents o s1 (qpush q (t, p)) r
          | (None, g') => s_mark_parents o (mkN (n_revs s) (n_ncr s) g') q r
          end
      end
  end.

Fixpoint s_mark_loop (fuel : nat) (o : odb) (s : nst) (q : @heap Z id) : res nst :=
  match fuel with
  | O => OutOfFuel
  | S fuel' =>
      match qpop q with
      | None => Ok s
      | Some ((_, i), q') =>
          match get_or_insert o (n_g s) i (fun m => m) with
          | (Some (_, ps, before), g') =>
              let s0 := mkN (n_revs s) (n_ncr s) g' in
              s1 <- (if negb (has (m_flags before) POPPED) then dec_ncr s0 else Ok s0) ;;
              let '(s2, q2) := s_mark_parents o s1 q' ps in
              s_mark_loop fuel' o s2 q2
          | (None, g') => s_mark_loop fuel' o (mkN (n_revs s) (n_ncr s) g') q'
          end
      end
  end.

Definition s_mark_common (o : odb) (s : nst) (i : id) : res nst :=
  match get_or_insert o (n_g s) i (add_flags COMMON) with
  | (Some (t, _, before), g') =>
      let s0 := mkN (n_revs s) (n_ncr s) g' in
      if has (m_flags before) COMMON then Ok s0
      else s_mark_loop (mark_fuel o) o s0 (qpush [] (t, i))
  | (None, g') => Ok (mkN (n_revs s) (n_ncr s) g')
  end.

Definition u16_max := 65535.
(* push_parent(entry, parent_id): Ok (pushed?, state) *)
Definition s_push_parent (o : odb) (s : nst) (entry : meta) (p : id) : res (bool * nst) :=
  let seen_popped :=
    match gget (n_g s) p with
    | Some m => if has (m_flags m) SEEN then Some (has (m_flags m) POPPED) else None
    | None => None
    end in
  match seen_popped with
  | Some true => Ok (false, s)
  | _ =>
      let s1 := match seen_popped with Some _ => s | None => s_add_to_queue o s p 0 end in
      (* after the fix: a parent that is not available locally (shallow boundary) was not pushed *)
      if match seen_popped with None => match gget (n_g s1) p with None => true | Some _ => false end
                              | Some _ => false end then Ok (false, s1) else
      if has (m_flags entry) COMMON || has (m_flags entry) ADVERTISED then
        s2 <- s_mark_common o s1 p ;; Ok (true, s2)
      else
        (* u16 arithmetic, debug build: `original_ttl * 3 / 2 + 1` *)
        if negb (N.ltb 0 (m_ttl entry)) && N.ltb u16_max (m_ottl entry * 3) then Panic else
        let new_ottl := if N.ltb 0 (m_ttl entry) then m_ottl entry else m_ottl entry * 3 / 2 + 1 in
        let new_ttl := if N.ltb 0 (m_ttl entry) then m_ttl entry - 1 else new_ottl in
        match gget (n_g s1) p with
        | None => Panic                                         (* expect("present or inserted") *)
        | Some pm =>
            let g' := if N.ltb (m_ottl pm) new_ottl
                      then gset (n_g s1) p (mkM (m_flags pm) new_ottl new_ttl) else n_g s1 in
            Ok (true, mkN (n_revs s1) (n_ncr s1) g')
        end
  end.

Fixpoint s_push_parents (o : odb) (s : nst) (entry : meta) (pushed : bool) (ps : list id) : res (bool * nst) :=
  match ps with
  | [] => Ok (pushed, s)
  | p :: r =>
      '(b, s1) <- s_push_parent o s entry p ;;
      s_push_parents o s1 entry (pushed || b) r
  end.

Fixpoint s_next_have (fuel : nat) (o : odb) (s : nst) : res (option id * nst) :=
  match fuel with
  | O => OutOfFuel
  | S fuel' =>
      match qpop (n_revs s) with
      | None => Ok (None, s)
      | Some ((_, i), revs') =>
          let s := mkN revs' (n_ncr s) (n_g s) in
          if N.eqb (n_ncr s) 0 then Ok (None, s)
          else
            match gget (n_g s) i, find_commit o i with
            | Some m, Some (_, ps) =>
                let f := N.lor (m_flags m) POPPED in
                let data := with_flags m f in
                let s1 := mkN (n_revs s) (n_ncr s) (gset (n_g s) i data) in
                s2 <- (if negb (has f COMMON) then dec_ncr s1 else Ok s1) ;;
                let send0 := negb (has f COMMON) && N.eqb (m_ttl m) 0 in
                '(pushed, s3) <- s_push_parents o s2 data false ps ;;
                let send := send0 || (negb (has f COMMON) && negb pushed) in
                if send then Ok (Some i, s3) else s_next_have fuel' o s3
            | _, _ => Panic
            end
      end
  end.

Definition s_known_or_tip (o : odb) (s : nst) (i : id) (mark : N) : res nst :=
  if gseen (n_g s) i then Ok s else Ok (s_add_to_queue o s i mark).

Definition s_in_common (o : odb) (s : nst) (i : id) : res (bool * nst) :=
  match gflags (n_g s) i with
  | Some f =>
      if has f SEEN then s' <- s_mark_common o s i ;; Ok (has f COMMON, s')
      else Panic                                                (* assert!(was_seen) *)
  | None => Panic
  end.

(* ---------------- driving either negotiator ---------------- *)
Inductive algo := Consecutive | Skipping.
Inductive nop := KnownCommon (i : id) | AddTip (i : id) | NextHave | InCommon (i : id)
  | AckRecent (k : N) (* harness only: in_common_with_remote for the k-th most recent have, if any *).
Inductive nout := OUnit | OHave (h : option id) | OKnown (b : bool).

Definition nstep (a : algo) (o : odb) (s : nst) (op : nop) : res (nout * nst) :=
  match a, op with
  | Consecutive, KnownCommon i => s' <- c_known_common o s i ;; Ok (OUnit, s')
  | Consecutive, AddTip i => s' <- c_add_tip o s i ;; Ok (OUnit, s')
  | Consecutive, NextHave => '(h, s') <- c_next_have (have_fuel o s) o s ;; Ok (OHave h, s')
  | Consecutive, InCommon i => '(b, s') <- c_in_common o s i ;; Ok (OKnown b, s')
  | Skipping, KnownCommon i => s' <- s_known_or_tip o s i ADVERTISED ;; Ok (OUnit, s')
  | Skipping, AddTip i => s' <- s_known_or_tip o s i 0 ;; Ok (OUnit, s')
  | Skipping, NextHave => '(h, s') <- s_next_have (have_fuel o s) o s ;; Ok (OHave h, s')
  | Skipping, InCommon i => '(b, s') <- s_in_common o s i ;; Ok (OKnown b, s')
  | _, AckRecent _ => Ok (OUnit, s)
  end.

Fixpoint nrun (a : algo) (o : odb) (s : nst) (ops : list nop) (sent : list id) (acc : list nout)
  : res (list nout * nst) :=
  match ops with
  | [] => Ok (rev acc, s)
  | op :: r =>
      let op' := match op with
                 | AckRecent k => match nth_error sent (N.to_nat k) with Some i => InCommon i | None => op end
                 | _ => op
                 end in
      '(out, s') <- nstep a o s op' ;;
      nrun a o s' r (match out with OHave (Some h) => h :: sent | _ => sent end) (out :: acc)
  end.

(* lib.rs window_size *)
Definition window_size (stateless : bool) (cur : option N) : N :=
  match cur with
  | None => 16
  | Some c =>
      if stateless then (if N.ltb c 16384 then c * 2 else c * 11 / 10)
      else if N.ltb c 32 then c * 2 else c + 32
  end.

(* ================================ update_refs ========================================== *)
Inductive target := TObj (i : id) | TSym (name : bytes).
Definition refs := list (bytes * target).
Fixpoint rget (r : refs) (n : bytes) : option target :=
  match r with [] => None | (m, t) :: r' => if bytes_eqb n m then Some t else rget r' n end.

(* what the server advertises: handshake::Ref *)
Inductive rref :=
| RDirect (name : bytes) (object : id)
| RPeeled (name : bytes) (tag : id) (object : id)
| RSymbolic (name : bytes) (tgt : bytes) (tag : option id) (object : id)
| RUnborn (name : bytes) (tgt : bytes).
Definition rname (r : rref) : bytes :=
  match r with RDirect n _ | RPeeled n _ _ | RSymbolic n _ _ _ | RUnborn n _ => n end.
(* Ref::unpack().1 : the id the ref points to directly *)
Definition rid (r : rref) : option id :=
  match r with
  | RDirect _ i => Some i
  | RPeeled _ t _ => Some t
  | RSymbolic _ _ t ob => Some (match t with Some t => t | None => ob end)
  | RUnborn _ _ => None
  end.
Definition rsymtarget (r : rref) : option bytes :=
  match r with RSymbolic _ t _ _ | RUnborn _ t => Some t | _ => None end.

Record spec := mkSpec { sp_force : bool; sp_src : bytes; sp_dst : bytes }.
Record mapping := mkMap { mp_remote : rref; mp_local : bytes; mp_spec : nat }.

(* ---- refspec matching for full names and trailing-star globs ---- *)
Fixpoint strip_prefix (p s : bytes) : option bytes :=
  match p, s with
  | [], _ => Some s
  | a :: p', b :: s' => if beqb a b then strip_prefix p' s' else None
  | _ :: _, [] => None
  end.
Definition star : byte := x2a.
Definition glob_prefix (s : bytes) : option bytes :=     (* Some p when s = p ++ "*" *)
  match rev s with
  | c :: r => if beqb c star then Some (rev r) else None
  | [] => None
  end.
Definition spec_match (sp : spec) (name : bytes) : option bytes :=
  match glob_prefix (sp_src sp), glob_prefix (sp_dst sp) with
  | Some ps, Some pd =>
      match strip_prefix ps name with Some rest => Some (pd ++ rest) | None => None end
  | _, _ => if bytes_eqb (sp_src sp) name then Some (sp_dst sp) else None
  end.
(* gix-refspec spec.rs: RefSpecRef::prefix / expand_prefixes for a fetch spec's source (after the fix: a glob
   without a second component such as `refs/*` yields what is in front of the asterisk) *)
Definition slash : byte := x2f.
Fixpoint find_byte (b : byte) (l : bytes) (i : nat) : option nat :=
  match l with [] => None | c :: r => if beqb c b then Some i else find_byte b r (S i) end.
Definition spec_prefix (src : bytes) : option bytes :=
  if bytes_eqb src (bs "HEAD") then Some src else
  match strip_prefix (bs "refs/") src with
  | None => None
  | Some suffix =>
      match find_byte slash suffix 0 with
      | None => None
      | Some pos => let p := firstn (5 + pos + 1) src in if existsb (beqb star) p then None else Some p
      end
  end.
Definition expand_prefixes (src : bytes) : list bytes :=
  match spec_prefix src with
  | Some p => [p]
  | None =>
      match strip_prefix (bs "refs/") src with
      | Some rest =>
          if existsb (beqb slash) rest then []
          else [match find_byte star src 0 with Some pos => firstn pos src | None => src end]
      | None => []            (* partial names and object ids are outside the modelled family *)
      end
  end.

Definition same_mapping (a b : mapping) : bool :=
  bytes_eqb (rname (mp_remote a)) (rname (mp_remote b)) && bytes_eqb (mp_local a) (mp_local b).
Fixpoint push_unique (acc : list mapping) (m : mapping) : list mapping :=    (* acc is in order *)
  match acc with
  | [] => [m]
  | a :: r => if same_mapping a m then acc else a :: push_unique r m
  end.
Fixpoint match_items (sp : spec) (si : nat) (items : list rref) (acc : list mapping) : list mapping :=
  match items with
  | [] => acc
  | it :: r =>
      match spec_match sp (rname it) with
      | Some dst => match_items sp si r (push_unique acc (mkMap it dst si))
      | None => match_items sp si r acc
      end
  end.
Fixpoint match_specs (sps : list spec) (si : nat) (items : list rref) (acc : list mapping) : list mapping :=
  match sps with
  | [] => acc
  | sp :: r => match_specs r (S si) items (match_items sp si items acc)
  end.
(* Outcome::validated: two different sources for one destination is an error *)
Fixpoint conflict_with (m : mapping) (l : list mapping) : bool :=
  match l with
  | [] => false
  | a :: r => (bytes_eqb (mp_local a) (mp_local m) && negb (bytes_eqb (rname (mp_remote a)) (rname (mp_remote m))))
              || conflict_with m r
  end.
Fixpoint has_conflict (l : list mapping) : bool :=
  match l with [] => false | m :: r => conflict_with m r || has_conflict r end.

(* ---- the local repository as update() sees it ---- *)
Record repo := mkRepo {
  r_odb : odb;                (* the object graph (server's numbering) *)
  r_has : list id;            (* objects present locally after the pack was received *)
  r_refs : refs;              (* local references *)
  r_checked_out : list bytes  (* full names reachable from a worktree's HEAD *)
}.
Definition exists_obj (rp : repo) (i : id) : bool := mem i (r_has rp).
Definition lfind (rp : repo) (i : id) : option obj := if exists_obj rp i then find (r_odb rp) i else None.
Definition lcommit (rp : repo) (i : id) : option (Z * list id) :=
  match lfind rp i with Some (OCommit t ps) => Some (t, ps) | _ => None end.

Fixpoint bmem (x : bytes) (l : list bytes) : bool :=
  match l with [] => false | y :: r => bytes_eqb x y || bmem x r end.

(* Simple::new(Some(remote)).sorting(ByCommitTimeCutoff{seconds}) … any(|c| c.id == local):
   the set of ids yielded: the tip if time >= cutoff, then parents with time >= cutoff (a parent that cannot be
   found has time 0 and, when popped, yields an Err item which `any` skips). Order is irrelevant for `any`. *)
Definition ptime (rp : repo) (i : id) : Z := match lcommit rp i with Some (t, _) => t | None => 0%Z end.
Fixpoint ff_fresh (rp : repo) (cutoff : Z) (ps : list id) (seen acc : list id) : list id * list id :=
  match ps with
  | [] => (seen, acc)
  | p :: r => if mem p seen then ff_fresh rp cutoff r seen acc
              else ff_fresh rp cutoff r (p :: seen) (if Z.leb cutoff (ptime rp p) then acc ++ [p] else acc)
  end.
Fixpoint ff_walk (fuel : nat) (rp : repo) (cutoff : Z) (want : id) (queue seen : list id) : res bool :=
  match fuel with
  | O => OutOfFuel
  | S fuel' =>
      match queue with
      | [] => Ok false
      | i :: q =>
          match lcommit rp i with
          | None => ff_walk fuel' rp cutoff want q seen          (* Err item *)
          | Some (_, ps) =>
              if N.eqb i want then Ok true
              else
                let '(seen', add) := ff_fresh rp cutoff ps seen [] in
                ff_walk fuel' rp cutoff want (q ++ add) seen'
          end
      end
  end.
Definition ff_fuel (rp : repo) : nat := S (S (length (r_odb rp))).

(* Ok (is_fast_forward, force_override): the DryRun::No arm *)
Definition is_fast_forward (rp : repo) (local_id remote_id : id) : res (bool * bool) :=
  match lfind rp local_id with
  | None => Err tt                                               (* find_object(local_id)? *)
  | Some (OCommit ltime _) =>
      match lcommit rp remote_id with
      | None => Ok (false, true)                                 (* sorting() fails: force = true *)
      | Some (rt, _) =>
          b <- (if Z.leb ltime rt then ff_walk (ff_fuel rp) rp ltime local_id [remote_id] [remote_id]
                else Ok false) ;;
          Ok (b, false)
      end
  | Some _ => Ok (false, true)                                   (* try_into_commit fails: force = true *)
  end.

Inductive mode :=
| NoChangeNeeded | FastForward | Forced | New | ImplicitTagNotSentByRemote
| RejectedSourceObjectNotFound | RejectedTagUpdate | RejectedNonFastForward
| RejectedToReplaceWithUnborn | RejectedCurrentlyCheckedOut.
Inductive prev := MustExistAndMatch (t : target) | ExistingMustMatch (t : target).
Record edit := mkEdit { e_name : bytes; e_prev : prev; e_new : target; e_noop : bool }.
Record update := mkUpd { u_mode : mode; u_type_change : N (* 0 none, 1 direct->symbolic, 2 symbolic->direct *);
                         u_edit : option nat }.

Definition is_tag_name (n : bytes) : bool :=
  match strip_prefix (bs "refs/tags/") n with Some _ => true | None => false end.

(* new_value_by_remote *)
Fixpoint find_local_for (tgt : bytes) (ms : list mapping) : option bytes :=
  match ms with
  | [] => None
  | m :: r => if bytes_eqb (rname (mp_remote m)) tgt then Some (mp_local m) else find_local_for tgt r
  end.
Definition new_value (rp : repo) (remote : rref) (ms : list mapping) : target :=
  match rsymtarget remote with
  | Some tgt =>
      match find_local_for tgt ms with
      | Some lb => TSym lb
      | None =>
          match rid remote with
          | Some desired => match rget (r_refs rp) tgt with Some _ => TSym tgt | None => TObj desired end
          | None => TSym tgt
          end
      end
  | None => match rid remote with Some i => TObj i | None => TObj 0 (* unreachable *) end
  end.

(* existing.try_id() or peel_to_id_in_place: Some id, or None for an unborn symbolic ref; one level of
   indirection and a fixed depth like gix-ref's follow *)
Fixpoint peel (fuel : nat) (r : refs) (t : target) : option id :=
  match t with
  | TObj i => Some i
  | TSym n => match fuel with
              | O => None
              | S f => match rget r n with Some t' => peel f r t' | None => None end
              end
  end.

Definition type_change (p : prev) (new : target) : N :=
  match p, new with
  | (MustExistAndMatch (TObj _) | ExistingMustMatch (TObj _)), TSym _ => 1
  | (MustExistAndMatch (TSym _) | ExistingMustMatch (TSym _)), TObj _ => 2
  | _, _ => 0
  end.

Record ustate := mkU { us_edits : list edit (* reversed *); us_updates : list update (* reversed *);
                       us_validate : list (nat * nat) (* reversed *) }.

Definition push_update (st : ustate) (m : mode) : ustate :=
  mkU (us_edits st) (mkUpd m 0 None :: us_updates st) (us_validate st).

Definition one_mapping (rp : repo) (specs : list spec) (implicit_tag_spec : option nat) (ms : list mapping)
           (st : ustate) (m : mapping) : res ustate :=
  let remote := mp_remote m in
  let is_implicit_tag := match implicit_tag_spec with Some k => Nat.eqb k (mp_spec m) | None => false end in
  let force_spec := match nth_error specs (mp_spec m) with Some sp => sp_force sp | None => false end in
  let remote_id := rid remote in
  match remote_id with
  | Some i =>
      if negb (exists_obj rp i) then
        Ok (push_update st (if is_implicit_tag then ImplicitTagNotSentByRemote else RejectedSourceObjectNotFound))
      else
        let name := mp_local m in
        match rget (r_refs rp) name with
        | Some existing =>
            if bmem name (r_checked_out rp) then Ok (push_update st RejectedCurrentlyCheckedOut)
            else
              match peel 5 (r_refs rp) existing with
              | Some local_id =>
                  md <- (if N.eqb local_id i then Ok (Some NoChangeNeeded)
                         else if is_tag_name name then
                           Ok (if force_spec then Some Forced else None)
                         else
                           '(ff, force_override) <- is_fast_forward rp local_id i ;;
                           Ok (if ff then Some FastForward
                               else if force_spec || force_override then Some Forced
                               else Some RejectedNonFastForward)) ;;
                  match md with
                  | None => Ok (push_update st RejectedTagUpdate)
                  | Some RejectedNonFastForward => Ok (push_update st RejectedNonFastForward)
                  | Some md =>
                      let pv := MustExistAndMatch existing in
                      let new := new_value rp remote ms in
                      let ei := length (us_edits st) in
                      let ui := length (us_updates st) in
                      Ok (mkU (mkEdit name pv new false :: us_edits st)
                              (mkUpd md (type_change pv new) (Some ei) :: us_updates st)
                              (match new with TSym _ => (ui, ei) :: us_validate st | _ => us_validate st end))
                  end
              | None =>
                  (* unborn local symbolic ref *)
                  let md := match existing, rsymtarget remote with
                            | TSym ln, Some rt => if bytes_eqb ln rt then NoChangeNeeded else Forced
                            | _, _ => Forced
                            end in
                  let pv := MustExistAndMatch existing in
                  let new := new_value rp remote ms in
                  let ei := length (us_edits st) in
                  let ui := length (us_updates st) in
                  Ok (mkU (mkEdit name pv new false :: us_edits st)
                          (mkUpd md (type_change pv new) (Some ei) :: us_updates st)
                          (match new with TSym _ => (ui, ei) :: us_validate st | _ => us_validate st end))
              end
        | None =>
            let new := new_value rp remote ms in
            let pv := ExistingMustMatch new in
            let ei := length (us_edits st) in
            let ui := length (us_updates st) in
            Ok (mkU (mkEdit name pv new false :: us_edits st)
                    (mkUpd New (type_change pv new) (Some ei) :: us_updates st)
                    (match new with TSym _ => (ui, ei) :: us_validate st | _ => us_validate st end))
        end
  | None =>
      (* unborn remote *)
      let name := mp_local m in
      match rget (r_refs rp) name with
      | Some existing =>
          if bmem name (r_checked_out rp) then Ok (push_update st RejectedCurrentlyCheckedOut)
          else
            match peel 5 (r_refs rp) existing with
            | Some _ => Ok (push_update st RejectedToReplaceWithUnborn)
            | None =>
                let md := match existing, rsymtarget remote with
                          | TSym ln, Some rt => if bytes_eqb ln rt then NoChangeNeeded else Forced
                          | _, _ => Forced
                          end in
                let pv := MustExistAndMatch existing in
                let new := new_value rp remote ms in
                let ei := length (us_edits st) in
                let ui := length (us_updates st) in
                Ok (mkU (mkEdit name pv new false :: us_edits st)
                        (mkUpd md (type_change pv new) (Some ei) :: us_updates st)
                        (match new with TSym _ => (ui, ei) :: us_validate st | _ => us_validate st end))
            end
      | None =>
          let new := new_value rp remote ms in
          let pv := ExistingMustMatch new in
          let ei := length (us_edits st) in
          let ui := length (us_updates st) in
          Ok (mkU (mkEdit name pv new false :: us_edits st)
                  (mkUpd New (type_change pv new) (Some ei) :: us_updates st)
                  (match new with TSym _ => (ui, ei) :: us_validate st | _ => us_validate st end))
      end
  end.

Fixpoint all_mappings (rp : repo) (specs : list spec) (its : option nat) (ms todo : list mapping) (st : ustate)
  : res ustate :=
  match todo with
  | [] => Ok st
  | m :: r => st' <- one_mapping rp specs its ms st m ;; all_mappings rp specs its ms r st'
  end.

(* update_needs_adjustment_as_edits_symbolic_target_is_missing *)
Definition needs_adjustment (rp : repo) (e : edit) (edits : list edit) : bool :=
  match e_new e with
  | TObj _ => false
  | TSym new_target =>
      match e_prev e with
      | ExistingMustMatch _ => false
      | MustExistAndMatch cur =>
          let early :=
            match cur with
            | TSym cur_name =>
                bytes_eqb cur_name new_target
                || match rget (r_refs rp) cur_name with None => true | Some _ => false end
            | TObj _ => false
            end in
          if early then false
          else
            match rget (r_refs rp) new_target with
            | Some _ => false
            | None => negb (existsb (fun e' => bytes_eqb (e_name e') new_target) edits)
            end
      end
  end.

Fixpoint set_nth_l {A} (l : list A) (n : nat) (x : A) : list A :=
  match l, n with
  | [], _ => []
  | _ :: t, O => x :: t
  | h :: t, S n' => h :: set_nth_l t n' x
  end.

Fixpoint validate (rp : repo) (todo : list (nat * nat)) (edits : list edit) (updates : list update)
  : list edit * list update :=
  match todo with
  | [] => (edits, updates)
  | (ui, ei) :: r =>
      match nth_error edits ei, nth_error updates ui with
      | Some e, Some u =>
          if needs_adjustment rp e edits then
            let e' := match e_prev e with
                      | MustExistAndMatch t => mkEdit (e_name e) (e_prev e) t true
                      | _ => e end in
            validate rp r (set_nth_l edits ei e') (set_nth_l updates ui (mkUpd RejectedToReplaceWithUnborn 0 (u_edit u)))
          else validate rp r edits updates
      | _, _ => validate rp r edits updates
      end
  end.

Definition update_refs (rp : repo) (specs : list spec) (its : option nat) (ms : list mapping)
  : res (list edit * list update) :=
  st <- all_mappings rp specs its ms ms (mkU [] [] []) ;;
  Ok (validate rp (rev (us_validate st)) (rev (us_edits st)) (rev (us_updates st))).

(* the reference store after the transaction (no conflicts: names of edits are distinct after validated()) *)
Fixpoint rset (r : refs) (n : bytes) (t : target) : refs :=
  match r with
  | [] => [(n, t)]
  | (m, t') :: r' => if bytes_eqb n m then (m, t) :: r' else (m, t') :: rset r' n t
  end.
Definition apply_edits (r : refs) (es : list edit) : refs :=
  fold_left (fun r e => rset r (e_name e) (e_new e)) es r.

(* the whole of the modelled fetch: mappings, then ref updates *)
Definition fetch_refs (rp : repo) (specs : list spec) (its : option nat) (adv : list rref)
  : res (list mapping * list edit * list update) :=
  let ms := match_specs specs 0 adv [] in
  if has_conflict ms then Err tt
  else '(es, us) <- update_refs rp specs its ms ;; Ok (ms, es, us).
