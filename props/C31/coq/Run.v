(* C31 — transcript printer: the same observable line the Rust harness prints for a case. *)
From GixV.Base Require Import Bytes Outcome.
From GixV.C31 Require Import Model.
Local Open Scope N_scope.

Fixpoint split_on (sep : byte) (l : bytes) (cur : bytes) : list bytes :=   (* cur is reversed *)
  match l with
  | [] => [rev cur]
  | b :: r => if beqb b sep then rev cur :: split_on sep r [] else split_on sep r (b :: cur)
  end.
Definition comma : byte := x2c.
Definition fields_of (l : bytes) : list bytes := split_on comma l [].
Definition toN (b : bytes) : N := match dec_to_N b with Some v => v | None => 0 end.
Definition toZ (b : bytes) : Z := match dec_to_Z b with Some v => v | None => 0%Z end.

(* object: `c,<time>,<parent>*` | `t,<target>` | `b` | `x` (absent) *)
Definition parse_obj (f : bytes) : obj :=
  match fields_of f with
  | k :: rest =>
      if bytes_eqb k (bs "c") then
        match rest with
        | t :: ps => OCommit (toZ t) (map toN ps)
        | [] => OBlob
        end
      else if bytes_eqb k (bs "t") then
        match rest with t :: _ => OTag (toN t) | [] => OBlob end
      else OBlob
  | [] => OBlob
  end.

Fixpoint take {A} (n : nat) (l : list A) : list A :=
  match n, l with O, _ => [] | _, [] => [] | S n', x :: r => x :: take n' r end.
Fixpoint drop {A} (n : nat) (l : list A) : list A :=
  match n, l with O, _ => l | _, [] => [] | S n', _ :: r => drop n' r end.
(* a counted block: <n> item*n ; returns items and the rest *)
Definition block (fs : list bytes) : list bytes * list bytes :=
  match fs with
  | n :: r => let k := N.to_nat (toN n) in (take k r, drop k r)
  | [] => ([], [])
  end.

(* ---------------- neg ---------------- *)
Definition parse_op (f : bytes) : nop :=
  match f with
  | c :: r =>
      if beqb c x6b (* k *) then KnownCommon (toN r)
      else if beqb c x74 (* t *) then AddTip (toN r)
      else if beqb c x61 (* a *) then InCommon (toN r)
      else if beqb c x72 (* r *) then AckRecent (toN r)
      else NextHave
  | [] => NextHave
  end.

Definition show_out (o : nout) : bytes :=
  match o with
  | OUnit => bs "-"
  | OHave None => bs "hnone"
  | OHave (Some i) => bs "h" ++ N_to_dec i
  | OKnown b => bs "k" ++ bool_to_bytes b
  end.

(* entries sorted by id *)
Fixpoint ins_meta (e : id * meta) (l : list (id * meta)) : list (id * meta) :=
  match l with
  | [] => [e]
  | x :: r => if N.leb (fst e) (fst x) then e :: l else x :: ins_meta e r
  end.
Definition sort_meta (l : list (id * meta)) : list (id * meta) := fold_right ins_meta [] l.
Definition show_meta (e : id * meta) : bytes :=
  N_to_dec (fst e) ++ bs ":" ++ N_to_dec (m_flags (snd e)) ++ bs ":" ++ N_to_dec (m_ottl (snd e))
  ++ bs ":" ++ N_to_dec (m_ttl (snd e)).

Definition run_neg (fs : list bytes) : bytes :=
  let a := if bytes_eqb (nth_field 0 fs) (bs "s") then Skipping else Consecutive in
  let '(objs, rest) := block (drop 1 fs) in
  let '(ops, _) := block rest in
  match nrun a (map parse_obj objs) nst0 (map parse_op ops) [] [] with
  | Ok (outs, s) =>
      join_sp (map show_out outs) ++ bs " | " ++ join_sp (map show_meta (sort_meta (n_g s)))
  | Err _ => bs "err"
  | Panic => bs "PANIC"
  | OutOfFuel => bs "HANG"
  end.

(* ---------------- fetch ---------------- *)
(* ref: `<name>,d,<id>` | `<name>,s,<target name>` *)
Definition parse_ref (f : bytes) : bytes * target :=
  match fields_of f with
  | n :: k :: v :: _ => if bytes_eqb k (bs "s") then (n, TSym v) else (n, TObj (toN v))
  | _ => ([], TObj 0)
  end.
Definition plus : byte := x2b.
Definition colon : byte := x3a.
Definition parse_spec (f : bytes) : spec :=
  let '(force, body) := match f with c :: r => if beqb c plus then (true, r) else (false, f) | [] => (false, f) end in
  match split_on colon body [] with
  | s :: d :: _ => mkSpec force s d
  | _ => mkSpec force body []
  end.

(* objects reachable from ids (commit -> parents, tag -> target) *)
Fixpoint closure (fuel : nat) (o : odb) (todo acc : list id) : list id :=
  match fuel with
  | O => acc
  | S f =>
      match todo with
      | [] => acc
      | i :: r =>
          if mem i acc then closure f o r acc
          else match find o i with
               | Some (OCommit _ ps) => closure f o (ps ++ r) (i :: acc)
               | Some (OTag t) => closure f o (t :: r) (i :: acc)
               | Some OBlob => closure f o r (i :: acc)
               | None => closure f o r acc
               end
      end
  end.
Definition closure_fuel (o : odb) (todo : list id) : nat :=
  (length todo + (length o + 1) * (length o + 4))%nat.

Fixpoint ins_ref (e : bytes * target) (l : refs) : refs :=
  match l with
  | [] => [e]
  | x :: r => match bytes_cmp (fst e) (fst x) with Gt => x :: ins_ref e r | _ => e :: l end
  end.
Definition sort_refs (l : refs) : refs := fold_right ins_ref [] l.

(* the advertisement of git upload-pack for the server's refs: HEAD first, the others by name *)
Definition peel_obj (o : odb) (i : id) : id :=
  match find o i with Some (OTag t) => match find o t with Some (OTag t2) => t2 | _ => t end | _ => i end.
Definition adv_of (o : odb) (v2 : bool) (srefs : refs) : list rref :=
  let others :=
    flat_map (fun e => match snd e with
                       | TObj i => match find o i with
                                   | Some (OTag _) => [RPeeled (fst e) i (peel_obj o i)]
                                   | _ => [RDirect (fst e) i]
                                   end
                       | TSym _ => []
                       end)
             (sort_refs (filter (fun e => negb (bytes_eqb (fst e) (bs "HEAD"))) srefs)) in
  let head :=
    match rget srefs (bs "HEAD") with
    | Some (TSym t) =>
        match rget srefs t with
        | Some (TObj i) =>
            match find o i with
            | Some (OTag _) => [RSymbolic (bs "HEAD") t (Some i) (peel_obj o i)]
            | _ => [RSymbolic (bs "HEAD") t None i]
            end
        | _ => if v2 then [RUnborn (bs "HEAD") t] else []
        end
    | Some (TObj i) => [RDirect (bs "HEAD") i]
    | None => []
    end in
  head ++ others.

Definition show_target (t : target) : bytes :=
  match t with TObj i => bs "o" ++ N_to_dec i | TSym n => bs "s" ++ n end.
Definition mode_name (m : mode) : bytes :=
  match m with
  | NoChangeNeeded => bs "NoChange" | FastForward => bs "FastForward" | Forced => bs "Forced" | New => bs "New"
  | ImplicitTagNotSentByRemote => bs "ImplicitTagNotSent" | RejectedSourceObjectNotFound => bs "RejNotFound"
  | RejectedTagUpdate => bs "RejTag" | RejectedNonFastForward => bs "RejNonFF"
  | RejectedToReplaceWithUnborn => bs "RejUnborn" | RejectedCurrentlyCheckedOut => bs "RejCheckedOut"
  end.
Definition show_update (u : update) : bytes :=
  mode_name (u_mode u) ++ bs "/" ++ N_to_dec (u_type_change u) ++ bs "/" ++
  match u_edit u with Some n => N_to_dec (N.of_nat n) | None => bs "-" end.
Definition show_mapping (m : mapping) : bytes :=
  rname (mp_remote m) ++ bs ">" ++ mp_local m ++ bs "@" ++ N_to_dec (N.of_nat (mp_spec m)).
Definition show_edit (e : edit) : bytes :=
  e_name e ++ bs "=" ++ show_target (e_new e) ++ (if e_noop e then bs "!" else []).
Definition show_ref (e : bytes * target) : bytes := fst e ++ bs "=" ++ show_target (snd e).

Definition direct_ids (r : refs) : list id :=
  flat_map (fun e => match snd e with TObj i => [i] | TSym _ => [] end) r.

Definition run_fetch (fs : list bytes) : bytes :=
  let v2 := bytes_eqb (nth_field 0 fs) (bs "2") in
  let tags := nth_field 2 fs in
  let depth := toN (nth_field 3 fs) in
  let wt := bytes_eqb (nth_field 4 fs) (bs "1") in
  let lshallow := toN (nth_field 5 fs) in
  let '(objs, r1) := block (drop 6 fs) in
  let '(srefs, r2) := block r1 in
  let '(lrefs, r3) := block r2 in
  let '(specs, _) := block r3 in
  if bytes_eqb tags (bs "i") || negb (N.eqb depth 0) || negb (N.eqb lshallow 0) then bs "e2e-only" else
  let o := map parse_obj objs in
  let srefs := map parse_ref srefs in
  let lrefs := map parse_ref lrefs in
  let specs0 := map parse_spec specs in
  let specs := if bytes_eqb tags (bs "a")
               then specs0 ++ [mkSpec false (bs "refs/tags/*") (bs "refs/tags/*")] else specs0 in
  (* protocol v2: ls-refs only lists what matches a ref-prefix derived from the refspecs (none: everything) *)
  let prefixes := flat_map (fun sp => expand_prefixes (sp_src sp)) specs in
  let prefix_ok (n : bytes) :=
    existsb (fun p => match strip_prefix p n with Some _ => true | None => false end) prefixes in
  let adv0 := adv_of o v2 srefs in
  let adv := if v2 && negb (match prefixes with [] => true | _ => false end)
             then filter (fun r => prefix_ok (rname r)) adv0 else adv0 in
  let ms := match_specs specs 0 adv [] in
  let wants := flat_map (fun m => match rid (mp_remote m) with Some i => [i] | None => [] end) ms in
  let todo := direct_ids lrefs ++ wants in
  let has_l := closure (closure_fuel o todo) o todo [] in
  let co := if wt then bs "HEAD" :: (match rget lrefs (bs "refs/heads/main") with
                                     | Some _ => [bs "refs/heads/main"] | None => [] end)
            else [] in
  let rp := mkRepo o has_l lrefs co in
  if match adv with [] => true | _ => false end then bs "empty-remote" else
  if match ms with [] => true | _ => false end then bs "err NoMapping" else
  if has_conflict ms then bs "err Validate" else
  match fetch_refs rp specs None adv with
  | Ok (ms, es, us) =>
      bs "ok m: " ++ join_sp (map show_mapping ms) ++ bs " u: " ++ join_sp (map show_update us)
      ++ bs " e: " ++ join_sp (map show_edit es)
      ++ bs " r: " ++ join_sp (map show_ref (sort_refs (apply_edits lrefs es)))
  | Err _ => bs "err Other"
  | Panic => bs "PANIC"
  | OutOfFuel => bs "HANG"
  end.

Definition run_window (fs : list bytes) : bytes :=
  let stateless := bytes_eqb (nth_field 0 fs) (bs "1") in
  let cur := if bytes_eqb (nth_field 1 fs) (bs "none") then None else Some (toN (nth_field 1 fs)) in
  N_to_dec (window_size stateless cur).

Definition run_model (fs : list bytes) : bytes :=
  let op := nth_field 0 fs in
  if bytes_eqb op (bs "neg") then run_neg (drop 1 fs)
  else if bytes_eqb op (bs "fetch") then run_fetch (drop 1 fs)
  else if bytes_eqb op (bs "win") then run_window (drop 1 fs)
  else bs "?".

Definition run (fs : list bytes) : bytes :=
  match fs with
  | _mode :: rest => run_model rest
  | [] => bs "?"
  end.
