//! C26 harness: gix-config event parser (parse::from_bytes / Events::from_bytes[_owned]) and event
//! serialisation (Event::write_to, section::Header::write_to), plus File::from_bytes_no_includes ->
//! to_bstring -> reparse.
//!
//! cases:  ev <config bytes>      transcript: `ok <events> <ser>` | `err`
//!         file <config bytes>    transcript: `ok <hex of File::to_bstring>` | `err`
use bstr::{BString, ByteSlice};
use gix_config::parse::{Event, Events};
use gixv_common::*;

// ---------------------------------------------------------------------------------------------
// transcript

fn ev_show(e: &Event<'_>, out: &mut String) {
    match e {
        Event::Comment(c) => {
            out.push('c');
            out.push_str(&hexs(&[c.tag]));
            out.push_str(&hexs(c.text.as_ref()));
        }
        Event::SectionHeader(h) => {
            // the separator is private: it is visible through the header's own serialisation
            out.push('h');
            out.push_str(&hexs(h.name()));
            out.push('/');
            match h.subsection_name() {
                Some(s) => {
                    out.push('s');
                    out.push_str(&hexs(s));
                }
                None => out.push('~'),
            }
            out.push('/');
            out.push_str(&hexs(&h.to_bstring()));
        }
        Event::SectionValueName(k) => {
            out.push('k');
            let b: &bstr::BStr = std::ops::Deref::deref(k);
            out.push_str(&hexs(b));
        }
        Event::Value(v) => {
            out.push('v');
            out.push_str(&hexs(v.as_ref()));
        }
        Event::Newline(v) => {
            out.push('n');
            out.push_str(&hexs(v.as_ref()));
        }
        Event::ValueNotDone(v) => {
            out.push('p');
            out.push_str(&hexs(v.as_ref()));
        }
        Event::ValueDone(v) => {
            out.push('d');
            out.push_str(&hexs(v.as_ref()));
        }
        Event::Whitespace(v) => {
            out.push('w');
            out.push_str(&hexs(v.as_ref()));
        }
        Event::KeyValueSeparator => out.push('='),
    }
}

fn serialize(evs: &[Event<'_>]) -> Vec<u8> {
    let mut buf = Vec::new();
    for e in evs {
        e.write_to(&mut buf).expect("io");
    }
    buf
}

fn meta() -> gix_config::file::Metadata {
    gix_config::file::Metadata::api()
}

fn imp(c: &Case) -> String {
    let input = f_str(c, 1);
    match f_str(c, 0) {
        b"ev" => match Events::from_bytes(input, None) {
            Ok(evs) => {
                let evs = evs.into_vec();
                let mut s = String::from("ok ");
                if evs.is_empty() {
                    s.push('-');
                }
                for (i, e) in evs.iter().enumerate() {
                    if i > 0 {
                        s.push(',');
                    }
                    ev_show(e, &mut s);
                }
                let ser = serialize(&evs);
                s.push(' ');
                if ser == input {
                    s.push('=');
                } else {
                    s.push_str(&hex(&ser));
                }
                s
            }
            Err(_) => "err".into(),
        },
        b"file" => match gix_config::File::from_bytes_no_includes(input, meta(), Default::default()) {
            Ok(f) => format!("ok {}", hex(&f.to_bstring())),
            Err(_) => "err".into(),
        },
        _ => "?".into(),
    }
}

// ---------------------------------------------------------------------------------------------
// the property, with plain byte scans as the oracle

/// the byte-order marks of unicode-bom 2.0.3 `Bom::from(&[u8])`, written down independently
fn bom_len(b: &[u8]) -> usize {
    const BOMS: &[&[u8]] = &[
        &[0, 0, 0xfe, 0xff],
        &[0x0e, 0xfe, 0xff],
        &[0x2b, 0x2f, 0x76, 0x38],
        &[0x2b, 0x2f, 0x76, 0x39],
        &[0x2b, 0x2f, 0x76, 0x2b],
        &[0x2b, 0x2f, 0x76, 0x2f],
        &[0x84, 0x31, 0x95, 0x33],
        &[0xdd, 0x73, 0x66, 0x73],
        &[0xef, 0xbb, 0xbf],
        &[0xf7, 0x64, 0x4c],
        &[0xfb, 0xee, 0x28],
        &[0xff, 0xfe, 0, 0],
        &[0xfe, 0xff],
        &[0xff, 0xfe],
    ];
    for m in BOMS {
        if b.starts_with(m) {
            return m.len();
        }
    }
    0
}

fn is_section_char(c: u8) -> bool {
    c.is_ascii_alphanumeric() || c == b'-' || c == b'.'
}

/// does the text at `s` look like `[name<spaces>"…` with an escape `\c`, c not `\` or `"`, before the
/// closing quote?  (Coq: Spec.lossy_header_at)
fn lossy_header_at(s: &[u8]) -> bool {
    if s.first() != Some(&b'[') {
        return false;
    }
    let mut i = 1;
    let n0 = i;
    while i < s.len() && is_section_char(s[i]) {
        i += 1;
    }
    if i == n0 {
        return false;
    }
    let w0 = i;
    while i < s.len() && (s[i] == b' ' || s[i] == b'\t') {
        i += 1;
    }
    if i == w0 || i >= s.len() || s[i] != b'"' {
        return false;
    }
    i += 1;
    while i < s.len() {
        match s[i] {
            b'"' => return false,
            b'\\' => {
                if i + 1 >= s.len() {
                    return false;
                }
                if s[i + 1] != b'\\' && s[i + 1] != b'"' {
                    return true;
                }
                i += 2;
            }
            _ => i += 1,
        }
    }
    false
}

/// known class `subsection-escape`: some position of the input carries such a header text
fn subsection_escape_class(input: &[u8]) -> bool {
    (0..input.len()).any(|p| input[p] == b'[' && lossy_header_at(&input[p..]))
}

type Summary = Vec<(BString, Option<BString>, Vec<(BString, BString)>)>;

fn summary(f: &gix_config::File<'_>) -> Summary {
    f.sections()
        .map(|s| {
            let kv: Vec<(BString, BString)> = s
                .body()
                .clone()
                .into_iter()
                .map(|(k, v)| {
                    let kb: &bstr::BStr = std::ops::Deref::deref(&k);
                    (kb.to_owned(), v.into_owned())
                })
                .collect();
            (
                s.header().name().to_owned(),
                s.header().subsection_name().map(ToOwned::to_owned),
                kv,
            )
        })
        .collect()
}

fn prop(c: &Case) -> Verdict {
    let input = f_str(c, 1);
    match f_str(c, 0) {
        b"ev" => {
            let borrowed = Events::from_bytes(input, None);
            let owned = Events::from_bytes_owned(input, None);
            // the streaming entry point must see the same events
            let mut streamed: Vec<Event<'_>> = Vec::new();
            let sres = gix_config::parse::from_bytes(input, &mut |e| streamed.push(e));
            match (borrowed, owned) {
                (Err(_), Err(_)) => {
                    if sres.is_ok() {
                        return Verdict::fail("events-entry-points", "from_bytes Ok, Events Err");
                    }
                    Verdict::ok(false, "parse-err")
                }
                (Ok(b), Ok(o)) => {
                    if sres.is_err() {
                        return Verdict::fail("events-entry-points", "from_bytes Err, Events Ok");
                    }
                    let evs = b.into_vec();
                    let oevs = o.into_vec();
                    if serialize(&evs) != serialize(&oevs) || evs.len() != oevs.len() || evs != oevs {
                        return Verdict::fail("events-entry-points", "owned and borrowed events differ");
                    }
                    if evs != streamed {
                        return Verdict::fail("events-entry-points", "streamed events differ");
                    }
                    let ser = serialize(&evs);
                    if ser == input {
                        let cls = if evs.iter().any(|e| matches!(e, Event::ValueNotDone(_))) {
                            "rt-continuation"
                        } else if evs.iter().any(|e| matches!(e, Event::SectionHeader(_))) {
                            "rt-sections"
                        } else {
                            "rt-frontmatter"
                        };
                        return Verdict::ok(!evs.is_empty(), cls);
                    }
                    let bl = bom_len(input);
                    let sub = subsection_escape_class(input);
                    let detail = format!("serialised {}", hex(&ser));
                    if bl > 0 && (ser == input[bl..] || sub) {
                        Verdict::fail("bom", detail)
                    } else if bl == 0 && sub {
                        // length check keeps the class narrow: only backslashes may be missing
                        if ser.len() < input.len() {
                            Verdict::fail("subsection-escape", detail)
                        } else {
                            Verdict::fail("events-rt", detail)
                        }
                    } else {
                        Verdict::fail("events-rt", detail)
                    }
                }
                _ => Verdict::fail("events-entry-points", "owned and borrowed parse disagree on success"),
            }
        }
        b"file" => {
            let f = match gix_config::File::from_bytes_no_includes(input, meta(), Default::default()) {
                Ok(f) => f,
                Err(_) => return Verdict::ok(false, "parse-err"),
            };
            let text = f.to_bstring();
            let want = summary(&f);
            let sub = subsection_escape_class(input);
            let reparsed = gix_config::File::from_bytes_no_includes(text.as_bytes(), meta(), Default::default());
            let verdict = match reparsed {
                Ok(g) => {
                    let got = summary(&g);
                    if got != want {
                        return Verdict::fail(
                            if sub { "subsection-escape" } else { "file-rt" },
                            format!("written {}", hex(&text)),
                        );
                    }
                    Verdict::ok(!text.is_empty(), if text.as_slice() == input { "file-same" } else { "file-normalised" })
                }
                Err(_) => Verdict::fail(
                    if sub { "subsection-escape" } else { "file-rt" },
                    format!("written text does not parse: {}", hex(&text)),
                ),
            };
            verdict
        }
        _ => Verdict::ok(false, "?"),
    }
}

// ---------------------------------------------------------------------------------------------
// generator

const BOMS: &[&[u8]] = &[
    &[0xef, 0xbb, 0xbf],
    &[0xfe, 0xff],
    &[0xff, 0xfe],
    &[0, 0, 0xfe, 0xff],
    &[0xff, 0xfe, 0, 0],
    &[0x2b, 0x2f, 0x76, 0x38],
    &[0x2b, 0x2f, 0x76, 0x39],
    &[0x2b, 0x2f, 0x76, 0x2b],
    &[0x2b, 0x2f, 0x76, 0x2f],
    &[0xf7, 0x64, 0x4c],
    &[0xdd, 0x73, 0x66, 0x73],
    &[0x0e, 0xfe, 0xff],
    &[0xfb, 0xee, 0x28],
    &[0x84, 0x31, 0x95, 0x33],
];

struct Style {
    crlf: u64, // chance out of 8 that a newline is CRLF
}

fn nl(rng: &mut Rng, st: &Style, out: &mut Vec<u8>) {
    if rng.below(8) < st.crlf {
        out.extend_from_slice(b"\r\n");
    } else {
        out.push(b'\n');
    }
}

fn ws(rng: &mut Rng, min: usize, max: usize, out: &mut Vec<u8>) {
    let w = rng.word(b"  \t", min, max);
    out.extend_from_slice(&w);
}

fn comment(rng: &mut Rng, out: &mut Vec<u8>) {
    out.push(*rng.pick(b";#"));
    let w = rng.word(b"ab c;#\"\\=[]\t\r", 0, 8);
    out.extend_from_slice(&w);
}

fn section_name(rng: &mut Rng) -> Vec<u8> {
    let mut n = rng.word(b"abCore-09", 1, 5);
    if rng.chance(1, 10) {
        n.insert(0, *rng.pick(b"-.0"));
    }
    n
}

fn header(rng: &mut Rng, out: &mut Vec<u8>) {
    out.push(b'[');
    out.extend_from_slice(&section_name(rng));
    match rng.below(10) {
        0..=2 => {}
        3..=4 => {
            // legacy
            let k = rng.range(1, 2);
            for _ in 0..k {
                out.push(b'.');
                out.extend_from_slice(&rng.word(b"abX-09", 0, 4));
            }
        }
        _ => {
            ws(rng, 1, 2, out);
            out.push(b'"');
            let pieces = rng.range(0, 4);
            for _ in 0..pieces {
                match rng.below(12) {
                    0..=5 => out.extend_from_slice(&rng.word(b"abc/. ]:[;#=\t", 1, 4)),
                    6..=7 => out.extend_from_slice(b"\\\\"),
                    8..=9 => out.extend_from_slice(b"\\\""),
                    10 => out.extend_from_slice(&rng.word(&[0xc3, 0xa4, 0xff, 0x80], 1, 2)),
                    _ => {
                        if rng.chance(1, 3) {
                            // the lossy escapes (known class)
                            out.push(b'\\');
                            out.push(*rng.pick(b"cnt0 ]\x00\r"));
                        } else {
                            out.extend_from_slice(b"\\\\\\\"");
                        }
                    }
                }
            }
            out.push(b'"');
        }
    }
    out.push(b']');
}

fn value(rng: &mut Rng, st: &Style, out: &mut Vec<u8>) {
    let pieces = rng.range(0, 5);
    for _ in 0..pieces {
        match rng.below(16) {
            0..=5 => out.extend_from_slice(&rng.word(b"abctrue10/.:-=[]", 1, 6)),
            6 => ws(rng, 1, 3, out),
            7..=8 => {
                out.push(b'"');
                out.extend_from_slice(&rng.word(b"ab ;#=\t[]", 0, 5));
                if rng.chance(1, 4) {
                    out.extend_from_slice(b"\\\"");
                }
                if rng.chance(1, 6) {
                    out.push(b'\\');
                    nl(rng, st, out);
                    out.extend_from_slice(&rng.word(b"ab ;#", 0, 3));
                }
                out.push(b'"');
            }
            9..=10 => {
                out.push(b'\\');
                out.push(*rng.pick(b"nt\\b\""));
            }
            11..=13 => {
                // continuation line
                if rng.chance(1, 3) {
                    ws(rng, 1, 2, out);
                }
                out.push(b'\\');
                nl(rng, st, out);
                if rng.chance(1, 2) {
                    ws(rng, 1, 3, out);
                }
            }
            14 => out.extend_from_slice(&rng.word(&[0xc3, 0xa4, 0xff, 0x0b, 0x0c], 1, 2)),
            _ => out.extend_from_slice(b"\"\""),
        }
    }
}

fn body_line(rng: &mut Rng, st: &Style, out: &mut Vec<u8>) {
    match rng.below(12) {
        0 => {
            ws(rng, 0, 3, out);
            nl(rng, st, out);
        }
        1 => {
            ws(rng, 0, 3, out);
            comment(rng, out);
            nl(rng, st, out);
        }
        _ => {
            ws(rng, 0, 2, out);
            let mut k = rng.word(b"abKey", 1, 1);
            k.extend_from_slice(&rng.word(b"abKey-09", 0, 4));
            out.extend_from_slice(&k);
            match rng.below(8) {
                0 => {} // implicit boolean
                1 => {
                    ws(rng, 1, 2, out);
                }
                2 => {
                    ws(rng, 0, 1, out);
                    out.push(b'=');
                    ws(rng, 0, 2, out);
                }
                _ => {
                    ws(rng, 0, 1, out);
                    out.push(b'=');
                    ws(rng, 0, 2, out);
                    value(rng, st, out);
                }
            }
            if rng.chance(1, 4) {
                ws(rng, 1, 3, out);
            }
            if rng.chance(1, 5) {
                comment(rng, out);
            }
            if rng.chance(1, 12) {
                // several pairs or a header on one line
            } else {
                nl(rng, st, out);
                if rng.chance(1, 10) {
                    nl(rng, st, out);
                }
            }
        }
    }
}

fn config(rng: &mut Rng) -> Vec<u8> {
    let st = Style {
        crlf: *rng.pick(&[0u64, 0, 0, 8, 8, 3]),
    };
    let mut out = Vec::new();
    if rng.chance(1, 40) {
        let b: &[u8] = *rng.pick::<&[u8]>(BOMS);
        out.extend_from_slice(b);
    }
    let fm = rng.range(0, 3);
    for _ in 0..fm {
        match rng.below(3) {
            0 => {
                ws(rng, 0, 3, &mut out);
                nl(rng, &st, &mut out);
            }
            1 => {
                ws(rng, 0, 2, &mut out);
                comment(rng, &mut out);
                nl(rng, &st, &mut out);
            }
            _ => nl(rng, &st, &mut out),
        }
    }
    let mut ns = rng.range(0, 3);
    if fm == 0 && ns == 0 {
        ns = 1;
    }
    for _ in 0..ns {
        if rng.chance(1, 3) {
            ws(rng, 1, 2, &mut out);
        }
        header(rng, &mut out);
        match rng.below(6) {
            0 => {}
            1 => {
                ws(rng, 1, 2, &mut out);
            }
            2 => {
                ws(rng, 0, 2, &mut out);
                comment(rng, &mut out);
                nl(rng, &st, &mut out);
            }
            _ => nl(rng, &st, &mut out),
        }
        let nb = rng.range(0, 4);
        for _ in 0..nb {
            body_line(rng, &st, &mut out);
        }
    }
    if rng.chance(1, 5) {
        // missing final newline
        while matches!(out.last(), Some(b'\n' | b'\r')) {
            out.pop();
        }
    }
    out
}

fn mutate(rng: &mut Rng, mut t: Vec<u8>) -> Vec<u8> {
    const SPECIAL: &[u8] = b"[]\"\\;#=\n\r \t.a-\x00\x0c\x0b\xff\xef+";
    let k = rng.range(1, 3);
    for _ in 0..k {
        if t.is_empty() {
            t.push(*rng.pick(SPECIAL));
            continue;
        }
        let i = rng.below(t.len() as u64) as usize;
        match rng.below(9) {
            0 => t[i] = *rng.pick(SPECIAL),
            1 => {
                t.remove(i);
            }
            2 | 3 => t.insert(i, *rng.pick(SPECIAL)),
            4 => t.truncate(i),
            5 => {
                let j = (i + rng.range(1, 6) as usize).min(t.len());
                let chunk = t[i..j].to_vec();
                let at = rng.below(t.len() as u64 + 1) as usize;
                for (o, b) in chunk.into_iter().enumerate() {
                    t.insert(at + o, b);
                }
            }
            6 => {
                // LF -> CRLF at one place
                if let Some(p) = t[i..].iter().position(|b| *b == b'\n') {
                    t.insert(i + p, b'\r');
                }
            }
            7 => t[i] ^= 1 << rng.below(8),
            _ => {
                let j = rng.below(t.len() as u64) as usize;
                t.swap(i, j);
            }
        }
    }
    t
}

fn boundary() -> Vec<Vec<u8>> {
    let mut v: Vec<Vec<u8>> = vec![
        b"".to_vec(),
        b"\n".to_vec(),
        b"\r\n".to_vec(),
        b"\r".to_vec(),
        b" ".to_vec(),
        b";".to_vec(),
        b"#c".to_vec(),
        b"[a]".to_vec(),
        b"[a]\n".to_vec(),
        b"[a]b".to_vec(),
        b"[a]b=".to_vec(),
        b"[a]b=c".to_vec(),
        b"[a]\n\tb = c\n".to_vec(),
        b"[a]\r\n\tb = c\r\n".to_vec(),
        b"[a.b]".to_vec(),
        b"[a.b.c]".to_vec(),
        b"[a.]".to_vec(),
        b"[.a]".to_vec(),
        b"[.]".to_vec(),
        b"[]".to_vec(),
        b"[a \"\"]".to_vec(),
        b"[a \"b\"]".to_vec(),
        b"[a\t \"b\"]".to_vec(),
        b"[a \"b\\\\c\\\"\"]".to_vec(),
        b"[a \"b\\c\"]".to_vec(),
        b"[a \"\\\x00\"]".to_vec(),
        b"[a \"b\x00\"]".to_vec(),
        b"[a \"b\n\"]".to_vec(),
        b"[a \"b\\\n\"]".to_vec(),
        b"[a \"b\\".to_vec(),
        b"[a \"b\"".to_vec(),
        b"[a \"b\" ]".to_vec(),
        b"[a\"b\"]".to_vec(),
        b"[a.b \"c\"]".to_vec(),
        b"[a]k=v\\\n  w\n".to_vec(),
        b"[a]k=v\\\r\n  w\r\n".to_vec(),
        b"[a]k=v\\\r".to_vec(),
        b"[a]k=v\\\rx".to_vec(),
        b"[a]k=v\\".to_vec(),
        b"[a]k=v\\\n".to_vec(),
        b"[a]k=v\\\n\n".to_vec(),
        b"[a]k=\\\n".to_vec(),
        b"[a]k=v\\x".to_vec(),
        b"[a]k=\\n\\t\\\\\\b\\\"".to_vec(),
        b"[a]k=\"x;y\" ;c".to_vec(),
        b"[a]k=\"x".to_vec(),
        b"[a]k=\"x\n\"".to_vec(),
        b"[a]k=\"x\\\ny\"".to_vec(),
        b"[a]k=v  \t \n".to_vec(),
        b"[a]k=v \r\n".to_vec(),
        b"[a]k=v\r \n".to_vec(),
        b"[a]k=v\x0c\n".to_vec(),
        b"[a]k=v\x0b\n".to_vec(),
        b"[a]k=  \n".to_vec(),
        b"[a]k= \\\n \n".to_vec(),
        b"[a]k l m=1".to_vec(),
        b"[a]k [b]".to_vec(),
        b"[a][b]".to_vec(),
        b"[a] [b]".to_vec(),
        b"[a]\n[b \"c\"]\n".to_vec(),
        b"[a]1=2".to_vec(),
        b"[a]k=v#c\n;d".to_vec(),
        b"k=v".to_vec(),
        b"; c\n\n  \n[a]".to_vec(),
        b"\xef\xbb\xbf[a]\nk=v\n".to_vec(),
        b"\xef\xbb\xbf".to_vec(),
        b"\xef\xbb".to_vec(),
        b"+/v8[a]".to_vec(),
        b"+/v8\n".to_vec(),
        b"+/v".to_vec(),
        b"+/v7\n".to_vec(),
        b"\xff\xfe\n".to_vec(),
        b"\xff\xfe\x00\x00\n".to_vec(),
        b"\xff\xfe\x00\n".to_vec(),
        b"\xfe\xff;c".to_vec(),
        b"\x00\x00\xfe\xff#".to_vec(),
        b"\xef\xbb\xbf[a \"b\\c\"]".to_vec(),
        b"[a]k=[b \"\\c\"]".to_vec(),
    ];
    for b in BOMS {
        let mut x = b.to_vec();
        x.extend_from_slice(b"[s]\n");
        v.push(x);
        let mut y = b.to_vec();
        y.pop();
        y.push(b'\n');
        v.push(y);
    }
    // take_newlines1 is repeat(1..1024): at most 1023 newlines per event
    for n in [1022usize, 1023, 1024, 1025, 2047] {
        v.push(vec![b'\n'; n]);
        let mut s = b"[a]".to_vec();
        s.extend(std::iter::repeat(b'\n').take(n));
        s.extend_from_slice(b"k=v");
        v.push(s);
    }
    let mut crlf = Vec::new();
    for _ in 0..1023 {
        crlf.extend_from_slice(b"\r\n");
    }
    crlf.push(b'\n');
    v.push(crlf);
    v
}

fn gen(rng: &mut Rng, n: usize) -> Vec<Case> {
    let mut out: Vec<Case> = Vec::new();
    for b in boundary() {
        out.push(vec![tag("ev"), b.clone()]);
        if b.len() < 1500 {
            out.push(vec![tag("file"), b]);
        }
    }
    while out.len() < n {
        let t = match rng.below(40) {
            0..=30 => config(rng),
            31..=36 => {
                let c = config(rng);
                mutate(rng, c)
            }
            37 => rng.word(b"[]\"\\;#=\n\r \t.ab", 0, 12),
            _ => {
                // two configs glued: headers in the middle of lines
                let mut a = config(rng);
                a.extend_from_slice(&config(rng));
                a
            }
        };
        let op = if rng.chance(1, 4) { "file" } else { "ev" };
        out.push(vec![tag(op), t]);
    }
    out.truncate(n.max(1));
    out
}

fn main() {
    main_with(Harness { gen, imp, prop, git: None, deadline: std::time::Duration::from_secs(30) });
}
