(* C26 — the parser never panics and never runs out of fuel: every slice index is in range, the
   "parsers must always consume" assertions of winnow's repeat (the `.expect(..)` in from_bytes)
   are unreachable, and input length + 1 rounds suffice for every loop. *)
From Coq Require Import Lia.
From GixV.Base Require Import Bytes BytesFacts Outcome.
From GixV.C26 Require Import Tables Model Spec Proofs.

Definition safe {A} (o : outcome A perr) : Prop :=
  match o with Ok _ | Err _ => True | Panic | OutOfFuel => False end.

Lemma safe_neq {A} (o : outcome A perr) : safe o -> o <> Panic /\ o <> OutOfFuel.
Proof. destruct o; simpl; intros H; try contradiction; split; discriminate. Qed.

Lemma consumed_len acc acc' i r : consumed_ok acc acc' i r -> (length r <= length i)%nat.
Proof. intros [c [_ ->]]. rewrite app_length. lia. Qed.

(* ---- sub_section ---- *)

Lemma subsection_subset_shorter i p r : subsection_subset i = Some (p, r) -> (length r < length i)%nat.
Proof.
  unfold subsection_subset. destruct (span is_subsection_unescaped_char i) as [a r0] eqn:Es.
  destruct (is_nil a) eqn:En; cbn [negb].
  - destruct i as [|c [|d t]]; try discriminate.
    + intros H. exfalso. destruct c; discriminate H.
    + intros H. assert (Hr : r = t).
      { destruct c; try discriminate H. destruct (is_subsection_escapable_char d); [|discriminate H].
        injection H as _ <-. reflexivity. }
      subst r. simpl. lia.
  - intros H. injection H as <- <-. apply span_app in Es. subst i. apply is_nil_false in En.
    rewrite app_length. destruct a; [congruence|simpl; lia].
Qed.

Lemma sub_section_loop_ok : forall fuel i out, (length i < fuel)%nat ->
  exists sub r, sub_section_loop fuel i out = Ok (sub, r) /\ (length r <= length i)%nat.
Proof.
  induction fuel as [|f IH]; intros i out Hf; [lia|].
  simpl. destruct (subsection_subset i) as [[p r0]|] eqn:E.
  - apply subsection_subset_shorter in E.
    destruct (IH r0 (out ++ p)) as [sub [r [H1 H2]]]; [lia|]. exists sub, r. split; [exact H1|lia].
  - exists out, i. split; [reflexivity|lia].
Qed.

(* ---- section_header ---- *)

Lemma legacy_header_safe name t2 : safe (legacy_header name t2) /\
  forall h r, legacy_header name t2 = Ok (h, r) -> r = t2.
Proof.
  unfold legacy_header. destruct (is_nil _); simpl; split; auto; try discriminate.
  intros h r H. apply Ok_inj in H. injection H as _ <-. reflexivity.
Qed.

Lemma modern_header_safe name t1 : safe (modern_header name t1) /\
  forall h r, modern_header name t1 = Ok (h, r) -> (length r <= length t1)%nat.
Proof.
  unfold modern_header. destruct (take_spaces1 t1) as [[ws t3]|] eqn:Ew; [|simpl; split; [exact I|discriminate]].
  apply take_spaces1_rt in Ew. destruct Ew as [Ht1 _].
  destruct t3 as [|q t4]; [simpl; split; [exact I|discriminate]|].
  destruct (beqb q x22); [|simpl; split; [exact I|discriminate]].
  unfold sub_section. destruct (sub_section_loop_ok (S (length t4)) t4 []) as [sub [t5 [Hs Hl]]]; [lia|].
  rewrite Hs. destruct t5 as [|q2 [|b2 t6]]; try (simpl; split; [exact I|discriminate]).
  destruct (beqb q2 x22 && beqb b2 x5d); [|simpl; split; [exact I|discriminate]].
  simpl. split; [exact I|]. intros h r H. apply Ok_inj in H. injection H as _ <-.
  subst t1. rewrite app_length. simpl in *. lia.
Qed.

Lemma section_header_safe i : safe (section_header i) /\
  forall h r, section_header i = Ok (h, r) -> (length r < length i)%nat.
Proof.
  unfold section_header. destruct i as [|c t]; [simpl; split; [exact I|discriminate]|].
  destruct (beqb c x5b); [|simpl; split; [exact I|discriminate]].
  destruct (span is_section_char t) as [name t1] eqn:Es.
  destruct (is_nil name); [simpl; split; [exact I|discriminate]|].
  apply span_app in Es.
  assert (Hm : safe (modern_header name t1) /\
               forall h r, modern_header name t1 = Ok (h, r) -> (length r < length (c :: t))%nat).
  { destruct (modern_header_safe name t1) as [H1 H2]. split; [exact H1|].
    intros h r H. apply H2 in H. subst t. simpl. rewrite app_length. lia. }
  destruct t1 as [|c1 t2]; [exact Hm|].
  destruct (beqb c1 x5d); [|exact Hm].
  destruct (legacy_header_safe name t2) as [H1 H2]. split; [exact H1|].
  intros h r H. apply H2 in H. subst r t. simpl. rewrite app_length. simpl. lia.
Qed.

(* ---- values ---- *)

Lemma trimmed_len_le l : (trimmed_len l <= length l)%nat.
Proof.
  induction l as [|c t IH]; simpl; [lia|].
  destruct (trimmed_len t); [destruct (is_ascii_ws c); lia|lia].
Qed.

Lemma take_n_some n l : (n <= length l)%nat -> take_n n l = Some (firstn n l, skipn n l).
Proof. intros H. unfold take_n. apply Nat.leb_le in H. rewrite H. reflexivity. Qed.

Lemma value_finish_safe vstart cur ve off inq partial acc :
  (off <= length vstart)%nat -> (forall idx, ve = Some idx -> (idx <= length vstart)%nat) ->
  safe (value_finish vstart cur ve off inq partial acc).
Proof.
  intros Hoff Hve. unfold value_finish. destruct inq; [exact I|].
  assert (Htrim : forall n, (n <= length vstart)%nat ->
    safe (obind (unwrap (take_n n vstart)) (fun x => let (pre, _) := x in
       obind (unwrap (take_n (trimmed_len pre) vstart)) (fun y => let (remainder, rest) := y in
         @Ok _ perr ((if partial then ValueDone remainder else Value remainder) :: acc, rest))))).
  { intros n Hn. rewrite (take_n_some _ _ Hn). simpl.
    rewrite take_n_some; [exact I|].
    pose proof (trimmed_len_le (firstn n vstart)). rewrite firstn_length in H. lia. }
  destruct ve as [idx|].
  - apply Htrim. apply Hve. reflexivity.
  - destruct (Nat.eqb off 0); [exact I|]. apply Htrim. exact Hoff.
Qed.

Lemma continuation_ok vstart off consumed c1 rest :
  skipn off vstart = x5c :: c1 ++ rest -> (off <= length vstart)%nat -> length c1 = consumed ->
  exists e1 e2, continuation vstart off consumed = Ok (e1, e2, rest).
Proof.
  intros Hs Hle Hc. unfold continuation. rewrite (take_n_some _ _ Hle). simpl. rewrite Hs. simpl.
  rewrite take_n_some by (rewrite app_length; lia). simpl.
  rewrite <- Hc, skipn_app, Nat.sub_diag, skipn_all. simpl. eexists. eexists. reflexivity.
Qed.

Lemma value_loop_safe : forall fuel vstart cur off inq partial acc,
  skipn off vstart = cur -> (off <= length vstart)%nat -> (length cur < fuel)%nat ->
  safe (value_loop fuel vstart cur off inq partial acc).
Proof.
  induction fuel as [|f IH]; intros vstart cur off inq partial acc Hs Hle Hf; [lia|].
  simpl. rewrite ?Nat.sub_0_r. destruct cur as [|c t].
  - apply value_finish_safe; [exact Hle|discriminate].
  - destruct (skipn_cons_S _ _ _ _ Hs) as [Hs1 Hlt]. simpl in Hf.
    assert (Hfin : forall cur' inq', safe (value_finish vstart cur' (Some off) (S off) inq' partial acc)).
    { intros. apply value_finish_safe; [lia|]. intros idx E. injection E as <-. lia. }
    destruct (beqb c x0a); [apply Hfin|].
    destruct (is_comment_tag c && negb inq); [apply Hfin|].
    destruct (beqb c x5c) eqn:Ebs.
    2:{ destruct (beqb c x22); apply IH; try exact Hs1; lia. }
    apply beqb_true in Ebs. subst c.
    destruct t as [|c1 t1]; [exact I|].
    destruct (skipn_cons_S _ _ _ _ Hs1) as [Hs2 Hlt2]. simpl in Hf.
    destruct (beqb c1 x0d) eqn:Ecr.
    + apply beqb_true in Ecr. subst c1.
      destruct t1 as [|c2 t2]; [exact I|].
      destruct (beqb c2 x0a) eqn:Elf; [|exact I].
      pose proof Elf as Elf'. apply beqb_true in Elf'. subst c2. cbv zeta iota beta. rewrite beqb_refl.
      destruct (continuation_ok vstart off 2 [x0d; x0a] t2 Hs Hle eq_refl) as [e1 [e2 Hc]].
      rewrite Hc. apply IH; [reflexivity|lia|simpl in Hf; lia].
    + cbv zeta iota beta. destruct (beqb c1 x0a) eqn:Elf.
      * apply beqb_true in Elf. subst c1.
        destruct (continuation_ok vstart off 1 [x0a] t1 Hs Hle eq_refl) as [e1 [e2 Hc]].
        rewrite Hc. apply IH; [reflexivity|lia|lia].
      * destruct (is_value_escape c1); [|exact I].
        apply IH; [|lia|lia]. replace (S (off + 1))%nat with (S (S off)) by lia. exact Hs2.
Qed.

Lemma value_impl_safe i : safe (value_impl i).
Proof.
  unfold value_impl.
  pose proof (value_loop_safe (S (length i)) i i 0 false false [] eq_refl) as H.
  destruct (value_loop _ _ _ _ _ _ _) as [[acc r]| | |]; simpl in *; try exact I; apply H; lia.
Qed.

Lemma config_value_safe i : safe (config_value i).
Proof.
  unfold config_value. destruct i as [|c t]; [exact I|].
  destruct (beqb c x3d) eqn:Ec.
  - apply beqb_true in Ec. subst c. destruct (span is_space t) as [ws r1].
    pose proof (value_impl_safe r1) as H. destruct (value_impl r1) as [[evs r2]| | |]; simpl in *; auto.
  - destruct c; try exact I. discriminate Ec.
Qed.

Lemma key_value_pair_safe i : safe (key_value_pair i).
Proof.
  unfold key_value_pair. destruct (config_name i) as [[name r]|]; [|exact I].
  destruct (span is_space r) as [ws r1].
  pose proof (config_value_safe r1) as H. destruct (config_value r1) as [[evs r2]| | |]; simpl in *; auto.
Qed.

(* ---- sections ---- *)

Lemma section_loop_safe : forall fuel i acc, (length i < fuel)%nat -> safe (section_loop fuel i acc).
Proof.
  induction fuel as [|f IH]; intros i acc Hf; [lia|].
  simpl.
  destruct (span is_space i) as [ws i1] eqn:Ews. apply span_app in Ews.
  set (acc1 := rev_append (ws_event ws) acc).
  assert (C2 : forall acc2 i2, (length i2 <= length i1)%nat ->
     safe (match key_value_pair i2 with
      | Ok (evs, i3) =>
          let acc3 := rev_append evs acc2 in
          let '(acc4, i4) := match comment i3 with
                             | Some (c, r) => (c :: acc3, r)
                             | None => (acc3, i3)
                             end in
          if Nat.eqb (length i4) (length i) then Ok (acc4, i4) else section_loop f i4 acc4
      | Err e => Err e | Panic => Panic | OutOfFuel => OutOfFuel
      end)).
  { intros acc2 i2 Hl2. pose proof (key_value_pair_safe i2) as Hk.
    destruct (key_value_pair i2) as [[evs i3]| | |] eqn:Ek; simpl in Hk; try exact I; try contradiction.
    apply key_value_pair_rt in Ek. cbv zeta.
    assert (Hl3 : (length i3 <= length i)%nat).
    { subst i i2. rewrite !app_length in *. lia. }
    assert (C4 : forall acc4 i4, (length i4 <= length i3)%nat ->
       safe (if Nat.eqb (length i4) (length i) then Ok (acc4, i4) else section_loop f i4 acc4)).
    { intros acc4 i4 Hl4. destruct (Nat.eqb (length i4) (length i)) eqn:El; [exact I|].
      apply Nat.eqb_neq in El. apply IH. lia. }
    destruct (comment i3) as [[c r0]|] eqn:Ec.
    - apply C4. apply comment_rt in Ec. subst i3. rewrite app_length. lia.
    - apply C4. lia. }
  destruct (take_newlines1 i1) as [[v r0]|] eqn:En.
  - apply C2. apply take_newlines1_rt in En. destruct En as [-> _]. rewrite app_length. lia.
  - apply C2. lia.
Qed.

Lemma section_safe i acc : safe (section (S (length i)) i acc) /\
  forall acc' r, section (S (length i)) i acc = Ok (acc', r) -> (length r < length i)%nat.
Proof.
  unfold section. destruct (section_header_safe i) as [H1 H2].
  destruct (section_header i) as [[h r0]| | |] eqn:Eh; simpl in H1; try contradiction.
  - specialize (H2 _ _ eq_refl). split.
    + apply section_loop_safe. lia.
    + intros acc' r H. apply section_loop_rt in H. apply consumed_len in H. lia.
  - split; [exact I|discriminate].
Qed.

Lemma sections_more_safe : forall fuel i acc, (length i < fuel)%nat -> safe (sections_more fuel i acc).
Proof.
  induction fuel as [|f IH]; intros i acc Hf; [lia|].
  simpl. destruct (section_safe i acc) as [H1 H2].
  destruct (section (S (length i)) i acc) as [[acc1 r1]| | |] eqn:Es; simpl in H1; try contradiction; try exact I.
  specialize (H2 _ _ eq_refl).
  destruct (Nat.eqb (length r1) (length i)) eqn:El. { apply Nat.eqb_eq in El. lia. }
  apply IH. lia.
Qed.

Lemma event_write_nonempty_item i e r : frontmatter_item i = Some (e, r) -> (length r < length i)%nat.
Proof.
  intros H. pose proof (frontmatter_item_rt _ _ _ H) as Hi. subst i. rewrite app_length.
  unfold frontmatter_item in H. destruct (comment (event_write e ++ r)) as [[e0 r0]|] eqn:Ec.
  - injection H as <- <-. unfold comment in Ec. destruct (event_write e0 ++ r0) as [|c t]; [discriminate|].
    destruct (is_comment_tag c); [|discriminate]. destruct (span not_lf t). injection Ec as <- _. simpl. lia.
  - destruct (take_spaces1 _) as [[v r0]|] eqn:Es.
    + injection H as <- <-. apply take_spaces1_rt in Es. destruct Es as [_ [Hne _]]. simpl. destruct v; [congruence|simpl; lia].
    + destruct (take_newlines1 _) as [[v r0]|] eqn:En; [|discriminate].
      injection H as <- <-. apply take_newlines1_rt in En. destruct En as [_ Hne]. simpl. destruct v; [congruence|simpl; lia].
Qed.

Lemma frontmatter_safe : forall fuel i acc, (length i < fuel)%nat -> safe (frontmatter fuel i acc).
Proof.
  induction fuel as [|f IH]; intros i acc Hf; [lia|].
  simpl. destruct (frontmatter_item i) as [[e r]|] eqn:Ei; [|exact I].
  apply event_write_nonempty_item in Ei.
  destruct (Nat.eqb (length r) (length i)) eqn:El. { apply Nat.eqb_eq in El. lia. }
  apply IH. lia.
Qed.

(* ---- from_bytes ---- *)

Lemma compare_tail_len s len p from : compare_tail s len p from = true -> (len <= length s)%nat.
Proof. unfold compare_tail. intros H. apply andb_prop in H. destruct H as [H _]. apply Nat.leb_le. exact H. Qed.

Lemma bom_len_le input : (bom_len input <= length input)%nat.
Proof.
  destruct input as [|c0 [|c1 rest]]; try (simpl; lia).
  destruct c0; try (cbn [bom_len]; lia); cbn [bom_len];
  try (destruct (tail1 _ _) eqn:E; [apply compare_tail_len in E; simpl in *; lia|lia]).
  - destruct (compare_tail _ 4 _ 1) eqn:E; [|simpl; lia]. apply compare_tail_len in E.
    destruct (match nth 3 _ _ with x38 | x39 | x2b | x2f => true | _ => false end); simpl in *; lia.
  - destruct (beqb c1 xff); simpl; lia.
  - destruct (beqb c1 xfe); [|lia]. destruct (compare_tail _ 4 _ 2) eqn:E; [apply compare_tail_len in E; simpl in *; lia|simpl; lia].
Qed.

Lemma L_from_bytes_safe input : safe (from_bytes input).
Proof.
  unfold from_bytes. rewrite (take_n_some _ _ (bom_len_le input)).
  set (i0 := skipn (bom_len input) input).
  pose proof (frontmatter_safe (S (length i0)) i0 [] (Nat.lt_succ_diag_r _)) as Hf.
  destruct (frontmatter (S (length i0)) i0 []) as [[acc i1]| | |]; simpl in Hf; try contradiction; try exact I.
  destruct (is_nil i1); [exact I|].
  destruct (section_safe i1 acc) as [H1 _].
  destruct (section (S (length i1)) i1 acc) as [[acc1 i2]| | |]; simpl in H1; try contradiction; try exact I.
  pose proof (sections_more_safe (S (length i2)) i2 acc1 (Nat.lt_succ_diag_r _)) as Hm.
  destruct (sections_more (S (length i2)) i2 acc1) as [[acc2 i3]| | |]; simpl in Hm; try contradiction; try exact I.
  destruct (is_nil i3); exact I.
Qed.

Lemma L_from_bytes_total input : from_bytes input <> Panic /\ from_bytes input <> OutOfFuel.
Proof. apply safe_neq. apply L_from_bytes_safe. Qed.

Lemma L_events_parser_total input :
  events_from_bytes input <> Panic /\ events_from_bytes input <> OutOfFuel.
Proof.
  unfold events_from_bytes. destruct (L_from_bytes_total input) as [H1 H2].
  destruct (from_bytes input); split; try discriminate; congruence.
Qed.

(* ---- witnesses against the full statement ---- *)

Lemma L_refuted_bom :
  exists input evs, from_bytes input = Ok evs /\ serialize evs <> input /\
                    has_bom input = true /\ subsection_escape_class input = false.
Proof.
  exists (xef :: xbb :: xbf :: bs "[a]"), [SectionHeader (Header (bs "a") None None)].
  repeat split; try reflexivity. discriminate.
Qed.

Lemma L_refuted_subsection_escape :
  exists input evs, from_bytes input = Ok evs /\ serialize evs <> input /\
                    has_bom input = false /\ subsection_escape_class input = true.
Proof.
  exists (bs "[a " ++ [x22] ++ bs "b\c" ++ [x22] ++ bs "]"),
         [SectionHeader (Header (bs "a") (Some (bs " ")) (Some (bs "bc")))].
  repeat split; try reflexivity. discriminate.
Qed.

Lemma L_refuted : ~ (forall input evs, from_bytes input = Ok evs -> serialize evs = input).
Proof.
  intros H. destruct L_refuted_bom as [i [e [H1 [H2 _]]]]. exact (H2 (H i e H1)).
Qed.

Lemma L_events_struct_rt input e :
  events_from_bytes input = Ok e -> has_bom input = false -> subsection_escape_class input = false ->
  serialize (into_vec e) = input.
Proof.
  intros H. exact (L_events_roundtrip_except_known input (into_vec e) (L_events_from_bytes_flat input e H)).
Qed.
