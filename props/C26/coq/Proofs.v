(* C26 — lemmas.  Per-parser round-trip facts, composed to the event round trip of from_bytes. *)
From Coq Require Import Lia.
From GixV.Base Require Import Bytes BytesFacts Outcome.
From GixV.C26 Require Import Tables Model Spec.

(* ---- generic list/byte facts ------------------------------------------------------------- *)

Lemma beqb_true a b : beqb a b = true -> a = b.
Proof. apply beqb_eq. Qed.

Lemma beqb_refl a : beqb a a = true.
Proof. apply beqb_eq. reflexivity. Qed.

Lemma is_nil_true {A} (l : list A) : is_nil l = true -> l = [].
Proof. destruct l; simpl; congruence. Qed.
Lemma is_nil_false {A} (l : list A) : is_nil l = false -> l <> [].
Proof. destruct l; simpl; congruence. Qed.

Lemma span_app p : forall l a r, span p l = (a, r) -> l = a ++ r.
Proof.
  induction l as [|c t IH]; simpl; intros a r H.
  - injection H as <- <-. reflexivity.
  - destruct (p c).
    + destruct (span p t) as [a' r'] eqn:E. injection H as <- <-. simpl. f_equal. eapply IH; reflexivity.
    + injection H as <- <-. reflexivity.
Qed.

Lemma span_all p : forall l a r, span p l = (a, r) -> forallb p a = true.
Proof.
  induction l as [|c t IH]; simpl; intros a r H.
  - injection H as <- <-. reflexivity.
  - destruct (p c) eqn:Ec.
    + destruct (span p t) as [a' r'] eqn:E. injection H as <- <-. simpl. rewrite Ec. simpl. eapply IH; reflexivity.
    + injection H as <- <-. reflexivity.
Qed.

Lemma span_rest p : forall l a r, span p l = (a, r) -> match r with [] => True | c :: _ => p c = false end.
Proof.
  induction l as [|c t IH]; simpl; intros a r H.
  - injection H as <- <-. exact I.
  - destruct (p c) eqn:Ec.
    + destruct (span p t) as [a' r'] eqn:E. injection H as <- <-. eapply IH; reflexivity.
    + injection H as <- <-. exact Ec.
Qed.

Lemma newlines_app : forall n i a r, newlines n i = (a, r) -> i = a ++ r.
Proof.
  induction n as [|n IH]; simpl; intros i a r H.
  - injection H as <- <-. reflexivity.
  - destruct i as [|c t]. { injection H as <- <-. reflexivity. }
    destruct (beqb c x0a) eqn:E1.
    + apply beqb_true in E1. subst c.
      destruct (newlines n t) as [a' r'] eqn:E. injection H as <- <-. simpl. f_equal. eapply IH; exact E.
    + destruct (beqb c x0d) eqn:E2.
      * apply beqb_true in E2. subst c.
        destruct t as [|c2 t2]. { injection H as <- <-. reflexivity. }
        destruct (beqb c2 x0a) eqn:E3.
        -- apply beqb_true in E3. subst c2.
           destruct (newlines n t2) as [a' r'] eqn:E. injection H as <- <-. simpl. do 2 f_equal. eapply IH; exact E.
        -- assert (Hr : (a, r) = ([], x0d :: c2 :: t2)).
           { rewrite <- H. destruct c2; try reflexivity. discriminate E3. }
           injection Hr as -> ->. reflexivity.
      * assert (Hr : (a, r) = ([], c :: t)).
        { rewrite <- H. destruct c; try reflexivity; discriminate. }
        injection Hr as -> ->. reflexivity.
Qed.

(* ---- serialisation of accumulated (reversed) events --------------------------------------- *)

Definition ser_rev (acc : list event) : bytes := serialize (rev acc).

Lemma serialize_app a b : serialize (a ++ b) = serialize a ++ serialize b.
Proof. unfold serialize. apply flat_map_app. Qed.

Lemma ser_rev_cons e acc : ser_rev (e :: acc) = ser_rev acc ++ event_write e.
Proof. unfold ser_rev. simpl. rewrite serialize_app. simpl. rewrite app_nil_r. reflexivity. Qed.

Lemma ser_rev_rev_append evs acc : ser_rev (rev_append evs acc) = ser_rev acc ++ serialize evs.
Proof.
  unfold ser_rev. rewrite rev_append_rev, rev_app_distr, rev_involutive, serialize_app. reflexivity.
Qed.

Lemma serialize_ws_event ws : serialize (ws_event ws) = ws.
Proof.
  unfold ws_event. destruct ws; simpl; [reflexivity|]. rewrite app_nil_r. reflexivity.
Qed.

(* ---- leaf parsers ------------------------------------------------------------------------- *)

Lemma comment_rt i e r : comment i = Some (e, r) -> i = event_write e ++ r.
Proof.
  unfold comment. destruct i as [|c t]; [discriminate|].
  destruct (is_comment_tag c); [|discriminate].
  destruct (span not_lf t) as [text r'] eqn:E. intros H. injection H as <- <-.
  simpl. f_equal. eapply span_app. exact E.
Qed.

Lemma take_spaces1_rt i a r : take_spaces1 i = Some (a, r) ->
  i = a ++ r /\ a <> [] /\ forallb is_space a = true.
Proof.
  unfold take_spaces1. destruct (span is_space i) as [a' r'] eqn:E.
  destruct (is_nil a') eqn:En; [discriminate|]. intros H. injection H as <- <-.
  split; [eapply span_app; exact E|]. split; [apply is_nil_false; exact En|eapply span_all; exact E].
Qed.

Lemma take_newlines1_rt i a r : take_newlines1 i = Some (a, r) -> i = a ++ r /\ a <> [].
Proof.
  unfold take_newlines1. destruct (newlines (newline_repeat_end - 1) i) as [a' r'] eqn:E.
  destruct (is_nil a') eqn:En; [discriminate|]. intros H. injection H as <- <-.
  split; [eapply newlines_app; exact E|apply is_nil_false; exact En].
Qed.

Lemma config_name_rt i a r : config_name i = Some (a, r) -> i = a ++ r /\ a <> [].
Proof.
  unfold config_name. destruct i as [|c t]; [discriminate|].
  destruct (is_alpha c); [|discriminate].
  destruct (span is_name_char t) as [a' r'] eqn:E. intros H. injection H as <- <-.
  split; [|discriminate]. simpl. f_equal. eapply span_app. exact E.
Qed.

(* ---- value_impl ----------------------------------------------------------------------------- *)

Lemma take_n_spec n l a b : take_n n l = Some (a, b) -> l = a ++ b /\ length a = n /\ a = firstn n l /\ b = skipn n l.
Proof.
  unfold take_n. destruct (Nat.leb n (length l)) eqn:E; [|discriminate].
  intros H. injection H as <- <-. apply Nat.leb_le in E.
  split; [symmetry; apply firstn_skipn|]. split; [apply firstn_length_le; exact E|split; reflexivity].
Qed.

Lemma skipn_cons_S {A} : forall off (l : list A) c t, skipn off l = c :: t -> skipn (S off) l = t /\ (off < length l)%nat.
Proof.
  induction off as [|off IH]; intros l c t H.
  - simpl in H. subst l. simpl. split; [reflexivity|lia].
  - destruct l as [|x l']; [discriminate|]. simpl in H. apply IH in H. destruct H as [H1 H2].
    split; [exact H1|simpl; lia].
Qed.

(* what the loop has consumed so far, in terms of the accumulated events *)
Definition consumed_ok (acc acc' : list event) (i r : bytes) : Prop :=
  exists c, ser_rev acc' = ser_rev acc ++ c /\ i = c ++ r.

Lemma consumed_ok_trans acc acc1 acc2 i r1 r2 :
  consumed_ok acc acc1 i r1 -> consumed_ok acc1 acc2 r1 r2 -> consumed_ok acc acc2 i r2.
Proof.
  intros [c1 [H1 H2]] [c2 [H3 H4]]. exists (c1 ++ c2). split.
  - rewrite H3, H1, app_assoc. reflexivity.
  - rewrite H2, H4, app_assoc. reflexivity.
Qed.

Lemma consumed_ok_refl acc i : consumed_ok acc acc i i.
Proof. exists []. rewrite app_nil_r. split; reflexivity. Qed.

Lemma value_finish_rt vstart cur ve off inq partial acc acc' r :
  value_finish vstart cur ve off inq partial acc = Ok (acc', r) ->
  (ve = None -> off = 0%nat -> cur = vstart) ->
  consumed_ok acc acc' vstart r.
Proof.
  unfold value_finish. destruct inq; [discriminate|].
  assert (Htrim : forall n,
    (obind (unwrap (take_n n vstart)) (fun x => let (pre, _) := x in
       obind (unwrap (take_n (trimmed_len pre) vstart)) (fun y => let (remainder, rest) := y in
         @Ok _ perr ((if partial then ValueDone remainder else Value remainder) :: acc, rest)))) = Ok (acc', r) ->
    consumed_ok acc acc' vstart r).
  { intros n H. destruct (take_n n vstart) as [[pre x]|]; [|discriminate]. simpl in H.
    destruct (take_n (trimmed_len pre) vstart) as [[rem rest]|] eqn:E2; [|discriminate]. simpl in H.
    apply Ok_inj in H. injection H as <- <-. apply take_n_spec in E2. destruct E2 as [E2 _].
    exists rem. split; [|exact E2]. rewrite ser_rev_cons. destruct partial; reflexivity. }
  destruct ve as [idx|].
  - intros H _. apply (Htrim idx). exact H.
  - destruct (Nat.eqb off 0) eqn:E0.
    + intros H Hc. apply Ok_inj in H. injection H as <- <-. apply Nat.eqb_eq in E0.
      rewrite (Hc eq_refl E0). exists []. split; [rewrite ser_rev_cons; destruct partial; reflexivity|reflexivity].
    + intros H _. apply (Htrim off). exact H.
Qed.

Lemma continuation_rt vstart off consumed e1 e2 r2 c1 rest :
  continuation vstart off consumed = Ok (e1, e2, r2) ->
  skipn off vstart = x5c :: c1 ++ rest -> (off <= length vstart)%nat -> length c1 = consumed ->
  r2 = rest /\ event_write e1 ++ event_write e2 = firstn off vstart ++ x5c :: c1.
Proof.
  unfold continuation. intros H Hs Hle Hc.
  destruct (take_n off vstart) as [[v r]|] eqn:E1; [|discriminate]. simpl in H.
  apply take_n_spec in E1. destruct E1 as [_ [_ [Ev Er]]]. rewrite Hs in Er. subst r. simpl in H.
  destruct (take_n consumed (c1 ++ rest)) as [[nlb r2']|] eqn:E2; [|discriminate]. simpl in H.
  apply Ok_inj in H. injection H as <- <- <-.
  apply take_n_spec in E2. destruct E2 as [_ [_ [En Er2]]].
  rewrite <- Hc in En, Er2. rewrite firstn_app, Nat.sub_diag, firstn_all in En. simpl in En. rewrite app_nil_r in En.
  rewrite skipn_app, Nat.sub_diag, skipn_all in Er2. simpl in Er2.
  subst. split; [reflexivity|]. simpl. rewrite <- app_assoc. reflexivity.
Qed.

Lemma value_loop_rt : forall fuel vstart cur off inq partial acc acc' r,
  value_loop fuel vstart cur off inq partial acc = Ok (acc', r) ->
  skipn off vstart = cur -> (off <= length vstart)%nat ->
  consumed_ok acc acc' vstart r.
Proof.
  induction fuel as [|f IH]; intros vstart cur off inq partial acc acc' r H Hs Hle; [discriminate|].
  simpl in H. rewrite ?Nat.sub_0_r in H. destruct cur as [|c t].
  - eapply value_finish_rt; [exact H|]. intros _ H0. subst off. simpl in Hs. symmetry. exact Hs.
  - destruct (skipn_cons_S _ _ _ _ Hs) as [Hs1 Hlt].
    destruct (beqb c x0a). { eapply value_finish_rt; [exact H|discriminate]. }
    destruct (is_comment_tag c && negb inq). { eapply value_finish_rt; [exact H|discriminate]. }
    destruct (beqb c x5c) eqn:Ebs.
    2:{ destruct (beqb c x22); eapply IH; try exact H; try exact Hs1; lia. }
    apply beqb_true in Ebs. subst c.
    destruct t as [|c1 t1]; [discriminate|].
    destruct (skipn_cons_S _ _ _ _ Hs1) as [Hs2 Hlt2].
    destruct (beqb c1 x0d) eqn:Ecr.
    + apply beqb_true in Ecr. subst c1.
      destruct t1 as [|c2 t2]; [discriminate|].
      destruct (beqb c2 x0a) eqn:Elf; [|discriminate].
      pose proof Elf as Elf'. apply beqb_true in Elf'. subst c2. cbv zeta iota beta in H.
      rewrite beqb_refl in H.
      destruct (continuation vstart off 2) as [[[e1 e2] r2]| | |] eqn:Ec; try discriminate.
      destruct (continuation_rt _ _ _ _ _ _ [x0d; x0a] t2 Ec Hs Hle eq_refl) as [-> Hw].
      eapply consumed_ok_trans; [|eapply IH; [exact H|reflexivity|lia]].
      exists (firstn off vstart ++ [x5c; x0d; x0a]). split.
      * rewrite !ser_rev_cons, <- app_assoc. f_equal. exact Hw.
      * rewrite <- app_assoc. simpl. rewrite <- Hs. symmetry. apply firstn_skipn.
    + cbv zeta in H. cbv iota beta in H.
      destruct (beqb c1 x0a) eqn:Elf.
      * apply beqb_true in Elf. subst c1.
       
        destruct (continuation vstart off 1) as [[[e1 e2] r2]| | |] eqn:Ec; try discriminate.
        destruct (continuation_rt _ _ _ _ _ _ [x0a] t1 Ec Hs Hle eq_refl) as [-> Hw].
        eapply consumed_ok_trans; [|eapply IH; [exact H|reflexivity|lia]].
        exists (firstn off vstart ++ [x5c; x0a]). split.
        -- rewrite !ser_rev_cons, <- app_assoc. f_equal. exact Hw.
        -- rewrite <- app_assoc. simpl. rewrite <- Hs. symmetry. apply firstn_skipn.
      * destruct (is_value_escape c1); [|discriminate].
        eapply IH; [exact H| |lia]. replace (S (off + 1))%nat with (S (S off)) by lia. exact Hs2.
Qed.

Lemma value_impl_rt i evs r : value_impl i = Ok (evs, r) -> i = serialize evs ++ r.
Proof.
  unfold value_impl.
  destruct (value_loop (S (length i)) i i 0 false false []) as [[acc r']| | |] eqn:E; try discriminate.
  intros H. apply Ok_inj in H. injection H as <- <-.
  apply value_loop_rt in E; [|reflexivity|lia]. destruct E as [c [H1 H2]].
  unfold ser_rev in H1. simpl in H1. rewrite H1. exact H2.
Qed.

Lemma config_value_rt i evs r : config_value i = Ok (evs, r) -> i = serialize evs ++ r.
Proof.
  unfold config_value. intros H.
  assert (Hd : forall c t, i = c :: t -> beqb c x3d = false -> i = serialize evs ++ r).
  { intros c t -> Hc. destruct c; try discriminate Hc; apply Ok_inj in H; injection H as <- <-; reflexivity. }
  destruct i as [|c t]. { apply Ok_inj in H. injection H as <- <-. reflexivity. }
  destruct (beqb c x3d) eqn:Ec; [|eapply Hd; [reflexivity|exact Ec]].
  apply beqb_true in Ec. subst c.
  destruct (span is_space t) as [ws r1] eqn:Es.
  destruct (value_impl r1) as [[vevs r2]| | |] eqn:Ev; try discriminate.
  apply Ok_inj in H. injection H as <- <-.
  apply value_impl_rt in Ev. apply span_app in Es. subst t r1.
  change (serialize (KeyValueSeparator :: ws_event ws ++ vevs)) with (x3d :: serialize (ws_event ws ++ vevs)).
  rewrite serialize_app, serialize_ws_event. simpl. rewrite <- app_assoc. reflexivity.
Qed.

Lemma key_value_pair_rt i evs r : key_value_pair i = Ok (evs, r) -> i = serialize evs ++ r.
Proof.
  unfold key_value_pair. destruct (config_name i) as [[name r0]|] eqn:En.
  - destruct (span is_space r0) as [ws r1] eqn:Es.
    destruct (config_value r1) as [[vevs r2]| | |] eqn:Ev; try discriminate.
    intros H. apply Ok_inj in H. injection H as <- <-.
    apply config_value_rt in Ev. apply span_app in Es. apply config_name_rt in En. destruct En as [En _].
    subst i r0 r1.
    change (serialize (SectionValueName name :: ws_event ws ++ vevs)) with (name ++ serialize (ws_event ws ++ vevs)).
    rewrite serialize_app, serialize_ws_event, <- !app_assoc. reflexivity.
  - intros H. apply Ok_inj in H. injection H as <- <-. reflexivity.
Qed.

(* ---- section headers -------------------------------------------------------------------------- *)

Lemma memrchr_spec c : forall l k, memrchr c l = Some k -> l = firstn k l ++ c :: skipn (S k) l /\ (k < length l)%nat.
Proof.
  induction l as [|x t IH]; simpl; intros k H; [discriminate|].
  destruct (memrchr c t) as [k'|] eqn:E.
  - injection H as <-. destruct (IH k' eq_refl) as [H1 H2]. split; [|lia].
    cbn [firstn]. change (skipn (S (S k')) (x :: t)) with (skipn (S k') t).
    change ((x :: firstn k' t) ++ c :: skipn (S k') t) with (x :: (firstn k' t ++ c :: skipn (S k') t)).
    f_equal. exact H1.
  - destruct (beqb x c) eqn:Ex; [|discriminate]. injection H as <-. apply beqb_true in Ex. subst x.
    simpl. split; [reflexivity|lia].
Qed.

Lemma get_range_one l k c : l = firstn k l ++ c :: skipn (S k) l -> (k < length l)%nat ->
  get_range k (S k) l = Some [c].
Proof.
  intros H Hk. unfold get_range.
  assert (E1 : Nat.leb k (S k) = true) by (apply Nat.leb_le; lia).
  assert (E2 : Nat.leb (S k) (length l) = true) by (apply Nat.leb_le; lia).
  rewrite E1, E2. cbn [andb]. f_equal. replace (S k - k)%nat with 1%nat by lia.
  assert (Hs : skipn k l = c :: skipn (S k) l).
  { rewrite H at 1. rewrite skipn_app, firstn_length_le by lia. rewrite Nat.sub_diag. simpl.
    rewrite skipn_all2; [reflexivity|]. rewrite firstn_length_le; lia. }
  rewrite Hs. reflexivity.
Qed.

Lemma get_range_tail l k : (k <= length l)%nat -> get_range k (length l) l = Some (skipn k l).
Proof.
  intros Hk. unfold get_range.
  assert (E1 : Nat.leb k (length l) = true) by (apply Nat.leb_le; lia).
  rewrite E1, Nat.leb_refl. cbn [andb]. f_equal. apply firstn_all2. rewrite skipn_length. lia.
Qed.

Lemma escape_cons c t : escape_subsection (c :: t) =
  (if beqb c x5c then [x5c; x5c] else if beqb c x22 then [x5c; x22] else [c]) ++ escape_subsection t.
Proof. destruct c; reflexivity. Qed.

Lemma escape_app a : forall b, escape_subsection (a ++ b) = escape_subsection a ++ escape_subsection b.
Proof.
  induction a as [|c t IH]; intros b; [reflexivity|].
  change ((c :: t) ++ b) with (c :: (t ++ b)). rewrite !escape_cons, IH, app_assoc. reflexivity.
Qed.

Lemma unescaped_not_special c : is_subsection_unescaped_char c = true -> beqb c x5c = false /\ beqb c x22 = false.
Proof. destruct c; try discriminate; split; reflexivity. Qed.

Lemma escape_plain a : forallb is_subsection_unescaped_char a = true -> escape_subsection a = a.
Proof.
  induction a as [|c t IH]; [reflexivity|]. simpl forallb. intros H. apply andb_prop in H. destruct H as [Hc Ht].
  rewrite escape_cons. destruct (unescaped_not_special c Hc) as [-> ->]. simpl. f_equal. apply IH. exact Ht.
Qed.

Lemma lossy_skip_plain a r : forallb is_subsection_unescaped_char a = true ->
  has_lossy_escape (a ++ r) = has_lossy_escape r.
Proof.
  induction a as [|c t IH]; [reflexivity|]. simpl forallb. intros H. apply andb_prop in H. destruct H as [Hc Ht].
  destruct (unescaped_not_special c Hc) as [E1 E2].
  change ((c :: t) ++ r) with (c :: (t ++ r)). cbn [has_lossy_escape]. rewrite E1, E2. apply IH. exact Ht.
Qed.

Lemma sub_section_loop_rt : forall fuel i out sub r,
  sub_section_loop fuel i out = Ok (sub, r) ->
  has_lossy_escape i = false ->
  exists p, sub = out ++ p /\ i = escape_subsection p ++ r.
Proof.
  induction fuel as [|f IH]; intros i out sub r H Hl; [discriminate|].
  simpl in H. unfold subsection_subset in H.
  destruct (span is_subsection_unescaped_char i) as [a r0] eqn:Es.
  destruct (is_nil a) eqn:En; cbn [negb] in H.
  - (* escaped byte or stop *)
    assert (Hstop : (sub, r) = (out, i) -> exists p, sub = out ++ p /\ i = escape_subsection p ++ r).
    { intros E. injection E as -> ->. exists []. rewrite app_nil_r. split; reflexivity. }
    destruct i as [|c t]. { apply Ok_inj in H. auto. }
    destruct (beqb c x5c) eqn:Ec.
    2:{ assert (H' : @Ok _ perr (out, c :: t) = Ok (sub, r)). { rewrite <- H. destruct c; try reflexivity. discriminate Ec. }
        apply Ok_inj in H'. auto. }
    apply beqb_true in Ec. subst c.
    destruct t as [|d t']. { apply Ok_inj in H. auto. }
    destruct (is_subsection_escapable_char d) eqn:Ed.
    2:{ apply Ok_inj in H. auto. }
    cbn [has_lossy_escape] in Hl. rewrite beqb_refl in Hl.
    assert (E22 : beqb x5c x22 = false) by reflexivity. rewrite E22 in Hl.
    destruct (beqb d x5c || beqb d x22) eqn:Edd; [|discriminate].
    destruct (IH _ _ _ _ H Hl) as [p [Hp1 Hp2]].
    exists (d :: p). split. { rewrite Hp1, <- app_assoc. reflexivity. }
    rewrite escape_cons. apply orb_prop in Edd. destruct Edd as [Edd|Edd].
    + rewrite Edd. apply beqb_true in Edd. subst d. simpl. rewrite <- Hp2. reflexivity.
    + rewrite Edd. destruct (beqb d x5c) eqn:E5.
      * apply beqb_true in E5. apply beqb_true in Edd. congruence.
      * apply beqb_true in Edd. subst d. simpl. rewrite <- Hp2. reflexivity.
  - pose proof (span_app _ _ _ _ Es) as Hi. pose proof (span_all _ _ _ _ Es) as Ha. subst i.
    rewrite lossy_skip_plain in Hl by exact Ha.
    destruct (IH _ _ _ _ H Hl) as [p [Hp1 Hp2]].
    exists (a ++ p). split. { rewrite Hp1, <- app_assoc. reflexivity. }
    rewrite escape_app, escape_plain by exact Ha. rewrite <- app_assoc, <- Hp2. reflexivity.
Qed.


Lemma sec_char_eq c : sec_char c = is_section_char c.
Proof.
  apply eqb_prop. revert c. apply forall_bytes. vm_compute. reflexivity.
Qed.
Lemma blank_eq c : blank c = is_space c.
Proof.
  apply eqb_prop. revert c. apply forall_bytes. vm_compute. reflexivity.
Qed.

Lemma skip_while_span p q : (forall c, p c = q c) -> forall l a r, span q l = (a, r) -> skip_while p l = r.
Proof.
  intros Hpq. induction l as [|c t IH]; simpl; intros a r H.
  - injection H as <- <-. reflexivity.
  - rewrite Hpq. destruct (q c).
    + destruct (span q t) as [a' r'] eqn:E. injection H as <- <-. eapply IH. reflexivity.
    + injection H as <- <-. reflexivity.
Qed.

Lemma space_not_dot ws : ws <> [] -> forallb is_space ws = true -> bytes_eqb ws [x2e] = false.
Proof.
  destruct ws as [|c t]; [congruence|]. intros _ H. simpl in H. apply andb_prop in H. destruct H as [H _].
  destruct c; try discriminate H; reflexivity.
Qed.

Lemma legacy_header_rt name t2 h r : legacy_header name t2 = Ok (h, r) ->
  x5b :: name ++ x5d :: t2 = header_write h ++ r.
Proof.
  unfold legacy_header. destruct (memrchr x2e name) as [k|] eqn:Em.
  - destruct (memrchr_spec _ _ _ Em) as [Hn Hk].
    rewrite (get_range_one _ _ _ Hn Hk), (get_range_tail name (S k)) by lia.
    cbn [hname]. destruct (is_nil (firstn k name)); [discriminate|].
    intros H. apply Ok_inj in H. injection H as <- <-.
    unfold header_write. cbn [hname hsep hsub].
    change (bytes_eqb [x2e] [x2e]) with true. cbv iota.
    assert (Hg : forall A B, name = A ++ x2e :: B ->
                 x5b :: name ++ x5d :: t2 = (x5b :: A ++ ([x2e] ++ B) ++ [x5d]) ++ t2).
    { intros A B HAB. clear - HAB. subst name. cbn [app]. f_equal.
      repeat (rewrite <- app_assoc; cbn [app]). reflexivity. }
    apply Hg. exact Hn.
  - cbn [hname]. destruct (is_nil name); [discriminate|].
    intros H. apply Ok_inj in H. injection H as <- <-.
    unfold header_write. cbn [hname hsep hsub]. cbn [app]. f_equal.
    repeat (rewrite <- app_assoc; cbn [app]). reflexivity.
Qed.

Lemma modern_header_rt name t1 h r : modern_header name t1 = Ok (h, r) ->
  (forall ws t3, take_spaces1 t1 = Some (ws, t3) ->
     match t3 with q :: body => beqb q x22 = true -> has_lossy_escape body = false | [] => True end) ->
  x5b :: name ++ t1 = header_write h ++ r.
Proof.
  unfold modern_header. intros H Hl.
  destruct (take_spaces1 t1) as [[ws t3]|] eqn:Ew; [|discriminate].
  specialize (Hl _ _ eq_refl). apply take_spaces1_rt in Ew. destruct Ew as [Ht1 [Hne Hall]].
  destruct t3 as [|q t4]; [discriminate|].
  destruct (beqb q x22) eqn:Eq; [|discriminate]. specialize (Hl eq_refl). apply beqb_true in Eq. subst q.
  unfold sub_section in H.
  destruct (sub_section_loop (S (length t4)) t4 []) as [[sub t5]| | |] eqn:Es; try discriminate.
  destruct (sub_section_loop_rt _ _ _ _ _ Es Hl) as [p [Hp1 Hp2]]. simpl in Hp1. subst p.
  destruct t5 as [|q2 [|b2 t6]]; try discriminate.
  destruct (beqb q2 x22 && beqb b2 x5d) eqn:E2; [|discriminate].
  apply andb_prop in E2. destruct E2 as [E2 E3]. apply beqb_true in E2. apply beqb_true in E3. subst q2 b2.
  apply Ok_inj in H. injection H as <- <-.
  unfold header_write. cbn [hname hsep hsub]. rewrite (space_not_dot ws Hne Hall).
  subst t1. rewrite Hp2. cbn [app]. f_equal. rewrite <- !app_assoc. cbn [app]. rewrite <- !app_assoc. reflexivity.
Qed.

Lemma section_header_rt i h r : section_header i = Ok (h, r) -> lossy_header_at i = false ->
  i = header_write h ++ r.
Proof.
  unfold section_header. destruct i as [|c t]; [discriminate|].
  destruct (beqb c x5b) eqn:Ec; [|discriminate]. apply beqb_true in Ec. subst c.
  destruct (span is_section_char t) as [name t1] eqn:Es.
  destruct (is_nil name) eqn:En; [discriminate|]. apply is_nil_false in En.
  pose proof (span_app _ _ _ _ Es) as Ht.
  intros H Hl.
  assert (Hmod : modern_header name t1 = Ok (h, r) -> x5b :: t = header_write h ++ r).
  { intros Hm. rewrite Ht. apply modern_header_rt; [exact Hm|].
    intros ws t3 Ew. unfold lossy_header_at in Hl. rewrite beqb_refl in Hl. cbn [andb] in Hl.
    rewrite (skip_while_span _ _ sec_char_eq _ _ _ Es) in Hl.
    unfold take_spaces1 in Ew. destruct (span is_space t1) as [ws' t3'] eqn:Ew'.
    destruct (is_nil ws') eqn:Enw; [discriminate|]. injection Ew as <- <-.
    rewrite (skip_while_span _ _ blank_eq _ _ _ Ew') in Hl.
    apply is_nil_false in Enw. pose proof (span_app _ _ _ _ Ew') as Ht1.
    assert (L1 : Nat.eqb (length t1) (length t) = false).
    { apply Nat.eqb_neq. rewrite Ht, app_length. destruct name; [congruence|simpl; lia]. }
    assert (L2 : Nat.eqb (length t3') (length t1) = false).
    { apply Nat.eqb_neq. rewrite Ht1, app_length. destruct ws'; [congruence|simpl; lia]. }
    rewrite L1, L2 in Hl. cbn [negb andb] in Hl.
    destruct t3' as [|q body]; [exact I|]. intros Eq. rewrite Eq in Hl. exact Hl. }
  destruct t1 as [|c1 t2]; [apply Hmod; exact H|].
  destruct (beqb c1 x5d) eqn:E1; [|apply Hmod; exact H].
  apply beqb_true in E1. subst c1. rewrite Ht. apply legacy_header_rt. exact H.
Qed.

(* ---- sections, frontmatter, from_bytes ------------------------------------------------------ *)

Lemma consumed_ok_cons acc e i r : i = event_write e ++ r -> consumed_ok acc (e :: acc) i r.
Proof. intros H. exists (event_write e). split; [apply ser_rev_cons|exact H]. Qed.

Lemma consumed_ok_rev_append acc evs i r : i = serialize evs ++ r -> consumed_ok acc (rev_append evs acc) i r.
Proof. intros H. exists (serialize evs). split; [apply ser_rev_rev_append|exact H]. Qed.

Lemma section_loop_rt : forall fuel i acc acc' r,
  section_loop fuel i acc = Ok (acc', r) -> consumed_ok acc acc' i r.
Proof.
  induction fuel as [|f IH]; intros i acc acc' r H; [discriminate|].
  simpl in H.
  destruct (span is_space i) as [ws i1] eqn:Ews.
  assert (C1 : consumed_ok acc (rev_append (ws_event ws) acc) i i1).
  { apply consumed_ok_rev_append. rewrite serialize_ws_event. eapply span_app. exact Ews. }
  set (acc1 := rev_append (ws_event ws) acc) in *.
  assert (C2 : exists acc2 i2, consumed_ok acc1 acc2 i1 i2 /\
     match key_value_pair i2 with
      | Ok (evs, i3) =>
          let acc3 := rev_append evs acc2 in
          let '(acc4, i4) := match comment i3 with
                             | Some (c, r) => (c :: acc3, r)
                             | None => (acc3, i3)
                             end in
          if Nat.eqb (length i4) (length i) then Ok (acc4, i4) else section_loop f i4 acc4
      | Err e => Err e | Panic => Panic | OutOfFuel => OutOfFuel
      end = Ok (acc', r)).
  { destruct (take_newlines1 i1) as [[v r0]|] eqn:En.
    - exists (Newline v :: acc1), r0. split; [|exact H].
      apply consumed_ok_cons. apply take_newlines1_rt in En. destruct En as [En _]. exact En.
    - exists acc1, i1. split; [apply consumed_ok_refl|exact H]. }
  destruct C2 as [acc2 [i2 [C2 H2]]]. clear H.
  destruct (key_value_pair i2) as [[evs i3]| | |] eqn:Ek; try discriminate.
  assert (C3 : consumed_ok acc2 (rev_append evs acc2) i2 i3).
  { apply consumed_ok_rev_append. apply key_value_pair_rt. exact Ek. }
  cbv zeta in H2. set (acc3 := rev_append evs acc2) in *.
  assert (C4 : exists acc4 i4, consumed_ok acc3 acc4 i3 i4 /\
     (if Nat.eqb (length i4) (length i) then Ok (acc4, i4) else section_loop f i4 acc4) = Ok (acc', r)).
  { destruct (comment i3) as [[c r0]|] eqn:Ec.
    - exists (c :: acc3), r0. split; [|exact H2]. apply consumed_ok_cons. apply comment_rt. exact Ec.
    - exists acc3, i3. split; [apply consumed_ok_refl|exact H2]. }
  destruct C4 as [acc4 [i4 [C4 H4]]].
  pose proof (consumed_ok_trans _ _ _ _ _ _ (consumed_ok_trans _ _ _ _ _ _ (consumed_ok_trans _ _ _ _ _ _ C1 C2) C3) C4) as C.
  destruct (Nat.eqb (length i4) (length i)).
  - apply Ok_inj in H4. injection H4 as <- <-. exact C.
  - eapply consumed_ok_trans; [exact C|]. apply IH. exact H4.
Qed.

Lemma section_rt fuel i acc acc' r :
  section fuel i acc = Ok (acc', r) -> lossy_header_at i = false -> consumed_ok acc acc' i r.
Proof.
  unfold section. destruct (section_header i) as [[h r0]| | |] eqn:Eh; try discriminate.
  intros H Hl. eapply consumed_ok_trans; [|eapply section_loop_rt; exact H].
  apply consumed_ok_cons. simpl. apply section_header_rt; assumption.
Qed.

Definition clean (i : bytes) : Prop := forall pre s, i = pre ++ s -> lossy_header_at s = false.

Lemma any_suffix_false p : forall l, any_suffix p l = false -> forall pre s, l = pre ++ s -> p s = false.
Proof.
  induction l as [|x t IH]; intros H pre s E.
  - destruct pre; [|discriminate]. simpl in E. subst s. simpl in H. apply orb_false_elim in H. tauto.
  - simpl in H. apply orb_false_elim in H. destruct H as [H1 H2].
    destruct pre as [|y pre'].
    + simpl in E. subst s. exact H1.
    + injection E as -> E. eapply IH; eassumption.
Qed.

Lemma clean_of_class i : subsection_escape_class i = false -> clean i.
Proof. intros H pre s E. eapply any_suffix_false; eassumption. Qed.

Lemma clean_suffix a b : clean (a ++ b) -> clean b.
Proof. intros H pre s E. apply (H (a ++ pre) s). rewrite E, app_assoc. reflexivity. Qed.

Lemma clean_head i : clean i -> lossy_header_at i = false.
Proof. intros H. apply (H [] i). reflexivity. Qed.

Lemma sections_more_rt : forall fuel i acc acc' r,
  sections_more fuel i acc = Ok (acc', r) -> clean i -> consumed_ok acc acc' i r.
Proof.
  induction fuel as [|f IH]; intros i acc acc' r H Hc; [discriminate|].
  simpl in H. destruct (section (S (length i)) i acc) as [[acc1 r1]|e| |] eqn:Es; try discriminate.
  - destruct (Nat.eqb (length r1) (length i)); [discriminate|].
    pose proof (section_rt _ _ _ _ _ Es (clean_head _ Hc)) as C1.
    eapply consumed_ok_trans; [exact C1|]. apply IH; [exact H|].
    destruct C1 as [c [_ Hi]]. subst i. eapply clean_suffix. exact Hc.
  - apply Ok_inj in H. injection H as <- <-. apply consumed_ok_refl.
Qed.

Lemma frontmatter_item_rt i e r : frontmatter_item i = Some (e, r) -> i = event_write e ++ r.
Proof.
  unfold frontmatter_item. destruct (comment i) as [[e0 r0]|] eqn:Ec.
  - intros H. injection H as <- <-. apply comment_rt. exact Ec.
  - destruct (take_spaces1 i) as [[v r0]|] eqn:Es.
    + intros H. injection H as <- <-. apply take_spaces1_rt in Es. tauto.
    + destruct (take_newlines1 i) as [[v r0]|] eqn:En; [|discriminate].
      intros H. injection H as <- <-. apply take_newlines1_rt in En. tauto.
Qed.

Lemma frontmatter_rt : forall fuel i acc acc' r,
  frontmatter fuel i acc = Ok (acc', r) -> consumed_ok acc acc' i r.
Proof.
  induction fuel as [|f IH]; intros i acc acc' r H; [discriminate|].
  simpl in H. destruct (frontmatter_item i) as [[e r0]|] eqn:Ei.
  - destruct (Nat.eqb (length r0) (length i)); [discriminate|].
    eapply consumed_ok_trans; [|apply IH; exact H]. apply consumed_ok_cons. apply frontmatter_item_rt. exact Ei.
  - apply Ok_inj in H. injection H as <- <-. apply consumed_ok_refl.
Qed.

Lemma consumed_all acc' i : consumed_ok [] acc' i [] -> serialize (rev acc') = i.
Proof. intros [c [H1 H2]]. rewrite app_nil_r in H2. subst c. exact H1. Qed.

Lemma from_bytes_rt input evs : from_bytes input = Ok evs ->
  clean (skipn (bom_len input) input) -> serialize evs = skipn (bom_len input) input.
Proof.
  unfold from_bytes. destruct (take_n (bom_len input) input) as [[b i0]|] eqn:Eb; [|discriminate].
  apply take_n_spec in Eb. destruct Eb as [_ [_ [_ Ei0]]]. rewrite <- Ei0. clear Ei0 b.
  destruct (frontmatter (S (length i0)) i0 []) as [[acc i1]| | |] eqn:Ef; try discriminate.
  apply frontmatter_rt in Ef.
  destruct (is_nil i1) eqn:En1.
  - apply is_nil_true in En1. subst i1. intros H _. apply Ok_inj in H. subst evs. apply consumed_all. exact Ef.
  - destruct (section (S (length i1)) i1 acc) as [[acc1 i2]| | |] eqn:Es; try discriminate.
    destruct (sections_more (S (length i2)) i2 acc1) as [[acc2 i3]| | |] eqn:Em; try discriminate.
    destruct (is_nil i3) eqn:En3; [|discriminate]. apply is_nil_true in En3. subst i3.
    intros H Hc. apply Ok_inj in H. subst evs. apply consumed_all.
    assert (Hc1 : clean i1). { destruct Ef as [c [_ Hi]]. subst i0. eapply clean_suffix. exact Hc. }
    pose proof (section_rt _ _ _ _ _ Es (clean_head _ Hc1)) as C1.
    assert (Hc2 : clean i2). { destruct C1 as [c [_ Hi]]. subst i1. eapply clean_suffix. exact Hc1. }
    pose proof (sections_more_rt _ _ _ _ _ Em Hc2) as C2.
    exact (consumed_ok_trans _ _ _ _ _ _ (consumed_ok_trans _ _ _ _ _ _ Ef C1) C2).
Qed.

Lemma L_events_roundtrip_modulo_bom input evs :
  from_bytes input = Ok evs -> subsection_escape_class input = false ->
  serialize evs = skipn (bom_len input) input.
Proof.
  intros H Hc. apply from_bytes_rt; [exact H|].
  apply clean_of_class in Hc. rewrite <- (firstn_skipn (bom_len input) input) in Hc.
  eapply clean_suffix. exact Hc.
Qed.

(* ---- parse::Events: grouping into frontmatter + sections loses nothing ------------------------- *)

Definition flat_sections (ss : list psection) : list event :=
  flat_map (fun s => SectionHeader (sheader s) :: sevents s) ss.

Lemma flat_sections_snoc ss s : flat_sections (ss ++ [s]) = flat_sections ss ++ SectionHeader (sheader s) :: sevents s.
Proof. unfold flat_sections. rewrite flat_map_app. simpl. rewrite app_nil_r. reflexivity. Qed.

Lemma group_some : forall evs front h es done,
  into_vec (group evs front (Some (h, es)) done) =
  rev front ++ flat_sections (rev done) ++ SectionHeader h :: rev es ++ evs.
Proof.
  induction evs as [|e r IH]; intros front h es done.
  - simpl. unfold into_vec. simpl. fold (flat_sections (rev done ++ [PSection h (rev es)])).
    rewrite flat_sections_snoc. simpl. rewrite app_nil_r. reflexivity.
  - assert (Hother : group (e :: r) front (Some (h, es)) done = group r front (Some (h, e :: es)) done ->
                     into_vec (group (e :: r) front (Some (h, es)) done) =
                     rev front ++ flat_sections (rev done) ++ SectionHeader h :: rev es ++ e :: r).
    { intros ->. rewrite IH. simpl. rewrite <- !app_assoc. reflexivity. }
    destruct e; try (apply Hother; reflexivity).
    simpl. rewrite IH. simpl. rewrite flat_sections_snoc. simpl. rewrite <- !app_assoc. reflexivity.
Qed.

Lemma group_none : forall evs front, into_vec (group evs front None []) = rev front ++ evs.
Proof.
  induction evs as [|e r IH]; intros front.
  - simpl. unfold into_vec. simpl. reflexivity.
  - assert (Hother : group (e :: r) front None [] = group r (e :: front) None [] ->
                     into_vec (group (e :: r) front None []) = rev front ++ e :: r).
    { intros ->. rewrite IH. simpl. rewrite <- app_assoc. reflexivity. }
    destruct e; try (apply Hother; reflexivity).
    simpl. rewrite group_some. simpl. reflexivity.
Qed.

Lemma L_into_vec_group evs : into_vec (group evs [] None []) = evs.
Proof. apply group_none. Qed.

Lemma L_events_from_bytes_flat input e :
  events_from_bytes input = Ok e -> from_bytes input = Ok (into_vec e).
Proof.
  unfold events_from_bytes. destruct (from_bytes input) as [evs| | |]; try discriminate.
  intros H. apply Ok_inj in H. subst e. rewrite L_into_vec_group. reflexivity.
Qed.

(* ---- the byte-order-mark class: Spec.has_bom (a table) covers Model.bom_len (Bom::from) --------- *)

Lemma compare_tail_spec s len p from : compare_tail s len p from = true ->
  skipn from s = p ++ skipn (length p) (skipn from s).
Proof.
  unfold compare_tail. intros H. apply andb_prop in H. destruct H as [_ H].
  apply bytes_eqb_eq in H. rewrite <- H at 1. symmetry. apply firstn_skipn.
Qed.

Lemma bom_len_has_bom input : bom_len input <> 0%nat -> has_bom input = true.
Proof.
  destruct input as [|c0 [|c1 rest]]; try (intros H; exfalso; apply H; reflexivity).
  intros H.
  assert (T1 : forall p R, tail1 (c0 :: c1 :: rest) p = true -> R = skipn (length p) (c1 :: rest) ->
               c1 :: rest = p ++ R).
  { intros p R Ht ->. apply compare_tail_spec in Ht. exact Ht. }
  destruct c0; try (exfalso; apply H; reflexivity); cbn [bom_len] in H.
  - destruct (tail1 _ _) eqn:E in H; [|exfalso; apply H; reflexivity].
    rewrite (T1 _ _ E eq_refl). reflexivity.
  - destruct (tail1 _ _) eqn:E in H; [|exfalso; apply H; reflexivity].
    rewrite (T1 _ _ E eq_refl). reflexivity.
  - destruct (compare_tail _ 4 _ 1) eqn:E in H; [|exfalso; apply H; reflexivity].
    pose proof (compare_tail_spec _ _ _ _ E) as Hs.
    change (skipn 1 (x2b :: c1 :: rest)) with (c1 :: rest) in Hs.
    change (length [x2f; x76]) with 2%nat in Hs.
    remember (skipn 2 (c1 :: rest)) as R0 eqn:ER. clear ER E.
    rewrite Hs in H |- *. cbn [app] in H |- *.
    destruct R0 as [|c3 R]; [exfalso; apply H; reflexivity|].
    cbn [nth andb] in H.
    destruct c3; try (exfalso; apply H; reflexivity); reflexivity.
  - destruct (tail1 _ _) eqn:E in H; [|exfalso; apply H; reflexivity].
    rewrite (T1 _ _ E eq_refl). reflexivity.
  - destruct (tail1 _ _) eqn:E in H; [|exfalso; apply H; reflexivity].
    rewrite (T1 _ _ E eq_refl). reflexivity.
  - destruct (tail1 _ _) eqn:E in H; [|exfalso; apply H; reflexivity].
    rewrite (T1 _ _ E eq_refl). reflexivity.
  - destruct (tail1 _ _) eqn:E in H; [|exfalso; apply H; reflexivity].
    rewrite (T1 _ _ E eq_refl). reflexivity.
  - destruct (tail1 _ _) eqn:E in H; [|exfalso; apply H; reflexivity].
    rewrite (T1 _ _ E eq_refl). reflexivity.
  - destruct (beqb c1 xff) eqn:E; [|exfalso; apply H; reflexivity].
    apply beqb_true in E. subst c1. reflexivity.
  - destruct (beqb c1 xfe) eqn:E; [|exfalso; apply H; reflexivity].
    apply beqb_true in E. subst c1. unfold has_bom, bom_table. cbn [existsb starts_with].
    change (beqb xff xff) with true. change (beqb xfe xfe) with true.
    cbn. rewrite ?orb_true_r. reflexivity.
Qed.

Lemma has_bom_false_len input : has_bom input = false -> bom_len input = 0%nat.
Proof.
  intros H. destruct (Nat.eq_dec (bom_len input) 0) as [E|E]; [exact E|].
  apply bom_len_has_bom in E. congruence.
Qed.

Lemma L_events_roundtrip_except_known input evs :
  from_bytes input = Ok evs -> has_bom input = false -> subsection_escape_class input = false ->
  serialize evs = input.
Proof.
  intros H Hb Hc. rewrite (L_events_roundtrip_modulo_bom _ _ H Hc), (has_bom_false_len _ Hb). reflexivity.
Qed.
