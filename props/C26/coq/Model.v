(* C26 — executable model of gix-config's event parser and event serialisation.
   Follows, function by function:
     gix-config/src/parse/nom/mod.rs   from_bytes, comment, section, section_header, sub_section,
                                       subsection_subset, key_value_pair, config_name, config_value,
                                       value_impl, take_spaces1, take_newlines1
     gix-config/src/parse/events.rs    from_bytes (grouping into frontmatter + sections), into_iter/into_vec
     gix-config/src/parse/event.rs     Event::write_to
     gix-config/src/parse/comment.rs   Comment::write_to
     gix-config/src/parse/section/header.rs  Header::write_to, escape_subsection
     unicode-bom 2.0.3 src/lib.rs      Bom::from(&[u8]), Bom::len   (external crate, transcribed)
   A winnow parser `fn p(i: &mut &[u8]) -> PResult<O>` is a function from the remaining input to
   [Ok (o, rest)] or [Err Backtrack]; `i.checkpoint()` / `i.reset(..)` is keeping the old list;
   `i.offset_from(&cp)` is the number of bytes consumed since.  No proofs in this file. *)
From GixV.Base Require Import Bytes Outcome.
From GixV.C26 Require Import Tables.

Inductive perr := Backtrack.

(* parse::section::Header { name, separator, subsection_name } *)
Record header := Header { hname : bytes; hsep : option bytes; hsub : option bytes }.

(* parse::Event *)
Inductive event :=
| Comment (tag : byte) (text : bytes)
| SectionHeader (h : header)
| SectionValueName (k : bytes)
| Value (v : bytes)
| Newline (v : bytes)
| ValueNotDone (v : bytes)
| ValueDone (v : bytes)
| Whitespace (v : bytes)
| KeyValueSeparator.

(* ---- byte classes ---------------------------------------------------------------------- *)

Definition in_range (lo hi : N) (c : byte) : bool := N.leb lo (b2N c) && N.leb (b2N c) hi.
Definition is_alpha (c : byte) : bool := in_range 65 90 c || in_range 97 122 c.     (* u8::is_ascii_alphabetic *)
Definition is_alnum (c : byte) : bool := is_alpha c || in_range 48 57 c.            (* u8::is_ascii_alphanumeric *)
(* u8::is_ascii_whitespace: space, \t, \n, \x0c, \r *)
Definition is_ascii_ws (c : byte) : bool :=
  match c with x20 | x09 | x0a | x0c | x0d => true | _ => false end.
(* winnow AsChar::is_space for u8 *)
Definition is_space (c : byte) : bool := match c with x20 | x09 => true | _ => false end.
Definition is_section_char (c : byte) : bool :=
  is_alnum c || match c with x2d | x2e => true | _ => false end.
Definition is_name_char (c : byte) : bool := is_alnum c || match c with x2d => true | _ => false end.
Definition is_subsection_unescaped_char (c : byte) : bool :=
  match c with x22 | x5c | x0a | x00 => false | _ => true end.
Definition is_subsection_escapable_char (c : byte) : bool :=
  match c with x0a => false | _ => true end.
Definition is_comment_tag (c : byte) : bool := match c with x3b | x23 => true | _ => false end.
Definition not_lf (c : byte) : bool := match c with x0a => false | _ => true end.

(* ---- slices ---------------------------------------------------------------------------- *)

(* winnow `take_while(0.., p)`: longest prefix satisfying p, and the rest *)
Fixpoint span (p : byte -> bool) (l : bytes) : bytes * bytes :=
  match l with
  | c :: t => if p c then let (a, r) := span p t in (c :: a, r) else ([], l)
  | [] => ([], [])
  end.

Definition is_nil {A} (l : list A) : bool := match l with [] => true | _ => false end.

(* `i.next_slice(n)` / `i[..n]` : panics when n > len *)
Definition take_n (n : nat) (l : bytes) : option (bytes * bytes) :=
  if Nat.leb n (length l) then Some (firstn n l, skipn n l) else None.

(* slice.get(a..b) *)
Definition get_range (a b : nat) (l : bytes) : option bytes :=
  if Nat.leb a b && Nat.leb b (length l) then Some (firstn (b - a) (skipn a l)) else None.

(* memchr::memrchr *)
Fixpoint memrchr (c : byte) (l : bytes) : option nat :=
  match l with
  | [] => None
  | x :: t => match memrchr c t with
              | Some k => Some (S k)
              | None => if beqb x c then Some 0%nat else None
              end
  end.

(* ---- unicode_bom::Bom::from(&[u8]).len() ------------------------------------------------- *)

(* compare_tail!(slice, len, bytes, from): slice.len() >= len && slice[from..from+bytes.len()] == bytes *)
Definition compare_tail (s : bytes) (len : nat) (bytes_ : bytes) (from : nat) : bool :=
  Nat.leb len (length s) && bytes_eqb (firstn (length bytes_) (skipn from s)) bytes_.
Definition tail1 (s : bytes) (b : bytes) : bool := compare_tail s (length b + 1) b 1.

Definition bom_len (s : bytes) : nat :=
  match s with
  | c0 :: c1 :: _ =>
      match c0 with
      | x00 => if tail1 s [x00; xfe; xff] then 4 else 0
      | x0e => if tail1 s [xfe; xff] then 3 else 0
      | x2b => if compare_tail s 4 [x2f; x76] 1 &&
                  match nth 3 s x00 with x38 | x39 | x2b | x2f => true | _ => false end
               then 4 else 0
      | x84 => if tail1 s [x31; x95; x33] then 4 else 0
      | xdd => if tail1 s [x73; x66; x73] then 4 else 0
      | xef => if tail1 s [xbb; xbf] then 3 else 0
      | xf7 => if tail1 s [x64; x4c] then 3 else 0
      | xfb => if tail1 s [xee; x28] then 3 else 0
      | xfe => if beqb c1 xff then 2 else 0
      | xff => if beqb c1 xfe then (if compare_tail s 4 [x00; x00] 2 then 4 else 2) else 0
      | _ => 0
      end
  | _ => 0
  end%nat.

(* ---- leaf parsers ---------------------------------------------------------------------- *)

(* comment: one_of([';', '#']) then take_till(0.., '\n') *)
Definition comment (i : bytes) : option (event * bytes) :=
  match i with
  | c :: t => if is_comment_tag c then let (text, r) := span not_lf t in Some (Comment c text, r) else None
  | [] => None
  end.

(* take_spaces1: take_while(1.., is_space) *)
Definition take_spaces1 (i : bytes) : option (bytes * bytes) :=
  let (a, r) := span is_space i in if is_nil a then None else Some (a, r).

(* take_newlines1: repeat(1..NEWLINE_REPEAT_END, alt(("\r\n", "\n"))).take()
   (a winnow Range from `1..N` allows at most N-1 repetitions) *)
Fixpoint newlines (n : nat) (i : bytes) : bytes * bytes :=
  match n with
  | O => ([], i)
  | S n' =>
      match i with
      | x0d :: x0a :: t => let (a, r) := newlines n' t in (x0d :: x0a :: a, r)
      | x0a :: t => let (a, r) := newlines n' t in (x0a :: a, r)
      | _ => ([], i)
      end
  end.
Definition take_newlines1 (i : bytes) : option (bytes * bytes) :=
  let (a, r) := newlines (newline_repeat_end - 1) i in if is_nil a then None else Some (a, r).

(* config_name: (one_of(alphabetic), take_while(0.., alnum | '-')).take() *)
Definition config_name (i : bytes) : option (bytes * bytes) :=
  match i with
  | c :: t => if is_alpha c then let (a, r) := span is_name_char t in Some (c :: a, r) else None
  | [] => None
  end.

(* ---- section header -------------------------------------------------------------------- *)

(* subsection_subset = alt((subsection_unescaped, subsection_escaped_char)):
   a run of plain characters, or a backslash followed by one escapable byte of which only the
   escaped byte itself is returned (`one_of(..).take()`) *)
Definition subsection_subset (i : bytes) : option (bytes * bytes) :=
  let (a, r) := span is_subsection_unescaped_char i in
  if negb (is_nil a) then Some (a, r)
  else match i with
       | x5c :: c :: t => if is_subsection_escapable_char c then Some ([c], t) else None
       | _ => None
       end.

(* sub_section: concatenation of the pieces until none matches.  Every piece consumes at least
   one byte, so the input length bounds the number of rounds. *)
Fixpoint sub_section_loop (fuel : nat) (i : bytes) (out : bytes) : outcome (bytes * bytes) perr :=
  match fuel with
  | O => OutOfFuel
  | S f => match subsection_subset i with
           | Some (piece, r) => sub_section_loop f r (out ++ piece)
           | None => Ok (out, i)
           end
  end.
Definition sub_section (i : bytes) : outcome (bytes * bytes) perr :=
  sub_section_loop (S (length i)) i [].

(* `[section]` or the deprecated `[section.subsection]`: the text after the closing bracket is [t2] *)
Definition legacy_header (name t2 : bytes) : outcome (header * bytes) perr :=
  let h := match memrchr x2e name with
           | Some index =>
               Header (firstn index name) (get_range index (S index) name)
                      (get_range (S index) (length name) name)
           | None => Header name None None
           end in
  if is_nil (hname h) then Err Backtrack else Ok (h, t2).

(* `[section "subsection"]`: (take_spaces1, delimited('"', opt(sub_section), "\"]")) on [t1] *)
Definition modern_header (name t1 : bytes) : outcome (header * bytes) perr :=
  match take_spaces1 t1 with
  | None => Err Backtrack
  | Some (ws, t3) =>
      match t3 with
      | q :: t4 =>
          if beqb q x22 then
            match sub_section t4 with
            | Ok (sub, t5) =>
                match t5 with
                | q2 :: b2 :: t6 =>
                    if beqb q2 x22 && beqb b2 x5d then Ok (Header name (Some ws) (Some sub), t6)
                    else Err Backtrack
                | _ => Err Backtrack
                end
            | Err e => Err e | Panic => Panic | OutOfFuel => OutOfFuel
            end
          else Err Backtrack
      | [] => Err Backtrack
      end
  end.

Definition section_header (i : bytes) : outcome (header * bytes) perr :=
  match i with
  | c :: t =>
      if beqb c x5b then
        let (name, t1) := span is_section_char t in
        if is_nil name then Err Backtrack else
        match t1 with
        | c1 :: t2 => if beqb c1 x5d then legacy_header name t2 else modern_header name t1
        | [] => modern_header name t1
        end
      else Err Backtrack
  | [] => Err Backtrack
  end.

(* ---- values ---------------------------------------------------------------------------- *)

(* `i[..value_end].iter().enumerate().rev().find_map(|(idx, b)| (!b.is_ascii_whitespace()).then_some(idx + 1)).unwrap_or(0)` *)
Fixpoint trimmed_len (l : bytes) : nat :=
  match l with
  | [] => 0
  | c :: t => match trimmed_len t with
              | O => if is_ascii_ws c then 0 else 1
              | S k => S (S k)
              end
  end%nat.

Definition is_value_escape (c : byte) : bool := existsb (beqb c) value_escapes.

(* the tail of value_impl after the loop.  [vstart] is the input at value_start_checkpoint, [cur] the
   input where the loop stopped, [off] = i.offset_from(&value_start_checkpoint) at that point. *)
Definition value_finish (vstart cur : bytes) (value_end : option nat) (off : nat)
           (inq partial : bool) (acc : list event) : outcome (list event * bytes) perr :=
  if inq then Err Backtrack else
  let trim (ve : nat) :=
    ('(pre, _) <- unwrap (take_n ve vstart) ;;                     (* i.reset(..); i[..value_end] *)
     let n := trimmed_len pre in
     '(remainder, rest) <- unwrap (take_n n vstart) ;;             (* i.next_slice(n) *)
     Ok ((if partial then ValueDone remainder else Value remainder) :: acc, rest))%outcome in
  match value_end with
  | None => if Nat.eqb off 0
            then Ok ((if partial then ValueDone [] else Value []) :: acc, cur)
            else trim off
  | Some idx => trim idx
  end.

(* the `b'\n'` arm after a backslash: emit ValueNotDone(value before the backslash), skip the
   backslash, emit Newline(the `consumed` bytes after it) *)
Definition continuation (vstart : bytes) (escape_index consumed : nat)
  : outcome (event * event * bytes) perr :=
  ('(value, r) <- unwrap (take_n escape_index vstart) ;;
   let r1 := tl r in
   '(nlb, r2) <- unwrap (take_n consumed r1) ;;
   Ok (ValueNotDone value, Newline nlb, r2))%outcome.

(* the loop of value_impl; one round per byte (the leading take_while of non-special bytes is the
   default arm).  [acc] holds the dispatched events, newest first. *)
Fixpoint value_loop (fuel : nat) (vstart cur : bytes) (off : nat) (inq partial : bool)
         (acc : list event) : outcome (list event * bytes) perr :=
  match fuel with
  | O => OutOfFuel
  | S f =>
    match cur with
    | [] => value_finish vstart cur None off inq partial acc
    | c :: t =>
      let off1 := S off in
      if beqb c x0a then value_finish vstart t (Some (off1 - 1)%nat) off1 inq partial acc
      else if is_comment_tag c && negb inq then value_finish vstart t (Some (off1 - 1)%nat) off1 inq partial acc
      else if beqb c x5c then
          let escape_index := (off1 - 1)%nat in
          match t with
          | [] => Err Backtrack
          | c1 :: t1 =>
              let after :=
                if beqb c1 x0d then
                  match t1 with
                  | [] => Err Backtrack
                  | c2 :: t2 => if beqb c2 x0a then Ok (c2, t2, 2%nat) else Err Backtrack
                  end
                else Ok (c1, t1, 1%nat) in
              match after with
              | Ok (cc, tl1, consumed) =>
                  if beqb cc x0a then
                    match continuation vstart escape_index consumed with
                    | Ok (e1, e2, r2) => value_loop f r2 r2 0 inq true (e2 :: e1 :: acc)
                    | Err e => Err e | Panic => Panic | OutOfFuel => OutOfFuel
                    end
                  else if is_value_escape cc
                       then value_loop f vstart tl1 (off1 + consumed)%nat inq partial acc
                       else Err Backtrack
              | Err e => Err e | Panic => Panic | OutOfFuel => OutOfFuel
              end
          end
      else if beqb c x22 then value_loop f vstart t off1 (negb inq) partial acc
      else value_loop f vstart t off1 inq partial acc
    end
  end.

(* value_impl: events in dispatch order, and the remaining input *)
Definition value_impl (i : bytes) : outcome (list event * bytes) perr :=
  match value_loop (S (length i)) i i 0 false false [] with
  | Ok (acc, r) => Ok (rev acc, r)
  | Err e => Err e | Panic => Panic | OutOfFuel => OutOfFuel
  end.

Definition ws_event (ws : bytes) : list event := if is_nil ws then [] else [Whitespace ws].

(* config_value *)
Definition config_value (i : bytes) : outcome (list event * bytes) perr :=
  match i with
  | x3d :: r =>
      let (ws, r1) := span is_space r in
      match value_impl r1 with
      | Ok (evs, r2) => Ok (KeyValueSeparator :: ws_event ws ++ evs, r2)
      | Err e => Err e | Panic => Panic | OutOfFuel => OutOfFuel
      end
  | _ => Ok ([Value []], i)
  end.

(* key_value_pair *)
Definition key_value_pair (i : bytes) : outcome (list event * bytes) perr :=
  match config_name i with
  | Some (name, r) =>
      let (ws, r1) := span is_space r in
      match config_value r1 with
      | Ok (evs, r2) => Ok (SectionValueName name :: ws_event ws ++ evs, r2)
      | Err e => Err e | Panic => Panic | OutOfFuel => OutOfFuel
      end
  | None => Ok ([], i)
  end.

(* ---- sections -------------------------------------------------------------------------- *)

(* the `loop` of `section`: optional spaces, optional newlines, optional key-value pair, optional
   comment; stops when a round consumed nothing.  [acc]: dispatched events, newest first. *)
Fixpoint section_loop (fuel : nat) (i : bytes) (acc : list event) : outcome (list event * bytes) perr :=
  match fuel with
  | O => OutOfFuel
  | S f =>
      let (ws, i1) := span is_space i in
      let acc1 := rev_append (ws_event ws) acc in
      let '(acc2, i2) := match take_newlines1 i1 with
                         | Some (v, r) => (Newline v :: acc1, r)
                         | None => (acc1, i1)
                         end in
      match key_value_pair i2 with
      | Ok (evs, i3) =>
          let acc3 := rev_append evs acc2 in
          let '(acc4, i4) := match comment i3 with
                             | Some (c, r) => (c :: acc3, r)
                             | None => (acc3, i3)
                             end in
          if Nat.eqb (length i4) (length i) then Ok (acc4, i4) else section_loop f i4 acc4
      | Err e => Err e | Panic => Panic | OutOfFuel => OutOfFuel
      end
  end.

Definition section (fuel : nat) (i : bytes) (acc : list event) : outcome (list event * bytes) perr :=
  match section_header i with
  | Ok (h, r) => section_loop fuel r (SectionHeader h :: acc)
  | Err e => Err e | Panic => Panic | OutOfFuel => OutOfFuel
  end.

(* the loop of winnow's repeat1_ after the first success: a backtracking failure resets the input
   and ends the repetition; a success that consumed nothing is winnow's "parsers must always
   consume" assertion (a panic in debug builds).
   Events dispatched by a section that fails later are dropped here: the reset input is then
   non-empty, so from_bytes returns Err and Events::from_bytes discards everything. *)
Fixpoint sections_more (fuel : nat) (i : bytes) (acc : list event) : outcome (list event * bytes) perr :=
  match fuel with
  | O => OutOfFuel
  | S f =>
      match section (S (length i)) i acc with
      | Ok (acc', r) => if Nat.eqb (length r) (length i) then Panic else sections_more f r acc'
      | Err _ => Ok (acc, i)
      | Panic => Panic
      | OutOfFuel => OutOfFuel
      end
  end.

(* frontmatter: repeat(0.., alt((comment, take_spaces1 -> Whitespace, take_newlines1 -> Newline))).fold(..)
   followed by `.expect(..)`: the "must always consume" assertion would be a panic *)
Definition frontmatter_item (i : bytes) : option (event * bytes) :=
  match comment i with
  | Some r => Some r
  | None => match take_spaces1 i with
            | Some (v, r) => Some (Whitespace v, r)
            | None => match take_newlines1 i with
                      | Some (v, r) => Some (Newline v, r)
                      | None => None
                      end
            end
  end.

Fixpoint frontmatter (fuel : nat) (i : bytes) (acc : list event) : outcome (list event * bytes) perr :=
  match fuel with
  | O => OutOfFuel
  | S f => match frontmatter_item i with
           | Some (e, r) => if Nat.eqb (length r) (length i) then Panic else frontmatter f r (e :: acc)
           | None => Ok (acc, i)
           end
  end.

(* parse::from_bytes: the events in dispatch order *)
Definition from_bytes (input : bytes) : outcome (list event) perr :=
  match take_n (bom_len input) input with                   (* input.next_slice(bom.len()) *)
  | None => Panic
  | Some (_, i0) =>
    match frontmatter (S (length i0)) i0 [] with
    | Ok (acc, i1) =>
        if is_nil i1 then Ok (rev acc) else
        match section (S (length i1)) i1 acc with
        | Ok (acc1, i2) =>
            match sections_more (S (length i2)) i2 acc1 with
            | Ok (acc2, i3) => if is_nil i3 then Ok (rev acc2) else Err Backtrack
            | Err e => Err e | Panic => Panic | OutOfFuel => OutOfFuel
            end
        | Err e => Err e | Panic => Panic | OutOfFuel => OutOfFuel
        end
    | Err e => Err e | Panic => Panic | OutOfFuel => OutOfFuel
    end
  end.

(* ---- parse::Events ------------------------------------------------------------------------ *)

Record psection := PSection { sheader : header; sevents : list event }.
Record events := Events { efrontmatter : list event; esections : list psection }.

(* events.rs from_bytes: the dispatch closure; [cur] = (header, events of the section being filled,
   newest first) *)
Fixpoint group (evs : list event) (front : list event) (cur : option (header * list event))
         (done : list psection) : events :=
  match evs with
  | [] => match cur with
          | None => Events (rev front) (rev done)
          | Some (h, es) => Events (rev front) (rev (PSection h (rev es) :: done))
          end
  | SectionHeader h :: r =>
      match cur with
      | None => group r front (Some (h, [])) done
      | Some (h0, es) => group r front (Some (h, [])) (PSection h0 (rev es) :: done)
      end
  | e :: r =>
      match cur with
      | None => group r (e :: front) None done
      | Some (h0, es) => group r front (Some (h0, e :: es)) done
      end
  end.

Definition events_from_bytes (input : bytes) : outcome events perr :=
  match from_bytes input with
  | Ok evs => Ok (group evs [] None [])
  | Err e => Err e | Panic => Panic | OutOfFuel => OutOfFuel
  end.

(* Events::into_vec *)
Definition into_vec (e : events) : list event :=
  efrontmatter e ++ flat_map (fun s => SectionHeader (sheader s) :: sevents s) (esections e).

(* ---- serialisation ------------------------------------------------------------------------ *)

(* header.rs escape_subsection *)
Fixpoint escape_subsection (l : bytes) : bytes :=
  match l with
  | [] => []
  | x5c :: t => x5c :: x5c :: escape_subsection t
  | x22 :: t => x5c :: x22 :: escape_subsection t
  | c :: t => c :: escape_subsection t
  end.

(* Header::write_to *)
Definition header_write (h : header) : bytes :=
  x5b :: hname h ++
  match hsep h, hsub h with
  | Some sep, Some sub =>
      sep ++ (if bytes_eqb sep [x2e] then sub else x22 :: escape_subsection sub ++ [x22])
  | _, _ => []
  end ++ [x5d].

(* Event::write_to *)
Definition event_write (e : event) : bytes :=
  match e with
  | ValueNotDone v => v ++ [x5c]
  | Whitespace v | Newline v | Value v | ValueDone v => v
  | KeyValueSeparator => [x3d]
  | SectionValueName k => k
  | SectionHeader h => header_write h
  | Comment tag text => tag :: text
  end.

Definition serialize (evs : list event) : bytes := flat_map event_write evs.

(* ---- File::write_to (gix-config/src/file/write.rs, file/section/mod.rs, file/access/read_only.rs) ----
   for a File made by File::from_bytes_no_includes: frontmatter events, the sections in parse order,
   no post-section matter, filter = all sections. *)

Fixpoint is_prefix (p l : bytes) : bool :=
  match p, l with
  | [], _ => true
  | a :: p', b :: l' => beqb a b && is_prefix p' l'
  | _ :: _, [] => false
  end.
(* bstr contains_str *)
Fixpoint contains (l p : bytes) : bool :=
  is_prefix p l || match l with [] => false | _ :: t => contains t p end.

(* Event::to_bstr_lossy *)
Definition to_bstr_lossy (e : event) : bytes :=
  match e with
  | ValueNotDone v | Whitespace v | Newline v | Value v | ValueDone v => v
  | KeyValueSeparator => [x3d]
  | SectionValueName k => k
  | SectionHeader h => hname h
  | Comment _ text => text
  end.

(* write.rs ends_with_newline *)
Fixpoint ends_with_newline_rev (rev_events : list event) (nl : bytes) : bool :=
  match rev_events with
  | [] => false
  | e :: r => if match e with Whitespace _ | Newline _ => true | _ => false end
                 && forallb is_ascii_ws (to_bstr_lossy e)
              then (if contains (to_bstr_lossy e) nl then true else ends_with_newline_rev r nl)
              else false
  end.
Definition ends_with_newline (evs : list event) (nl : bytes) (default : bool) : bool :=
  if is_nil evs then default else ends_with_newline_rev (rev evs) nl.

(* write.rs extract_newline *)
Definition extract_newline (e : event) : option bytes :=
  match e with
  | Newline b => Some (if existsb (beqb x0d) b then [x0d; x0a] else [x0a])
  | _ => None
  end.
Fixpoint find_map {A B} (f : A -> option B) (l : list A) : option B :=
  match l with [] => None | x :: t => match f x with Some b => Some b | None => find_map f t end end.

Definition platform_newline : bytes := [x0a].     (* cfg!(windows) is false on the checked platform *)

(* File::detect_newline_style *)
Definition detect_newline_style (e : events) : bytes :=
  match find_map extract_newline (efrontmatter e) with
  | Some nl => nl
  | None => match find_map (fun s => find_map extract_newline (sevents s)) (esections e) with
            | Some nl => nl
            | None => platform_newline
            end
  end.

Fixpoint take_while {A} (p : A -> bool) (l : list A) : list A :=
  match l with [] => [] | x :: t => if p x then x :: take_while p t else [] end.
Definition is_value_name (e : event) : bool := match e with SectionValueName _ => true | _ => false end.

(* the event loop of file::Section::write_to; output accumulated in reverse chunks *)
Fixpoint section_body_write (evs : list event) (nl : bytes) (saw_newline_after_value in_key_value_pair : bool)
  : bytes :=
  match evs with
  | [] => []
  | e :: r =>
      let pre := match e with
                 | SectionValueName _ => if saw_newline_after_value then [] else nl
                 | _ => [] end in
      let saw := match e with
                 | SectionValueName _ => false
                 | Newline _ => if in_key_value_pair then saw_newline_after_value else true
                 | Comment _ _ => false
                 | _ => saw_newline_after_value end in
      let inkv := match e with
                  | SectionValueName _ => true
                  | Value _ | ValueDone _ => false
                  | _ => in_key_value_pair end in
      let post := match e with
                  | ValueNotDone _ => match r with Newline _ :: _ => [] | _ => nl end
                  | _ => [] end in
      pre ++ event_write e ++ post ++ section_body_write r nl saw inkv
  end.

(* file::Section::write_to *)
Definition section_write (s : psection) : bytes :=
  header_write (sheader s) ++
  if is_nil (sevents s) then [] else
  let nl := match find_map extract_newline (sevents s) with Some nl => nl | None => platform_newline end in
  (if existsb (fun e => contains (to_bstr_lossy e) nl) (take_while (fun e => negb (is_value_name e)) (sevents s))
   then [] else nl) ++
  section_body_write (sevents s) nl true false.

Fixpoint sections_write (ss : list psection) (nl : bytes) (prev_ended_with_newline : bool) : bytes :=
  match ss with
  | [] => if prev_ended_with_newline then [] else nl
  | s :: r =>
      (if prev_ended_with_newline then [] else nl) ++ section_write s ++
      sections_write r nl (ends_with_newline (sevents s) nl false)
  end.

(* File::write_to / to_bstring *)
Definition file_write (e : events) : bytes :=
  let nl := detect_newline_style e in
  serialize (efrontmatter e) ++
  (if negb (ends_with_newline (efrontmatter e) nl true) && negb (is_nil (esections e)) then nl else []) ++
  sections_write (esections e) nl true.
