(* C26 — transcript printer: the same observable string the Rust harness prints for a case. *)
From GixV.Base Require Import Bytes Outcome.
From GixV.C26 Require Import Tables Model.

Definition hex_field (b : bytes) : bytes := if is_nil b then bs "-" else hex_encode b.

Definition show_event (e : event) : bytes :=
  match e with
  | Comment tag text => bs "c" ++ hex_encode [tag] ++ hex_encode text
  | SectionHeader h =>
      bs "h" ++ hex_encode (hname h) ++ bs "/" ++
      match hsub h with Some s => bs "s" ++ hex_encode s | None => bs "~" end ++
      bs "/" ++ hex_encode (header_write h)
  | SectionValueName k => bs "k" ++ hex_encode k
  | Value v => bs "v" ++ hex_encode v
  | Newline v => bs "n" ++ hex_encode v
  | ValueNotDone v => bs "p" ++ hex_encode v
  | ValueDone v => bs "d" ++ hex_encode v
  | Whitespace v => bs "w" ++ hex_encode v
  | KeyValueSeparator => bs "="
  end.

Fixpoint show_events (evs : list event) : bytes :=
  match evs with
  | [] => []
  | [e] => show_event e
  | e :: r => show_event e ++ bs "," ++ show_events r
  end.

(* cases:  ev <config bytes> | file <config bytes> *)
Definition run_model (fs : list bytes) : bytes :=
  let op := nth_field 0 fs in
  let input := nth_field 1 fs in
  if bytes_eqb op (bs "ev") then
    match events_from_bytes input with
    | Ok e =>
        let evs := into_vec e in
        let ser := serialize evs in
        bs "ok " ++ (if is_nil evs then bs "-" else show_events evs) ++ bs " " ++
        (if bytes_eqb ser input then bs "=" else hex_field ser)
    | Err _ => bs "err"
    | Panic => bs "PANIC"
    | OutOfFuel => bs "HANG"
    end
  else if bytes_eqb op (bs "file") then
    match events_from_bytes input with
    | Ok e => bs "ok " ++ hex_field (file_write e)
    | Err _ => bs "err"
    | Panic => bs "PANIC"
    | OutOfFuel => bs "HANG"
    end
  else bs "?".

Definition run (fs : list bytes) : bytes :=
  match fs with
  | _mode :: rest => run_model rest
  | [] => bs "?"
  end.
