(* C26 — independent definitions used in the statements: the two known classes of inputs whose
   events do not serialise back to the input, as plain scans over the raw bytes (no parser).
   The Rust oracle (harness prop(): bom_len, lossy_header_at, subsection_escape_class) mirrors them. *)
From GixV.Base Require Import Bytes.

(* class `bom`: the input starts with one of the byte-order marks unicode-bom 2.0.3 recognises *)
Definition bom_table : list bytes :=
  [ [x00; x00; xfe; xff]; [x0e; xfe; xff];
    [x2b; x2f; x76; x38]; [x2b; x2f; x76; x39]; [x2b; x2f; x76; x2b]; [x2b; x2f; x76; x2f];
    [x84; x31; x95; x33]; [xdd; x73; x66; x73]; [xef; xbb; xbf]; [xf7; x64; x4c]; [xfb; xee; x28];
    [xff; xfe; x00; x00]; [xfe; xff]; [xff; xfe] ].

Fixpoint starts_with (l p : bytes) {struct p} : bool :=
  match p, l with
  | [], _ => true
  | a :: p', b :: l' => beqb a b && starts_with l' p'
  | _ :: _, [] => false
  end.

Definition has_bom (input : bytes) : bool := existsb (starts_with input) bom_table.

(* class `subsection-escape`: somewhere in the input there is text of the shape
       [ <section chars>+ <space|tab>+ <double quote> ... <backslash> c
   with c neither a backslash nor a double quote, before the closing (unescaped) double quote *)
Definition sec_char (c : byte) : bool :=
  let n := b2N c in
  (N.leb 48 n && N.leb n 57) || (N.leb 65 n && N.leb n 90) || (N.leb 97 n && N.leb n 122)
  || N.eqb n 45 || N.eqb n 46.
Definition blank (c : byte) : bool := N.eqb (b2N c) 32 || N.eqb (b2N c) 9.

Fixpoint skip_while (p : byte -> bool) (l : bytes) : bytes :=
  match l with
  | c :: t => if p c then skip_while p t else l
  | [] => []
  end.

Fixpoint has_lossy_escape (body : bytes) : bool :=
  match body with
  | [] => false
  | c :: t =>
      if beqb c x22 then false
      else if beqb c x5c then
        match t with
        | [] => false
        | d :: t' => if beqb d x5c || beqb d x22 then has_lossy_escape t' else true
        end
      else has_lossy_escape t
  end.

Definition lossy_header_at (s : bytes) : bool :=
  match s with
  | c :: t =>
      beqb c x5b &&
      let t1 := skip_while sec_char t in
      let t2 := skip_while blank t1 in
      negb (Nat.eqb (length t1) (length t)) && negb (Nat.eqb (length t2) (length t1)) &&
      match t2 with
      | q :: body => beqb q x22 && has_lossy_escape body
      | [] => false
      end
  | [] => false
  end.

Fixpoint any_suffix (p : bytes -> bool) (l : bytes) : bool :=
  p l || match l with [] => false | _ :: t => any_suffix p t end.

Definition subsection_escape_class (input : bytes) : bool := any_suffix lossy_header_at input.
