(* C26 — Config files round-trip losslessly (events level).
   Only statements here; every proof is [exact <lemma of Proofs.v>].
   Model: Model.v — [from_bytes] is gix_config::parse::from_bytes (the events in dispatch order),
   [events_from_bytes]/[into_vec] are parse::Events::from_bytes / into_vec, [serialize] concatenates
   Event::write_to over a list of events, [header_write] is section::Header::write_to.
   Spec.v — [has_bom]: the input starts with a byte-order mark (table); [subsection_escape_class]:
   somewhere in the input stands `[name<blanks>"...\c` with c neither `\` nor `"` before the
   closing quote.  These are the two known classes (findings.txt: bom, subsection-escape). *)
From GixV.Base Require Import Bytes BytesFacts Outcome.
From GixV.C26 Require Import Tables Model Spec Proofs Totality.

(* the statement of the property as written; FALSE of the code as it is (two refutations below) *)
Definition events_roundtrip_full_statement : Prop :=
  forall input evs, from_bytes input = Ok evs -> serialize evs = input.

(* every byte string that parses and is in neither known class is reproduced byte for byte *)
Theorem events_roundtrip_except_known : forall input evs,
  from_bytes input = Ok evs -> has_bom input = false -> subsection_escape_class input = false ->
  serialize evs = input.
Proof. exact L_events_roundtrip_except_known. Qed.

(* sharper for the bom class: outside the subsection-escape class the serialised events are exactly
   the input without the bytes Bom::from recognised — nothing else is ever lost *)
Theorem events_roundtrip_modulo_bom : forall input evs,
  from_bytes input = Ok evs -> subsection_escape_class input = false ->
  serialize evs = skipn (bom_len input) input.
Proof. exact L_events_roundtrip_modulo_bom. Qed.

(* the table of Spec.has_bom covers everything the transcribed Bom::from detects *)
Theorem bom_class_covers_detection : forall input, has_bom input = false -> bom_len input = 0%nat.
Proof. exact has_bom_false_len. Qed.

(* the two refutations of the full statement *)
Theorem events_roundtrip_refuted_bom :
  exists input evs, from_bytes input = Ok evs /\ serialize evs <> input /\
                    has_bom input = true /\ subsection_escape_class input = false.
Proof. exact L_refuted_bom. Qed.

Theorem events_roundtrip_refuted_subsection_escape :
  exists input evs, from_bytes input = Ok evs /\ serialize evs <> input /\
                    has_bom input = false /\ subsection_escape_class input = true.
Proof. exact L_refuted_subsection_escape. Qed.

Theorem events_roundtrip_refuted : ~ events_roundtrip_full_statement.
Proof. exact L_refuted. Qed.

(* parse::Events (frontmatter + sections) holds exactly the dispatched events: into_vec gives them back *)
Theorem events_grouping_lossless : forall evs, into_vec (group evs [] None []) = evs.
Proof. exact L_into_vec_group. Qed.

Theorem events_struct_roundtrip_except_known : forall input e,
  events_from_bytes input = Ok e -> has_bom input = false -> subsection_escape_class input = false ->
  serialize (into_vec e) = input.
Proof. exact L_events_struct_rt. Qed.

(* the parser never panics and never exhausts its fuel, for ANY byte string: every slice index of
   value_impl / from_bytes is in range, winnow's "parsers must always consume" assertions behind the
   `.expect(..)` in from_bytes are unreachable, and length+1 rounds suffice for every loop *)
Theorem parser_total : forall input, from_bytes input <> Panic /\ from_bytes input <> OutOfFuel.
Proof. exact L_from_bytes_total. Qed.

Theorem events_parser_total : forall input,
  events_from_bytes input <> Panic /\ events_from_bytes input <> OutOfFuel.
Proof. exact L_events_parser_total. Qed.

(* per-parser round trips (the pieces the main theorem is composed of) *)

(* a value, with continuation lines, quotes, escapes, trailing whitespace, comment start: whatever
   value_impl consumes is what its events write; unconditional *)
Theorem value_roundtrip : forall i evs rest, value_impl i = Ok (evs, rest) -> i = serialize evs ++ rest.
Proof. exact value_impl_rt. Qed.

Theorem key_value_pair_roundtrip : forall i evs rest,
  key_value_pair i = Ok (evs, rest) -> i = serialize evs ++ rest.
Proof. exact key_value_pair_rt. Qed.

(* a section header writes back what was consumed unless the text at this very position is a
   quoted header with a lossy escape *)
Theorem section_header_roundtrip : forall i h rest,
  section_header i = Ok (h, rest) -> lossy_header_at i = false -> i = header_write h ++ rest.
Proof. exact section_header_rt. Qed.

(* non-vacuity: a config with comment, CRLF, legacy and quoted subsections (escaped quote and
   backslash), implicit boolean, quotes, escapes, continuation lines, trailing whitespace and no final newline *)
Example roundtrip_example :
  let input := bs "; c" ++ [x0d; x0a] ++ bs "[a.b]" ++ [x0a] ++ bs "[r " ++ [x22] ++ bs "o\\" ++ [x5c; x22; x22] ++
               bs "] #x" ++ [x0a; x09] ++ bs "k = v " ++ [x5c; x0a] ++ bs "  w\n" ++ [x22] ++ bs " ;" ++ [x22] ++
               bs "  " ++ [x0a] ++ bs " flag" ++ [x0a] ++ bs "e =" in
  exists evs, from_bytes input = Ok evs /\ has_bom input = false /\ subsection_escape_class input = false /\
              length evs = 26%nat /\ serialize evs = input.
Proof. eexists. repeat split. Qed.
