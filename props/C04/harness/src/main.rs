//! C04 harness: gix_object::tree::Editor (multi-level paths, cursors, set_root, intermediate writes)
//! against (a) the extracted Coq model (`impl` transcript; ids are sequence numbers of an in-memory
//! object sink so that the model can compute them) and (b) an independent oracle in plain Rust
//! (`prop`: nested map semantics + build-from-scratch with real SHA-1 ids, `git mktree` for a sample).
//!
//! Case grammar (fields; see coq/Run.v): `hist` then a stream of ops
//!   U <kind> <id> <n> c1..cn     upsert            kind: t b x l c     id: 20 raw bytes, or decimal k = id of
//!   R <n> c1..cn                 remove                                 the k-th tree of the object sink
//!   W                            write (through the cursor if one is open)
//!   S <id>                       set_root(tree <id> of the sink, or the empty tree)
//!   C <n> c1..cn                 cursor_at; following U/R/W go through the cursor until any other op
//!   E                            end of cursor
//!   P <m> (<kind> <name> <id>)*m store a tree in the sink directly (a tree that exists beforehand)
use bstr::{BStr, BString, ByteSlice};
use gix_hash::ObjectId;
use gix_object::tree::{Entry, EntryKind};
use gix_object::Tree;
use gixv_common::*;
use std::cell::RefCell;
use std::collections::BTreeMap;
use std::rc::Rc;
use std::time::Duration;

// ------------------------------------------------------------------------------------------------
// ops
#[derive(Clone, Debug)]
enum IdRef {
    Lit([u8; 20]),
    Idx(usize),
}
#[derive(Clone, Debug)]
enum Op {
    U(Vec<Vec<u8>>, u8, IdRef),
    R(Vec<Vec<u8>>),
    W,
    S(IdRef),
    C(Vec<Vec<u8>>),
    E,
    P(Vec<(u8, Vec<u8>, IdRef)>),
}

const DANGLING: [u8; 20] = [0xdd; 20];
const NULL: [u8; 20] = [0; 20];
fn empty_tree_id() -> [u8; 20] {
    let mut a = [0u8; 20];
    a.copy_from_slice(ObjectId::empty_tree(gix_hash::Kind::Sha1).as_bytes());
    a
}

fn parse_idref(f: &[u8]) -> IdRef {
    if f.len() == 20 {
        let mut a = [0u8; 20];
        a.copy_from_slice(f);
        IdRef::Lit(a)
    } else {
        IdRef::Idx(std::str::from_utf8(f).ok().and_then(|s| s.parse().ok()).unwrap_or(0))
    }
}
fn kind_letter(f: &[u8]) -> u8 {
    match f.first() {
        Some(b't') => b't',
        Some(b'x') => b'x',
        Some(b'l') => b'l',
        Some(b'c') => b'c',
        _ => b'b',
    }
}
/// Parsing mirrors coq/Run.v `parse_ops`: a truncated op ends the history.
fn parse_ops(c: &Case) -> Vec<Op> {
    let mut ops = Vec::new();
    let mut i = 1;
    let fld = |i: usize| -> Option<&[u8]> { c.get(i).map(|v| v.as_slice()) };
    let num_at = |i: usize| -> Option<usize> {
        fld(i).map(|f| std::str::from_utf8(f).ok().and_then(|s| s.parse().ok()).unwrap_or(0))
    };
    'outer: while let Some(t) = fld(i) {
        match t {
            b"U" => {
                let (Some(k), Some(id), Some(n)) = (fld(i + 1), fld(i + 2), num_at(i + 3)) else { break };
                if c.len() < i + 4 + n {
                    break;
                }
                let path = (0..n).map(|j| c[i + 4 + j].clone()).collect();
                ops.push(Op::U(path, kind_letter(k), parse_idref(id)));
                i += 4 + n;
            }
            b"R" | b"C" => {
                let Some(n) = num_at(i + 1) else { break };
                if c.len() < i + 2 + n {
                    break;
                }
                let path: Vec<Vec<u8>> = (0..n).map(|j| c[i + 2 + j].clone()).collect();
                ops.push(if t == b"R" { Op::R(path) } else { Op::C(path) });
                i += 2 + n;
            }
            b"W" => {
                ops.push(Op::W);
                i += 1;
            }
            b"E" => {
                ops.push(Op::E);
                i += 1;
            }
            b"S" => {
                let Some(id) = fld(i + 1) else { break };
                ops.push(Op::S(parse_idref(id)));
                i += 2;
            }
            b"P" => {
                let Some(m) = num_at(i + 1) else { break };
                if c.len() < i + 2 + 3 * m {
                    break 'outer;
                }
                let es = (0..m)
                    .map(|j| {
                        let b = i + 2 + 3 * j;
                        (kind_letter(&c[b]), c[b + 1].clone(), parse_idref(&c[b + 2]))
                    })
                    .collect();
                ops.push(Op::P(es));
                i += 2 + 3 * m;
            }
            _ => break,
        }
    }
    ops
}

fn emit_ops(ops: &[Op]) -> Case {
    let mut c: Case = vec![tag("hist")];
    let idf = |id: &IdRef| match id {
        IdRef::Lit(a) => a.to_vec(),
        IdRef::Idx(k) => num(*k),
    };
    for op in ops {
        match op {
            Op::U(p, k, id) => {
                c.push(tag("U"));
                c.push(vec![*k]);
                c.push(idf(id));
                c.push(num(p.len()));
                c.extend(p.iter().cloned());
            }
            Op::R(p) => {
                c.push(tag("R"));
                c.push(num(p.len()));
                c.extend(p.iter().cloned());
            }
            Op::C(p) => {
                c.push(tag("C"));
                c.push(num(p.len()));
                c.extend(p.iter().cloned());
            }
            Op::W => c.push(tag("W")),
            Op::E => c.push(tag("E")),
            Op::S(id) => {
                c.push(tag("S"));
                c.push(idf(id));
            }
            Op::P(es) => {
                c.push(tag("P"));
                c.push(num(es.len()));
                for (k, n, id) in es {
                    c.push(vec![*k]);
                    c.push(n.clone());
                    c.push(idf(id));
                }
            }
        }
    }
    c
}

// ------------------------------------------------------------------------------------------------
// the object sink: trees in order of first storage; ids are sequence numbers (impl) or SHA-1 (prop)
fn kind_of(k: u8) -> EntryKind {
    match k {
        b't' => EntryKind::Tree,
        b'x' => EntryKind::BlobExecutable,
        b'l' => EntryKind::Link,
        b'c' => EntryKind::Commit,
        _ => EntryKind::Blob,
    }
}
fn mode_octal(mode: u16) -> String {
    format!("{:o}", mode)
}
/// hand-written serialisation (independent of gix_object's WriteTo)
fn ser_entries(es: &[(u16, Vec<u8>, [u8; 20])]) -> Vec<u8> {
    let mut out = Vec::new();
    for (m, n, id) in es {
        out.extend_from_slice(mode_octal(*m).as_bytes());
        out.push(b' ');
        out.extend_from_slice(n);
        out.push(0);
        out.extend_from_slice(id);
    }
    out
}
fn plain(t: &Tree) -> Vec<(u16, Vec<u8>, [u8; 20])> {
    t.entries
        .iter()
        .map(|e| {
            let mut a = [0u8; 20];
            a.copy_from_slice(e.oid.as_bytes());
            (e.mode.0, e.filename.to_vec(), a)
        })
        .collect()
}
fn numbered_id(k: usize) -> [u8; 20] {
    let mut a = [0u8; 20];
    a[0] = 0xaa;
    a[16..20].copy_from_slice(&(k as u32).to_be_bytes());
    a
}

#[derive(Default)]
struct Store {
    sha: bool,
    ser: Vec<Vec<u8>>,
    plain: Vec<Vec<(u16, Vec<u8>, [u8; 20])>>,
    ids: Vec<[u8; 20]>,
    out_calls: usize,
}
impl Store {
    fn put(&mut self, t: &Tree) -> [u8; 20] {
        let p = plain(t);
        if p.is_empty() {
            return empty_tree_id();
        }
        let s = ser_entries(&p);
        if let Some(k) = self.ser.iter().position(|x| *x == s) {
            return self.ids[k];
        }
        let id = if self.sha {
            let mut a = [0u8; 20];
            a.copy_from_slice(gix_object::compute_hash(gix_hash::Kind::Sha1, gix_object::Kind::Tree, &s).as_bytes());
            a
        } else {
            numbered_id(self.ser.len())
        };
        self.ser.push(s);
        self.plain.push(p);
        self.ids.push(id);
        id
    }
    fn resolve(&self, r: &IdRef) -> [u8; 20] {
        match r {
            IdRef::Lit(a) => *a,
            IdRef::Idx(k) => self.ids.get(*k).copied().unwrap_or(DANGLING),
        }
    }
    fn tree_of(&self, id: &[u8; 20]) -> Option<Tree> {
        let k = self.ids.iter().position(|x| x == id)?;
        Some(Tree {
            entries: self.plain[k]
                .iter()
                .map(|(m, n, id)| Entry {
                    mode: gix_object::tree::EntryMode(*m),
                    filename: n.clone().into(),
                    oid: ObjectId::from_bytes_or_panic(id),
                })
                .collect(),
        })
    }
}
struct Odb(Rc<RefCell<Store>>);
impl gix_object::Find for Odb {
    fn try_find<'a>(
        &self,
        id: &gix_hash::oid,
        buffer: &'a mut Vec<u8>,
    ) -> Result<Option<gix_object::Data<'a>>, gix_object::find::Error> {
        let st = self.0.borrow();
        match st.ids.iter().position(|x| x.as_slice() == id.as_bytes()) {
            None => Ok(None),
            Some(k) => {
                buffer.clear();
                buffer.extend_from_slice(&st.ser[k]);
                Ok(Some(gix_object::Data { kind: gix_object::Kind::Tree, data: &*buffer }))
            }
        }
    }
}

// ------------------------------------------------------------------------------------------------
// running a history on the real editor
#[derive(Debug, Clone, PartialEq)]
enum Res {
    Ok,
    ErrEmpty,
    ErrFind,
    Wrote([u8; 20]),
    Put([u8; 20]),
    Cursor(bool), // cursor_at succeeded?
    Plain,        // S / E
}
fn map_err(e: gix_object::tree::editor::Error) -> Res {
    match e {
        gix_object::tree::editor::Error::EmptyPathComponent => Res::ErrEmpty,
        gix_object::tree::editor::Error::FindExistingObject(_) => Res::ErrFind,
    }
}
fn comps(p: &[Vec<u8>]) -> impl Iterator<Item = &BStr> {
    p.iter().map(|c| c.as_slice().as_bstr())
}
fn oid(a: &[u8; 20]) -> ObjectId {
    ObjectId::from_bytes_or_panic(a)
}
fn arr(id: ObjectId) -> [u8; 20] {
    let mut a = [0u8; 20];
    a.copy_from_slice(id.as_bytes());
    a
}

/// `check_tree` is called with every tree handed to `out` (before it is stored).
fn run_history(ops: &[Op], store: Rc<RefCell<Store>>, mut on_res: impl FnMut(usize, &Res) -> bool) {
    let odb = Odb(store.clone());
    let mut ed = gix_object::tree::Editor::new(Tree::default(), &odb, gix_hash::Kind::Sha1);
    let sink = store.clone();
    let mut write = move |t: &Tree| -> Result<ObjectId, std::convert::Infallible> {
        let mut s = sink.borrow_mut();
        s.out_calls += 1;
        Ok(oid(&s.put(t)))
    };
    let mut i = 0;
    while i < ops.len() {
        match &ops[i] {
            Op::U(p, k, id) => {
                let id = store.borrow().resolve(id);
                let r = match ed.upsert(comps(p), kind_of(*k), oid(&id)) {
                    Ok(_) => Res::Ok,
                    Err(e) => map_err(e),
                };
                if !on_res(i, &r) {
                    return;
                }
                i += 1;
            }
            Op::R(p) => {
                let r = match ed.remove(comps(p)) {
                    Ok(_) => Res::Ok,
                    Err(e) => map_err(e),
                };
                if !on_res(i, &r) {
                    return;
                }
                i += 1;
            }
            Op::W => {
                let id = ed.write(&mut write).expect("infallible");
                if !on_res(i, &Res::Wrote(arr(id))) {
                    return;
                }
                i += 1;
            }
            Op::S(id) => {
                let id = store.borrow().resolve(id);
                let t = store.borrow().tree_of(&id).unwrap_or_default();
                ed.set_root(t);
                if !on_res(i, &Res::Plain) {
                    return;
                }
                i += 1;
            }
            Op::E => {
                if !on_res(i, &Res::Plain) {
                    return;
                }
                i += 1;
            }
            Op::P(es) => {
                let t = {
                    let st = store.borrow();
                    Tree {
                        entries: es
                            .iter()
                            .map(|(k, n, id)| Entry {
                                mode: kind_of(*k).into(),
                                filename: n.clone().into(),
                                oid: oid(&st.resolve(id)),
                            })
                            .collect(),
                    }
                };
                let id = store.borrow_mut().put(&t);
                if !on_res(i, &Res::Put(id)) {
                    return;
                }
                i += 1;
            }
            Op::C(p) => match ed.cursor_at(comps(p)) {
                Err(e) => {
                    if !on_res(i, &map_err(e)) {
                        return;
                    }
                    i += 1;
                }
                Ok(mut cur) => {
                    if !on_res(i, &Res::Cursor(true)) {
                        return;
                    }
                    i += 1;
                    while i < ops.len() {
                        match &ops[i] {
                            Op::U(p, k, id) => {
                                let id = store.borrow().resolve(id);
                                let r = match cur.upsert(comps(p), kind_of(*k), oid(&id)) {
                                    Ok(_) => Res::Ok,
                                    Err(e) => map_err(e),
                                };
                                if !on_res(i, &r) {
                                    return;
                                }
                            }
                            Op::R(p) => {
                                let r = match cur.remove(comps(p)) {
                                    Ok(_) => Res::Ok,
                                    Err(e) => map_err(e),
                                };
                                if !on_res(i, &r) {
                                    return;
                                }
                            }
                            Op::W => {
                                let id = cur.write(&mut write).expect("infallible");
                                if !on_res(i, &Res::Wrote(arr(id))) {
                                    return;
                                }
                            }
                            _ => break,
                        }
                        i += 1;
                    }
                }
            },
        }
    }
}

// ------------------------------------------------------------------------------------------------
// impl transcript
fn imp(c: &Case) -> String {
    if f_str(c, 0) != b"hist" {
        return "?".into();
    }
    let ops = parse_ops(c);
    let store = Rc::new(RefCell::new(Store::default()));
    let mut toks: Vec<String> = Vec::new();
    run_history(&ops, store.clone(), |_, r| {
        toks.push(match r {
            Res::Ok => "ok".into(),
            Res::ErrEmpty => "eE".into(),
            Res::ErrFind => "eF".into(),
            Res::Wrote(id) => format!("w:{}", hexs(id)),
            Res::Put(id) => format!("p:{}", hexs(id)),
            Res::Cursor(_) => "c".into(),
            Res::Plain => "-".into(),
        });
        true
    });
    let st = store.borrow();
    let dump: Vec<String> = st
        .plain
        .iter()
        .map(|t| {
            t.iter()
                .map(|(m, n, id)| format!("{}:{}:{}", mode_octal(*m), hexs(n), hexs(id)))
                .collect::<Vec<_>>()
                .join(",")
        })
        .collect();
    format!("{} | {} | {}", toks.join(" "), st.out_calls, dump.join(" ; "))
}

// ------------------------------------------------------------------------------------------------
// the oracle: nested map semantics, build from scratch
#[derive(Clone, Debug)]
enum Node {
    Leaf(u16, [u8; 20]),
    Dir(BTreeMap<Vec<u8>, Node>),
}
fn is_tree_mode(m: u16) -> bool {
    m & 0o170000 == 0o040000
}
struct Oracle {
    root: BTreeMap<Vec<u8>, Node>,
    /// all trees known to exist: id -> entries
    odb: BTreeMap<[u8; 20], Vec<(u16, Vec<u8>, [u8; 20])>>,
    /// every tree the oracle built from scratch, with its flat listing, for git
    built: Vec<([u8; 20], Vec<(u16, Vec<u8>, [u8; 20])>)>,
}
enum OErr {
    Empty,
    Find,
}
fn git_key(name: &[u8], tree: bool) -> Vec<u8> {
    let mut k = name.to_vec();
    if tree {
        k.push(b'/');
    }
    k
}
impl Oracle {
    fn expand(&self, id: &[u8; 20]) -> Result<BTreeMap<Vec<u8>, Node>, OErr> {
        if *id == empty_tree_id() {
            return Ok(BTreeMap::new());
        }
        match self.odb.get(id) {
            None => Err(OErr::Find),
            Some(es) => Ok(es.iter().map(|(m, n, i)| (n.clone(), Node::Leaf(*m, *i))).collect()),
        }
    }
    /// walk to the directory at `path`, creating/replacing (`create`) or giving up (None)
    fn descend<'a>(
        odb_expand: &dyn Fn(&[u8; 20]) -> Result<BTreeMap<Vec<u8>, Node>, OErr>,
        mut cur: &'a mut BTreeMap<Vec<u8>, Node>,
        path: &[Vec<u8>],
        create: bool,
        assure_last: bool,
    ) -> Result<Option<&'a mut BTreeMap<Vec<u8>, Node>>, OErr> {
        for (pos, name) in path.iter().enumerate() {
            if name.is_empty() {
                return Err(OErr::Empty);
            }
            let replace = match cur.get(name) {
                None => {
                    if create {
                        Some(Node::Dir(BTreeMap::new()))
                    } else {
                        return Ok(None);
                    }
                }
                Some(Node::Dir(_)) => None,
                Some(Node::Leaf(m, id)) => {
                    if is_tree_mode(*m) {
                        if assure_last && pos + 1 == path.len() && *id == NULL {
                            // cursor_at on a null-id placeholder tree: an empty directory
                            Some(Node::Dir(BTreeMap::new()))
                        } else {
                            Some(Node::Dir(odb_expand(id)?))
                        }
                    } else if create {
                        Some(Node::Dir(BTreeMap::new()))
                    } else {
                        return Ok(None);
                    }
                }
            };
            if let Some(n) = replace {
                cur.insert(name.clone(), n);
            }
            cur = match cur.get_mut(name) {
                Some(Node::Dir(d)) => d,
                _ => unreachable!(),
            };
        }
        Ok(Some(cur))
    }
    fn upsert(&mut self, path: &[Vec<u8>], mode: u16, id: [u8; 20]) -> Result<(), OErr> {
        let Some((last, dirs)) = path.split_last() else { return Ok(()) };
        let odb = std::mem::take(&mut self.odb);
        let exp = |id: &[u8; 20]| {
            if *id == empty_tree_id() {
                return Ok(BTreeMap::new());
            }
            match odb.get(id) {
                None => Err(OErr::Find),
                Some(es) => Ok(es.iter().map(|(m, n, i)| (n.clone(), Node::Leaf(*m, *i))).collect()),
            }
        };
        let r = (|| {
            let d = Self::descend(&exp, &mut self.root, dirs, true, false)?.expect("created");
            if last.is_empty() {
                return Err(OErr::Empty);
            }
            d.insert(last.clone(), Node::Leaf(mode, id));
            Ok(())
        })();
        self.odb = odb;
        r
    }
    fn remove(&mut self, path: &[Vec<u8>]) -> Result<(), OErr> {
        let Some((last, dirs)) = path.split_last() else { return Ok(()) };
        let odb = std::mem::take(&mut self.odb);
        let exp = |id: &[u8; 20]| {
            if *id == empty_tree_id() {
                return Ok(BTreeMap::new());
            }
            match odb.get(id) {
                None => Err(OErr::Find),
                Some(es) => Ok(es.iter().map(|(m, n, i)| (n.clone(), Node::Leaf(*m, *i))).collect()),
            }
        };
        let r = (|| {
            match Self::descend(&exp, &mut self.root, dirs, false, false)? {
                None => Ok(()),
                Some(d) => {
                    if last.is_empty() {
                        return Err(OErr::Empty);
                    }
                    d.remove(last);
                    Ok(())
                }
            }
        })();
        self.odb = odb;
        r
    }
    fn assure_dir(&mut self, path: &[Vec<u8>]) -> Result<(), OErr> {
        let odb = std::mem::take(&mut self.odb);
        let exp = |id: &[u8; 20]| {
            if *id == empty_tree_id() {
                return Ok(BTreeMap::new());
            }
            match odb.get(id) {
                None => Err(OErr::Find),
                Some(es) => Ok(es.iter().map(|(m, n, i)| (n.clone(), Node::Leaf(*m, *i))).collect()),
            }
        };
        let r = Self::descend(&exp, &mut self.root, path, true, true).map(|_| ());
        self.odb = odb;
        r
    }
    /// build the directory bottom-up; expanded directories that are empty vanish, null ids vanish.
    /// Normalises `dir` the way a write does (drops what vanished). Returns the listing.
    fn build(
        dir: &mut BTreeMap<Vec<u8>, Node>,
        odb: &mut BTreeMap<[u8; 20], Vec<(u16, Vec<u8>, [u8; 20])>>,
        built: &mut Vec<([u8; 20], Vec<(u16, Vec<u8>, [u8; 20])>)>,
    ) -> Vec<(u16, Vec<u8>, [u8; 20])> {
        let mut listing: Vec<(u16, Vec<u8>, [u8; 20])> = Vec::new();
        let mut gone = Vec::new();
        for (name, node) in dir.iter_mut() {
            match node {
                Node::Leaf(m, id) => {
                    if *id == NULL {
                        gone.push(name.clone());
                    } else {
                        listing.push((*m, name.clone(), *id));
                    }
                }
                Node::Dir(d) => {
                    let sub = Self::build(d, odb, built);
                    if sub.is_empty() {
                        gone.push(name.clone());
                    } else {
                        let id = Self::hash_listing(&sub);
                        odb.insert(id, sub.clone());
                        built.push((id, sub));
                        listing.push((0o040000, name.clone(), id));
                    }
                }
            }
        }
        for g in gone {
            dir.remove(&g);
        }
        // git's order: byte order of name, directories as name + "/"
        listing.sort_by(|a, b| git_key(&a.1, is_tree_mode(a.0)).cmp(&git_key(&b.1, is_tree_mode(b.0))));
        listing
    }
    fn hash_listing(l: &[(u16, Vec<u8>, [u8; 20])]) -> [u8; 20] {
        arr(gix_object::compute_hash(gix_hash::Kind::Sha1, gix_object::Kind::Tree, &ser_entries(l)))
    }
    fn dir_at<'a>(root: &'a mut BTreeMap<Vec<u8>, Node>, path: &[Vec<u8>]) -> Option<&'a mut BTreeMap<Vec<u8>, Node>> {
        let mut cur = root;
        for n in path {
            cur = match cur.get_mut(n) {
                Some(Node::Dir(d)) => d,
                _ => return None,
            };
        }
        Some(cur)
    }
    /// write of the directory at `prefix`: returns the id git gives that directory
    fn write(&mut self, prefix: &[Vec<u8>]) -> Option<[u8; 20]> {
        let d = Self::dir_at(&mut self.root, prefix)?;
        let l = Self::build(d, &mut self.odb, &mut self.built);
        let id = Self::hash_listing(&l);
        if !l.is_empty() {
            self.odb.insert(id, l.clone());
            self.built.push((id, l));
        }
        Some(id)
    }
}

fn sorted_ok(t: &[(u16, Vec<u8>, [u8; 20])]) -> bool {
    t.windows(2)
        .all(|w| git_key(&w[0].1, is_tree_mode(w[0].0)) < git_key(&w[1].1, is_tree_mode(w[1].0)) && w[0].1 != w[1].1)
}

fn has_slash_or_nul(ops: &[Op]) -> bool {
    let bad = |c: &Vec<u8>| c.iter().any(|b| *b == b'/' || *b == 0);
    ops.iter().any(|o| match o {
        Op::U(p, _, _) | Op::R(p) | Op::C(p) => p.iter().any(bad),
        Op::P(es) => es.iter().any(|(_, n, _)| bad(n) || n.is_empty()),
        _ => false,
    })
}

fn fnv(c: &Case) -> u64 {
    let mut h = 0xcbf29ce484222325u64;
    for f in c {
        for b in f {
            h = (h ^ *b as u64).wrapping_mul(0x100000001b3);
        }
        h = (h ^ 0xff).wrapping_mul(0x100000001b3);
    }
    h
}

/// ask real git for the ids of the given listings (bottom-up order), one `git mktree --batch` call
fn git_mktree_ids(listings: &[Vec<(u16, Vec<u8>, [u8; 20])>]) -> Option<Vec<[u8; 20]>> {
    use std::io::Write;
    use std::process::{Command, Stdio};
    let dir = std::env::temp_dir().join(format!("gixv-c04-{}-{:x}", std::process::id(), fnv(&vec![ser_entries(&listings[0])])));
    let _ = std::fs::remove_dir_all(&dir);
    std::fs::create_dir_all(dir.join("objects")).ok()?;
    std::fs::create_dir_all(dir.join("refs")).ok()?;
    std::fs::write(dir.join("HEAD"), "ref: refs/heads/main\n").ok()?;
    let mut input = Vec::new();
    for l in listings {
        for (m, n, id) in l {
            let ty = if is_tree_mode(*m) {
                "tree"
            } else if *m == 0o160000 {
                "commit"
            } else {
                "blob"
            };
            input.extend_from_slice(format!("{:06o} {} {}\t", m, ty, hexs(id)).as_bytes());
            input.extend_from_slice(n);
            input.push(0);
        }
        input.push(0); // in -z batch mode an empty record ends a tree
    }
    let mut child = Command::new("git")
        .arg("--git-dir")
        .arg(&dir)
        .args(["mktree", "--missing", "--batch", "-z"])
        .stdin(Stdio::piped())
        .stdout(Stdio::piped())
        .stderr(Stdio::null())
        .spawn()
        .ok()?;
    child.stdin.take()?.write_all(&input).ok()?;
    let out = child.wait_with_output().ok()?;
    let _ = std::fs::remove_dir_all(&dir);
    let text = String::from_utf8_lossy(&out.stdout).to_string();
    let ids: Vec<[u8; 20]> = text
        .lines()
        .filter(|l| l.len() == 40)
        .map(|l| {
            let mut a = [0u8; 20];
            a.copy_from_slice(&unhex(l));
            a
        })
        .collect();
    Some(ids)
}

fn prop(c: &Case) -> Verdict {
    if f_str(c, 0) != b"hist" {
        return Verdict::ok(false, "not-a-history");
    }
    let ops = parse_ops(c);
    if has_slash_or_nul(&ops) {
        // outside the property's domain (not a path component); only model == implementation is checked
        return Verdict::ok(false, "component-with-slash");
    }
    let store = Rc::new(RefCell::new(Store { sha: true, ..Default::default() }));
    let mut or = Oracle { root: BTreeMap::new(), odb: BTreeMap::new(), built: Vec::new() };
    let mut cursor: Option<Vec<Vec<u8>>> = None;
    let mut fail: Option<Verdict> = None;
    let mut errored: Option<&'static str> = None;
    let mut writes = 0usize;
    let mut type_changes = 0usize;
    let mut cursor_writes = 0usize;
    let store2 = store.clone();
    run_history(&ops, store.clone(), |i, res| {
        let st = store2.borrow();
        let full = |p: &Vec<Vec<u8>>, cursor: &Option<Vec<Vec<u8>>>| -> Vec<Vec<u8>> {
            let mut v = cursor.clone().unwrap_or_default();
            v.extend(p.iter().cloned());
            v
        };
        let expect_err = |r: Result<(), OErr>, res: &Res, what: &str| -> Result<(), Result<&'static str, Verdict>> {
            match (r, res) {
                (Ok(()), Res::Ok) | (Ok(()), Res::Cursor(true)) => Ok(()),
                (Err(OErr::Empty), Res::ErrEmpty) => Err(Ok("errored-empty-component")),
                (Err(OErr::Find), Res::ErrFind) => Err(Ok("errored-missing-tree")),
                (Ok(()), r) => Err(Err(Verdict::fail("unexpected-error", format!("op {i} {what}: {r:?}")))),
                (Err(_), r) => Err(Err(Verdict::fail("missing-error", format!("op {i} {what}: {r:?}")))),
            }
        };
        let mut handle = |r: Result<(), Result<&'static str, Verdict>>| -> bool {
            match r {
                Ok(()) => true,
                Err(Ok(class)) => {
                    errored = Some(class);
                    false
                }
                Err(Err(v)) => {
                    fail = Some(v);
                    false
                }
            }
        };
        match &ops[i] {
            Op::U(p, k, id) => {
                let id = st.resolve(id);
                let mode: u16 = gix_object::tree::EntryMode::from(kind_of(*k)).0;
                let fp = full(p, &cursor);
                // statistics: does this change a directory into a file or vice versa?
                if !p.is_empty() {
                    if let Some(d) = Oracle::dir_at(&mut or.root, &fp[..fp.len() - 1]) {
                        match d.get(&fp[fp.len() - 1]) {
                            Some(Node::Dir(_)) if *k != b't' => type_changes += 1,
                            Some(Node::Leaf(m, _)) if is_tree_mode(*m) != (*k == b't') => type_changes += 1,
                            _ => {}
                        }
                    }
                }
                // the prefix of an open cursor exists as directory; only the relative part is walked
                let r = if p.is_empty() { Ok(()) } else { or.upsert(&fp, mode, id) };
                handle(expect_err(r, res, "upsert"))
            }
            Op::R(p) => {
                let fp = full(p, &cursor);
                let r = if p.is_empty() { Ok(()) } else { or.remove(&fp) };
                handle(expect_err(r, res, "remove"))
            }
            Op::C(p) => {
                cursor = None;
                let r = or.assure_dir(p);
                let ok = handle(expect_err(r, res, "cursor_at"));
                if ok {
                    cursor = Some(p.clone());
                }
                ok
            }
            Op::E => {
                cursor = None;
                true
            }
            Op::S(id) => {
                cursor = None;
                let id = st.resolve(id);
                or.root = or.expand(&id).unwrap_or_default();
                true
            }
            Op::P(es) => {
                cursor = None;
                // the tree as it was stored (ids were resolved before it was stored)
                let _ = es;
                if let Res::Put(id) = res {
                    if let Some(k) = st.ids.iter().position(|x| x == id) {
                        or.odb.insert(*id, st.plain[k].clone());
                    }
                }
                true
            }
            Op::W => {
                let prefix = cursor.clone().unwrap_or_default();
                if cursor.is_some() {
                    cursor_writes += 1;
                }
                let want = or.write(&prefix);
                let Res::Wrote(got) = res else { unreachable!() };
                writes += 1;
                match want {
                    None => {
                        fail = Some(Verdict::fail("oracle-lost-cursor", format!("op {i}")));
                        false
                    }
                    Some(w) if w != *got => {
                        fail = Some(Verdict::fail(
                            if cursor.is_some() { "cursor-tree-id-differs" } else { "root-tree-id-differs" },
                            format!("op {i}: editor wrote {} but building the same paths from scratch gives {}", hexs(got), hexs(&w)),
                        ));
                        false
                    }
                    Some(_) => true,
                }
            }
        }
    });
    if let Some(v) = fail {
        return v;
    }
    // every tree that went through `out` is canonically sorted, has no null ids, is not empty
    {
        let st = store.borrow();
        for (k, t) in st.plain.iter().enumerate() {
            if !sorted_ok(t) {
                return Verdict::fail("written-tree-unsorted", format!("tree #{k}"));
            }
            if t.iter().any(|e| e.2 == NULL) && !matches!(ops.iter().find(|o| matches!(o, Op::P(_))), Some(_)) {
                return Verdict::fail("written-tree-has-null-id", format!("tree #{k}"));
            }
            // every written tree is one the from-scratch build produced as well (or was put there directly)
            if !or.odb.contains_key(&st.ids[k]) && errored.is_none() {
                return Verdict::fail("unexpected-tree-written", format!("tree #{k} {}", hexs(&st.ids[k])));
            }
        }
    }
    if let Some(class) = errored {
        return Verdict::ok(false, class);
    }
    // second opinion from real git for a sample: the oracle's ids are git's ids
    let mistyped = or.built.iter().any(|(_, l)| l.iter().any(|(m, _, id)| !is_tree_mode(*m) && (or.odb.contains_key(id) || *id == empty_tree_id())));
    if !or.built.is_empty() && !mistyped && fnv(c) % 40 == 0 {
        let listings: Vec<_> = or.built.iter().map(|(_, l)| l.clone()).collect();
        match git_mktree_ids(&listings) {
            Some(ids) if ids.len() == listings.len() => {
                for (k, (id, _)) in or.built.iter().enumerate() {
                    if ids[k] != *id {
                        return Verdict::fail("oracle-differs-from-git-mktree", format!("tree {k}: git {} oracle {}", hexs(&ids[k]), hexs(id)));
                    }
                }
                return Verdict::ok(true, "checked-with-git-mktree");
            }
            _ => return Verdict::fail("git-mktree-failed", ""),
        }
    }
    if writes == 0 {
        return Verdict::ok(false, "no-write");
    }
    Verdict::ok(
        true,
        if cursor_writes > 0 {
            "cursor-history"
        } else if type_changes > 0 {
            "type-change-history"
        } else {
            "plain-history"
        },
    )
}

// ------------------------------------------------------------------------------------------------
// generator
const NAMES: &[&[u8]] = &[b"a", b"b", b"a-", b"a.b"];
fn blob_id(rng: &mut Rng) -> [u8; 20] {
    let b = *rng.pick(&[0xb1u8, 0xb2, 0xb3]);
    [b; 20]
}
fn gen_path(rng: &mut Rng, odd: bool) -> Vec<Vec<u8>> {
    let n = match rng.below(10) {
        0..=3 => 1,
        4..=7 => 2,
        _ => 3,
    };
    let mut p: Vec<Vec<u8>> = (0..n).map(|_| rng.pick(NAMES).to_vec()).collect();
    if odd {
        match rng.below(4) {
            0 => p.clear(),
            1 => {
                let i = rng.below(p.len() as u64) as usize;
                p[i].clear();
            }
            2 => {
                let i = rng.below(p.len() as u64) as usize;
                p[i] = b"a/b".to_vec();
            }
            _ => p.push(rng.pick(NAMES).to_vec()),
        }
    }
    p
}
fn gen_kind_id(rng: &mut Rng, n_trees_guess: usize) -> (u8, IdRef) {
    match rng.below(20) {
        0..=8 => (b'b', IdRef::Lit(blob_id(rng))),
        9..=10 => (b'x', IdRef::Lit(blob_id(rng))),
        11 => (b'l', IdRef::Lit(blob_id(rng))),
        12 => (b'c', IdRef::Lit(blob_id(rng))),
        13..=16 => {
            if n_trees_guess == 0 {
                (b't', IdRef::Lit(empty_tree_id()))
            } else {
                (b't', IdRef::Idx(rng.below(n_trees_guess as u64) as usize))
            }
        }
        17 => (b't', IdRef::Lit(empty_tree_id())),
        18 => {
            if rng.chance(1, 4) {
                (b't', IdRef::Lit(NULL))
            } else {
                (b'b', IdRef::Lit(NULL))
            }
        }
        _ => {
            if rng.chance(1, 8) {
                (b't', IdRef::Lit(DANGLING))
            } else {
                (b'b', IdRef::Idx(rng.below(n_trees_guess as u64 + 1) as usize))
            }
        }
    }
}
fn git_sort(es: &mut Vec<(u8, Vec<u8>, IdRef)>) {
    // hand-written insertion sort by git's key; duplicates of a name removed first
    let mut out: Vec<(u8, Vec<u8>, IdRef)> = Vec::new();
    for e in es.drain(..) {
        if out.iter().any(|x| x.1 == e.1) {
            continue;
        }
        let k = git_key(&e.1, e.0 == b't');
        let pos = out.iter().position(|x| git_key(&x.1, x.0 == b't') > k).unwrap_or(out.len());
        out.insert(pos, e);
    }
    *es = out;
}
/// how many trees the sink holds after `ops` (by running them)
fn count_trees(ops: &[Op]) -> usize {
    let store = Rc::new(RefCell::new(Store::default()));
    let ops = ops.to_vec();
    let s2 = store.clone();
    let r = std::panic::catch_unwind(std::panic::AssertUnwindSafe(move || run_history(&ops, s2, |_, _| true)));
    let n = store.borrow().ser.len();
    if r.is_err() {
        0
    } else {
        n
    }
}
fn gen_history(rng: &mut Rng) -> Vec<Op> {
    let mut ops = Vec::new();
    let mut trees_guess = 0usize;
    // pre-existing trees
    if rng.chance(1, 2) {
        for _ in 0..rng.range(1, 3) {
            let mut es: Vec<(u8, Vec<u8>, IdRef)> = (0..rng.range(1, 4))
                .map(|_| {
                    let (k, id) = gen_kind_id(rng, trees_guess);
                    let id = match id {
                        IdRef::Lit(a) if a == NULL || a == DANGLING => IdRef::Lit(blob_id(rng)),
                        IdRef::Idx(k) if k >= trees_guess => IdRef::Lit(if trees_guess == 0 { empty_tree_id() } else { blob_id(rng) }),
                        other => other,
                    };
                    let k = if matches!(id, IdRef::Lit(a) if a != empty_tree_id()) && k == b't' { b'b' } else { k };
                    (k, rng.pick(NAMES).to_vec(), id)
                })
                .collect();
            git_sort(&mut es);
            ops.push(Op::P(es));
            trees_guess += 1;
        }
        if rng.chance(3, 4) {
            ops.push(Op::S(IdRef::Idx(rng.below(trees_guess as u64) as usize)));
        }
    }
    let n = rng.range(1, 40);
    let odd_hist = rng.chance(1, 25);
    let mut in_cursor = false;
    for _ in 0..n {
        let odd = odd_hist && rng.chance(1, 6);
        match rng.below(100) {
            0..=49 => {
                let (k, id) = gen_kind_id(rng, trees_guess);
                ops.push(Op::U(gen_path(rng, odd), k, id));
            }
            50..=74 => ops.push(Op::R(gen_path(rng, odd))),
            75..=84 => {
                ops.push(Op::W);
                trees_guess = count_trees(&ops);
            }
            85..=91 => {
                let mut p = gen_path(rng, odd);
                if rng.chance(1, 8) {
                    p.clear();
                }
                ops.push(Op::C(p));
                in_cursor = true;
            }
            92..=95 => {
                if in_cursor {
                    ops.push(Op::E);
                    in_cursor = false;
                } else {
                    ops.push(Op::W);
                }
            }
            96..=97 => {
                ops.push(Op::S(IdRef::Idx(rng.below(trees_guess as u64 + 1) as usize)));
                in_cursor = false;
            }
            _ => {
                let mut es: Vec<(u8, Vec<u8>, IdRef)> = (0..rng.range(1, 3))
                    .map(|_| (b'b', rng.pick(NAMES).to_vec(), IdRef::Lit(blob_id(rng))))
                    .collect();
                git_sort(&mut es);
                ops.push(Op::P(es));
                in_cursor = false;
            }
        }
    }
    if in_cursor {
        if rng.chance(1, 2) {
            ops.push(Op::W);
        }
        ops.push(Op::E);
    }
    ops.push(Op::W);
    ops
}
fn gen(rng: &mut Rng, n: usize) -> Vec<Case> {
    let mut out: Vec<Case> = Vec::new();
    while out.len() < n {
        out.push(emit_ops(&gen_history(rng)));
    }
    out
}

fn main() {
    main_with(Harness { gen, imp, prop, git: None, deadline: Duration::from_secs(120) });
}
