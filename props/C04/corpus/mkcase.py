#!/usr/bin/env python3
# helper: turn a readable history into a case line.  tokens: U:kind:id:path  R:path  W  S:id  C:path  E  P:kind=name=id,...
# id: b1/b2/b3 (blob ids), null, empty, dang, #k ; path components separated by '/' ('' allowed), '.' = empty path
import sys
def h(b): return b.hex() if b else '-'
def idf(s):
    if s.startswith('#'): return s[1:].encode()
    return {'b1':b'\xb1'*20,'b2':b'\xb2'*20,'b3':b'\xb3'*20,'null':b'\0'*20,'dang':b'\xdd'*20,
            'empty':bytes.fromhex('4b825dc642cb6eb9a060e54bf8d69288fbee4904')}[s]
def path(s):
    if s=='.': return []
    return [c.encode() for c in s.split('/')]
for line in sys.stdin:
    line=line.strip()
    if not line or line.startswith('#'): print(line); continue
    f=[b'hist']
    for t in line.split():
        p=t.split(':')
        if p[0]=='U':
            pp=path(p[3]); f+= [b'U',p[1].encode(),idf(p[2]),str(len(pp)).encode()]+pp
        elif p[0] in 'RC':
            pp=path(p[1]); f+=[p[0].encode(),str(len(pp)).encode()]+pp
        elif p[0] in 'WE': f.append(p[0].encode())
        elif p[0]=='S': f+=[b'S',idf(p[1])]
        elif p[0]=='P':
            es=[e.split('=') for e in p[1].split(',')] if len(p)>1 and p[1] else []
            f+=[b'P',str(len(es)).encode()]
            for k,n,i in es: f+=[k.encode(),n.encode(),idf(i)]
    print(' '.join(h(x) for x in f))
