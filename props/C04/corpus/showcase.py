#!/usr/bin/env python3
import sys
names={b'\xb1'*20:'b1',b'\xb2'*20:'b2',b'\xb3'*20:'b3',b'\0'*20:'null',b'\xdd'*20:'dang',bytes.fromhex('4b825dc642cb6eb9a060e54bf8d69288fbee4904'):'empty'}
def un(x): return b'' if x=='-' else bytes.fromhex(x)
def idf(b): return names.get(b, '#'+b.decode() if len(b)!=20 else b.hex())
for line in sys.stdin:
    f=[un(x) for x in line.split()]
    i=1; out=[]
    while i<len(f):
        t=f[i]
        if t==b'U':
            n=int(f[i+3]); out.append('U:%s:%s:%s'%(f[i+1].decode(),idf(f[i+2]),'/'.join(c.decode() for c in f[i+4:i+4+n]) if n else '.')); i+=4+n
        elif t in (b'R',b'C'):
            n=int(f[i+1]); out.append('%s:%s'%(t.decode(),'/'.join(c.decode() for c in f[i+2:i+2+n]) if n else '.')); i+=2+n
        elif t in (b'W',b'E'): out.append(t.decode()); i+=1
        elif t==b'S': out.append('S:'+idf(f[i+1])); i+=2
        elif t==b'P':
            m=int(f[i+1]); es=[]
            for j in range(m):
                b=i+2+3*j; es.append('%s=%s=%s'%(f[b].decode(),f[b+1].decode(),idf(f[b+2])))
            out.append('P:'+','.join(es)); i+=2+3*m
        else: break
    print(' '.join(out))
