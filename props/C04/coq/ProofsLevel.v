(* C03 — the one-level tree editor keeps its tree in git order with unique names, never panics,
   and changes exactly the entry it was asked to change. *)
From Coq Require Import Lia Permutation Sorted RelationClasses.
From GixV.Base Require Import Bytes BytesFacts Outcome.
From GixV.C04 Require Import Model Spec ProofsCmp ProofsSort ProofsSearch.

Definition Inv (es : list entry) : Prop :=
  Forall sf es /\ AscK es /\ NoDup (map e_name es).

(* ---- list surgery ---------------------------------------------------------------------------- *)

Lemma SS_app_inv {A} (R : A -> A -> Prop) l1 : forall l2, StronglySorted R (l1 ++ l2) ->
  StronglySorted R l1 /\ StronglySorted R l2 /\ (forall a b, In a l1 -> In b l2 -> R a b).
Proof.
  induction l1 as [|x l1 IH]; intros l2 H; cbn [app] in H.
  - repeat split; [constructor | exact H | intros a b []].
  - inversion H as [|? ? H' Hall]; subst. destruct (IH l2 H') as (S1 & S2 & C).
    apply Forall_app in Hall. destruct Hall as [A1 A2]. repeat split.
    + now constructor.
    + exact S2.
    + intros a b [<-|Ha] Hb; [rewrite Forall_forall in A2; now apply A2 | now apply C].
Qed.

Lemma in_firstn_nth {A} (l : list A) : forall i a, In a (firstn i l) ->
  exists j, j < i /\ nth_error l j = Some a.
Proof.
  induction l as [|x l IH]; intros [|i] a H; cbn [firstn] in H; try destruct H.
  - subst. exists 0. split; [lia | reflexivity].
  - destruct (IH i a H) as [j [Hj E]]. exists (S j). split; [lia | exact E].
Qed.

Lemma in_skipn_nth {A} (l : list A) : forall i a, In a (skipn i l) ->
  exists j, i <= j /\ nth_error l j = Some a.
Proof.
  induction l as [|x l IH]; intros [|i] a H; cbn [skipn] in H; try destruct H.
  - subst. exists 0. split; [lia | reflexivity].
  - destruct (In_nth_error _ _ H) as [j E]. exists (S j). split; [lia | exact E].
  - destruct (IH i a H) as [j [Hj E]]. exists (S j). split; [lia | exact E].
Qed.

Lemma nth_split_at {A} (l : list A) : forall i e, nth_error l i = Some e ->
  l = firstn i l ++ e :: skipn (S i) l.
Proof.
  induction l as [|x l IH]; intros [|i] e H; try discriminate.
  - cbn in H. injection H as <-. reflexivity.
  - cbn [nth_error] in H. cbn [firstn skipn app]. f_equal. now apply IH.
Qed.

Lemma perm_insert {A} (l : list A) i x : Permutation (firstn i l ++ x :: skipn i l) (x :: l).
Proof. rewrite <- Permutation_middle. now rewrite firstn_skipn. Qed.

Lemma perm_remove {A} (l : list A) i e : nth_error l i = Some e ->
  Permutation l (e :: firstn i l ++ skipn (S i) l).
Proof. intros H. rewrite (nth_split_at l i e H) at 1. symmetry. apply Permutation_middle. Qed.

Lemma perm_replace {A} (l : list A) i (x : A) :
  Permutation (firstn i l ++ x :: skipn (S i) l) (x :: firstn i l ++ skipn (S i) l).
Proof. symmetry. apply Permutation_middle. Qed.

(* ---- order under surgery ----------------------------------------------------------------------- *)

Lemma AscK_keys l1 : forall l2, map ekey l1 = map ekey l2 -> AscK l1 -> AscK l2.
Proof.
  unfold AscK. induction l1 as [|a l1 IH]; intros [|b l2] E H; try discriminate; [constructor|].
  cbn [map] in E. injection E as Eab E. inversion H as [|? ? H' Hall]; subst.
  constructor; [now apply IH|].
  assert (G : Forall (ble (ekey a)) (map ekey l1)) by (apply (proj2 (Forall_map ekey (ble (ekey a)) l1)); exact Hall).
  rewrite E, Eab in G. exact (proj1 (Forall_map ekey (ble (ekey b)) l2) G).
Qed.

Lemma asc_insert es i x : AscK es ->
  (forall j e, j < i -> nth_error es j = Some e -> bytes_cmp (ekey e) (ekey x) = Lt) ->
  (forall j e, i <= j -> nth_error es j = Some e -> bytes_cmp (ekey e) (ekey x) = Gt) ->
  AscK (firstn i es ++ x :: skipn i es).
Proof.
  intros HA HL HG. unfold AscK in *. rewrite <- (firstn_skipn i es) in HA.
  apply SS_app_inv in HA. destruct HA as (S1 & S2 & C).
  apply StronglySorted_app; [exact S1 | |].
  - constructor; [exact S2|]. apply Forall_forall. intros b Hb.
    destruct (in_skipn_nth es i b Hb) as [j [Hj E]]. pose proof (HG j b Hj E) as G.
    apply bytes_cmp_gt_lt in G. unfold kle, ble. rewrite G. discriminate.
  - intros a b Ha [<-|Hb]; [|now apply C].
    destruct (in_firstn_nth es i a Ha) as [j [Hj E]]. pose proof (HL j a Hj E) as L.
    unfold kle, ble. rewrite L. discriminate.
Qed.

Lemma asc_remove es i e : AscK es -> nth_error es i = Some e ->
  AscK (firstn i es ++ skipn (S i) es).
Proof.
  intros HA He. unfold AscK in *. rewrite (nth_split_at es i e He) in HA.
  apply SS_app_inv in HA. destruct HA as (S1 & S2 & C).
  inversion S2 as [|? ? S2' _]; subst.
  apply StronglySorted_app; [exact S1 | exact S2' |].
  intros a b Ha Hb. apply C; [exact Ha | now right].
Qed.

Lemma asc_replace es i e x : AscK es -> nth_error es i = Some e -> ekey x = ekey e ->
  AscK (firstn i es ++ x :: skipn (S i) es).
Proof.
  intros HA He Ek. apply (AscK_keys es); [|exact HA].
  rewrite (nth_split_at es i e He) at 1. rewrite !map_app. cbn [map]. now rewrite Ek.
Qed.

(* ---- the two-step lookup ------------------------------------------------------------------------ *)

Lemma search_key_form es name t : Forall sf es -> slash_free name ->
  binary_search_by (fun e => cmp_entry_with_name e name t) es =
  binary_search_by (fun e => bytes_cmp (ekey e) (key name t)) es.
Proof.
  intros Hs Hn. apply binary_search_ext. intros e He. rewrite Forall_forall in Hs.
  unfold cmp_entry_with_name, ekey. apply name_cmp_key; [now apply Hs | exact Hn].
Qed.

Definition hit (es : list entry) (name : bytes) (i : nat) : Prop :=
  exists e, nth_error es i = Some e /\ e_name e = name.
Definition miss (es : list entry) (name : bytes) (t : bool) (i : nat) : Prop :=
  (forall e, In e es -> e_name e <> name) /\ i <= length es /\
  (forall j e, j < i -> nth_error es j = Some e -> bytes_cmp (ekey e) (key name t) = Lt) /\
  (forall j e, i <= j -> nth_error es j = Some e -> bytes_cmp (ekey e) (key name t) = Gt).

Lemma search2_spec es name must : Forall sf es -> AscK es -> slash_free name ->
  (exists i, search2 es name must = Ok (inl i) /\ hit es name i) \/
  (exists i, search2 es name must = Ok (inr i) /\ miss es name must i).
Proof.
  intros Hs HA Hn. unfold search2. rewrite !search_key_form by assumption.
  pose proof Hs as Hs'. rewrite Forall_forall in Hs'.
  assert (Hname : forall t e, In e es -> bytes_cmp (ekey e) (key name t) = Eq -> e_name e = name).
  { intros t e He E. apply bytes_cmp_eq_iff in E. unfold ekey in E.
    apply key_inj in E; [tauto | now apply Hs' | exact Hn]. }
  set (f := fun t (e : entry) => bytes_cmp (ekey e) (key name t)).
  destruct (bsearch_total (f false) es) as [[i|fi] H1]; fold (f false); rewrite H1; cbn [obind].
  - left. exists i. split; [reflexivity|]. destruct (bsearch_sound _ _ i H1) as [e [He Fe]].
    exists e. split; [exact He|]. apply (Hname false); [eapply nth_error_In; exact He | exact Fe].
  - destruct (bsearch_total (f true) es) as [[i|di] H2]; fold (f true); rewrite H2; cbn [obind].
    + left. exists i. split; [reflexivity|]. destruct (bsearch_sound _ _ i H2) as [e [He Fe]].
      exists e. split; [exact He|]. apply (Hname true); [eapply nth_error_In; exact He | exact Fe].
    + right. exists (if must then di else fi). split; [reflexivity|].
      pose proof (bsearch_err_partition (f false) es fi (asc_up_closed es _ HA) (asc_down_closed es _ HA) H1) as P1.
      pose proof (bsearch_err_partition (f true) es di (asc_up_closed es _ HA) (asc_down_closed es _ HA) H2) as P2.
      split.
      * intros e He En.
        destruct (In_nth_error _ _ He) as [j Hj].
        assert (Ek : ekey e = key name (is_tree (e_mode e))) by (unfold ekey; now rewrite En).
        destruct (is_tree (e_mode e)).
        -- destruct (bsearch_complete (f true) es (asc_up_closed es _ HA) (asc_down_closed es _ HA)) as [k Hk].
           { exists j, e. split; [exact Hj|]. unfold f. rewrite Ek. apply bytes_cmp_refl. }
           congruence.
        -- destruct (bsearch_complete (f false) es (asc_up_closed es _ HA) (asc_down_closed es _ HA)) as [k Hk].
           { exists j, e. split; [exact Hj|]. unfold f. rewrite Ek. apply bytes_cmp_refl. }
           congruence.
      * destruct must; [exact P2 | exact P1].
Qed.

