(* C04 — the edit path never panics and never runs out of fuel: in a state where all trees are in order
   (SInv), no stale subtree exists (Tidy) and the tree the path buffer points at is in memory,
   upsert_or_remove_at_pathbuf returns — `expect("root is always present")`, the two binary searches,
   `entries[idx]`, `Vec::insert/remove` and the debug assertion of push_path_component all hold. *)
From Coq Require Import Lia Permutation List.
From GixV.Base Require Import Bytes BytesFacts Outcome.
From GixV.C04 Require Import Model Spec ProofsCmp ProofsSort ProofsSearch ProofsLevel ProofsInv ProofsForget ProofsTidy.
Local Open Scope outcome_scope.

Definition no_trail (b : bytes) : Prop := last_byte b <> Some slash.

Lemma push_ok k n : no_trail k -> exists K, push_path_component k n = Ok K.
Proof.
  unfold no_trail, push_path_component. intros H. destruct (last_byte k) as [b|]; [|eauto].
  destruct (beqb b slash) eqn:E; [|eauto]. apply beqb_eq in E. subst b. now elim H.
Qed.

Lemma last_byte_app a : forall s, s <> [] -> last_byte (a ++ s) = last_byte s.
Proof.
  induction a as [|x a IH]; intros s Hs; [reflexivity|]. cbn [app last_byte].
  destruct (a ++ s) eqn:E; [|rewrite <- E; now apply IH].
  apply app_eq_nil in E. destruct E as [_ E]. contradiction.
Qed.
Lemma last_byte_in n : forall b, last_byte n = Some b -> In b n.
Proof.
  induction n as [|x n IH]; intros b H; [discriminate|]. cbn [last_byte] in H.
  destruct n as [|y r]; [injection H as <-; now left | right; now apply IH].
Qed.
Lemma push_no_trail k n K : push_path_component k n = Ok K -> n <> [] -> slash_free n -> no_trail K.
Proof.
  intros H Hn Hs. unfold no_trail. intros E.
  assert (E' : last_byte n = Some slash).
  { destruct (push_form _ _ _ H) as [[_ ->]|[_ ->]]; [exact E|].
    change (k ++ slash :: n) with (k ++ [slash] ++ n) in E. rewrite app_assoc in E.
    now rewrite last_byte_app in E. }
  apply last_byte_in in E'. now apply Hs.
Qed.

Lemma level_step_total st name is_last ki : SInv st -> tm_get (path_buf st) (trees st) <> None ->
  no_trail (path_buf st) -> slash_free name ->
  exists s, level_step st name is_last ki = Ok s.
Proof.
  intros HS Hroot Hnt Hsf. unfold level_step.
  destruct (tm_get (path_buf st) (trees st)) as [cur|] eqn:Ecur; [|now elim Hroot]. cbn [unwrap obind].
  assert (HI : Inv cur) by (eapply minv_get; [apply HS | exact Ecur]).
  destruct HI as (Hs & HA & Hn).
  assert (Hforget : forall m, exists m', forget_trees_at_and_below m (path_buf st) name = Ok m').
  { intros m. unfold forget_trees_at_and_below. destruct (push_ok (path_buf st) name Hnt) as [K ->].
    cbn [obind]. eauto. }
  match goal with |- context [search2 cur name ?must] =>
    destruct (search2_spec cur name must Hs HA Hsf) as [[i [H Hh]] | [i [H Hm]]]; rewrite H; cbn [obind] end.
  - destruct Hh as [e [He En]]. rewrite He. cbn [unwrap obind].
    destruct ki as [[[kind id] mode]|].
    + destruct (is_last && negb _).
      * destruct (is_normal mode); [|eauto]. destruct (is_tree (e_mode e)); [|eauto].
        cbn [set_cur trees path_buf].
        match goal with |- context [forget_trees_at_and_below ?m _ _] => destruct (Hforget m) as [m' ->] end.
        cbn [obind]. eauto.
      * destruct (is_tree (e_mode e)); eauto.
    + destruct is_last.
      * destruct (is_tree (e_mode e)); [|eauto]. cbn [set_cur trees path_buf].
        match goal with |- context [forget_trees_at_and_below ?m _ _] => destruct (Hforget m) as [m' ->] end.
        cbn [obind]. eauto.
      * destruct (is_tree (e_mode e)); eauto.
  - destruct ki as [[[kind id] mode]|]; [|eauto].
    destruct Hm as (_ & Hlen & _). apply Nat.leb_le in Hlen. rewrite Hlen.
    destruct (is_last && is_normal mode); eauto.
Qed.

Lemma descend_total st name lookup : no_trail (path_buf st) -> name <> [] -> slash_free name ->
  exists st' r, descend st name lookup = Ok (st', r) /\ no_trail (path_buf st') /\
                (r = EOk -> tm_get (path_buf st') (trees st') <> None).
Proof.
  intros Hnt Hne Hsf. unfold descend. destruct (push_ok (path_buf st) name Hnt) as [K HK]. rewrite HK.
  cbn [obind]. pose proof (push_no_trail _ _ _ HK Hne Hsf) as HKt.
  destruct (tm_get K (trees st)) eqn:Eg.
  - eexists _, _. split; [reflexivity|]. cbn [path_buf trees]. split; [exact HKt|]. intros _. congruence.
  - destruct (match lookup with Some id => if bytes_eqb id EMPTY_TREE then None else Some id | None => None end) as [id|].
    + destruct (find_tree (odb st) id) as [t|]; eexists _, _; (split; [reflexivity|]); cbn [path_buf trees];
        (split; [exact HKt|]).
      * intros _. rewrite tm_get_set_same. discriminate.
      * discriminate.
    + eexists _, _. split; [reflexivity|]. cbn [path_buf trees]. split; [exact HKt|].
      intros _. rewrite tm_get_set_same. discriminate.
Qed.

Lemma upsert_loop_total comps : forall st ki, SInv st -> Tidy (trees st) ->
  tm_get (path_buf st) (trees st) <> None -> no_trail (path_buf st) ->
  Forall slash_free comps -> ki_ok ki -> ki_tidy ki ->
  exists st' r, upsert_loop st comps ki = Ok (st', r).
Proof.
  induction comps as [|name rest IH]; intros st ki HS HT Hroot Hnt Hc Hk Hk2; cbn [upsert_loop]; [eauto|].
  inversion Hc as [|? ? Hn Hr]; subst.
  destruct (is_empty name) eqn:Ee; [eauto|].
  assert (Hne : name <> []) by (intros ->; discriminate).
  destruct (level_step_total st name (match rest with [] => true | _ => false end) ki HS Hroot Hnt Hn) as [s Es].
  rewrite Es. cbn [obind].
  pose proof (level_step_inv _ _ _ _ _ HS Hn Hk Es) as Hs.
  pose proof (level_step_tidy _ _ _ _ _ HS HT Hn Hne Hk2 Es) as Ht.
  destruct s as [st1|st1 lookup]; cbn [step_inv step_tidy] in Hs, Ht; [eauto|].
  destruct Ht as (Ht1 & Hpb & Hes).
  assert (Hnt1 : no_trail (path_buf st1)) by (now rewrite Hpb).
  destruct (descend_total st1 name lookup Hnt1 Hne Hn) as (st2 & r2 & Ed & Hnt2 & Hroot2).
  rewrite Ed. cbn [obind].
  rewrite <- Hpb in Hes.
  pose proof (descend_inv _ _ _ _ _ Hs Ed) as H2.
  pose proof (descend_tidy _ _ _ _ _ Ht1 Hes Ed) as T2.
  destruct r2; [|eauto|eauto].
  apply IH; try assumption. now apply Hroot2.
Qed.

(* Editor::{upsert, remove, cursor_at}: the path buffer is cleared first *)
Lemma editor_edit_total st comps ki : SInv st -> Tidy (trees st) ->
  Forall slash_free comps -> ki_ok ki -> ki_tidy ki ->
  exists st' r, upsert_or_remove_at_pathbuf (with_path st []) comps ki = Ok (st', r).
Proof.
  intros HS [Hroot HT] Hc Hk Hk2. unfold upsert_or_remove_at_pathbuf. cbn [with_path trees path_buf].
  destruct (tm_get [] (trees st)) as [root|] eqn:Er; [|now elim Hroot]. cbn [unwrap obind].
  apply upsert_loop_total; try assumption.
  - split; [cbn [with_path trees]; rewrite Er; discriminate | exact HT].
  - cbn [with_path trees path_buf]. rewrite Er. discriminate.
  - cbn [with_path path_buf]. unfold no_trail. cbn. discriminate.
Qed.

(* from any cursor prefix whose tree is in memory *)
Lemma edit_total_any_prefix st comps ki : SInv st -> Tidy (trees st) ->
  tm_get (path_buf st) (trees st) <> None -> no_trail (path_buf st) ->
  Forall slash_free comps -> ki_ok ki -> ki_tidy ki ->
  exists st' r, upsert_or_remove_at_pathbuf st comps ki = Ok (st', r).
Proof.
  intros HS HT Hroot Hnt Hc Hk Hk2. unfold upsert_or_remove_at_pathbuf.
  destruct (tm_get (path_buf st) (trees st)) as [root|] eqn:Er; [|now elim Hroot]. cbn [unwrap obind].
  apply upsert_loop_total; try assumption. congruence.
Qed.

Lemma editor_edit_total_after_history ops st' comps ki :
  Forall eop_ok ops -> Forall eop_no_cursor_write ops -> erun (init_state [] [] 0) ops = Ok st' ->
  Forall slash_free comps -> ki_ok ki -> ki_tidy ki ->
  exists st'' r, upsert_or_remove_at_pathbuf (with_path st' []) comps ki = Ok (st'', r).
Proof.
  intros Hok Hnc Hrun Hc Hk Hk2. apply editor_edit_total; try assumption.
  - exact (erun_inv ops _ _ sinv_init Hok Hrun).
  - exact (erun_tidy ops _ _ sinv_init tidy_init Hok Hnc Hrun).
Qed.
