(* C03 — the sort: output is a permutation, is ordered by key, and is THE ordered permutation when
   keys are unique; so it coincides with any list git would call sorted. *)
From Coq Require Import Lia Permutation Sorted RelationClasses.
From GixV.Base Require Import Bytes BytesFacts Outcome.
From GixV.C04 Require Import Model Spec ProofsCmp.

Definition sf (e : entry) : Prop := slash_free (e_name e).
Definition nf (e : entry) : Prop := nul_free (e_name e).
Definition kle (a b : entry) : Prop := ble (ekey a) (ekey b).
Definition AscK (l : list entry) : Prop := StronglySorted kle l.
Definition DescK (l : list entry) : Prop := StronglySorted (fun a b => kle b a) l.

Global Instance kle_trans : Transitive kle.
Proof. intros a b c. unfold kle. apply ble_trans. Qed.

Definition sort_step (r : list entry) (x : entry) : list entry := ins_rev x r.

(* ---- permutation ------------------------------------------------------------------------- *)

Lemma ins_rev_perm x r : Permutation (ins_rev x r) (x :: r).
Proof.
  induction r as [|y r IH]; cbn [ins_rev]; [reflexivity|].
  destruct (is_lt (entry_cmp x y)); [|reflexivity].
  rewrite IH. apply perm_swap.
Qed.

Lemma fold_ins_perm es : forall r,
  Permutation (fold_left (fun r x => ins_rev x r) es r) (es ++ r).
Proof.
  induction es as [|x es IH]; intros r; cbn [fold_left app]; [reflexivity|].
  rewrite IH. rewrite ins_rev_perm. symmetry. apply Permutation_middle.
Qed.

Lemma sort_perm es : Permutation (sort_entries es) es.
Proof.
  unfold sort_entries. rewrite <- Permutation_rev. rewrite fold_ins_perm. now rewrite app_nil_r.
Qed.

(* ---- order --------------------------------------------------------------------------------- *)

Lemma is_lt_key x y : sf x -> sf y ->
  is_lt (entry_cmp x y) = is_lt (bytes_cmp (ekey x) (ekey y)).
Proof. intros. now rewrite entry_cmp_key. Qed.

Lemma not_lt_kle x y : is_lt (bytes_cmp (ekey x) (ekey y)) = false -> kle y x.
Proof.
  unfold kle, ble. intros H E. apply bytes_cmp_gt_lt in E. rewrite E in H. discriminate.
Qed.
Lemma lt_kle x y : is_lt (bytes_cmp (ekey x) (ekey y)) = true -> kle x y.
Proof. unfold kle, ble. destruct (bytes_cmp (ekey x) (ekey y)); cbn; congruence. Qed.

Lemma ins_rev_desc x r : sf x -> Forall sf r -> DescK r -> DescK (ins_rev x r).
Proof.
  intros Hx. induction r as [|y r IH]; intros Hr Hs; cbn [ins_rev].
  - constructor; constructor.
  - inversion Hr as [|? ? Hy Hr']; subst. inversion Hs as [|? ? Hs' Hall]; subst.
    rewrite is_lt_key by assumption.
    destruct (is_lt (bytes_cmp (ekey x) (ekey y))) eqn:E.
    + constructor; [now apply IH|].
      eapply Permutation_Forall; [symmetry; apply ins_rev_perm|].
      constructor; [now apply lt_kle | exact Hall].
    + apply not_lt_kle in E. constructor; [exact Hs|].
      constructor; [exact E|].
      eapply Forall_impl; [|exact Hall]. intros b Hb. cbv beta in Hb. now transitivity y.
Qed.

Lemma fold_ins_desc es : forall r, Forall sf es -> Forall sf r -> DescK r ->
  DescK (fold_left (fun r x => ins_rev x r) es r).
Proof.
  induction es as [|x es IH]; intros r He Hr Hs; cbn [fold_left]; [exact Hs|].
  inversion He as [|? ? Hx He']; subst. apply IH; [exact He' | | now apply ins_rev_desc].
  eapply Permutation_Forall; [symmetry; apply ins_rev_perm|]. now constructor.
Qed.

Lemma StronglySorted_app {A} (R : A -> A -> Prop) l1 : forall l2,
  StronglySorted R l1 -> StronglySorted R l2 ->
  (forall a b, In a l1 -> In b l2 -> R a b) -> StronglySorted R (l1 ++ l2).
Proof.
  induction l1 as [|x l1 IH]; intros l2 H1 H2 H; cbn [app]; [exact H2|].
  inversion H1 as [|? ? H1' Hall]; subst. constructor.
  - apply IH; [exact H1' | exact H2 |]. intros a b Ha Hb. apply H; [now right | exact Hb].
  - apply Forall_app. split; [exact Hall|]. apply Forall_forall. intros b Hb. apply H; [now left | exact Hb].
Qed.

Lemma StronglySorted_rev {A} (R : A -> A -> Prop) l :
  StronglySorted (fun a b => R b a) l -> StronglySorted R (rev l).
Proof.
  induction l as [|x l IH]; intros H; cbn [rev]; [constructor|].
  inversion H as [|? ? H' Hall]; subst. apply StronglySorted_app.
  - now apply IH.
  - constructor; constructor.
  - intros a b Ha Hb. destruct Hb as [<-|[]]. apply in_rev in Ha.
    rewrite Forall_forall in Hall. now apply Hall.
Qed.

Lemma sort_asc es : Forall sf es -> AscK (sort_entries es).
Proof.
  intros H. unfold sort_entries, AscK. apply StronglySorted_rev.
  apply (fold_ins_desc es [] H); constructor.
Qed.

(* ---- uniqueness of the ordered permutation -------------------------------------------------- *)

Lemma key_in_inj l : NoDup (map ekey l) -> forall a b, In a l -> In b l -> ekey a = ekey b -> a = b.
Proof.
  induction l as [|x l IH]; intros Hn a b Ha Hb E; [destruct Ha|].
  cbn [map] in Hn. inversion Hn as [|? ? Hnot Hn']; subst.
  destruct Ha as [<-|Ha]; destruct Hb as [<-|Hb]; try reflexivity.
  - exfalso. apply Hnot. rewrite E. now apply in_map.
  - exfalso. apply Hnot. rewrite <- E. now apply in_map.
  - now apply IH.
Qed.

Lemma asc_perm_unique l1 : forall l2,
  AscK l1 -> AscK l2 -> Permutation l1 l2 -> NoDup (map ekey l1) -> l1 = l2.
Proof.
  induction l1 as [|a l1 IH]; intros l2 H1 H2 P Hn.
  - apply Permutation_nil in P. now subst.
  - destruct l2 as [|b l2]; [symmetry in P; apply Permutation_nil in P; discriminate|].
    inversion H1 as [|? ? H1' A1]; subst. inversion H2 as [|? ? H2' A2]; subst.
    rewrite Forall_forall in A1, A2.
    assert (Hb : In b (a :: l1)) by (eapply Permutation_in; [symmetry; exact P | now left]).
    assert (Ha : In a (b :: l2)) by (eapply Permutation_in; [exact P | now left]).
    assert (Eab : ekey a = ekey b).
    { apply ble_antisym.
      - destruct Hb as [<-|Hb]; [apply ble_refl | now apply A1].
      - destruct Ha as [<-|Ha]; [apply ble_refl | now apply A2]. }
    assert (a = b) by (apply (key_in_inj (a :: l1) Hn); [now left | exact Hb | exact Eab]).
    subst b. f_equal. apply IH; try assumption.
    + now apply Permutation_cons_inv in P.
    + cbn [map] in Hn. now inversion Hn.
Qed.

(* ---- from "adjacent entries are in git order" to AscK ---------------------------------------- *)

Definition git_le (a b : entry) : Prop := git_cmp a b <> Gt.
Definition gix_le (a b : entry) : Prop := entry_cmp a b <> Gt.

Lemma Sorted_impl_dom {A} (R R' : A -> A -> Prop) (D : A -> Prop) l :
  (forall a b, D a -> D b -> R a b -> R' a b) -> Forall D l -> Sorted R l -> Sorted R' l.
Proof.
  intros H. induction l as [|x l IH]; intros HD HS; [constructor|].
  inversion HD as [|? ? Dx HD']; subst. inversion HS as [|? ? HS' Hh]; subst.
  constructor; [now apply IH|].
  destruct Hh as [|y l' Rxy]; constructor. inversion HD'; subst. now apply H.
Qed.

Lemma gix_sorted_AscK l : Forall sf l -> Sorted gix_le l -> AscK l.
Proof.
  intros HD HS. apply Sorted_StronglySorted; [exact kle_trans|].
  eapply (Sorted_impl_dom gix_le kle sf); [|exact HD|exact HS].
  intros a b Da Db. unfold gix_le, kle, ble. now rewrite entry_cmp_key.
Qed.

Lemma git_sorted_AscK l : Forall sf l -> Forall nf l -> Sorted git_le l -> AscK l.
Proof.
  intros HD HN HS. apply gix_sorted_AscK; [exact HD|].
  eapply (Sorted_impl_dom git_le gix_le nf); [|exact HN|exact HS].
  intros a b Da Db. unfold git_le, gix_le. now rewrite entry_cmp_is_git.
Qed.

Lemma AscK_gix_sorted l : Forall sf l -> AscK l -> Sorted gix_le l.
Proof.
  intros HD HS. apply StronglySorted_Sorted in HS.
  eapply (Sorted_impl_dom kle gix_le sf); [|exact HD|exact HS].
  intros a b Da Db. unfold gix_le, kle, ble. now rewrite entry_cmp_key.
Qed.

(* ---- main statements ------------------------------------------------------------------------ *)

Lemma sort_is_the_git_order es l :
  Forall sf es -> Forall nf es -> NoDup (map ekey es) ->
  Permutation l es -> Sorted git_le l -> l = sort_entries es.
Proof.
  intros Hs Hn Hk P S.
  assert (Hs' : Forall sf l) by (eapply Permutation_Forall; [symmetry; exact P | exact Hs]).
  assert (Hn' : Forall nf l) by (eapply Permutation_Forall; [symmetry; exact P | exact Hn]).
  apply asc_perm_unique.
  - now apply git_sorted_AscK.
  - now apply sort_asc.
  - rewrite P. symmetry. apply sort_perm.
  - eapply Permutation_NoDup; [|exact Hk]. apply Permutation_map. now symmetry.
Qed.

Lemma sort_git_sorted es : Forall sf es -> Forall nf es -> Sorted git_le (sort_entries es).
Proof.
  intros Hs Hn.
  assert (Hs' : Forall sf (sort_entries es)) by (eapply Permutation_Forall; [symmetry; apply sort_perm | exact Hs]).
  assert (Hn' : Forall nf (sort_entries es)) by (eapply Permutation_Forall; [symmetry; apply sort_perm | exact Hn]).
  pose proof (AscK_gix_sorted _ Hs' (sort_asc es Hs)) as G.
  eapply (Sorted_impl_dom gix_le git_le nf); [|exact Hn'|exact G].
  intros a b Da Db. unfold git_le, gix_le. now rewrite entry_cmp_is_git.
Qed.

Lemma sort_order_independent es1 es2 :
  Forall sf es1 -> NoDup (map ekey es1) -> Permutation es1 es2 ->
  sort_entries es1 = sort_entries es2.
Proof.
  intros Hs Hk P.
  assert (Hs2 : Forall sf es2) by (eapply Permutation_Forall; [exact P | exact Hs]).
  apply asc_perm_unique.
  - now apply sort_asc.
  - now apply sort_asc.
  - rewrite sort_perm, P. symmetry. apply sort_perm.
  - eapply Permutation_NoDup; [|exact Hk]. apply Permutation_map. symmetry. apply sort_perm.
Qed.
