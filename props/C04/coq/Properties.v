(* C04 — theorems (statements only; proofs in Proofs*.v).

   Vocabulary: [Inv t] = the entries of tree [t] have slash-free names, are in git's order
   (byte order of name, directories as name ++ "/") and no name occurs twice;
   [SInv st] = [Inv] holds for every tree the editor holds in memory ([trees st], keyed by path) and for
   every tree of the object database / sink ([odb st]: what `find` returns and what `out` received);
   [eop] = the public operations (Editor::{upsert, remove, cursor_at, write, set_root}, Cursor::{upsert,
   remove, write} with the cursor given by its prefix); [erun] runs a history on the model of the FIXED
   code (after 1e7055a5f and 77807d108). *)
From Coq Require Import Sorted.
From GixV.Base Require Import Bytes Outcome.
From GixV.C04 Require Import Model Spec ProofsCmp ProofsSort ProofsSearch ProofsLevel ProofsInv ProofsForget ProofsTidy ProofsTotal ProofsExamples.

(* one level of a path: the two binary searches find an entry of that name if and only if there is
   one (whatever its kind), else the insertion point that keeps git's order *)
Theorem lookup_finds_name_or_insertion_point : forall es name must,
  Forall sf es -> AscK es -> slash_free name ->
  (exists i, search2 es name must = Ok (inl i) /\ hit es name i) \/
  (exists i, search2 es name must = Ok (inr i) /\ miss es name must i).
Proof. exact search2_spec. Qed.

(* upsert / remove / cursor_at at any nested path, from any cursor prefix, keep every tree in order *)
Theorem edit_keeps_every_tree_in_git_order : forall st comps ki st' r,
  SInv st -> Forall slash_free comps -> ki_ok ki ->
  upsert_or_remove_at_pathbuf st comps ki = Ok (st', r) -> SInv st'.
Proof. exact upsert_or_remove_inv. Qed.

(* Editor::write and Cursor::write: every tree handed to `out` (it ends up in [odb]) and every tree kept
   in memory afterwards is in order — whatever the stacks of write_at_pathbuf do *)
Theorem write_keeps_every_tree_in_git_order : forall st mode id st',
  SInv st -> write_at_pathbuf st mode = Ok (id, st') -> SInv st'.
Proof. exact write_at_inv. Qed.

(* any history of public operations, with cursors, intermediate writes and set_root *)
Theorem history_keeps_every_tree_in_git_order : forall ops st st',
  SInv st -> Forall eop_ok ops -> erun st ops = Ok st' -> SInv st'.
Proof. exact erun_inv. Qed.

(* "every written tree is canonically sorted": starting from a new editor, every tree any history ever
   hands to `out` is sorted by git's own base_name_compare and has no duplicate names *)
Theorem written_trees_sorted : forall ops st' t,
  Forall eop_ok ops -> erun (init_state [] [] 0) ops = Ok st' -> In t (odb st') -> Forall nf t ->
  Sorted git_le t /\ NoDup (map e_name t).
Proof.
  intros ops st' t Hok Hrun Hin Hnf. apply inv_git_sorted; [|exact Hnf].
  pose proof (erun_inv ops _ _ sinv_init Hok Hrun) as [_ Ho].
  unfold OInv in Ho. rewrite Forall_forall in Ho. now apply Ho.
Qed.

(* the repair of the stale-subtree defect, at the level of the path-keyed map: once the entry `name` of the
   tree at `base` is removed or replaced, no in-memory tree is left at base/name or below it (so nothing can
   be picked up again when the path is re-created), and all other in-memory trees are untouched *)
Theorem forgetting_a_directory_drops_exactly_its_subtrees : forall m base name m',
  forget_trees_at_and_below m base name = Ok m' ->
  exists p, push_path_component base name = Ok p /\
    tm_get p m' = None /\
    (forall k, starts_with (p ++ [slash]) k = true -> tm_get k m' = None) /\
    (forall k, k <> p -> starts_with (p ++ [slash]) k = false -> tm_get k m' = tm_get k m).
Proof. exact forget_spec. Qed.

(* "the keys of `trees` are exactly the loaded prefixes" — NO STALE SUBTREE, for all histories: after any
   history of editor and cursor edits, cursor_at, Editor::write, set_root (everything but Cursor::write) on a
   new editor, every tree held in memory other than the root sits at a path k/n whose parent k is held in
   memory too and has a DIRECTORY entry named n; and the root tree is always present.  This is the invariant
   the code violated before fix 1e7055a5f (see [stale_state_is_excluded]). *)
Theorem no_stale_subtrees : forall ops st',
  Forall eop_ok ops -> Forall eop_no_cursor_write ops ->
  erun (init_state [] [] 0) ops = Ok st' -> Tidy (trees st').
Proof.
  intros ops st' Hok Hnc Hrun. exact (erun_tidy ops _ _ sinv_init tidy_init Hok Hnc Hrun).
Qed.

(* one step of it, from any state and any cursor prefix *)
Theorem edit_leaves_no_stale_subtree : forall st comps ki st' r,
  SInv st -> Tidy (trees st) -> Forall slash_free comps -> ki_ok ki -> ki_tidy ki ->
  upsert_or_remove_at_pathbuf st comps ki = Ok (st', r) -> Tidy (trees st').
Proof. exact upsert_or_remove_tidy. Qed.

(* Editor::write keeps nothing in memory but the root tree it wrote *)
Theorem editor_write_keeps_only_the_root : forall fuel pb w id m o n,
  write_loop fuel WNormal pb w = Ok (id, m, o, n) -> exists t, m = [(pb, t)].
Proof. exact write_loop_normal_shape. Qed.

(* the edit path NEVER PANICS and never runs out of fuel: whenever all trees are in order, no stale subtree
   exists, the tree the path buffer points at is in memory and the buffer does not end in '/',
   upsert_or_remove_at_pathbuf returns Ok(..) or one of its two errors — `expect("root is always present")`,
   both binary searches, `entries[idx]`, Vec::insert / Vec::remove and push_path_component's debug assertion
   all hold.  Result [Ok (st', r)]: r is EOk, EEmpty (Err EmptyPathComponent) or EFind (Err FindExistingObject). *)
Theorem edit_never_panics : forall st comps ki,
  SInv st -> Tidy (trees st) -> tm_get (path_buf st) (trees st) <> None -> no_trail (path_buf st) ->
  Forall slash_free comps -> ki_ok ki -> ki_tidy ki ->
  exists st' r, upsert_or_remove_at_pathbuf st comps ki = Ok (st', r).
Proof. exact edit_total_any_prefix. Qed.

(* … in particular Editor::{upsert, remove, cursor_at} after ANY history on a new editor *)
Theorem editor_edits_never_panic_after_any_history : forall ops st' comps ki,
  Forall eop_ok ops -> Forall eop_no_cursor_write ops -> erun (init_state [] [] 0) ops = Ok st' ->
  Forall slash_free comps -> ki_ok ki -> ki_tidy ki ->
  exists st'' r, upsert_or_remove_at_pathbuf (with_path st' []) comps ki = Ok (st'', r).
Proof. exact editor_edit_total_after_history. Qed.

(* the part of the property that is NOT proved (tested by the correspondence run and the oracle only):
   writing equals building the resulting set of paths from scratch.  [denote] would map an editor state to
   the nested directory it stands for; see NOTES.md. *)
Definition editor_refines_map_full_statement : Prop :=
  forall (denote : state -> list (list bytes * N * bytes)) (build : list (list bytes * N * bytes) -> bytes),
  forall ops st' id st'', Forall eop_ok ops -> erun (init_state [] [] 0) ops = Ok st' ->
    write st' None = Ok (id, st'') -> id = build (denote st').

(* non-vacuity and the two repaired defects, replayed on the model *)
Example hypotheses_satisfiable_1 : Forall eop_ok witness_stale.
Proof. exact witness_stale_ok. Qed.
Example hypotheses_satisfiable_2 : Forall eop_ok witness_cursor.
Proof. exact witness_cursor_ok. Qed.
Example hypotheses_satisfiable_3 : Forall eop_no_cursor_write witness_stale.
Proof. repeat constructor. Qed.
(* the in-memory state defect 1 produced (a tree under "a", no directory `a` in the root) is not Tidy *)
Example stale_state_is_excluded : ~ Tidy [([], []); ([x61], [])].
Proof. exact stale_state_not_tidy. Qed.
Example stale_subtree_does_not_come_back :
  omap odb (erun (init_state [] [] 0) witness_stale) =
  Ok [[mkEntry BLOB (bs "c") B3]; [mkEntry MODE_TREE (bs "a") (id_of_index 0)]].
Proof. exact witness_stale_result. Qed.
Example cursor_at_keeps_existing_directory :
  omap (fun st => nth 2 (odb st) []) (erun (init_state [] [] 0) witness_cursor) =
  Ok [mkEntry BLOB (bs "x") B1; mkEntry BLOB (bs "y") B2; mkEntry BLOB (bs "z") B3].
Proof. exact witness_cursor_result. Qed.
