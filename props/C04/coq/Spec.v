(* C03 — independent specification: git's own ordering of tree entries and a linear lookup.

   git 2.39.5, read-cache.c (used by tree.c / mktree.c / fsck's verify_ordered via the same rule):

     int base_name_compare(const char *name1, size_t len1, int mode1,
                           const char *name2, size_t len2, int mode2)
     {
         unsigned char c1, c2;
         size_t len = len1 < len2 ? len1 : len2;
         int cmp;
         cmp = memcmp(name1, name2, len);
         if (cmp) return cmp;
         c1 = name1[len];
         c2 = name2[len];
         if (!c1 && S_ISDIR(mode1)) c1 = '/';
         if (!c2 && S_ISDIR(mode2)) c2 = '/';
         return (c1 < c2) ? -1 : (c1 > c2) ? 1 : 0;
     }

   Names are C strings: name[len] with len = strlen(name) reads the terminating NUL, hence
   [nth len name x00].  S_ISDIR(m) = ((m & S_IFMT) == S_IFDIR) = ((m & 0170000) == 0040000). *)
From GixV.Base Require Import Bytes Outcome.
From GixV.C04 Require Import Model.
Local Open Scope N_scope.

Definition S_ISDIR (m : N) : bool := N.eqb (N.land m 61440) 16384.

Definition git_base_name_compare (n1 : bytes) (m1 : N) (n2 : bytes) (m2 : N) : comparison :=
  let len := if Nat.ltb (length n1) (length n2) then length n1 else length n2 in
  match bytes_cmp (firstn len n1) (firstn len n2) with      (* memcmp over equal lengths *)
  | Eq =>
      let c1 := nth len n1 x00 in
      let c2 := nth len n2 x00 in
      let c1 := if N.eqb (b2N c1) 0 && S_ISDIR m1 then x2f else c1 in
      let c2 := if N.eqb (b2N c2) 0 && S_ISDIR m2 then x2f else c2 in
      N.compare (b2N c1) (b2N c2)
  | c => c
  end.
Definition git_cmp (a b : entry) : comparison :=
  git_base_name_compare (e_name a) (e_mode a) (e_name b) (e_mode b).

(* "a directory compares as if its name ended in '/'": the sort key *)
Definition key (name : bytes) (tree : bool) : bytes := name ++ (if tree then [x2f] else []).
Definition ekey (e : entry) : bytes := key (e_name e) (is_tree (e_mode e)).

(* an executable sort by git's comparison (plain left-to-right insertion), used for the
   `spec` transcript that is compared with `git mktree` *)
Fixpoint git_insert (x : entry) (l : list entry) : list entry :=
  match l with
  | [] => [x]
  | y :: l' => match git_cmp x y with Lt => x :: l | _ => y :: git_insert x l' end
  end.
Definition git_sort (es : list entry) : list entry := fold_right git_insert [] es.

(* linear lookup: the first entry with that name and that kind (directory or not) *)
Definition matches (name : bytes) (is_dir : bool) (e : entry) : bool :=
  bytes_eqb (e_name e) name && Bool.eqb (is_tree (e_mode e)) is_dir.
Definition linear_find (es : list entry) (name : bytes) (is_dir : bool) : option entry :=
  find (matches name is_dir) es.

(* the domain of the property *)
Definition slash_free (n : bytes) : Prop := ~ In x2f n.
Definition nul_free (n : bytes) : Prop := ~ In x00 n.
Definition slash_freeb (n : bytes) : bool := negb (existsb (fun b => beqb b x2f) n).
Definition nul_freeb (n : bytes) : bool := negb (existsb (fun b => beqb b x00) n).
