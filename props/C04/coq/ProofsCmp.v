(* C03 — facts about the comparison: it is git's base_name_compare, and on '/'-free names it is the
   plain byte order of the keys  name ++ (if tree then "/" else "")  — hence a total order. *)
From Coq Require Import Lia.
From GixV.Base Require Import Bytes BytesFacts Outcome.
From GixV.C04 Require Import Model Spec.
Local Open Scope N_scope.

(* ---- byte order: transitivity ----------------------------------------------------------- *)

Lemma bytes_cmp_lt_trans a : forall b c,
  bytes_cmp a b = Lt -> bytes_cmp b c = Lt -> bytes_cmp a c = Lt.
Proof.
  induction a as [|x a IH]; intros [|y b] [|z c] H1 H2; cbn [bytes_cmp] in *; try discriminate; try reflexivity.
  destruct (N.compare (b2N x) (b2N y)) eqn:Exy; try discriminate;
  destruct (N.compare (b2N y) (b2N z)) eqn:Eyz; try discriminate.
  - apply N.compare_eq in Exy. apply N.compare_eq in Eyz. rewrite Exy, Eyz, N.compare_refl.
    eapply IH; eassumption.
  - apply N.compare_eq in Exy. rewrite Exy, Eyz. reflexivity.
  - apply N.compare_eq in Eyz. rewrite <- Eyz, Exy. reflexivity.
  - rewrite N.compare_lt_iff in *. assert (L : b2N x < b2N z) by lia.
    apply N.compare_lt_iff in L. rewrite L. reflexivity.
Qed.

Definition ble (a b : bytes) : Prop := bytes_cmp a b <> Gt.

Lemma bytes_cmp_gt_lt a b : bytes_cmp a b = Gt <-> bytes_cmp b a = Lt.
Proof.
  rewrite (bytes_cmp_antisym a b). destruct (bytes_cmp a b); cbn [CompOpp]; split; congruence.
Qed.

Lemma ble_refl a : ble a a.
Proof. unfold ble. rewrite bytes_cmp_refl. discriminate. Qed.

Lemma ble_trans a b c : ble a b -> ble b c -> ble a c.
Proof.
  unfold ble. intros H1 H2 H3.
  destruct (bytes_cmp a b) eqn:Eab; try congruence.
  - apply bytes_cmp_eq_iff in Eab. subst b. congruence.
  - destruct (bytes_cmp b c) eqn:Ebc; try congruence.
    + apply bytes_cmp_eq_iff in Ebc. subst c. congruence.
    + pose proof (bytes_cmp_lt_trans _ _ _ Eab Ebc). congruence.
Qed.

Lemma ble_antisym a b : ble a b -> ble b a -> a = b.
Proof.
  unfold ble. intros H1 H2. destruct (bytes_cmp a b) eqn:E.
  - now apply bytes_cmp_eq_iff.
  - apply bytes_cmp_gt_lt in E. congruence.
  - congruence.
Qed.

Lemma ble_total a b : ble a b \/ ble b a.
Proof.
  unfold ble. destruct (bytes_cmp a b) eqn:E.
  - left. discriminate.
  - left. discriminate.
  - right. apply bytes_cmp_gt_lt in E. rewrite E. discriminate.
Qed.

(* a <= b < c  ->  a < c   and   a < b <= c -> a < c *)
Lemma ble_lt_trans a b c : ble a b -> bytes_cmp b c = Lt -> bytes_cmp a c = Lt.
Proof.
  unfold ble. intros H1 H2. destruct (bytes_cmp a b) eqn:E; try congruence.
  - apply bytes_cmp_eq_iff in E. now subst.
  - eapply bytes_cmp_lt_trans; eassumption.
Qed.
Lemma lt_ble_trans a b c : bytes_cmp a b = Lt -> ble b c -> bytes_cmp a c = Lt.
Proof.
  unfold ble. intros H1 H2. destruct (bytes_cmp b c) eqn:E; try congruence.
  - apply bytes_cmp_eq_iff in E. now subst.
  - eapply bytes_cmp_lt_trans; eassumption.
Qed.

(* ---- a structurally recursive form of the comparison ---------------------------------------- *)

Definition end_byte (tree : bool) : option byte := if tree then Some slash else None.

Fixpoint name_cmp_rec (an : bytes) (atree : bool) (bn : bytes) (btree : bool) : comparison :=
  match an, bn with
  | x :: a, y :: b =>
      match N.compare (b2N x) (b2N y) with
      | Eq => name_cmp_rec a atree b btree
      | c => c
      end
  | [], [] => opt_byte_cmp (end_byte atree) (end_byte btree)
  | [], y :: _ => opt_byte_cmp (end_byte atree) (Some y)
  | x :: _, [] => opt_byte_cmp (Some x) (end_byte btree)
  end.

Lemma name_cmp_is_rec an atree : forall bn btree,
  name_cmp an atree bn btree = name_cmp_rec an atree bn btree.
Proof.
  induction an as [|x a IH]; intros [|y b] btree.
  - reflexivity.
  - reflexivity.
  - reflexivity.
  - specialize (IH b btree). unfold name_cmp in *.
    cbn [length Nat.min firstn bytes_cmp next_byte nth_error name_cmp_rec].
    destruct (N.compare (b2N x) (b2N y)); try reflexivity.
    exact IH.
Qed.

(* ---- the key formulation ------------------------------------------------------------------- *)

Lemma slash_free_cons x n : slash_free (x :: n) <-> x <> x2f /\ slash_free n.
Proof.
  unfold slash_free. cbn [In]. split.
  - intros H. split; [intros E; apply H; left; congruence | intros E; apply H; now right].
  - intros [H1 H2] [E|E]; [apply H1; congruence | now apply H2].
Qed.

Lemma compare_ne_eq (x y : byte) : x <> y -> N.compare (b2N x) (b2N y) <> Eq.
Proof. intros H E. apply N.compare_eq in E. apply b2N_inj in E. contradiction. Qed.

Lemma name_cmp_rec_key an : forall atree bn btree,
  slash_free an -> slash_free bn ->
  name_cmp_rec an atree bn btree = bytes_cmp (key an atree) (key bn btree).
Proof.
  unfold key. induction an as [|x a IH]; intros atree [|y b] btree Ha Hb.
  - destruct atree, btree; reflexivity.
  - apply slash_free_cons in Hb. destruct Hb as [Hy Hb].
    cbn [name_cmp_rec app]. destruct atree; cbn [end_byte opt_byte_cmp bytes_cmp].
    + unfold slash. pose proof (compare_ne_eq x2f y (fun E => Hy (eq_sym E))) as Hne.
      destruct (N.compare (b2N x2f) (b2N y)); [congruence | reflexivity | reflexivity].
    + reflexivity.
  - apply slash_free_cons in Ha. destruct Ha as [Hx Ha].
    cbn [name_cmp_rec app]. destruct btree; cbn [end_byte opt_byte_cmp bytes_cmp].
    + unfold slash. pose proof (compare_ne_eq x x2f Hx) as Hne.
      destruct (N.compare (b2N x) (b2N x2f)); [congruence | reflexivity | reflexivity].
    + reflexivity.
  - apply slash_free_cons in Ha. destruct Ha as [Hx Ha].
    apply slash_free_cons in Hb. destruct Hb as [Hy Hb].
    cbn [name_cmp_rec app bytes_cmp]. rewrite (IH atree b btree Ha Hb). reflexivity.
Qed.

Lemma name_cmp_key an atree bn btree :
  slash_free an -> slash_free bn ->
  name_cmp an atree bn btree = bytes_cmp (key an atree) (key bn btree).
Proof. intros. rewrite name_cmp_is_rec. now apply name_cmp_rec_key. Qed.

Lemma entry_cmp_key a b :
  slash_free (e_name a) -> slash_free (e_name b) ->
  entry_cmp a b = bytes_cmp (ekey a) (ekey b).
Proof. intros. unfold entry_cmp, ekey. now apply name_cmp_key. Qed.

Lemma key_inj n1 : forall t1 n2 t2, slash_free n1 -> slash_free n2 ->
  key n1 t1 = key n2 t2 -> n1 = n2 /\ t1 = t2.
Proof.
  unfold key. induction n1 as [|x a IH]; intros t1 [|y b] t2 H1 H2 E.
  - destruct t1, t2; cbn in E; try discriminate; auto.
  - apply slash_free_cons in H2. destruct H2 as [Hy _].
    destruct t1; cbn [app] in E; [|discriminate]. injection E as E1 E2. congruence.
  - apply slash_free_cons in H1. destruct H1 as [Hx _].
    destruct t2; cbn [app] in E; [|discriminate]. injection E as E1 E2. congruence.
  - apply slash_free_cons in H1. destruct H1 as [_ H1].
    apply slash_free_cons in H2. destruct H2 as [_ H2].
    cbn [app] in E. injection E as E1 E2. destruct (IH t1 b t2 H1 H2 E2) as [-> ->]. subst. auto.
Qed.

(* ---- order laws on the domain ---------------------------------------------------------------- *)

Lemma entry_cmp_eq_iff a b :
  slash_free (e_name a) -> slash_free (e_name b) ->
  (entry_cmp a b = Eq <-> e_name a = e_name b /\ is_tree (e_mode a) = is_tree (e_mode b)).
Proof.
  intros Ha Hb. rewrite entry_cmp_key by assumption. rewrite bytes_cmp_eq_iff. unfold ekey. split.
  - now apply key_inj.
  - intros [-> ->]. reflexivity.
Qed.

Lemma entry_cmp_antisym a b :
  slash_free (e_name a) -> slash_free (e_name b) ->
  entry_cmp b a = CompOpp (entry_cmp a b).
Proof. intros. rewrite !entry_cmp_key by assumption. apply bytes_cmp_antisym. Qed.

Lemma entry_cmp_lt_trans a b c :
  slash_free (e_name a) -> slash_free (e_name b) -> slash_free (e_name c) ->
  entry_cmp a b = Lt -> entry_cmp b c = Lt -> entry_cmp a c = Lt.
Proof. intros ? ? ?. rewrite !entry_cmp_key by assumption. apply bytes_cmp_lt_trans. Qed.

Lemma entry_cmp_le_trans a b c :
  slash_free (e_name a) -> slash_free (e_name b) -> slash_free (e_name c) ->
  entry_cmp a b <> Gt -> entry_cmp b c <> Gt -> entry_cmp a c <> Gt.
Proof. intros ? ? ?. rewrite !entry_cmp_key by assumption. apply ble_trans. Qed.

(* ---- git ------------------------------------------------------------------------------------ *)

Lemma is_tree_S_ISDIR m : is_tree m = S_ISDIR m.
Proof. reflexivity. Qed.

Lemma nul_free_nth n i : nul_free n -> forall b, nth_error n i = Some b -> b2N b <> 0.
Proof.
  intros H b E Z. apply H. apply nth_error_In in E.
  replace x00 with b; [exact E|]. apply b2N_inj. rewrite Z. reflexivity.
Qed.

Lemma nth_of_nth_error {A} (l : list A) i d :
  nth i l d = match nth_error l i with Some x => x | None => d end.
Proof.
  revert i. induction l as [|x l IH]; intros [|i]; cbn; try reflexivity. apply IH.
Qed.

Lemma git_min a b : (if Nat.ltb a b then a else b) = Nat.min a b.
Proof. destruct (Nat.ltb a b) eqn:E; [apply Nat.ltb_lt in E | apply Nat.ltb_ge in E]; lia. Qed.

Lemma compare_0_pos n : n <> 0 -> N.compare 0 n = Lt.
Proof. intros. apply N.compare_lt_iff. lia. Qed.
Lemma compare_pos_0 n : n <> 0 -> N.compare n 0 = Gt.
Proof. intros. apply N.compare_gt_iff. lia. Qed.

Lemma name_cmp_is_git n1 m1 n2 m2 :
  nul_free n1 -> nul_free n2 ->
  name_cmp n1 (is_tree m1) n2 (is_tree m2) = git_base_name_compare n1 m1 n2 m2.
Proof.
  intros H1 H2. unfold name_cmp, git_base_name_compare. rewrite git_min.
  set (len := Nat.min (length n1) (length n2)).
  destruct (bytes_cmp (firstn len n1) (firstn len n2)); try reflexivity.
  rewrite !nth_of_nth_error. unfold next_byte.
  change (S_ISDIR m1) with (is_tree m1). change (S_ISDIR m2) with (is_tree m2).
  pose proof (nul_free_nth n1 len H1) as N1. pose proof (nul_free_nth n2 len H2) as N2.
  assert (S0 : b2N x2f <> 0) by (vm_compute; discriminate).
  destruct (nth_error n1 len) as [c1|]; destruct (nth_error n2 len) as [c2|].
  - specialize (N1 c1 eq_refl). specialize (N2 c2 eq_refl).
    apply N.eqb_neq in N1. apply N.eqb_neq in N2. rewrite N1, N2. reflexivity.
  - specialize (N1 c1 eq_refl). pose proof N1 as N1'. apply N.eqb_neq in N1'. rewrite N1'.
    cbn [andb]. change (b2N x00 =? 0) with true. cbn [andb].
    destruct (is_tree m2); cbn [opt_byte_cmp]; [reflexivity|].
    symmetry. now apply compare_pos_0.
  - specialize (N2 c2 eq_refl). pose proof N2 as N2'. apply N.eqb_neq in N2'. rewrite N2'.
    cbn [andb]. change (b2N x00 =? 0) with true. cbn [andb].
    destruct (is_tree m1); cbn [opt_byte_cmp]; [reflexivity|].
    symmetry. now apply compare_0_pos.
  - change (b2N x00 =? 0) with true. cbn [andb].
    destruct (is_tree m1), (is_tree m2); cbn [opt_byte_cmp]; try reflexivity.
Qed.

Lemma entry_cmp_is_git a b :
  nul_free (e_name a) -> nul_free (e_name b) -> entry_cmp a b = git_cmp a b.
Proof. intros. unfold entry_cmp, git_cmp. now apply name_cmp_is_git. Qed.

Lemma cmp_entry_with_name_is_entry_cmp a name tree oid :
  cmp_entry_with_name a name tree =
  entry_cmp a (mkEntry (if tree then MODE_TREE else 33188) name oid).
Proof. unfold cmp_entry_with_name, entry_cmp. cbn [e_name e_mode]. destruct tree; reflexivity. Qed.
