(* C04 — what the repair 1e7055a5f does to the path-keyed map: after `forget_trees_at_and_below` no
   in-memory tree is left at base/name or below it, and every other key is untouched. *)
From GixV.Base Require Import Bytes BytesFacts Outcome.
From GixV.C04 Require Import Model.
Local Open Scope outcome_scope.

Lemma beq_false k k' : k <> k' -> bytes_eqb k k' = false.
Proof.
  intros H. destruct (bytes_eqb k k') eqn:E; [|reflexivity]. apply bytes_eqb_eq in E. contradiction.
Qed.

Lemma tm_get_remove_same k m : tm_get k (tm_remove k m) = None.
Proof.
  induction m as [|[k' v] r IH]; cbn [tm_remove tm_get]; [reflexivity|].
  destruct (bytes_eqb k k') eqn:E; [exact IH|]. cbn [tm_get]. now rewrite E.
Qed.
Lemma tm_get_remove_other k k' m : k <> k' -> tm_get k (tm_remove k' m) = tm_get k m.
Proof.
  intros Hne. induction m as [|[k2 v] r IH]; cbn [tm_remove tm_get]; [reflexivity|].
  destruct (bytes_eqb k' k2) eqn:E.
  - apply bytes_eqb_eq in E. subst k2. rewrite (beq_false _ _ Hne). exact IH.
  - cbn [tm_get]. destruct (bytes_eqb k k2); [reflexivity | exact IH].
Qed.
Lemma tm_get_filter_none p k m : tm_get k m = None -> tm_get k (filter p m) = None.
Proof.
  induction m as [|[k' v] r IH]; cbn [filter tm_get]; [reflexivity|].
  destruct (bytes_eqb k k') eqn:E; [discriminate|]. intros H.
  destruct (p (k', v)); [cbn [tm_get]; rewrite E|]; now apply IH.
Qed.
Lemma tm_get_filter_false (p : bytes * list entry -> bool) k m :
  (forall v, p (k, v) = false) -> tm_get k (filter p m) = None.
Proof.
  intros Hp. induction m as [|[k' v] r IH]; cbn [filter]; [reflexivity|].
  destruct (p (k', v)) eqn:Ep; [|exact IH]. cbn [tm_get].
  destruct (bytes_eqb k k') eqn:E; [|exact IH]. apply bytes_eqb_eq in E. subst k'. now rewrite Hp in Ep.
Qed.
Lemma tm_get_filter_true (p : bytes * list entry -> bool) k m :
  (forall v, p (k, v) = true) -> tm_get k (filter p m) = tm_get k m.
Proof.
  intros Hp. induction m as [|[k' v] r IH]; cbn [filter tm_get]; [reflexivity|].
  destruct (bytes_eqb k k') eqn:E.
  - pose proof E as E'. apply bytes_eqb_eq in E'. subst k'. rewrite Hp. cbn [tm_get]. now rewrite E.
  - destruct (p (k', v)); [cbn [tm_get]; rewrite E|]; exact IH.
Qed.

Lemma forget_spec m base name m' :
  forget_trees_at_and_below m base name = Ok m' ->
  exists p, push_path_component base name = Ok p /\
    tm_get p m' = None /\
    (forall k, starts_with (p ++ [slash]) k = true -> tm_get k m' = None) /\
    (forall k, k <> p -> starts_with (p ++ [slash]) k = false -> tm_get k m' = tm_get k m).
Proof.
  unfold forget_trees_at_and_below.
  destruct (push_path_component base name) as [p| | |]; cbn [obind]; try discriminate.
  intros E. apply Ok_inj in E. subst m'. exists p. split; [reflexivity|]. split; [|split].
  - apply tm_get_filter_none. apply tm_get_remove_same.
  - intros k Hk. apply tm_get_filter_false. intros v. cbn [fst]. now rewrite Hk.
  - intros k Hne Hk. rewrite tm_get_filter_true.
    + now apply tm_get_remove_other.
    + intros v. cbn [fst]. now rewrite Hk.
Qed.
