(* C04 — every tree the multi-level editor holds in memory, finds in the object sink or hands to `out`
   is in git order with unique slash-free names: an invariant of every operation (upsert, remove,
   cursor_at, cursor edits, both kinds of write, set_root), hence of every history. *)
From Coq Require Import Lia Permutation Sorted RelationClasses.
From GixV.Base Require Import Bytes BytesFacts Outcome.
From GixV.C04 Require Import Model Spec ProofsCmp ProofsSort ProofsSearch ProofsLevel.
Local Open Scope outcome_scope.

(* ---- one tree under surgery ------------------------------------------------------------------ *)

Lemma inv_nil : Inv [].
Proof. repeat split; constructor. Qed.

Lemma inv_remove es i e : Inv es -> nth_error es i = Some e -> Inv (remove_at i es).
Proof.
  intros (Hs & HA & Hn) He. unfold remove_at.
  pose proof (perm_remove es i e He) as P0. repeat split.
  - pose proof (Permutation_Forall P0 Hs) as F. now inversion F.
  - now apply (asc_remove es i e).
  - pose proof (Permutation_NoDup (Permutation_map e_name P0) Hn) as N. now inversion N.
Qed.

Lemma replace_facts es i e x : Inv es -> nth_error es i = Some e -> e_name x = e_name e ->
  Forall sf (replace_at i x es) /\ NoDup (map e_name (replace_at i x es)).
Proof.
  intros (Hs & HA & Hn) He En. unfold replace_at.
  set (rest := firstn i es ++ skipn (S i) es).
  assert (P0 : Permutation es (e :: rest)) by (now apply perm_remove).
  assert (P1 : Permutation (firstn i es ++ x :: skipn (S i) es) (x :: rest)) by apply perm_replace.
  pose proof (Permutation_Forall P0 Hs) as F. inversion F as [|? ? Fe Fr]; subst.
  split.
  - eapply Permutation_Forall; [symmetry; exact P1|]. constructor; [|exact Fr].
    unfold sf in *. now rewrite En.
  - eapply Permutation_NoDup; [apply Permutation_map; symmetry; exact P1|].
    pose proof (Permutation_NoDup (Permutation_map e_name P0) Hn) as N. cbn [map] in *. now rewrite En.
Qed.

Lemma inv_replace_same es i e x : Inv es -> nth_error es i = Some e -> e_name x = e_name e ->
  is_tree (e_mode x) = is_tree (e_mode e) -> Inv (replace_at i x es).
Proof.
  intros HI He En Et. destruct (replace_facts es i e x HI He En) as [Hs1 Hn1].
  destruct HI as (Hs & HA & Hn). repeat split; [exact Hs1 | | exact Hn1].
  apply (asc_replace es i e); [exact HA | exact He |]. unfold ekey. now rewrite En, Et.
Qed.

Lemma inv_replace_sort es i e x : Inv es -> nth_error es i = Some e -> e_name x = e_name e ->
  Inv (sort_entries (replace_at i x es)).
Proof.
  intros HI He En. destruct (replace_facts es i e x HI He En) as [Hs1 Hn1]. repeat split.
  - eapply Permutation_Forall; [symmetry; apply sort_perm | exact Hs1].
  - now apply sort_asc.
  - eapply Permutation_NoDup; [apply Permutation_map; symmetry; apply sort_perm | exact Hn1].
Qed.

Lemma inv_insert es i name t x : Inv es -> slash_free name -> miss es name t i ->
  e_name x = name -> is_tree (e_mode x) = t -> Inv (insert_at i x es).
Proof.
  intros (Hs & HA & Hn) Hsf (Hno & Hlen & HL & HG) En Et. unfold insert_at.
  assert (Ek : ekey x = key name t) by (unfold ekey; now rewrite En, Et).
  assert (P : Permutation (firstn i es ++ x :: skipn i es) (x :: es)) by apply perm_insert.
  repeat split.
  - eapply Permutation_Forall; [symmetry; exact P|]. constructor; [|exact Hs]. unfold sf. now rewrite En.
  - apply asc_insert; [exact HA | rewrite Ek; exact HL | rewrite Ek; exact HG].
  - eapply Permutation_NoDup; [apply Permutation_map; symmetry; exact P|].
    cbn [map]. constructor; [|exact Hn]. intros Hin. apply in_map_iff in Hin.
    destruct Hin as [e [E He]]. apply (Hno e He). congruence.
Qed.

Lemma filter_asc (p : entry -> bool) es : AscK es -> AscK (filter p es).
Proof.
  unfold AscK. induction 1 as [|x l HS IH Hall]; cbn [filter]; [constructor|].
  destruct (p x); [|exact IH]. constructor; [exact IH|].
  rewrite Forall_forall in *. intros b Hb. apply filter_In in Hb. now apply Hall.
Qed.
Lemma filter_nodup_names (p : entry -> bool) es : NoDup (map e_name es) -> NoDup (map e_name (filter p es)).
Proof.
  induction es as [|x l IH]; cbn [filter map]; intros H; [constructor|].
  inversion H as [|? ? Hnot H']; subst. destruct (p x); [|now apply IH].
  cbn [map]. constructor; [|now apply IH]. intros Hin. apply Hnot.
  apply in_map_iff in Hin. destruct Hin as [e [E He]]. apply filter_In in He.
  apply in_map_iff. exists e. tauto.
Qed.
Lemma inv_filter p es : Inv es -> Inv (filter p es).
Proof.
  intros (Hs & HA & Hn). repeat split.
  - apply Forall_forall. intros e He. apply filter_In in He. rewrite Forall_forall in Hs. now apply Hs.
  - now apply filter_asc.
  - now apply filter_nodup_names.
Qed.

(* ---- maps, sink ---------------------------------------------------------------------------------- *)
Definition MInv (m : tmap) : Prop := Forall (fun kv => Inv (snd kv)) m.
Definition OInv (o : odb_t) : Prop := Forall Inv o.

Lemma minv_get k m v : MInv m -> tm_get k m = Some v -> Inv v.
Proof.
  induction m as [|[k' v'] r IH]; cbn [tm_get]; intros H E; [discriminate|].
  inversion H; subst. destruct (bytes_eqb k k'); [injection E as <-; assumption | now apply IH].
Qed.
Lemma minv_remove k m : MInv m -> MInv (tm_remove k m).
Proof.
  induction m as [|[k' v'] r IH]; cbn [tm_remove]; intros H; [constructor|].
  inversion H; subst. destruct (bytes_eqb k k'); [now apply IH | constructor; [assumption | now apply IH]].
Qed.
Lemma minv_set k v m : Inv v -> MInv m -> MInv (tm_set k v m).
Proof. intros Hv Hm. constructor; [exact Hv | now apply minv_remove]. Qed.
Lemma minv_filter p m : MInv m -> MInv (filter p m).
Proof.
  intros H. apply Forall_forall. intros x Hx. apply filter_In in Hx.
  unfold MInv in H. rewrite Forall_forall in H. now apply H.
Qed.
Lemma oinv_find o id t : OInv o -> find_tree o id = Some t -> Inv t.
Proof.
  unfold find_tree. generalize O. induction o as [|t' r IH]; cbn [find_from]; intros k H E; [discriminate|].
  inversion H; subst. destruct (bytes_eqb id (id_of_index k)); [injection E as <-; assumption | eapply IH; eassumption].
Qed.
Lemma oinv_put o t : OInv o -> Inv t -> OInv (snd (put o t)).
Proof.
  intros Ho Ht. unfold put. destruct t as [|e t]; [exact Ho|].
  destruct (position_from 0 o (e :: t)); cbn [snd]; [exact Ho|].
  apply Forall_app. split; [exact Ho | constructor; [exact Ht | constructor]].
Qed.

(* ---- upsert_or_remove_at_pathbuf ------------------------------------------------------------------ *)
Definition SInv (st : state) : Prop := MInv (trees st) /\ OInv (odb st).

(* EntryKind as EntryMode: Tree, Blob, BlobExecutable, Link, Commit *)
Definition kind_ok (k : N) : Prop := In k [16384; 33188; 33261; 40960; 57344]%N.
Lemma kind_ok_tree k : kind_ok k -> is_tree k = N.eqb k MODE_TREE.
Proof. intros H. repeat (destruct H as [<-|H]; [reflexivity|]). destruct H. Qed.
Definition ki_ok (ki : option (N * bytes * umode)) : Prop :=
  match ki with Some (k, _, _) => kind_ok k | None => True end.

Lemma sinv_set_cur st cur : SInv st -> Inv cur -> SInv (set_cur st cur).
Proof. intros [Hm Ho] Hc. split; cbn [set_cur trees odb]; [now apply minv_set | exact Ho]. Qed.

Lemma minv_forget m base name m' : MInv m -> forget_trees_at_and_below m base name = Ok m' -> MInv m'.
Proof.
  intros Hm. unfold forget_trees_at_and_below.
  destruct (push_path_component base name) as [p| | |]; cbn [obind]; try discriminate.
  intros E. apply Ok_inj in E. subst m'. apply minv_filter. now apply minv_remove.
Qed.

Definition step_inv (s : step_res) : Prop :=
  match s with Break st => SInv st | Continue st _ => SInv st end.

Lemma level_step_inv st name is_last ki s : SInv st -> slash_free name -> ki_ok ki ->
  level_step st name is_last ki = Ok s -> step_inv s.
Proof.
  intros HS Hsf Hk. unfold level_step.
  destruct (tm_get (path_buf st) (trees st)) as [cur|] eqn:Ecur; cbn [unwrap obind]; [|discriminate].
  assert (HI : Inv cur) by (eapply minv_get; [apply HS | exact Ecur]).
  set (must := negb is_last || match ki with Some (k, _, _) => N.eqb k MODE_TREE | None => false end).
  destruct HI as (Hs & HA & Hn). pose proof (conj Hs (conj HA Hn)) as HI.
  destruct (search2_spec cur name must Hs HA Hsf) as [[i [H Hh]] | [i [H Hm]]]; rewrite H; cbn [obind].
  - destruct Hh as [e [He En]]. rewrite He. cbn [unwrap obind].
    destruct ki as [[[kind id] mode]|].
    + (* upsert *)
      cbn [ki_ok] in Hk.
      destruct (is_last && negb (negb (is_normal mode) && is_tree (e_mode e) && negb (is_null_oid (e_oid e)))) eqn:Elast.
      * (* overwrite *)
        assert (Hnew : Inv (if negb (Bool.eqb (is_tree (e_mode e)) must)
                            then sort_entries (replace_at i (mkEntry kind (e_name e) id) cur)
                            else replace_at i (mkEntry kind (e_name e) id) cur)).
        { destruct (Bool.eqb (is_tree (e_mode e)) must) eqn:Ek; cbn [negb].
          - apply (inv_replace_same cur i e); [exact HI | exact He | reflexivity |].
            cbn [e_mode]. apply Bool.eqb_prop in Ek. rewrite Ek.
            apply andb_prop in Elast. destruct Elast as [El _]. subst must. rewrite El. cbn [negb orb].
            now apply kind_ok_tree.
          - apply (inv_replace_sort cur i e); [exact HI | exact He | reflexivity]. }
        pose proof (sinv_set_cur st _ HS Hnew) as HS1.
        destruct (is_normal mode).
        -- destruct (is_tree (e_mode e)).
           ++ destruct (forget_trees_at_and_below _ _ _) as [m| | |] eqn:Ef; cbn [obind]; try discriminate.
              intros E. apply Ok_inj in E. subst s. cbn [step_inv]. split; cbn [with_trees trees odb].
              ** eapply minv_forget; [apply HS1 | exact Ef].
              ** apply HS1.
           ++ intros E. apply Ok_inj in E. subst s. exact HS1.
        -- intros E. apply Ok_inj in E. subst s. exact HS1.
      * destruct (is_tree (e_mode e)) eqn:Et.
        -- intros E. apply Ok_inj in E. subst s. exact HS.
        -- intros E. apply Ok_inj in E. subst s. cbn [step_inv]. apply sinv_set_cur; [exact HS|].
           destruct (Bool.eqb false must) eqn:Ek; cbn [negb].
           ++ exfalso. apply Bool.eqb_prop in Ek.
              assert (Hmust : must = true); [|congruence].
              subst must. destruct is_last; [|reflexivity].
              rewrite Bool.andb_false_r in Elast. cbn in Elast. discriminate.
           ++ apply (inv_replace_sort cur i e); [exact HI | exact He | reflexivity].
    + (* remove *)
      destruct is_last.
      * pose proof (sinv_set_cur st _ HS (inv_remove cur i e HI He)) as HS1.
        destruct (is_tree (e_mode e)).
        -- destruct (forget_trees_at_and_below _ _ _) as [m| | |] eqn:Ef; cbn [obind]; try discriminate.
           intros E. apply Ok_inj in E. subst s. cbn [step_inv]. split; cbn [with_trees trees odb].
           ++ eapply minv_forget; [apply HS1 | exact Ef].
           ++ apply HS1.
        -- intros E. apply Ok_inj in E. subst s. exact HS1.
      * destruct (is_tree (e_mode e)); intros E; apply Ok_inj in E; subst s; exact HS.
  - destruct ki as [[[kind id] mode]|].
    + cbn [ki_ok] in Hk. pose proof Hm as (_ & Hlen & _). apply Nat.leb_le in Hlen. rewrite Hlen.
      assert (Hnew : Inv (insert_at i (mkEntry (if is_last then kind else MODE_TREE) name
                                               (if is_last then id else null_oid)) cur)).
      { apply (inv_insert cur i name must); [exact HI | exact Hsf | exact Hm | reflexivity |].
        cbn [e_mode]. subst must. destruct is_last; cbn [negb orb]; [now apply kind_ok_tree | reflexivity]. }
      pose proof (sinv_set_cur st _ HS Hnew) as HS1.
      destruct (is_last && is_normal mode); intros E; apply Ok_inj in E; subst s; exact HS1.
    + intros E. apply Ok_inj in E. subst s. exact HS.
Qed.

Lemma descend_inv st name lookup st' r : SInv st -> descend st name lookup = Ok (st', r) -> SInv st'.
Proof.
  intros [Hm Ho]. unfold descend.
  destruct (push_path_component (path_buf st) name) as [pb| | |]; cbn [obind]; try discriminate.
  destruct (tm_get pb (trees st)).
  - intros E. apply Ok_inj in E. injection E as <- _. split; assumption.
  - destruct (match lookup with Some id => if bytes_eqb id EMPTY_TREE then None else Some id | None => None end) as [id|].
    + destruct (find_tree (odb st) id) as [t|] eqn:Ef; intros E; apply Ok_inj in E; injection E as <- _;
        split; cbn [trees odb]; try assumption.
      apply minv_set; [eapply oinv_find; eassumption | exact Hm].
    + intros E. apply Ok_inj in E. injection E as <- _. split; cbn [trees odb]; [|exact Ho].
      apply minv_set; [apply inv_nil | exact Hm].
Qed.

Lemma upsert_loop_inv comps : forall st ki st' r, SInv st -> Forall slash_free comps -> ki_ok ki ->
  upsert_loop st comps ki = Ok (st', r) -> SInv st'.
Proof.
  induction comps as [|name rest IH]; intros st ki st' r HS Hc Hk; cbn [upsert_loop].
  - intros E. apply Ok_inj in E. injection E as <- _. exact HS.
  - inversion Hc as [|? ? Hn Hr]; subst.
    destruct (is_empty name).
    + intros E. apply Ok_inj in E. injection E as <- _. exact HS.
    + destruct (level_step st name _ ki) as [s| | |] eqn:Es; cbn [obind]; try discriminate.
      pose proof (level_step_inv _ _ _ _ _ HS Hn Hk Es) as Hs.
      destruct s as [st1|st1 lookup]; cbn [step_inv] in Hs.
      * intros E. apply Ok_inj in E. injection E as <- _. exact Hs.
      * destruct (descend st1 name lookup) as [[st2 r2]| | |] eqn:Ed; cbn [obind]; try discriminate.
        pose proof (descend_inv _ _ _ _ _ Hs Ed) as H2.
        destruct r2.
        -- now apply IH.
        -- intros E. apply Ok_inj in E. injection E as <- _. exact H2.
        -- intros E. apply Ok_inj in E. injection E as <- _. exact H2.
Qed.

Lemma sinv_with_path st p : SInv st -> SInv (with_path st p).
Proof. intros H. exact H. Qed.

Lemma upsert_or_remove_inv st comps ki st' r : SInv st -> Forall slash_free comps -> ki_ok ki ->
  upsert_or_remove_at_pathbuf st comps ki = Ok (st', r) -> SInv st'.
Proof.
  intros HS Hc Hk. unfold upsert_or_remove_at_pathbuf.
  destruct (tm_get (path_buf st) (trees st)); cbn [unwrap obind]; [|discriminate].
  now apply upsert_loop_inv.
Qed.

(* ---- write_at_pathbuf ------------------------------------------------------------------------------ *)
Definition FInv (fs : list frame) : Prop := Forall (fun f => Inv (f_tree f)) fs.
Definition WInv (w : wstate) : Prop :=
  MInv (w_trees w) /\ OInv (w_odb w) /\ FInv (w_parents w) /\ FInv (w_children w).

Lemma scan_inv es : forall path npi m ch all m' ch' all', MInv m -> FInv ch ->
  scan_entries es path npi m ch all = Ok (m', ch', all') -> MInv m' /\ FInv ch'.
Proof.
  induction es as [|e es IH]; intros path npi m ch all m' ch' all' Hm Hc; cbn [scan_entries].
  - intros E. apply Ok_inj in E. injection E as <- <- _. now split.
  - destruct (is_tree (e_mode e)); [|now apply IH].
    destruct (push_path_component path (e_name e)) as [key| | |]; cbn [obind]; try discriminate.
    destruct (tm_get key m) as [sub|] eqn:Eg; [|now apply IH].
    apply IH; [now apply minv_remove|]. constructor; [|exact Hc]. cbn [f_tree]. eapply minv_get; eassumption.
Qed.

Lemma finv_set_nth fs : forall n f, FInv fs -> Inv (f_tree f) -> FInv (set_nth n f fs).
Proof.
  induction fs as [|x fs IH]; intros n f H Hf; cbn [set_nth]; [destruct n; constructor|].
  inversion H; subst. destruct n; constructor; try assumption. now apply IH.
Qed.
Lemma finv_nth fs n f : FInv fs -> nth_error fs n = Some f -> Inv (f_tree f).
Proof.
  intros H E. unfold FInv in H. rewrite Forall_forall in H. apply H. eapply nth_error_In; exact E.
Qed.

Lemma write_loop_inv fuel : forall mode pb w id m o n, WInv w ->
  write_loop fuel mode pb w = Ok (id, m, o, n) -> MInv m /\ OInv o.
Proof.
  induction fuel as [|fuel IH]; intros mode pb w id m o n (Hm & Ho & Hp & Hc); cbn [write_loop]; [discriminate|].
  destruct (match w_children w with
            | c :: cs => Some (c, w_parents w, cs)
            | [] => match w_parents w with p :: ps => Some (p, ps, []) | [] => None end
            end) as [[[fr parents] children]|] eqn:Epop; [|discriminate].
  assert (Hpop : Inv (f_tree fr) /\ FInv parents /\ FInv children).
  { destruct (w_children w) as [|c cs].
    - destruct (w_parents w) as [|p ps]; [discriminate|]. injection Epop as <- <- <-.
      inversion Hp; subst. split; [assumption | split; [assumption | constructor]].
    - injection Epop as <- <- <-. inversion Hc; subst. split; [assumption | split; assumption]. }
  destruct Hpop as (Hfr & Hps & Hcs).
  destruct (scan_entries (f_tree fr) (f_path fr) (length parents) (w_trees w) children true)
    as [[[m1 ch1] all]| | |] eqn:Escan; cbn [obind]; try discriminate.
  destruct (scan_inv _ _ _ _ _ _ _ _ _ Hm Hcs Escan) as [Hm1 Hch1].
  destruct all.
  - set (tree := filter (fun e => negb (is_null_oid (e_oid e))) (f_tree fr)).
    assert (Htree : Inv tree) by (now apply inv_filter).
    destruct (f_parent fr) as [idx|].
    + destruct (from_bottom parents idx) as [pos|]; cbn [unwrap obind]; [|discriminate].
      destruct (nth_error parents pos) as [pf|] eqn:Epf; cbn [unwrap obind]; [|discriminate].
      pose proof (finv_nth _ _ _ Hps Epf) as Hpf.
      destruct (binary_search_by _ (f_tree pf)) as [[ei|?]| | |] eqn:Ebs; cbn [obind]; try discriminate.
      destruct (bsearch_sound _ _ _ Ebs) as [e [He _]].
      destruct tree as [|t0 tr] eqn:Etree.
      * apply IH. repeat split; cbn [w_trees w_odb w_parents w_children]; try assumption.
        apply finv_set_nth; [exact Hps|]. cbn [f_tree]. now apply (inv_remove _ _ e).
      * destruct (put (w_odb w) (t0 :: tr)) as [pid odb'] eqn:Eput.
        rewrite He. cbn [unwrap obind].
        apply IH. repeat split; cbn [w_trees w_odb w_parents w_children]; try assumption.
        -- change odb' with (snd (pid, odb')). rewrite <- Eput. now apply oinv_put.
        -- apply finv_set_nth; [exact Hps|]. cbn [f_tree].
           apply (inv_replace_same _ _ e); [exact Hpf | exact He | reflexivity | reflexivity].
    + destruct parents as [|p0 ps0].
      * destruct ch1; [|discriminate].
        destruct (bytes_eqb (f_path fr) pb); [|discriminate].
        destruct (put (w_odb w) tree) as [pid odb'] eqn:Eput.
        intros E. apply Ok_inj in E. injection E as _ <- <- _. split.
        -- apply minv_set; [exact Htree|]. destruct mode; [constructor | exact Hm1].
        -- change odb' with (snd (pid, odb')). rewrite <- Eput. now apply oinv_put.
      * destruct tree as [|t0 tr] eqn:Etree.
        -- apply IH. repeat split; assumption.
        -- destruct (put (w_odb w) (t0 :: tr)) as [pid odb'] eqn:Eput.
           apply IH. repeat split; cbn [w_trees w_odb w_parents w_children]; try assumption.
           change odb' with (snd (pid, odb')). rewrite <- Eput. now apply oinv_put.
  - apply IH. repeat split; cbn [w_trees w_odb w_parents w_children]; try assumption.
    constructor; [exact Hfr | exact Hps].
Qed.

Lemma write_at_inv st mode id st' : SInv st -> write_at_pathbuf st mode = Ok (id, st') -> SInv st'.
Proof.
  intros [Hm Ho]. unfold write_at_pathbuf. destruct (trees st) as [|kv0 m0] eqn:Et; [discriminate|].
  rewrite <- Et in *. clear Et.
  destruct (tm_get (path_buf st) (trees st)) as [root|] eqn:Er; cbn [unwrap obind]; [|discriminate].
  destruct (write_loop _ _ _ _) as [[[[i m] o] n]| | |] eqn:Ew; cbn [obind]; try discriminate.
  intros E. apply Ok_inj in E. injection E as _ <-.
  apply write_loop_inv in Ew; [exact Ew|].
  repeat split; cbn [w_trees w_odb w_parents w_children].
  - now apply minv_remove.
  - exact Ho.
  - constructor; [|constructor]. cbn [f_tree]. eapply minv_get; eassumption.
  - constructor.
Qed.

(* ---- histories -------------------------------------------------------------------------------------- *)
(* the public operations; cursors are represented by their prefix (the path buffer after cursor_at) *)
Inductive eop :=
| EUpsert (prefix : bytes) (comps : list bytes) (kind : N) (id : bytes)   (* Editor::upsert ([]) / Cursor::upsert *)
| ERemove (prefix : bytes) (comps : list bytes)                            (* Editor::remove / Cursor::remove *)
| ECursorAt (comps : list bytes)                                           (* Editor::cursor_at *)
| EWrite (cursor : option bytes)                                           (* Editor::write / Cursor::write *)
| ESetRoot (root : list entry)                                             (* Editor::set_root *)
| EStore (t : list entry).                                                 (* a tree appears in the object database *)

Definition eop_ok (o : eop) : Prop :=
  match o with
  | EUpsert _ comps kind _ => Forall slash_free comps /\ kind_ok kind
  | ERemove _ comps => Forall slash_free comps
  | ECursorAt comps => Forall slash_free comps
  | EWrite _ => True
  | ESetRoot root => Inv root
  | EStore t => Inv t
  end.

(* one operation; errors (empty component, missing tree) leave the editor in the state reached *)
Definition estep (st : state) (o : eop) : outcome state unit :=
  match o with
  | EUpsert prefix comps kind id => r <- upsert st prefix comps kind id ;; Ok (fst r)
  | ERemove prefix comps => r <- remove st prefix comps ;; Ok (fst r)
  | ECursorAt comps => r <- cursor_at st comps ;; Ok (fst r)
  | EWrite cursor => r <- write st cursor ;; Ok (snd r)
  | ESetRoot root => Ok (set_root st root)
  | EStore t => Ok (mkState (trees st) (path_buf st) (snd (put (odb st) t)) (outs st))
  end.
Fixpoint erun (st : state) (ops : list eop) : outcome state unit :=
  match ops with
  | [] => Ok st
  | o :: r => st' <- estep st o ;; erun st' r
  end.

Lemma estep_inv st o st' : SInv st -> eop_ok o -> estep st o = Ok st' -> SInv st'.
Proof.
  intros HS Hok. destruct o as [prefix comps kind id|prefix comps|comps|cursor|root|t]; cbn [estep eop_ok] in *.
  - destruct Hok as [Hc Hk]. unfold upsert.
    destruct (upsert_or_remove_at_pathbuf _ _ _) as [[s r]| | |] eqn:E; cbn [obind fst]; try discriminate.
    intros E'. apply Ok_inj in E'. subst. eapply upsert_or_remove_inv; [| exact Hc | | exact E]; [exact HS | exact Hk].
  - unfold remove.
    destruct (upsert_or_remove_at_pathbuf _ _ _) as [[s r]| | |] eqn:E; cbn [obind fst]; try discriminate.
    intros E'. apply Ok_inj in E'. subst. eapply upsert_or_remove_inv; [| exact Hok | | exact E]; [exact HS | exact I].
  - unfold cursor_at.
    destruct (upsert_or_remove_at_pathbuf _ _ _) as [[s r]| | |] eqn:E; cbn [obind fst]; try discriminate.
    intros E'. apply Ok_inj in E'. subst. eapply upsert_or_remove_inv; [| exact Hok | | exact E]; [exact HS |].
    cbn [ki_ok]. left. reflexivity.
  - unfold write.
    destruct cursor as [p|];
      (destruct (write_at_pathbuf _ _) as [[i s]| | |] eqn:E; cbn [obind snd]; try discriminate;
       intros E'; apply Ok_inj in E'; subst; eapply write_at_inv; [|exact E]; exact HS).
  - intros E. apply Ok_inj in E. subst. split; cbn [set_root trees odb]; [|apply HS].
    constructor; [exact Hok | constructor].
  - intros E. apply Ok_inj in E. subst. split; cbn [trees odb]; [apply HS|]. apply oinv_put; [apply HS | exact Hok].
Qed.

Lemma erun_inv ops : forall st st', SInv st -> Forall eop_ok ops -> erun st ops = Ok st' -> SInv st'.
Proof.
  induction ops as [|o r IH]; intros st st' HS Hok; cbn [erun].
  - intros E. apply Ok_inj in E. now subst.
  - inversion Hok; subst. destruct (estep st o) as [s| | |] eqn:E; cbn [obind]; try discriminate.
    apply IH; [eapply estep_inv; eassumption | assumption].
Qed.

Lemma sinv_init : SInv (init_state [] [] 0).
Proof. split; cbn; [constructor; [apply inv_nil | constructor] | constructor]. Qed.

(* what the invariant means for one tree: adjacent entries are in git's order, no name twice *)
Lemma inv_git_sorted t : Inv t -> Forall nf t -> Sorted git_le t /\ NoDup (map e_name t).
Proof.
  intros (Hs & HA & Hn) Hnf. split; [|exact Hn].
  pose proof (AscK_gix_sorted t Hs HA) as G.
  clear Hs HA Hn. induction G as [|a l G IH Hd]; [constructor|].
  inversion Hnf as [|? ? Ha Hl]; subst. constructor; [now apply IH|].
  destruct Hd as [|b l Hab]; constructor. inversion Hl; subst.
  unfold git_le, gix_le in *. rewrite <- entry_cmp_is_git; assumption.
Qed.
