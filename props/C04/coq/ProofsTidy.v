(* C04 — "the keys of `trees` are exactly the loaded prefixes": every tree the editor holds in memory,
   other than the root, sits at a path `k/n` whose parent `k` is held in memory too and has a DIRECTORY
   entry named `n`.  No stale subtree can exist.  (False of the code before fix 1e7055a5f: after
   `upsert a/b; upsert a (blob)` the key "a" stayed although the root had no directory entry `a`.)
   Invariant of upsert / remove / cursor_at from any prefix, Editor::write, set_root. *)
From Coq Require Import Lia Permutation List.
From GixV.Base Require Import Bytes BytesFacts Outcome.
From GixV.C04 Require Import Model Spec ProofsCmp ProofsSort ProofsSearch ProofsLevel ProofsInv ProofsForget.
Local Open Scope outcome_scope.

Definition has_dir (es : list entry) (n : bytes) : Prop :=
  exists e, In e es /\ e_name e = n /\ is_tree (e_mode e) = true.

Definition Tidy (m : tmap) : Prop :=
  tm_get [] m <> None /\
  forall K v, tm_get K m = Some v -> K <> [] ->
    exists k n es, push_path_component k n = Ok K /\ tm_get k m = Some es /\ has_dir es n.

(* ---- directory entries under list surgery ----------------------------------------------------- *)
Lemma has_dir_perm a b n : Permutation a b -> has_dir a n -> has_dir b n.
Proof. intros P (e & Hi & Hn & Ht). exists e. split; [eapply Permutation_in; eassumption | tauto]. Qed.

Lemma has_dir_rest cur i e n : nth_error cur i = Some e -> has_dir cur n ->
  (is_tree (e_mode e) = false \/ n <> e_name e) -> has_dir (remove_at i cur) n.
Proof.
  intros He (e' & Hi & Hn & Ht) Hc. exists e'. split; [|tauto].
  pose proof (perm_remove cur i e He) as P. apply (Permutation_in _ P) in Hi.
  destruct Hi as [<-|Hi]; [|exact Hi]. exfalso. destruct Hc as [Hc|Hc]; [congruence | now apply Hc].
Qed.
Lemma has_dir_replace cur i e x n : nth_error cur i = Some e -> has_dir cur n ->
  (is_tree (e_mode e) = false \/ n <> e_name e) -> has_dir (replace_at i x cur) n.
Proof.
  intros He Hd Hc. destruct (has_dir_rest cur i e n He Hd Hc) as (e' & Hi & Hn & Ht).
  exists e'. split; [|tauto]. unfold replace_at, remove_at in *.
  apply in_app_or in Hi. apply in_or_app. destruct Hi; [now left | right; now right].
Qed.
Lemma has_dir_replace_new cur i x : is_tree (e_mode x) = true -> has_dir (replace_at i x cur) (e_name x).
Proof. intros Ht. exists x. split; [|tauto]. unfold replace_at. apply in_or_app. right. now left. Qed.
Lemma has_dir_insert cur i x n : has_dir cur n -> has_dir (insert_at i x cur) n.
Proof.
  intros (e & Hi & Hn & Ht). unfold insert_at. eapply has_dir_perm; [symmetry; apply perm_insert|].
  exists e. split; [now right | tauto].
Qed.
Lemma has_dir_insert_new cur i x : is_tree (e_mode x) = true -> has_dir (insert_at i x cur) (e_name x).
Proof. intros Ht. exists x. split; [|tauto]. unfold insert_at. apply in_or_app. right. now left. Qed.
Lemma has_dir_sort es n : has_dir es n -> has_dir (sort_entries es) n.
Proof. apply has_dir_perm. symmetry. apply sort_perm. Qed.

(* ---- the map ------------------------------------------------------------------------------------ *)
Lemma bytes_dec (a b : bytes) : {a = b} + {a <> b}.
Proof.
  destruct (bytes_eqb a b) eqn:E; [left; now apply bytes_eqb_eq | right].
  intros ->. assert (bytes_eqb b b = true) by (now apply bytes_eqb_eq). congruence.
Qed.
Lemma beq_refl k : bytes_eqb k k = true.
Proof. now apply bytes_eqb_eq. Qed.
Lemma tm_get_set_same k v m : tm_get k (tm_set k v m) = Some v.
Proof. unfold tm_set. cbn [tm_get]. now rewrite beq_refl. Qed.
Lemma tm_get_set_other k k' v m : k <> k' -> tm_get k (tm_set k' v m) = tm_get k m.
Proof. intros H. unfold tm_set. cbn [tm_get]. rewrite (beq_false _ _ H). now apply tm_get_remove_other. Qed.

Lemma last_byte_none k : last_byte k = None -> k = [].
Proof.
  induction k as [|x k IH]; [reflexivity|]. cbn [last_byte]. destruct k as [|y r]; [discriminate|].
  intros H. apply IH in H. discriminate.
Qed.
Lemma push_form k n K : push_path_component k n = Ok K ->
  (k = [] /\ K = n) \/ (k <> [] /\ K = k ++ slash :: n).
Proof.
  unfold push_path_component. destruct (last_byte k) as [b|] eqn:E.
  - destruct (beqb b slash); [discriminate|]. intros H. apply Ok_inj in H. right. split; [|now subst].
    intros ->. discriminate.
  - intros H. apply Ok_inj in H. left. split; [now apply last_byte_none | now subst].
Qed.
Lemma push_longer k n K : push_path_component k n = Ok K -> n <> [] -> length k < length K.
Proof.
  intros H Hn. destruct (push_form _ _ _ H) as [[-> ->]|[_ ->]].
  - destruct n; [contradiction | cbn; lia].
  - rewrite app_length. cbn. lia.
Qed.

Lemma sw_len p : forall s, starts_with p s = true -> length p <= length s.
Proof.
  induction p as [|a p IH]; intros [|b s] H; cbn in *; try lia; try discriminate.
  apply andb_prop in H. destruct H as [_ H]. apply IH in H. lia.
Qed.
Lemma sw_app p : forall s, starts_with p (p ++ s) = true.
Proof.
  induction p as [|a p IH]; intros s; cbn [starts_with app]; [reflexivity|].
  rewrite IH. assert (beqb a a = true) by (now apply beqb_eq). now rewrite H.
Qed.
Lemma sw_ext p : forall k s, starts_with p k = true -> starts_with p (k ++ s) = true.
Proof.
  induction p as [|a p IH]; intros [|b k] s H; cbn [starts_with app] in *; try reflexivity; try discriminate.
  apply andb_prop in H. destruct H as [H1 H2]. rewrite H1. cbn [andb]. now apply IH.
Qed.

(* ---- Tidy under the three kinds of map update --------------------------------------------------- *)
Lemma tidy_single t : Tidy [([], t)].
Proof.
  split; [cbn; discriminate|]. intros K v H Hne. cbn [tm_get] in H.
  destruct (bytes_eqb K []) eqn:E; [apply bytes_eqb_eq in E; contradiction | discriminate].
Qed.

Lemma tidy_set_keep m key cur cur' : Tidy m -> tm_get key m = Some cur ->
  (forall n, has_dir cur n -> has_dir cur' n) -> Tidy (tm_set key cur' m).
Proof.
  intros [Hr Hp] Hk Hd. split.
  - destruct (bytes_dec [] key) as [<-|Hne];
      [rewrite tm_get_set_same; discriminate | rewrite tm_get_set_other; assumption].
  - intros K v HK HKne.
    assert (HK0 : exists v0, tm_get K m = Some v0).
    { destruct (bytes_dec K key) as [->|Hne]; [eauto | rewrite tm_get_set_other in HK by assumption; eauto]. }
    destruct HK0 as [v0 HK0]. destruct (Hp K v0 HK0 HKne) as (k & n & es & Hpush & Hget & Hdir).
    exists k, n. destruct (bytes_dec k key) as [->|Hne].
    + exists cur'. rewrite tm_get_set_same. split; [assumption | split; [reflexivity|]].
      apply Hd. rewrite Hk in Hget. injection Hget as <-. exact Hdir.
    + exists es. rewrite tm_get_set_other by assumption. auto.
Qed.

Lemma tidy_add m key name kn es t : Tidy m -> tm_get kn m = None ->
  push_path_component key name = Ok kn -> tm_get key m = Some es -> has_dir es name ->
  Tidy (tm_set kn t m).
Proof.
  intros [Hr Hp] Hnone Hpush Hk Hd.
  assert (Hother : forall k v, tm_get k m = Some v -> tm_get k (tm_set kn t m) = Some v).
  { intros k v H. rewrite tm_get_set_other; [exact H|]. intros ->. congruence. }
  split.
  - destruct (tm_get [] m) as [v|] eqn:E; [|now elim Hr]. rewrite (Hother [] v E). discriminate.
  - intros K v HK HKne. destruct (bytes_dec K kn) as [->|Hne].
    + exists key, name, es. split; [exact Hpush | split; [now apply Hother | exact Hd]].
    + rewrite tm_get_set_other in HK by assumption.
      destruct (Hp K v HK HKne) as (k & n & es' & A & B & C).
      exists k, n, es'. split; [exact A | split; [now apply Hother | exact C]].
Qed.

Lemma tidy_set_forget m key cur cur' name m' : Tidy m -> tm_get key m = Some cur -> name <> [] ->
  (forall n, n <> name -> has_dir cur n -> has_dir cur' n) ->
  forget_trees_at_and_below (tm_set key cur' m) key name = Ok m' -> Tidy m'.
Proof.
  intros [Hr Hp] Hk Hne Hd Hf.
  destruct (forget_spec _ _ _ _ Hf) as (kn & Hpush & Hnone & Hbelow & Hother).
  pose proof (push_longer _ _ _ Hpush Hne) as Hlen.
  assert (Hshort : forall k, length k <= length key ->
                     k <> kn /\ starts_with (kn ++ [slash]) k = false).
  { intros k Hl. split; [intros ->; lia|].
    destruct (starts_with (kn ++ [slash]) k) eqn:E; [|reflexivity].
    apply sw_len in E. rewrite app_length in E. cbn in E. lia. }
  assert (Hsurv : forall K v, tm_get K m' = Some v ->
                    K <> kn /\ starts_with (kn ++ [slash]) K = false).
  { intros K v H. split.
    - intros ->. congruence.
    - destruct (starts_with (kn ++ [slash]) K) eqn:E; [|reflexivity]. rewrite (Hbelow K E) in H. discriminate. }
  assert (Hkey : tm_get key m' = Some cur').
  { destruct (Hshort key (le_n _)) as [A B]. rewrite (Hother key A B). apply tm_get_set_same. }
  split.
  - destruct (Hshort [] (Nat.le_0_l _)) as [A B]. rewrite (Hother [] A B).
    destruct (bytes_dec [] key) as [<-|Hne'];
      [rewrite tm_get_set_same; discriminate | rewrite tm_get_set_other; assumption].
  - intros K v HK HKne. destruct (Hsurv K v HK) as [A B].
    rewrite (Hother K A B) in HK.
    assert (HK0 : exists v0, tm_get K m = Some v0).
    { destruct (bytes_dec K key) as [->|Hne']; [eauto | rewrite tm_get_set_other in HK by assumption; eauto]. }
    destruct HK0 as [v0 HK0]. destruct (Hp K v0 HK0 HKne) as (k & n & es & Hpk & Hget & Hdir).
    exists k, n. destruct (bytes_dec k key) as [->|Hnk].
    + exists cur'. split; [exact Hpk | split; [exact Hkey|]].
      rewrite Hk in Hget. injection Hget as <-. apply Hd; [|exact Hdir].
      intros ->. rewrite Hpush in Hpk. apply Ok_inj in Hpk. now apply A.
    + exists es. split; [exact Hpk | split; [|exact Hdir]].
      assert (Hk' : k <> kn /\ starts_with (kn ++ [slash]) k = false).
      { split.
        - intros ->. destruct (push_form _ _ _ Hpk) as [[E _]|[_ E]]; [subst kn; cbn in Hlen; lia|].
          subst K. replace (kn ++ slash :: n) with ((kn ++ [slash]) ++ n) in B
            by (rewrite <- app_assoc; reflexivity).
          rewrite sw_app in B. discriminate.
        - destruct (starts_with (kn ++ [slash]) k) eqn:E; [|reflexivity].
          destruct (push_form _ _ _ Hpk) as [[E' _]|[_ E']].
          + subst k. apply sw_len in E. rewrite app_length in E. cbn in E. lia.
          + subst K. rewrite (sw_ext _ _ _ E) in B. discriminate. }
      destruct Hk' as [A' B']. rewrite (Hother k A' B'). now rewrite tm_get_set_other.
Qed.

(* ---- upsert_or_remove_at_pathbuf ------------------------------------------------------------------ *)
(* AssureTreeOnly is only ever used with kind Tree (cursor_at) *)
Definition ki_tidy (ki : option (N * bytes * umode)) : Prop :=
  match ki with Some (k, _, AssureTreeOnly) => k = MODE_TREE | _ => True end.

Definition step_tidy (st : state) (name : bytes) (s : step_res) : Prop :=
  match s with
  | Break st' => Tidy (trees st') /\ path_buf st' = path_buf st
  | Continue st' _ => Tidy (trees st') /\ path_buf st' = path_buf st /\
                      exists es, tm_get (path_buf st) (trees st') = Some es /\ has_dir es name
  end.

Lemma level_step_tidy st name is_last ki s : SInv st -> Tidy (trees st) -> slash_free name ->
  name <> [] -> ki_tidy ki -> level_step st name is_last ki = Ok s -> step_tidy st name s.
Proof.
  intros HS HT Hsf Hne Hk. unfold level_step.
  destruct (tm_get (path_buf st) (trees st)) as [cur|] eqn:Ecur; cbn [unwrap obind]; [|discriminate].
  assert (HI : Inv cur) by (eapply minv_get; [apply HS | exact Ecur]).
  set (must := negb is_last || match ki with Some (k, _, _) => N.eqb k MODE_TREE | None => false end).
  destruct HI as (Hs & HA & Hn).
  destruct (search2_spec cur name must Hs HA Hsf) as [[i [H Hh]] | [i [H Hm]]]; rewrite H; cbn [obind].
  - destruct Hh as [e [He En]]. rewrite He. cbn [unwrap obind].
    assert (Hin : In e cur) by (eapply nth_error_In; exact He).
    assert (Hoth : forall x n, n <> name -> has_dir cur n -> has_dir (replace_at i x cur) n).
    { intros x n Hn' Hd. apply (has_dir_replace cur i e); [exact He | exact Hd | right; congruence]. }
    destruct (is_tree (e_mode e)) eqn:Et.
    + (* the entry found is a directory *)
      assert (Hcur : has_dir cur name) by (exists e; tauto).
      destruct ki as [[[kind id] mode]|].
      * destruct (is_last && negb (negb (is_normal mode) && true && negb (is_null_oid (e_oid e)))) eqn:Elast.
        -- set (x := mkEntry kind (e_name e) id).
           destruct (is_normal mode) eqn:Emode.
           ++ destruct (forget_trees_at_and_below _ _ _) as [m| | |] eqn:Ef; cbn [obind]; try discriminate.
              intros E. apply Ok_inj in E. subst s. cbn [step_tidy with_trees trees path_buf set_cur].
              split; [|reflexivity]. cbn [set_cur trees path_buf] in Ef.
              eapply (tidy_set_forget (trees st) (path_buf st) cur _ name); [exact HT | exact Ecur | exact Hne | | exact Ef].
              intros n Hn' Hd. destruct (negb (Bool.eqb true must)); [apply has_dir_sort|]; now apply Hoth.
           ++ intros E. apply Ok_inj in E. subst s. cbn [step_tidy set_cur trees path_buf].
              destruct mode; [discriminate|]. cbn [ki_tidy] in Hk. subst kind.
              assert (Hnew : forall n, has_dir cur n ->
                        has_dir (if negb (Bool.eqb true must) then sort_entries (replace_at i x cur)
                                 else replace_at i x cur) n).
              { intros n Hd. assert (has_dir (replace_at i x cur) n).
                { destruct (bytes_dec n name) as [->|Hn'']; [|now apply Hoth].
                  rewrite <- En. apply (has_dir_replace_new cur i x). reflexivity. }
                destruct (negb (Bool.eqb true must)); [now apply has_dir_sort | assumption]. }
              split; [eapply tidy_set_keep; [exact HT | exact Ecur | exact Hnew] |].
              split; [reflexivity|]. eexists. split; [apply tm_get_set_same | now apply Hnew].
        -- intros E. apply Ok_inj in E. subst s. cbn [step_tidy].
           split; [exact HT | split; [reflexivity|]]. exists cur. split; [exact Ecur | exact Hcur].
      * destruct is_last.
        -- destruct (forget_trees_at_and_below _ _ _) as [m| | |] eqn:Ef; cbn [obind]; try discriminate.
           intros E. apply Ok_inj in E. subst s. cbn [step_tidy with_trees trees path_buf set_cur].
           split; [|reflexivity]. cbn [set_cur trees path_buf] in Ef.
           eapply (tidy_set_forget (trees st) (path_buf st) cur _ name); [exact HT | exact Ecur | exact Hne | | exact Ef].
           intros n Hn' Hd. apply (has_dir_rest cur i e); [exact He | exact Hd | right; congruence].
        -- intros E. apply Ok_inj in E. subst s. cbn [step_tidy].
           split; [exact HT | split; [reflexivity|]]. exists cur. split; [exact Ecur | exact Hcur].
    + (* the entry found is not a directory: all directory entries survive whatever happens to it *)
      assert (Hall : forall x n, has_dir cur n -> has_dir (replace_at i x cur) n).
      { intros x n Hd. apply (has_dir_replace cur i e); [exact He | exact Hd | now left]. }
      destruct ki as [[[kind id] mode]|].
      * destruct (is_last && negb (negb (is_normal mode) && false && negb (is_null_oid (e_oid e)))) eqn:Elast.
        -- set (x := mkEntry kind (e_name e) id).
           assert (Hkeep : forall n, has_dir cur n ->
                     has_dir (if negb (Bool.eqb false must) then sort_entries (replace_at i x cur)
                              else replace_at i x cur) n).
           { intros n Hd. destruct (negb (Bool.eqb false must)); [apply has_dir_sort|]; now apply Hall. }
           destruct (is_normal mode) eqn:Emode.
           ++ intros E. apply Ok_inj in E. subst s. cbn [step_tidy set_cur trees path_buf].
              split; [|reflexivity]. eapply tidy_set_keep; [exact HT | exact Ecur | exact Hkeep].
           ++ intros E. apply Ok_inj in E. subst s. cbn [step_tidy set_cur trees path_buf].
              destruct mode; [discriminate|]. cbn [ki_tidy] in Hk. subst kind.
              split; [eapply tidy_set_keep; [exact HT | exact Ecur | exact Hkeep] |].
              split; [reflexivity|]. eexists. split; [apply tm_get_set_same|].
              rewrite <- En.
              assert (has_dir (replace_at i x cur) (e_name e)) by (apply (has_dir_replace_new cur i x); reflexivity).
              destruct (negb (Bool.eqb false must)); [now apply has_dir_sort | assumption].
        -- set (x := mkEntry MODE_TREE (e_name e) null_oid).
           intros E. apply Ok_inj in E. subst s. cbn [step_tidy set_cur trees path_buf].
           assert (Hkeep : forall n, has_dir cur n ->
                     has_dir (if negb (Bool.eqb false must) then sort_entries (replace_at i x cur)
                              else replace_at i x cur) n).
           { intros n Hd. destruct (negb (Bool.eqb false must)); [apply has_dir_sort|]; now apply Hall. }
           split; [eapply tidy_set_keep; [exact HT | exact Ecur | exact Hkeep] |].
           split; [reflexivity|]. eexists. split; [apply tm_get_set_same|].
           rewrite <- En.
           assert (has_dir (replace_at i x cur) (e_name e)) by (apply (has_dir_replace_new cur i x); reflexivity).
           destruct (negb (Bool.eqb false must)); [now apply has_dir_sort | assumption].
      * destruct is_last.
        -- intros E. apply Ok_inj in E. subst s. cbn [step_tidy set_cur trees path_buf].
           split; [|reflexivity]. eapply tidy_set_keep; [exact HT | exact Ecur |].
           intros n Hd. apply (has_dir_rest cur i e); [exact He | exact Hd | now left].
        -- intros E. apply Ok_inj in E. subst s. cbn [step_tidy]. split; [exact HT | reflexivity].
  - destruct ki as [[[kind id] mode]|].
    + pose proof Hm as (_ & Hlen & _). apply Nat.leb_le in Hlen. rewrite Hlen.
      set (x := mkEntry (if is_last then kind else MODE_TREE) name (if is_last then id else null_oid)).
      assert (Hkeep : forall n, has_dir cur n -> has_dir (insert_at i x cur) n)
        by (intros n Hd; now apply has_dir_insert).
      destruct (is_last && is_normal mode) eqn:Eb; intros E; apply Ok_inj in E; subst s;
        cbn [step_tidy set_cur trees path_buf].
      * split; [|reflexivity]. eapply tidy_set_keep; [exact HT | exact Ecur | exact Hkeep].
      * split; [eapply tidy_set_keep; [exact HT | exact Ecur | exact Hkeep] |].
        split; [reflexivity|]. eexists. split; [apply tm_get_set_same|].
        change name with (e_name x). apply has_dir_insert_new. subst x. cbn [e_mode].
        destruct is_last; [|reflexivity]. cbn [andb] in Eb. destruct mode; [discriminate|].
        cbn [ki_tidy] in Hk. subst kind. reflexivity.
    + intros E. apply Ok_inj in E. subst s. cbn [step_tidy]. split; [exact HT | reflexivity].
Qed.

Lemma descend_tidy st name lookup st' r : Tidy (trees st) ->
  (exists es, tm_get (path_buf st) (trees st) = Some es /\ has_dir es name) ->
  descend st name lookup = Ok (st', r) -> Tidy (trees st').
Proof.
  intros HT (es & Hes & Hd). unfold descend.
  destruct (push_path_component (path_buf st) name) as [pb| | |] eqn:Ep; cbn [obind]; try discriminate.
  destruct (tm_get pb (trees st)) eqn:Eg.
  - intros E. apply Ok_inj in E. injection E as <- _. exact HT.
  - destruct (match lookup with Some id => if bytes_eqb id EMPTY_TREE then None else Some id | None => None end) as [id|].
    + destruct (find_tree (odb st) id) as [t|]; intros E; apply Ok_inj in E; injection E as <- _; cbn [trees].
      * eapply tidy_add; eassumption.
      * exact HT.
    + intros E. apply Ok_inj in E. injection E as <- _. cbn [trees]. eapply tidy_add; eassumption.
Qed.

Lemma upsert_loop_tidy comps : forall st ki st' r, SInv st -> Tidy (trees st) ->
  Forall slash_free comps -> ki_ok ki -> ki_tidy ki ->
  upsert_loop st comps ki = Ok (st', r) -> Tidy (trees st').
Proof.
  induction comps as [|name rest IH]; intros st ki st' r HS HT Hc Hk Hk2; cbn [upsert_loop].
  - intros E. apply Ok_inj in E. injection E as <- _. exact HT.
  - inversion Hc as [|? ? Hn Hr]; subst.
    destruct (is_empty name) eqn:Ee.
    + intros E. apply Ok_inj in E. injection E as <- _. exact HT.
    + assert (Hne : name <> []) by (intros ->; discriminate).
      destruct (level_step st name _ ki) as [s| | |] eqn:Es; cbn [obind]; try discriminate.
      pose proof (level_step_inv _ _ _ _ _ HS Hn Hk Es) as Hs.
      pose proof (level_step_tidy _ _ _ _ _ HS HT Hn Hne Hk2 Es) as Ht.
      destruct s as [st1|st1 lookup]; cbn [step_inv step_tidy] in Hs, Ht.
      * intros E. apply Ok_inj in E. injection E as <- _. apply Ht.
      * destruct Ht as (Ht1 & Hpb & Hes). rewrite <- Hpb in Hes.
        destruct (descend st1 name lookup) as [[st2 r2]| | |] eqn:Ed; cbn [obind]; try discriminate.
        pose proof (descend_inv _ _ _ _ _ Hs Ed) as H2.
        pose proof (descend_tidy _ _ _ _ _ Ht1 Hes Ed) as T2.
        destruct r2.
        -- now apply IH.
        -- intros E. apply Ok_inj in E. injection E as <- _. exact T2.
        -- intros E. apply Ok_inj in E. injection E as <- _. exact T2.
Qed.

Lemma upsert_or_remove_tidy st comps ki st' r : SInv st -> Tidy (trees st) ->
  Forall slash_free comps -> ki_ok ki -> ki_tidy ki ->
  upsert_or_remove_at_pathbuf st comps ki = Ok (st', r) -> Tidy (trees st').
Proof.
  intros HS HT Hc Hk Hk2. unfold upsert_or_remove_at_pathbuf.
  destruct (tm_get (path_buf st) (trees st)); cbn [unwrap obind]; [|discriminate].
  now apply upsert_loop_tidy.
Qed.

(* ---- Editor::write leaves the written root tree only ------------------------------------------- *)
Lemma write_loop_normal_shape fuel : forall pb w id m o n,
  write_loop fuel WNormal pb w = Ok (id, m, o, n) -> exists t, m = [(pb, t)].
Proof.
  induction fuel as [|fuel IH]; intros pb w id m o n; cbn [write_loop]; [discriminate|].
  destruct (match w_children w with
            | c :: cs => Some (c, w_parents w, cs)
            | [] => match w_parents w with p :: ps => Some (p, ps, []) | [] => None end
            end) as [[[fr parents] children]|]; [|discriminate].
  destruct (scan_entries (f_tree fr) (f_path fr) (length parents) (w_trees w) children true)
    as [[[m1 ch1] all]| | |]; cbn [obind]; try discriminate.
  destruct all; [|apply IH].
  destruct (f_parent fr) as [idx|].
  - destruct (from_bottom parents idx) as [pos|]; cbn [unwrap obind]; [|discriminate].
    destruct (nth_error parents pos) as [pf|]; cbn [unwrap obind]; [|discriminate].
    destruct (binary_search_by _ (f_tree pf)) as [[ei|?]| | |]; cbn [obind]; try discriminate.
    destruct (filter _ (f_tree fr)) as [|t0 tr]; [apply IH|].
    destruct (put (w_odb w) (t0 :: tr)) as [pid odb'].
    destruct (nth_error (f_tree pf) ei); cbn [unwrap obind]; [apply IH | discriminate].
  - destruct parents as [|p0 ps0].
    + destruct ch1; [|discriminate]. destruct (bytes_eqb (f_path fr) pb) eqn:Eb; [|discriminate].
      destruct (put (w_odb w) _) as [pid odb']. intros E. apply Ok_inj in E. injection E as _ <- _ _.
      apply bytes_eqb_eq in Eb. rewrite Eb. eexists. reflexivity.
    + destruct (filter _ (f_tree fr)) as [|t0 tr]; [apply IH|].
      destruct (put (w_odb w) (t0 :: tr)) as [pid odb']. apply IH.
Qed.

Lemma write_normal_tidy st id st' : write st None = Ok (id, st') -> Tidy (trees st').
Proof.
  unfold write, write_at_pathbuf. cbn [with_path trees path_buf odb outs].
  destruct (trees st) as [|kv0 m0] eqn:Et; [discriminate|]. rewrite <- Et. clear Et.
  destruct (tm_get [] (trees st)) as [root|]; cbn [unwrap obind]; [|discriminate].
  destruct (write_loop _ _ _ _) as [[[[i m] o] n]| | |] eqn:Ew; cbn [obind]; try discriminate.
  intros E. apply Ok_inj in E. injection E as _ <-. cbn [trees].
  destruct (write_loop_normal_shape _ _ _ _ _ _ _ Ew) as [t ->]. apply tidy_single.
Qed.

(* ---- histories ------------------------------------------------------------------------------------- *)
(* every public operation except Cursor::write (whose effect on the map is not covered here) *)
Definition eop_no_cursor_write (o : eop) : Prop :=
  match o with EWrite (Some _) => False | _ => True end.

Lemma estep_tidy st o st' : SInv st -> Tidy (trees st) -> eop_ok o -> eop_no_cursor_write o ->
  estep st o = Ok st' -> Tidy (trees st').
Proof.
  intros HS HT Hok Hnc. destruct o as [prefix comps kind id|prefix comps|comps|cursor|root|t]; cbn [estep eop_ok] in *.
  - destruct Hok as [Hc Hk]. unfold upsert.
    destruct (upsert_or_remove_at_pathbuf _ _ _) as [[s r]| | |] eqn:E; cbn [obind fst]; try discriminate.
    intros E'. apply Ok_inj in E'. subst.
    apply (upsert_or_remove_tidy (with_path st prefix) comps (Some (kind, id, Normal)) st' r); [exact HS | exact HT | exact Hc | exact Hk | exact I | exact E].
  - unfold remove.
    destruct (upsert_or_remove_at_pathbuf _ _ _) as [[s r]| | |] eqn:E; cbn [obind fst]; try discriminate.
    intros E'. apply Ok_inj in E'. subst.
    apply (upsert_or_remove_tidy (with_path st prefix) comps None st' r); [exact HS | exact HT | exact Hok | exact I | exact I | exact E].
  - unfold cursor_at.
    destruct (upsert_or_remove_at_pathbuf _ _ _) as [[s r]| | |] eqn:E; cbn [obind fst]; try discriminate.
    intros E'. apply Ok_inj in E'. subst.
    apply (upsert_or_remove_tidy (with_path st []) comps (Some (MODE_TREE, null_oid, AssureTreeOnly)) st' r);
      [exact HS | exact HT | exact Hok | | reflexivity | exact E].
    cbn [ki_ok]. left. reflexivity.
  - destruct cursor as [p|]; [destruct Hnc|].
    destruct (write st None) as [[i s]| | |] eqn:E; cbn [obind snd]; try discriminate.
    intros E'. apply Ok_inj in E'. subst. eapply write_normal_tidy. exact E.
  - intros E. apply Ok_inj in E. subst. cbn [set_root trees]. apply tidy_single.
  - intros E. apply Ok_inj in E. subst. cbn [trees]. exact HT.
Qed.

Lemma erun_tidy ops : forall st st', SInv st -> Tidy (trees st) -> Forall eop_ok ops ->
  Forall eop_no_cursor_write ops -> erun st ops = Ok st' -> Tidy (trees st').
Proof.
  induction ops as [|o r IH]; intros st st' HS HT Hok Hnc; cbn [erun].
  - intros E. apply Ok_inj in E. now subst.
  - inversion Hok; subst. inversion Hnc; subst.
    destruct (estep st o) as [s| | |] eqn:E; cbn [obind]; try discriminate.
    apply IH; try assumption; [eapply estep_inv | eapply estep_tidy]; eassumption.
Qed.

Lemma tidy_init : Tidy (trees (init_state [] [] 0)).
Proof. apply tidy_single. Qed.

(* the state defect 1 produced — a tree held under "a" although the root has no directory `a` — is
   excluded by the invariant *)
Lemma stale_state_not_tidy : ~ Tidy [([], []); ([x61], [])].
Proof.
  intros [_ H]. destruct (H [x61] [] eq_refl) as (k & n & es & _ & Hg & (e & Hin & _)); [discriminate|].
  cbn [tm_get] in Hg.
  destruct (bytes_eqb k []); [injection Hg as <-; destruct Hin|].
  destruct (bytes_eqb k [x61]); [injection Hg as <-; destruct Hin | discriminate].
Qed.
