(* C04 — executable model of gix-object's multi-level tree editor.
   Sources (pinned tree in /repo, INCLUDING the two `fix:` commits 1e7055a5f and 77807d108):
     gix-object/src/tree/editor.rs   Editor::{new, upsert, remove, write, set_root, cursor_at, to_cursor},
                                     Cursor::{upsert, remove, write}, upsert_or_remove_at_pathbuf,
                                     write_at_pathbuf, forget_trees_at_and_below, cmp_entry_with_name,
                                     filename, push_path_component
     gix-object/src/tree/mod.rs      Editor.trees : HashMap<BString, Tree>, EntryMode::is_tree, Ord for Entry
     core::slice::binary_search_by   (Rust 1.95, transcribed; same text as props/C03)
     alloc::slice::sort (stable)     (insertion sort; exact for <= 20 elements, see props/C03/NOTES.md)
   The object database behind `find` and the `out` callback of `write` are one in-memory sink: the list
   of all trees stored so far, the id of the k-th tree being [id_of_index k] (what the harness does).
   No proofs in this file. *)
From GixV.Base Require Import Bytes Outcome.
Local Open Scope N_scope.
Local Open Scope outcome_scope.

Record entry := mkEntry { e_mode : N (* u16 *); e_name : bytes; e_oid : bytes (* 20 bytes *) }.

(* ---- EntryMode ------------------------------------------------------------------------ *)
Definition IFMT : N := 61440.        (* 0o170000 *)
Definition MODE_TREE : N := 16384.   (* 0o040000  EntryKind::Tree *)
Definition is_tree (m : N) : bool := N.eqb (N.land m IFMT) MODE_TREE.

(* ---- Ord for Entry, cmp_entry_with_name (see props/C03/coq/Model.v for the source text) --- *)
Definition slash : byte := x2f.
Definition next_byte (name : bytes) (common : nat) (tree : bool) : option byte :=
  match nth_error name common with
  | Some b => Some b
  | None => if tree then Some slash else None
  end.
Definition opt_byte_cmp (a b : option byte) : comparison :=
  match a, b with
  | None, None => Eq
  | None, Some _ => Lt
  | Some _, None => Gt
  | Some x, Some y => N.compare (b2N x) (b2N y)
  end.
Definition name_cmp (an : bytes) (atree : bool) (bn : bytes) (btree : bool) : comparison :=
  let common := Nat.min (length an) (length bn) in
  match bytes_cmp (firstn common an) (firstn common bn) with
  | Eq => opt_byte_cmp (next_byte an common atree) (next_byte bn common btree)
  | c => c
  end.
Definition entry_cmp (a b : entry) : comparison :=
  name_cmp (e_name a) (is_tree (e_mode a)) (e_name b) (is_tree (e_mode b)).
Definition cmp_entry_with_name (a : entry) (filename : bytes) (tree : bool) : comparison :=
  name_cmp (e_name a) (is_tree (e_mode a)) filename tree.

Definition entry_eqb (a b : entry) : bool :=
  N.eqb (e_mode a) (e_mode b) && bytes_eqb (e_name a) (e_name b) && bytes_eqb (e_oid a) (e_oid b).
Fixpoint entries_eqb (a b : list entry) : bool :=
  match a, b with
  | [], [] => true
  | x :: a', y :: b' => entry_eqb x y && entries_eqb a' b'
  | _, _ => false
  end.

(* ---- Vec::sort() --------------------------------------------------------------------------- *)
Definition is_lt (c : comparison) : bool := match c with Lt => true | _ => false end.
Fixpoint ins_rev (x : entry) (r : list entry) : list entry :=
  match r with
  | [] => [x]
  | y :: r' => if is_lt (entry_cmp x y) then y :: ins_rev x r' else x :: r
  end.
Definition sort_entries (es : list entry) : list entry :=
  rev (fold_left (fun r x => ins_rev x r) es []).

(* ---- core::slice::binary_search_by (Rust 1.95) ------------------------------------------- *)
Fixpoint bs_loop {A} (fuel : nat) (f : A -> comparison) (l : list A) (base size : nat)
  : outcome nat unit :=
  if Nat.leb size 1 then Ok base
  else match fuel with
       | O => OutOfFuel
       | S fuel' =>
           let half := Nat.div size 2 in
           let mid := (base + half)%nat in
           match nth_error l mid with
           | None => Panic
           | Some e =>
               let base' := match f e with Gt => base | _ => mid end in
               bs_loop fuel' f l base' (size - half)%nat
           end
       end.
Definition binary_search_by {A} (f : A -> comparison) (l : list A) : outcome (nat + nat) unit :=
  let size := length l in
  if Nat.eqb size 0 then Ok (inr O)
  else
    base <- bs_loop size f l O size ;;
    match nth_error l base with
    | None => Panic
    | Some e =>
        match f e with
        | Eq => Ok (inl base)
        | Lt => Ok (inr (base + 1)%nat)
        | Gt => Ok (inr base)
        end
    end.

(* the double lookup of upsert_or_remove_at_pathbuf: as a file, then as a directory; the insertion
   index is the directory's when the level must be a tree *)
Definition search2 (es : list entry) (name : bytes) (must_be_tree : bool) : outcome (nat + nat) unit :=
  r1 <- binary_search_by (fun e => cmp_entry_with_name e name false) es ;;
  match r1 with
  | inl i => Ok (inl i)
  | inr file_idx =>
      r2 <- binary_search_by (fun e => cmp_entry_with_name e name true) es ;;
      match r2 with
      | inl i => Ok (inl i)
      | inr dir_idx => Ok (inr (if must_be_tree then dir_idx else file_idx))
      end
  end.

(* ---- ids, the object sink ------------------------------------------------------------------ *)
Definition null_oid : bytes := repeat x00 20.
Definition is_null_oid (o : bytes) : bool := bytes_eqb o null_oid.
(* ObjectId::empty_tree(Sha1) = 4b825dc642cb6eb9a060e54bf8d69288fbee4904 *)
Definition EMPTY_TREE : bytes :=
  [x4b; x82; x5d; xc6; x42; xcb; x6e; xb9; xa0; x60; xe5; x4b; xf8; xd6; x92; x88; xfb; xee; x49; x04].
Definition id_of_index (k : nat) : bytes :=
  let n := N.of_nat k in
  xaa :: repeat x00 15 ++
  [N2b (N.modulo (N.div n 16777216) 256); N2b (N.modulo (N.div n 65536) 256);
   N2b (N.modulo (N.div n 256) 256); N2b (N.modulo n 256)].

Definition odb_t := list (list entry).
(* Find::try_find of the sink: position of the id among the ids handed out so far *)
Fixpoint find_from (k : nat) (odb : odb_t) (id : bytes) : option (list entry) :=
  match odb with
  | [] => None
  | t :: r => if bytes_eqb id (id_of_index k) then Some t else find_from (S k) r id
  end.
Definition find_tree (odb : odb_t) (id : bytes) : option (list entry) := find_from O odb id.
Fixpoint position_from (k : nat) (odb : odb_t) (t : list entry) : option nat :=
  match odb with
  | [] => None
  | t' :: r => if entries_eqb t t' then Some k else position_from (S k) r t
  end.
(* the sink's `put`: the empty tree has its well-known id and is not stored; a tree stored before
   keeps its id; otherwise the next sequence number *)
Definition put (odb : odb_t) (t : list entry) : bytes * odb_t :=
  match t with
  | [] => (EMPTY_TREE, odb)
  | _ => match position_from O odb t with
         | Some k => (id_of_index k, odb)
         | None => (id_of_index (length odb), odb ++ [t])
         end
  end.

(* ---- Editor state --------------------------------------------------------------------------- *)
(* HashMap<BString, Tree> as an association list with unique keys *)
Definition tmap := list (bytes * list entry).
Fixpoint tm_get (k : bytes) (m : tmap) : option (list entry) :=
  match m with
  | [] => None
  | (k', v) :: r => if bytes_eqb k k' then Some v else tm_get k r
  end.
Fixpoint tm_remove (k : bytes) (m : tmap) : tmap :=
  match m with
  | [] => []
  | (k', v) :: r => if bytes_eqb k k' then tm_remove k r else (k', v) :: tm_remove k r
  end.
Definition tm_set (k : bytes) (v : list entry) (m : tmap) : tmap := (k, v) :: tm_remove k m.

Record state := mkState {
  trees : tmap;          (* Editor.trees *)
  path_buf : bytes;      (* Editor.path_buf *)
  odb : odb_t;           (* the sink behind `find` and `out` *)
  outs : nat             (* number of calls of `out` so far (observable of the harness) *)
}.
Definition init_state (root : list entry) (o : odb_t) (n : nat) : state := mkState [([], root)] [] o n.

Fixpoint last_byte (b : bytes) : option byte :=
  match b with [] => None | [x] => Some x | _ :: r => last_byte r end.
(* fn push_path_component: debug_assert!(base.last() != Some(&b'/')) (debug build), then
   "/" between non-empty base and component *)
Definition push_path_component (base comp : bytes) : outcome bytes unit :=
  match last_byte base with
  | Some b => if beqb b slash then Panic else Ok (base ++ slash :: comp)
  | None => Ok comp
  end.

Fixpoint starts_with (p s : bytes) : bool :=
  match p, s with
  | [], _ => true
  | a :: p', b :: s' => beqb a b && starts_with p' s'
  | _ :: _, [] => false
  end.
(* fn forget_trees_at_and_below(trees, base, name)   (fix 1e7055a5f) *)
Definition forget_trees_at_and_below (m : tmap) (base name : bytes) : outcome tmap unit :=
  path <- push_path_component base name ;;
  let m1 := tm_remove path m in
  let prefix := path ++ [slash] in
  Ok (filter (fun kv => negb (starts_with prefix (fst kv))) m1).

Inductive umode := Normal | AssureTreeOnly.
Inductive eres := EOk | EEmpty | EFind.       (* Ok(..) | Err(EmptyPathComponent) | Err(FindExistingObject) *)
Definition is_empty (n : bytes) : bool := match n with [] => true | _ => false end.
Definition is_normal (m : umode) : bool := match m with Normal => true | _ => false end.

Definition replace_at (idx : nat) (e : entry) (es : list entry) : list entry :=
  firstn idx es ++ e :: skipn (S idx) es.
Definition remove_at (idx : nat) (es : list entry) : list entry := firstn idx es ++ skipn (S idx) es.
Definition insert_at (idx : nat) (e : entry) (es : list entry) : list entry :=
  firstn idx es ++ e :: skipn idx es.

Definition set_cur (st : state) (cur : list entry) : state :=
  mkState (tm_set (path_buf st) cur (trees st)) (path_buf st) (odb st) (outs st).
Definition with_trees (st : state) (m : tmap) : state := mkState m (path_buf st) (odb st) (outs st).

(* one iteration of the `while let Some(name) = rela_path.next()` loop up to the point where the
   path buffer is extended: either the loop is left ([Break]) or it goes on one level down
   ([Continue], with the id of the tree to look up if it is not in memory) *)
Inductive step_res := Break (st : state) | Continue (st : state) (lookup : option bytes).

Definition level_step (st : state) (name : bytes) (is_last : bool) (ki : option (N * bytes * umode))
  : outcome step_res unit :=
  cur <- unwrap (tm_get (path_buf st) (trees st)) ;;
  let new_kind_is_tree := match ki with Some (k, _, _) => N.eqb k MODE_TREE | None => false end in
  let must := negb is_last || new_kind_is_tree in
  r <- search2 cur name must ;;
  match r with
  | inl idx =>
      e <- unwrap (nth_error cur idx) ;;
      match ki with
      | None =>
          if is_last then
            let st1 := set_cur st (remove_at idx cur) in
            if is_tree (e_mode e) then
              m <- forget_trees_at_and_below (trees st1) (path_buf st1) name ;;
              Ok (Break (with_trees st1 m))
            else Ok (Break st1)
          else if is_tree (e_mode e) then Ok (Continue st (Some (e_oid e)))
          else Ok (Break st)
      | Some (kind, id, mode) =>
          let keep_existing_tree :=
            negb (is_normal mode) && is_tree (e_mode e) && negb (is_null_oid (e_oid e)) in
          if is_last && negb keep_existing_tree then
            let replaced_tree := is_tree (e_mode e) in
            let needs_sorting := negb (Bool.eqb (is_tree (e_mode e)) must) in
            let cur1 := replace_at idx (mkEntry kind (e_name e) id) cur in
            let st1 := set_cur st (if needs_sorting then sort_entries cur1 else cur1) in
            if is_normal mode then
              if replaced_tree then
                m <- forget_trees_at_and_below (trees st1) (path_buf st1) name ;;
                Ok (Break (with_trees st1 m))
              else Ok (Break st1)
            else Ok (Continue st1 None)
          else if is_tree (e_mode e) then Ok (Continue st (Some (e_oid e)))
          else
            let needs_sorting := negb (Bool.eqb (is_tree (e_mode e)) must) in
            let cur1 := replace_at idx (mkEntry MODE_TREE (e_name e) null_oid) cur in
            Ok (Continue (set_cur st (if needs_sorting then sort_entries cur1 else cur1)) None)
      end
  | inr ins =>
      match ki with
      | None => Ok (Break st)
      | Some (kind, id, mode) =>
          if Nat.leb ins (length cur) then                     (* Vec::insert panics beyond len *)
            let e := mkEntry (if is_last then kind else MODE_TREE) name (if is_last then id else null_oid) in
            let st1 := set_cur st (insert_at ins e cur) in
            if is_last && is_normal mode then Ok (Break st1) else Ok (Continue st1 None)
          else Panic
      end
  end.

(* push_path_component(&mut self.path_buf, name); self.trees.entry(path) { Occupied | Vacant => load } *)
Definition descend (st : state) (name : bytes) (lookup : option bytes) : outcome (state * eres) unit :=
  pb <- push_path_component (path_buf st) name ;;
  match tm_get pb (trees st) with
  | Some _ => Ok (mkState (trees st) pb (odb st) (outs st), EOk)
  | None =>
      let lookup' := match lookup with
                     | Some id => if bytes_eqb id EMPTY_TREE then None else Some id
                     | None => None
                     end in
      match lookup' with
      | Some id =>
          match find_tree (odb st) id with
          | Some t => Ok (mkState (tm_set pb t (trees st)) pb (odb st) (outs st), EOk)
          | None => Ok (mkState (trees st) pb (odb st) (outs st), EFind)
          end
      | None => Ok (mkState (tm_set pb [] (trees st)) pb (odb st) (outs st), EOk)
      end
  end.

Fixpoint upsert_loop (st : state) (comps : list bytes) (ki : option (N * bytes * umode))
  : outcome (state * eres) unit :=
  match comps with
  | [] => Ok (st, EOk)
  | name :: rest =>
      if is_empty name then Ok (st, EEmpty)
      else
        let is_last := match rest with [] => true | _ => false end in
        s <- level_step st name is_last ki ;;
        match s with
        | Break st' => Ok (st', EOk)
        | Continue st' lookup =>
            r <- descend st' name lookup ;;
            match r with
            | (st'', EOk) => upsert_loop st'' rest ki
            | other => Ok other
            end
        end
  end.

(* fn upsert_or_remove_at_pathbuf: `.expect("root is always present")` first *)
Definition upsert_or_remove_at_pathbuf (st : state) (comps : list bytes) (ki : option (N * bytes * umode))
  : outcome (state * eres) unit :=
  _ <- unwrap (tm_get (path_buf st) (trees st)) ;;
  upsert_loop st comps ki.

Definition with_path (st : state) (p : bytes) : state := mkState (trees st) p (odb st) (outs st).

(* Editor::upsert / Cursor::upsert (prefix = [] for the editor itself) *)
Definition upsert (st : state) (prefix : bytes) (comps : list bytes) (kind : N) (id : bytes) :=
  upsert_or_remove_at_pathbuf (with_path st prefix) comps (Some (kind, id, Normal)).
Definition remove (st : state) (prefix : bytes) (comps : list bytes) :=
  upsert_or_remove_at_pathbuf (with_path st prefix) comps None.
(* Editor::cursor_at: the cursor's prefix is the path buffer after the call *)
Definition cursor_at (st : state) (comps : list bytes) :=
  upsert_or_remove_at_pathbuf (with_path st []) comps (Some (MODE_TREE, null_oid, AssureTreeOnly)).
Definition set_root (st : state) (root : list entry) : state :=
  mkState [([], root)] (path_buf st) (odb st) (outs st).

(* ---- write_at_pathbuf ------------------------------------------------------------------------ *)
Inductive wmode := WNormal | WFromCursor.
Record frame := mkFrame { f_parent : option nat; f_path : bytes; f_tree : list entry }.

(* fn filename(path) = text after the last '/' *)
Fixpoint filename_acc (path acc : bytes) : bytes :=
  match path with
  | [] => acc
  | b :: r => if beqb b slash then filename_acc r r else filename_acc r acc
  end.
Definition filename (path : bytes) : bytes := filename_acc path path.

(* the `for entry in &tree.entries` scan: sub-trees held in memory move from `trees` to `children` *)
Fixpoint scan_entries (es : list entry) (rela_path : bytes) (next_parent_idx : nat)
         (m : tmap) (children : list frame) (all_unchanged : bool)
  : outcome (tmap * list frame * bool) unit :=
  match es with
  | [] => Ok (m, children, all_unchanged)
  | e :: es' =>
      if is_tree (e_mode e) then
        key <- push_path_component rela_path (e_name e) ;;
        match tm_get key m with
        | Some sub =>
            scan_entries es' rela_path next_parent_idx (tm_remove key m)
                         (mkFrame (Some next_parent_idx) key sub :: children) false
        | None => scan_entries es' rela_path next_parent_idx m children all_unchanged
        end
      else scan_entries es' rela_path next_parent_idx m children all_unchanged
  end.

(* `parents` and `children` are stacks with their top at the head of the list;
   parents.get_mut(idx) counts from the bottom *)
Definition from_bottom {A} (l : list A) (idx : nat) : option nat :=
  if Nat.ltb idx (length l) then Some (length l - 1 - idx)%nat else None.
Fixpoint set_nth {A} (n : nat) (x : A) (l : list A) : list A :=
  match l, n with
  | [], _ => []
  | _ :: r, O => x :: r
  | y :: r, S n' => y :: set_nth n' x r
  end.
Definition set_oid (e : entry) (id : bytes) : entry := mkEntry (e_mode e) (e_name e) id.

Record wstate := mkW { w_trees : tmap; w_odb : odb_t; w_outs : nat;
                       w_parents : list frame; w_children : list frame }.

Fixpoint write_loop (fuel : nat) (mode : wmode) (path_buf0 : bytes) (w : wstate)
  : outcome (bytes * tmap * odb_t * nat) unit :=
  match fuel with
  | O => OutOfFuel
  | S fuel' =>
      (* children.pop().or_else(|| parents.pop()) *)
      match (match w_children w with
             | c :: cs => Some (c, w_parents w, cs)
             | [] => match w_parents w with
                     | p :: ps => Some (p, ps, [])
                     | [] => None
                     end
             end) with
      | None => Panic                                              (* unreachable!() *)
      | Some (fr, parents, children) =>
          r <- scan_entries (f_tree fr) (f_path fr) (length parents) (w_trees w) children true ;;
          let '(m, children', all_unchanged) := r in
          if all_unchanged then
            let tree := filter (fun e => negb (is_null_oid (e_oid e))) (f_tree fr) in
            match f_parent fr with
            | Some idx =>
                pos <- unwrap (from_bottom parents idx) ;;         (* expect("always present…") *)
                pf <- unwrap (nth_error parents pos) ;;
                let name := filename (f_path fr) in
                sr <- binary_search_by (fun e => cmp_entry_with_name e name true) (f_tree pf) ;;
                match sr with
                | inr _ => Panic                                   (* expect("the parent always knows us by name") *)
                | inl entry_idx =>
                    match tree with
                    | [] =>
                        let pf' := mkFrame (f_parent pf) (f_path pf) (remove_at entry_idx (f_tree pf)) in
                        write_loop fuel' mode path_buf0
                          (mkW m (w_odb w) (w_outs w) (set_nth pos pf' parents) children')
                    | _ =>
                        let '(id, odb') := put (w_odb w) tree in
                        e <- unwrap (nth_error (f_tree pf) entry_idx) ;;
                        let pf' := mkFrame (f_parent pf) (f_path pf)
                                           (replace_at entry_idx (set_oid e id) (f_tree pf)) in
                        write_loop fuel' mode path_buf0
                          (mkW m odb' (S (w_outs w)) (set_nth pos pf' parents) children')
                    end
                end
            | None =>
                match parents with
                | [] =>
                    (* debug_assert!(children.is_empty()); debug_assert_eq!(rela_path, self.path_buf) *)
                    match children' with
                    | _ :: _ => Panic
                    | [] =>
                        if bytes_eqb (f_path fr) path_buf0 then
                          let '(id, odb') := put (w_odb w) tree in
                          let m' := match mode with WNormal => [] | WFromCursor => m end in
                          Ok (id, tm_set (f_path fr) tree m', odb', S (w_outs w))
                        else Panic
                    end
                | _ :: _ =>
                    match tree with
                    | [] => write_loop fuel' mode path_buf0 (mkW m (w_odb w) (w_outs w) parents children')
                    | _ => let '(_, odb') := put (w_odb w) tree in
                           write_loop fuel' mode path_buf0 (mkW m odb' (S (w_outs w)) parents children')
                    end
                end
            end
          else
            write_loop fuel' mode path_buf0
              (mkW m (w_odb w) (w_outs w) (mkFrame (f_parent fr) (f_path fr) (f_tree fr) :: parents) children')
      end
  end.

(* fn write_at_pathbuf(out, mode): assert_ne!(self.trees.len(), 0); remove(path_buf).expect(..) *)
Definition write_at_pathbuf (st : state) (mode : wmode) : outcome (bytes * state) unit :=
  match trees st with
  | [] => Panic
  | _ =>
      root <- unwrap (tm_get (path_buf st) (trees st)) ;;
      let w := mkW (tm_remove (path_buf st) (trees st)) (odb st) (outs st)
                   [mkFrame None (path_buf st) root] [] in
      r <- write_loop (2 * length (trees st) + 3) mode (path_buf st) w ;;
      let '(id, m, o, n) := r in
      Ok (id, mkState m (path_buf st) o n)
  end.

(* Editor::write (prefix = []) / Cursor::write *)
Definition write (st : state) (cursor : option bytes) : outcome (bytes * state) unit :=
  match cursor with
  | None => write_at_pathbuf (with_path st []) WNormal
  | Some prefix => write_at_pathbuf (with_path st prefix) WFromCursor
  end.
