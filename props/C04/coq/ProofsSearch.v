(* copied from props/C03 (same definitions in Model.v): std binary_search_by *)
From Coq Require Import Lia Permutation Sorted RelationClasses ZArith ZifyBool ZifyNat.
From GixV.Base Require Import Bytes BytesFacts Outcome.
From GixV.C04 Require Import Model Spec ProofsCmp ProofsSort.
Ltac Zify.zify_post_hook ::= Z.div_mod_to_equations.

Section BinarySearch.
Context {A : Type} (f : A -> comparison) (l : list A).

Lemma nth_error_some_lt i : i < length l -> exists e, nth_error l i = Some e.
Proof.
  intros H. destruct (nth_error l i) eqn:E; [eauto|]. apply nth_error_None in E. lia.
Qed.

(* the loop never reads outside the slice and never runs out of fuel *)
Lemma bs_loop_ok fuel : forall base size,
  1 <= size -> base + size <= length l -> size <= fuel ->
  exists b, bs_loop fuel f l base size = Ok b /\ base <= b < base + size.
Proof.
  induction fuel as [|fuel IH]; intros base size H1 H2 H3.
  - lia.
  - cbn [bs_loop]. destruct (Nat.leb size 1) eqn:E.
    + apply Nat.leb_le in E. exists base. split; [reflexivity|lia].
    + apply Nat.leb_gt in E.
      assert (Hh : 1 <= Nat.div size 2 /\ 2 * Nat.div size 2 <= size) by lia.
      destruct (nth_error_some_lt (base + Nat.div size 2)) as [e He]; [lia|].
      rewrite He.
      destruct (IH (match f e with Gt => base | _ => base + Nat.div size 2 end) (size - Nat.div size 2))
        as [b [Hb Hr]]; [lia | destruct (f e); lia | lia |].
      exists b. split; [exact Hb|]. destruct (f e); lia.
Qed.

Definition up_closed_gt : Prop :=
  forall i j ei ej, i < j -> nth_error l i = Some ei -> nth_error l j = Some ej ->
                    f ei = Gt -> f ej = Gt.
Definition down_closed_lt : Prop :=
  forall i j ei ej, i < j -> nth_error l i = Some ei -> nth_error l j = Some ej ->
                    f ej = Lt -> f ei = Lt.

Definition left_inv (base : nat) : Prop :=
  base = 0 \/ exists e, nth_error l base = Some e /\ f e <> Gt.
Definition right_inv (bound : nat) : Prop :=
  forall j e, bound <= j -> nth_error l j = Some e -> f e = Gt.

Lemma bs_loop_inv (Hup : up_closed_gt) fuel : forall base size b,
  1 <= size -> base + size <= length l ->
  left_inv base -> right_inv (base + size) ->
  bs_loop fuel f l base size = Ok b ->
  left_inv b /\ right_inv (b + 1).
Proof.
  induction fuel as [|fuel IH]; intros base size b H1 H2 HL HR Hrun; cbn [bs_loop] in Hrun.
  - destruct (Nat.leb size 1) eqn:E; [|discriminate].
    apply Nat.leb_le in E. apply Ok_inj in Hrun. subst b.
    assert (size = 1) by lia. subst size. now split.
  - destruct (Nat.leb size 1) eqn:E.
    + apply Nat.leb_le in E. apply Ok_inj in Hrun. subst b.
      assert (size = 1) by lia. subst size. now split.
    + apply Nat.leb_gt in E.
      assert (Hh : 1 <= Nat.div size 2 /\ 2 * Nat.div size 2 <= size) by lia.
      destruct (nth_error l (base + Nat.div size 2)) as [e|] eqn:He; [|discriminate].
      destruct (f e) eqn:Fe.
      * eapply IH; [| | | |exact Hrun]; try lia.
        -- right. exists e. split; [exact He | congruence].
        -- intros j ej Hj. apply HR. lia.
      * eapply IH; [| | | |exact Hrun]; try lia.
        -- right. exists e. split; [exact He | congruence].
        -- intros j ej Hj. apply HR. lia.
      * eapply IH; [| | | |exact Hrun]; try lia.
        -- exact HL.
        -- intros j ej Hj Hej.
           assert (C : j = base + Nat.div size 2 \/ base + Nat.div size 2 < j) by lia.
           destruct C as [->|C]; [congruence|].
           eapply Hup; [exact C | exact He | exact Hej | exact Fe].
Qed.

(* ---- binary_search_by ------------------------------------------------------------------- *)

Lemma bsearch_total : exists r, binary_search_by f l = Ok r.
Proof.
  unfold binary_search_by. destruct (Nat.eqb (length l) 0) eqn:E; [eauto|].
  apply Nat.eqb_neq in E.
  destruct (bs_loop_ok (length l) 0 (length l)) as [b [Hb Hr]]; try lia.
  rewrite Hb. cbn [obind].
  destruct (nth_error_some_lt b) as [e He]; [lia|]. rewrite He.
  destruct (f e); eauto.
Qed.

Lemma bsearch_sound i : binary_search_by f l = Ok (inl i) ->
  exists e, nth_error l i = Some e /\ f e = Eq.
Proof.
  unfold binary_search_by. destruct (Nat.eqb (length l) 0); [discriminate|].
  destruct (bs_loop (length l) f l 0 (length l)) as [b| | |]; cbn [obind]; try discriminate.
  destruct (nth_error l b) as [e|] eqn:He; [|discriminate].
  destruct (f e) eqn:Fe; intros H; apply Ok_inj in H; try discriminate.
  injection H as <-. eauto.
Qed.

Lemma bsearch_complete : up_closed_gt -> down_closed_lt ->
  (exists j e, nth_error l j = Some e /\ f e = Eq) ->
  exists i, binary_search_by f l = Ok (inl i).
Proof.
  intros Hup Hdown [j [ej [Hj Fj]]].
  assert (Hlen : j < length l) by (apply nth_error_Some; congruence).
  unfold binary_search_by. destruct (Nat.eqb (length l) 0) eqn:E; [apply Nat.eqb_eq in E; lia|].
  destruct (bs_loop_ok (length l) 0 (length l)) as [b [Hb Hr]]; try lia.
  rewrite Hb. cbn [obind].
  destruct (bs_loop_inv Hup (length l) 0 (length l) b) as [HL HR]; try lia; try assumption.
  { now left. }
  { intros k e Hk Hke. assert (nth_error l k <> None) by congruence.
    apply nth_error_Some in H. lia. }
  destruct (nth_error_some_lt b) as [e He]; [lia|]. rewrite He.
  assert (Hjb : j <= b).
  { destruct (Nat.le_gt_cases j b) as [|C]; [assumption|].
    assert (G : f ej = Gt) by (apply (HR j ej); [lia | exact Hj]). congruence. }
  assert (C : j = b \/ j < b) by lia. destruct C as [->|C].
  - rewrite Hj in He. injection He as <-. rewrite Fj. eauto.
  - destruct HL as [->|[e' [He' Fe']]]; [lia|]. rewrite He in He'. injection He' as <-.
    destruct (f e) eqn:Fe; [eauto | | congruence].
    pose proof (Hdown j b ej e C Hj He Fe). congruence.
Qed.

(* without an equal element the result is Err *)
Lemma bsearch_none : (forall e, In e l -> f e <> Eq) -> exists i, binary_search_by f l = Ok (inr i).
Proof.
  intros H. destruct bsearch_total as [[i|i] Hr]; [|eauto].
  destruct (bsearch_sound i Hr) as [e [He Fe]]. apply nth_error_In in He.
  exfalso. exact (H e He Fe).
Qed.

(* the Err index is the insertion point *)
Lemma bsearch_err_partition i : up_closed_gt -> down_closed_lt ->
  binary_search_by f l = Ok (inr i) ->
  i <= length l /\
  (forall j e, j < i -> nth_error l j = Some e -> f e = Lt) /\
  (forall j e, i <= j -> nth_error l j = Some e -> f e = Gt).
Proof.
  intros Hup Hdown. unfold binary_search_by. destruct (Nat.eqb (length l) 0) eqn:E.
  - apply Nat.eqb_eq in E. intros H. apply Ok_inj in H. injection H as <-.
    destruct l; [|discriminate]. repeat split; [lia | intros; lia |].
    intros j e _ Hj. destruct j; discriminate.
  - apply Nat.eqb_neq in E.
    destruct (bs_loop_ok (length l) 0 (length l)) as [b [Hb Hr]]; try lia.
    rewrite Hb. cbn [obind].
    destruct (bs_loop_inv Hup (length l) 0 (length l) b) as [HL HR]; try lia; try assumption.
    { now left. }
    { intros k e Hk Hke. assert (nth_error l k <> None) by congruence.
      apply nth_error_Some in H. lia. }
    destruct (nth_error_some_lt b) as [e He]; [lia|]. rewrite He.
    destruct (f e) eqn:Fe; intros H; apply Ok_inj in H; try discriminate; injection H as <-.
    + repeat split; [lia | |].
      * intros j ej Hj Hej. assert (C : j = b \/ j < b) by lia. destruct C as [->|C].
        -- congruence.
        -- eapply Hdown; [exact C | exact Hej | exact He | exact Fe].
      * intros j ej Hj Hej. apply (HR j ej); [lia | exact Hej].
    + destruct HL as [->|[e' [He' Fe']]]; [|congruence].
      repeat split; [lia | intros; lia |].
      intros j ej Hj Hej. assert (C : j = 0 \/ 0 < j) by lia. destruct C as [->|C].
      * congruence.
      * eapply Hup; [exact C | exact He | exact Hej | exact Fe].
Qed.

End BinarySearch.

(* ---- sortedness gives the monotonicity the search needs ---------------------------------------- *)

Lemma StronglySorted_nth {A} (R : A -> A -> Prop) l : StronglySorted R l ->
  forall i j a b, i < j -> nth_error l i = Some a -> nth_error l j = Some b -> R a b.
Proof.
  induction 1 as [|x l HS IH Hall]; intros i j a b Hij Ha Hb.
  - destruct i; discriminate.
  - destruct j as [|j]; [lia|]. cbn [nth_error] in Hb. destruct i as [|i].
    + cbn in Ha. injection Ha as <-. rewrite Forall_forall in Hall. apply Hall.
      eapply nth_error_In; exact Hb.
    + cbn [nth_error] in Ha. eapply IH; [|exact Ha|exact Hb]. lia.
Qed.

Lemma asc_up_closed l k : AscK l -> up_closed_gt (fun e => bytes_cmp (ekey e) k) l.
Proof.
  intros HS i j ei ej Hij Hi Hj G.
  pose proof (StronglySorted_nth kle l HS i j ei ej Hij Hi Hj) as Hle. unfold kle in Hle.
  apply bytes_cmp_gt_lt in G. apply bytes_cmp_gt_lt.
  eapply lt_ble_trans; eassumption.
Qed.

Lemma asc_down_closed l k : AscK l -> down_closed_lt (fun e => bytes_cmp (ekey e) k) l.
Proof.
  intros HS i j ei ej Hij Hi Hj L.
  pose proof (StronglySorted_nth kle l HS i j ei ej Hij Hi Hj) as Hle. unfold kle in Hle.
  eapply ble_lt_trans; eassumption.
Qed.

Lemma binary_search_ext {A} (f g : A -> comparison) l :
  (forall e, In e l -> f e = g e) -> binary_search_by f l = binary_search_by g l.
Proof.
  intros H. unfold binary_search_by. destruct (Nat.eqb (length l) 0); [reflexivity|].
  assert (L : forall fuel base size, bs_loop fuel f l base size = bs_loop fuel g l base size).
  { induction fuel as [|fuel IH]; intros base size; cbn [bs_loop]; [reflexivity|].
    destruct (Nat.leb size 1); [reflexivity|].
    destruct (nth_error l (base + Nat.div size 2)) as [e|] eqn:He; [|reflexivity].
    rewrite (H e (nth_error_In _ _ He)). apply IH. }
  rewrite L. destruct (bs_loop (length l) g l 0 (length l)) as [b| | |]; cbn [obind]; try reflexivity.
  destruct (nth_error l b) as [e|] eqn:He; [|reflexivity].
  rewrite (H e (nth_error_In _ _ He)). reflexivity.
Qed.

