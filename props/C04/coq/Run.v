(* C04 — transcript printer: the same observable line the Rust harness prints for a case.
   case:  hist <op>*      (each token is one field)
     U <kind> <id> <n> c1..cn     upsert; kind: t b x l c; id: 20 raw bytes or decimal k (= id of the k-th
                                  tree of the sink, a dangling id if there is none)
     R <n> c1..cn                 remove
     W                            write (through the cursor if one is open)
     S <id>                       set_root(tree <id> of the sink, else the empty tree)
     C <n> c1..cn                 cursor_at; the following U/R/W go through the cursor until another op
     E                            end of cursor
     P <m> (<kind> <name> <id>)*m store a tree in the sink directly
   transcript: one token per op, then ` | <calls of out> | <all trees of the sink>` *)
From GixV.Base Require Import Bytes Outcome.
From GixV.C04 Require Import Model.
Local Open Scope N_scope.

Inductive idref := Lit (b : bytes) | Idx (k : nat).
Inductive op :=
| OU (p : list bytes) (kind : N) (id : idref)
| OR (p : list bytes)
| OW
| OS (id : idref)
| OC (p : list bytes)
| OE
| OP (es : list (N * bytes * idref)).

Definition num_of (f : bytes) : nat := match dec_to_N f with Some v => N.to_nat v | None => O end.
Definition parse_idref (f : bytes) : idref :=
  if Nat.eqb (length f) 20 then Lit f else Idx (num_of f).
Definition kind_mode (f : bytes) : N :=
  match f with
  | b :: _ => if beqb b x74 then 16384          (* t  0o040000 *)
              else if beqb b x78 then 33261     (* x  0o100755 *)
              else if beqb b x6c then 40960     (* l  0o120000 *)
              else if beqb b x63 then 57344     (* c  0o160000 *)
              else 33188                        (*    0o100644 *)
  | [] => 33188
  end.

Fixpoint parse_triples (m : nat) (fs : list bytes) : list (N * bytes * idref) :=
  match m, fs with
  | S m', k :: n :: i :: rest => (kind_mode k, n, parse_idref i) :: parse_triples m' rest
  | _, _ => []
  end.

Fixpoint parse_ops (fuel : nat) (fs : list bytes) : list op :=
  match fuel with
  | O => []
  | S fuel' =>
      match fs with
      | [] => []
      | t :: rest =>
          if bytes_eqb t (bs "U") then
            match rest with
            | k :: id :: nf :: rest' =>
                let n := num_of nf in
                if Nat.leb n (length rest')
                then OU (firstn n rest') (kind_mode k) (parse_idref id) :: parse_ops fuel' (skipn n rest')
                else []
            | _ => []
            end
          else if bytes_eqb t (bs "R") || bytes_eqb t (bs "C") then
            match rest with
            | nf :: rest' =>
                let n := num_of nf in
                if Nat.leb n (length rest')
                then (if bytes_eqb t (bs "R") then OR (firstn n rest') else OC (firstn n rest'))
                       :: parse_ops fuel' (skipn n rest')
                else []
            | _ => []
            end
          else if bytes_eqb t (bs "W") then OW :: parse_ops fuel' rest
          else if bytes_eqb t (bs "E") then OE :: parse_ops fuel' rest
          else if bytes_eqb t (bs "S") then
            match rest with
            | id :: rest' => OS (parse_idref id) :: parse_ops fuel' rest'
            | _ => []
            end
          else if bytes_eqb t (bs "P") then
            match rest with
            | mf :: rest' =>
                let m := num_of mf in
                if Nat.leb (3 * m) (length rest')
                then OP (parse_triples m rest') :: parse_ops fuel' (skipn (3 * m) rest')
                else []
            | _ => []
            end
          else []
      end
  end.

Definition DANGLING : bytes := repeat xdd 20.
Definition resolve (o : odb_t) (r : idref) : bytes :=
  match r with
  | Lit b => b
  | Idx k => if Nat.ltb k (length o) then id_of_index k else DANGLING
  end.

(* ---- printing -------------------------------------------------------------------------------- *)
Fixpoint octal_digits (slots : nat) (n : N) (acc : bytes) : bytes :=
  if N.eqb n 0 then acc
  else match slots with
       | O => acc
       | S s => octal_digits s (N.div n 8) (N2b (48 + N.modulo n 8) :: acc)
       end.
Definition octal (m : N) : bytes := if N.eqb m 0 then bs "0" else octal_digits 22 m [].

Definition show_entry (e : entry) : bytes :=
  octal (e_mode e) ++ bs ":" ++ hex_encode (e_name e) ++ bs ":" ++ hex_encode (e_oid e).
Fixpoint join (sep : bytes) (l : list bytes) : bytes :=
  match l with
  | [] => []
  | [x] => x
  | x :: r => x ++ sep ++ join sep r
  end.
Definition show_tree (t : list entry) : bytes := join (bs ",") (map show_entry t).
Definition show_odb (o : odb_t) : bytes := join (bs " ; ") (map show_tree o).

Definition tok_of (r : eres) : bytes :=
  match r with EOk => bs "ok" | EEmpty => bs "eE" | EFind => bs "eF" end.

(* the harness state: editor, open cursor (its prefix), tokens printed so far (reversed) *)
Record hstate := mkH { h_st : state; h_cursor : option bytes; h_toks : list bytes }.

Definition prefix_of (c : option bytes) : bytes := match c with Some p => p | None => [] end.

Definition run_op (h : hstate) (o : op) : outcome hstate unit :=
  let st := h_st h in
  match o with
  | OU p kind id =>
      match upsert st (prefix_of (h_cursor h)) p kind (resolve (odb st) id) with
      | Ok (st', r) => Ok (mkH st' (h_cursor h) (tok_of r :: h_toks h))
      | Err _ => Panic | Panic => Panic | OutOfFuel => OutOfFuel
      end
  | OR p =>
      match remove st (prefix_of (h_cursor h)) p with
      | Ok (st', r) => Ok (mkH st' (h_cursor h) (tok_of r :: h_toks h))
      | Err _ => Panic | Panic => Panic | OutOfFuel => OutOfFuel
      end
  | OW =>
      match write st (h_cursor h) with
      | Ok (id, st') => Ok (mkH st' (h_cursor h) ((bs "w:" ++ hex_encode id) :: h_toks h))
      | Err _ => Panic | Panic => Panic | OutOfFuel => OutOfFuel
      end
  | OS id =>
      let root := match find_tree (odb st) (resolve (odb st) id) with Some t => t | None => [] end in
      Ok (mkH (set_root st root) None (bs "-" :: h_toks h))
  | OE => Ok (mkH st None (bs "-" :: h_toks h))
  | OC p =>
      match cursor_at st p with
      | Ok (st', EOk) => Ok (mkH st' (Some (path_buf st')) (bs "c" :: h_toks h))
      | Ok (st', r) => Ok (mkH st' None (tok_of r :: h_toks h))
      | Err _ => Panic | Panic => Panic | OutOfFuel => OutOfFuel
      end
  | OP es =>
      let t := map (fun x => match x with (k, n, i) => mkEntry k n (resolve (odb st) i) end) es in
      let '(id, o') := put (odb st) t in
      Ok (mkH (mkState (trees st) (path_buf st) o' (outs st)) None ((bs "p:" ++ hex_encode id) :: h_toks h))
  end.

Fixpoint run_ops (h : hstate) (ops : list op) : outcome hstate unit :=
  match ops with
  | [] => Ok h
  | o :: r => match run_op h o with
              | Ok h' => run_ops h' r
              | Err e => Err e | Panic => Panic | OutOfFuel => OutOfFuel
              end
  end.

Definition run_model (fs : list bytes) : bytes :=
  if bytes_eqb (nth_field 0 fs) (bs "hist") then
    match run_ops (mkH (init_state [] [] O) None []) (parse_ops (length fs) (tl fs)) with
    | Ok h =>
        join (bs " ") (rev (h_toks h)) ++ bs " | " ++ N_to_dec (N.of_nat (outs (h_st h)))
          ++ bs " | " ++ show_odb (odb (h_st h))
    | Err _ => bs "?"
    | Panic => bs "PANIC"
    | OutOfFuel => bs "HANG"
    end
  else bs "?".

Definition run (fs : list bytes) : bytes :=
  match fs with
  | mode :: rest => run_model rest
  | [] => bs "?"
  end.
