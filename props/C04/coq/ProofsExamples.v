(* C04 — non-vacuity: concrete histories satisfying the hypotheses, and the two repaired defects
   replayed on the model (which follows the fixed code). *)
From GixV.Base Require Import Bytes Outcome.
From GixV.C04 Require Import Model Spec ProofsCmp ProofsSort ProofsSearch ProofsLevel ProofsInv.

Definition B1 : bytes := repeat xb1 20.
Definition B2 : bytes := repeat xb2 20.
Definition B3 : bytes := repeat xb3 20.
Definition BLOB : N := 33188.

(* upsert a/b; upsert a (a blob); upsert a/c; write *)
Definition witness_stale : list eop :=
  [EUpsert [] [bs "a"; bs "b"] BLOB B1; EUpsert [] [bs "a"] BLOB B2;
   EUpsert [] [bs "a"; bs "c"] BLOB B3; EWrite None].
(* upsert a/x, a/y; write; cursor_at a; cursor.upsert z; cursor.write; write *)
Definition witness_cursor : list eop :=
  [EUpsert [] [bs "a"; bs "x"] BLOB B1; EUpsert [] [bs "a"; bs "y"] BLOB B2; EWrite None;
   ECursorAt [bs "a"]; EUpsert (bs "a") [bs "z"] BLOB B3; EWrite (Some (bs "a")); EWrite None].

Lemma slash_free_dec n : slash_freeb n = true -> slash_free n.
Proof.
  unfold slash_freeb, slash_free. intros H Hin. apply Bool.negb_true_iff in H.
  assert (existsb (fun b => beqb b x2f) n = true); [|congruence].
  apply existsb_exists. exists x2f. split; [exact Hin | reflexivity].
Qed.

Lemma witness_stale_ok : Forall eop_ok witness_stale.
Proof.
  repeat constructor; try (apply slash_free_dec; reflexivity); cbn; tauto.
Qed.
Lemma witness_cursor_ok : Forall eop_ok witness_cursor.
Proof.
  repeat constructor; try (apply slash_free_dec; reflexivity); cbn; tauto.
Qed.

(* the written trees: [a/c] only below a — a/b does not come back *)
Lemma witness_stale_result :
  omap odb (erun (init_state [] [] 0) witness_stale) =
  Ok [[mkEntry BLOB (bs "c") B3]; [mkEntry MODE_TREE (bs "a") (id_of_index 0)]].
Proof. vm_compute. reflexivity. Qed.

(* the cursor's tree keeps x and y next to the new z *)
Lemma witness_cursor_result :
  omap (fun st => nth 2 (odb st) []) (erun (init_state [] [] 0) witness_cursor) =
  Ok [mkEntry BLOB (bs "x") B1; mkEntry BLOB (bs "y") B2; mkEntry BLOB (bs "z") B3].
Proof. vm_compute. reflexivity. Qed.
