//! C41 — checkout stays inside the worktree and reproduces the index.
//!
//! One case:  `co <flags> <npre> (<kind> <path> <data>){npre} (<mode> <path> <data>)*`
//!   flags (decimal): 1 overwrite_existing, 2 destination_is_initially_empty, 4 keep_going,
//!                    8 fs.symlink, 16 fs.executable_bit
//!   pre items  (things that exist before the checkout, path relative to the sandbox `S`):
//!              kind f file, x executable file, l symlink, d directory
//!   entries    (the index): mode f 100644, x 100755, l 120000, m 160000 (submodule), t 040000 (sparse dir)
//!
//! World: a fresh top directory `T` (the model's `/`), `T/S/R` = destination with `T/S/R/.git/config`,
//! `T/S/out/f` = something outside.  Absolute symlink targets are taken relative to `T`.
mod oracle;
mod world;

use gixv_common::*;
use std::time::Duration;
use world::*;

fn imp(c: &Case) -> String {
    let Some(case) = parse(c) else { return "skip".into() };
    if std::env::var_os("GIXV_C41_DEBUG").is_some() {
        std::panic::set_hook(Box::new(|i| eprintln!("panic: {i}")));
    }
    let w = World::create(&case);
    let line = match &w {
        Some(w) => {
            let status = std::panic::catch_unwind(std::panic::AssertUnwindSafe(|| {
                run_checkout(w, &case, case.flags, 1, false)
            }));
            match status {
                Ok(status) => format!("{} | {}", status, show_snapshot(&w.snapshot())),
                Err(_) => "PANIC".into(),
            }
        }
        None => "skip".into(),
    };
    if let Some(w) = w {
        w.destroy();
    }
    line
}

fn main() {
    main_with(Harness {
        gen: oracle::gen,
        imp,
        prop: oracle::prop,
        git: None,
        deadline: Duration::from_secs(300),
    });
}
