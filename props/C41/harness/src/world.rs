//! The sandbox and the call into `gix_worktree_state::checkout`.
use gixv_common::*;
use std::collections::HashMap;
use std::os::unix::ffi::{OsStrExt, OsStringExt};
use std::os::unix::fs::PermissionsExt;
use std::path::{Path, PathBuf};
use std::sync::atomic::{AtomicBool, AtomicUsize, Ordering};
use std::sync::Arc;

pub const F_OVERWRITE: u64 = 1;
pub const F_EMPTY: u64 = 2;
pub const F_KEEP_GOING: u64 = 4;
pub const F_SYMLINK: u64 = 8;
pub const F_EXEC: u64 = 16;
pub const GIT_HEAD: &[u8] = b"ref: refs/heads/main\n";
pub const GIT_CONFIG: &[u8] = b"[core]\n\trepositoryformatversion = 0\n";

#[derive(Clone, Debug)]
pub struct Item {
    pub kind: u8, // pre: f x l d ; entries: f x l m t
    pub path: Vec<u8>,
    pub data: Vec<u8>,
}
#[derive(Clone, Debug)]
pub struct CaseData {
    pub flags: u64,
    pub pre: Vec<Item>,
    pub entries: Vec<Item>,
}

pub fn split_slash(p: &[u8]) -> Vec<&[u8]> {
    p.split(|b| *b == b'/').collect()
}
fn dotdots(t: &[u8]) -> usize {
    split_slash(t).iter().filter(|c| **c == b"..").count()
}

/// `None` = the case is outside the modelled domain (both sides print `skip`).
pub fn parse(c: &Case) -> Option<CaseData> {
    if f_str(c, 0) != b"co" || c.len() < 3 {
        return None;
    }
    let flags = f_u64(c, 1);
    let npre = f_u64(c, 2) as usize;
    if flags >= 32 || npre > 8 || c.len() < 3 + 3 * npre || (c.len() - 3 - 3 * npre) % 3 != 0 {
        return None;
    }
    let item = |i: usize| -> Option<Item> {
        let k = f_str(c, i);
        if k.len() != 1 {
            return None;
        }
        Some(Item { kind: k[0], path: f_str(c, i + 1).to_vec(), data: f_str(c, i + 2).to_vec() })
    };
    let mut pre = Vec::new();
    for j in 0..npre {
        let it = item(3 + 3 * j)?;
        if !b"fxld".contains(&it.kind) {
            return None;
        }
        // pre paths are clean relative paths
        if it.path.is_empty() || it.path.len() > 300 {
            return None;
        }
        for comp in split_slash(&it.path) {
            if comp.is_empty() || comp == b"." || comp == b".." || comp.len() > 100 || comp.contains(&0) {
                return None;
            }
        }
        pre.push(it);
    }
    let nent = (c.len() - 3 - 3 * npre) / 3;
    if nent > 16 {
        return None;
    }
    let mut entries = Vec::new();
    for j in 0..nent {
        let it = item(3 + 3 * npre + 3 * j)?;
        if !b"fxlmt".contains(&it.kind) {
            return None;
        }
        if it.path.len() > 300 || it.path.contains(&0) {
            return None;
        }
        for comp in split_slash(&it.path) {
            if comp.len() > 100 || comp.eq_ignore_ascii_case(b".gitattributes") {
                return None;
            }
        }
        entries.push(it);
    }
    // symbolic link targets: no NUL, bounded, and a bounded number of `..` so that nothing can climb
    // above the top directory (the model's `/..` is `/`, the real `T/..` is not `T`)
    let mut budget = 0usize;
    for it in pre.iter().chain(entries.iter()).filter(|i| i.kind == b'l') {
        if it.data.contains(&0) || it.data.len() > 200 {
            return None;
        }
        let n = dotdots(&it.data);
        if it.data.first() == Some(&b'/') && n > 0 {
            return None;
        }
        budget += n;
    }
    if budget > 2 {
        return None;
    }
    Some(CaseData { flags, pre, entries })
}

#[derive(Clone)]
pub struct Odb(pub Arc<HashMap<gix_hash::ObjectId, Vec<u8>>>);
impl gix_object::Find for Odb {
    fn try_find<'a>(
        &self,
        id: &gix_hash::oid,
        buffer: &'a mut Vec<u8>,
    ) -> Result<Option<gix_object::Data<'a>>, gix_object::find::Error> {
        match self.0.get(id) {
            None => Ok(None),
            Some(data) => {
                buffer.clear();
                buffer.extend_from_slice(data);
                Ok(Some(gix_object::Data { kind: gix_object::Kind::Blob, data: buffer }))
            }
        }
    }
}

pub struct World {
    pub top: PathBuf,
}

static COUNTER: AtomicUsize = AtomicUsize::new(0);

pub fn p(b: &[u8]) -> PathBuf {
    PathBuf::from(std::ffi::OsString::from_vec(b.to_vec()))
}

/// what a symbolic link holds on disk for the target the case names: absolute targets live below `T`
pub fn real_target(top: &Path, t: &[u8]) -> Vec<u8> {
    if t.first() == Some(&b'/') {
        let mut v = top.as_os_str().as_bytes().to_vec();
        v.extend_from_slice(t);
        v
    } else {
        t.to_vec()
    }
}
pub fn model_target(top: &Path, t: &[u8]) -> Vec<u8> {
    let tb = top.as_os_str().as_bytes();
    if t.starts_with(tb) && t.get(tb.len()) == Some(&b'/') {
        t[tb.len()..].to_vec()
    } else {
        t.to_vec()
    }
}

pub type Snapshot = Vec<(Vec<u8>, u8, Vec<u8>)>; // (path relative to T, kind f x l d, data)

impl World {
    pub fn base_dir() -> PathBuf {
        let shm = Path::new("/dev/shm");
        if shm.is_dir() {
            shm.to_path_buf()
        } else {
            std::env::temp_dir()
        }
    }
    /// `None` when a pre item cannot be placed (the model says `skip` for the same reason).
    pub fn create(case: &CaseData) -> Option<World> {
        let n = COUNTER.fetch_add(1, Ordering::SeqCst);
        let top = Self::base_dir().join(format!("gixv-c41-{}-{}", std::process::id(), n));
        let _ = std::fs::remove_dir_all(&top);
        std::fs::create_dir_all(top.join("S/R/.git")).expect("mkdir");
        std::fs::create_dir_all(top.join("S/out")).expect("mkdir");
        std::fs::create_dir_all(top.join("S/R/.git/objects")).expect("mkdir");
        std::fs::create_dir_all(top.join("S/R/.git/refs")).expect("mkdir");
        std::fs::write(top.join("S/R/.git/HEAD"), GIT_HEAD).expect("write");
        std::fs::write(top.join("S/R/.git/config"), GIT_CONFIG).expect("write");
        std::fs::write(top.join("S/out/f"), b"o").expect("write");
        let w = World { top };
        for it in &case.pre {
            let comps = split_slash(&it.path);
            let mut cur = w.top.join("S");
            let mut ok = true;
            for (i, comp) in comps.iter().enumerate() {
                cur.push(p(comp));
                let last = i + 1 == comps.len();
                match std::fs::symlink_metadata(&cur) {
                    Ok(m) => {
                        if last || !m.is_dir() {
                            ok = false;
                            break;
                        }
                    }
                    Err(_) => {
                        if !last {
                            std::fs::create_dir(&cur).expect("mkdir pre");
                        }
                    }
                }
            }
            if !ok {
                w.destroy();
                return None;
            }
            match it.kind {
                b'd' => std::fs::create_dir(&cur).expect("pre dir"),
                b'l' => {
                    if it.data.is_empty() {
                        w.destroy();
                        return None;
                    }
                    std::os::unix::fs::symlink(p(&real_target(&w.top, &it.data)), &cur).expect("pre link")
                }
                _ => {
                    std::fs::write(&cur, &it.data).expect("pre file");
                    let mode = if it.kind == b'x' { 0o755 } else { 0o644 };
                    std::fs::set_permissions(&cur, std::fs::Permissions::from_mode(mode)).expect("chmod");
                }
            }
        }
        Some(w)
    }
    pub fn root(&self) -> PathBuf {
        self.top.join("S/R")
    }
    pub fn destroy(&self) {
        let _ = std::fs::remove_dir_all(&self.top);
    }
    pub fn snapshot(&self) -> Snapshot {
        let mut out = Vec::new();
        fn walk(top: &Path, dir: &Path, rel: &[u8], out: &mut Snapshot) {
            let Ok(rd) = std::fs::read_dir(dir) else { return };
            for e in rd.flatten() {
                let name = e.file_name();
                let mut r = rel.to_vec();
                if !r.is_empty() {
                    r.push(b'/');
                }
                r.extend_from_slice(name.as_bytes());
                let path = e.path();
                let Ok(m) = std::fs::symlink_metadata(&path) else { continue };
                if m.file_type().is_symlink() {
                    let t = std::fs::read_link(&path).map(|t| t.into_os_string().into_vec()).unwrap_or_default();
                    out.push((r, b'l', model_target(top, &t)));
                } else if m.is_dir() {
                    out.push((r.clone(), b'd', vec![]));
                    walk(top, &path, &r, out);
                } else {
                    let data = std::fs::read(&path).unwrap_or_default();
                    let k = if m.permissions().mode() & 0o100 != 0 { b'x' } else { b'f' };
                    out.push((r, k, data));
                }
            }
        }
        walk(&self.top, &self.top, b"", &mut out);
        out.sort();
        out
    }
}

pub fn show_snapshot(s: &Snapshot) -> String {
    s.iter()
        .map(|(path, k, data)| format!("{}={}:{}", hexs(path), *k as char, hexs(data)))
        .collect::<Vec<_>>()
        .join(" ")
}

pub fn entry_mode(kind: u8) -> gix_index::entry::Mode {
    use gix_index::entry::Mode;
    match kind {
        b'f' => Mode::FILE,
        b'x' => Mode::FILE_EXECUTABLE,
        b'l' => Mode::SYMLINK,
        b'm' => Mode::COMMIT,
        _ => Mode::DIR,
    }
}

pub fn build_index(top: &Path, case: &CaseData) -> (gix_index::State, Odb) {
    let mut state = gix_index::State::new(gix_hash::Kind::Sha1);
    let mut objs = HashMap::new();
    for e in &case.entries {
        // a link that will be written as a regular file (no symlink capability) keeps the case's bytes
        let data = if e.kind == b'l' && case.flags & F_SYMLINK != 0 { real_target(top, &e.data) } else { e.data.clone() };
        let id = gix_object::compute_hash(gix_hash::Kind::Sha1, gix_object::Kind::Blob, &data);
        objs.insert(id, data);
        state.dangerously_push_entry(
            Default::default(),
            id,
            gix_index::entry::Flags::empty(),
            entry_mode(e.kind),
            e.path.as_slice().into(),
        );
    }
    state.sort_entries();
    (state, Odb(Arc::new(objs)))
}

/// status line: `ok f=<files_updated> c=[<path>:<kind>;…] e=[<path>;…]` or `err`
pub fn run_checkout(w: &World, case: &CaseData, flags: u64, threads: usize, default_validation: bool) -> String {
    let (mut index, odb) = build_index(&w.top, case);
    let validate = if default_validation {
        Default::default()
    } else {
        gix_validate::path::component::Options { protect_windows: false, protect_hfs: false, protect_ntfs: false }
    };
    let opts = gix_worktree_state::checkout::Options {
        fs: gix_fs::Capabilities {
            precompose_unicode: false,
            ignore_case: false,
            executable_bit: flags & F_EXEC != 0,
            symlink: flags & F_SYMLINK != 0,
        },
        validate,
        thread_limit: Some(threads),
        destination_is_initially_empty: flags & F_EMPTY != 0,
        overwrite_existing: flags & F_OVERWRITE != 0,
        keep_going: flags & F_KEEP_GOING != 0,
        ..Default::default()
    };
    let res = gix_worktree_state::checkout(
        &mut index,
        w.root(),
        odb,
        &gix_features::progress::Discard,
        &gix_features::progress::Discard,
        &AtomicBool::new(false),
        opts,
    );
    match res {
        Err(_) => "err".into(),
        Ok(out) => {
            let mut coll: Vec<String> =
                out.collisions.iter().map(|c| format!("{}:{:?}", hexs(&c.path), c.error_kind)).collect();
            let mut errs: Vec<String> = out.errors.iter().map(|e| hexs(&e.path)).collect();
            if threads != 1 {
                coll.sort();
                errs.sort();
            }
            format!(
                "ok f={} c=[{}] e=[{}]",
                out.files_updated,
                coll.join(";"),
                errs.join(";")
            )
        }
    }
}
