//! generator and the property oracle (independent of the Coq model: snapshots of the sandbox before
//! and after, byte comparisons with the index, and `git checkout-index`)
use crate::world::*;
use gixv_common::*;
use std::collections::BTreeMap;
use std::io::Write;

pub fn mk(flags: u64, pre: &[(&str, &str, &str)], entries: &[(&str, &str, &str)]) -> Case {
    let mut c = vec![tag("co"), num(flags), num(pre.len())];
    for (k, p, d) in pre.iter().chain(entries.iter()) {
        c.push(k.as_bytes().to_vec());
        c.push(p.as_bytes().to_vec());
        c.push(d.as_bytes().to_vec());
    }
    c
}

const NAMES: &[&[u8]] = &[
    b"a", b"a", b"a", b"b", b"b", b"d", b"d", b"A", b"e", b"sub", b"out", b"R", b"a-b", b"x y", b"\\", b"\xff",
    b".git", b".GIT", b".Git", b".gitmodules", b".gitx", b"..", b".", b"", b"git", b"...", b"a.", b"0",
];
const TARGETS: &[&[u8]] = &[
    b"../out", b"../out", b"/S/out", b"/S/out", b"..", b"a", b"b", b"d", b".", b"/S/R/.git", b".git", b"../out/f",
    b"/", b"", b"a/b", b"../../S/out", b"/S", b"../R/.git", b"x", b".git/config", b"/S/R", b"d/..", b"//S//out/",
    b"./../out",
];
const DATA: &[&[u8]] = &[b"A", b"B", b"", b"hello\n", b"\x00\xff\x01", b"#!/bin/sh\n", b"x"];

fn rel_path(rng: &mut Rng, earlier: &[Vec<u8>]) -> Vec<u8> {
    if !earlier.is_empty() && rng.chance(2, 5) {
        // extend (or repeat, or cut) an earlier path: file/directory conflicts and duplicates
        let base = rng.pick(earlier).clone();
        return match rng.below(6) {
            0 => base,
            1 => match base.iter().rposition(|b| *b == b'/') {
                Some(i) => base[..i].to_vec(),
                None => base,
            },
            _ => {
                let mut p = base;
                p.push(b'/');
                p.extend_from_slice(*rng.pick(NAMES));
                p
            }
        };
    }
    let n = 1 + rng.below(3) as usize;
    let mut p = Vec::new();
    if rng.chance(1, 40) {
        p.push(b'/');
    }
    for i in 0..n {
        if i > 0 {
            p.push(b'/');
        }
        p.extend_from_slice(*rng.pick(NAMES));
    }
    if rng.chance(1, 30) {
        p.push(b'/');
    }
    p
}

fn random_case(rng: &mut Rng) -> Case {
    let mut flags = rng.below(32);
    if rng.chance(3, 4) {
        flags |= F_SYMLINK;
    }
    let npre = if rng.chance(1, 2) { 0 } else { 1 + rng.below(3) as usize };
    let mut c = vec![tag("co"), num(flags), num(npre)];
    let mut pre_paths: Vec<Vec<u8>> = Vec::new();
    for _ in 0..npre {
        let kind = *rng.pick(b"ffxllld");
        let clean: Vec<&[u8]> = NAMES.iter().copied().filter(|n| !n.is_empty() && *n != b"." && *n != b"..").collect();
        let mut p: Vec<u8> = if rng.chance(1, 6) { b"out/".to_vec() } else { b"R/".to_vec() };
        if !pre_paths.is_empty() && rng.chance(1, 4) {
            p = rng.pick(&pre_paths).clone();
            p.push(b'/');
        }
        p.extend_from_slice(*rng.pick(&clean));
        if rng.chance(1, 4) {
            p.push(b'/');
            p.extend_from_slice(*rng.pick(&clean));
        }
        pre_paths.push(p.clone());
        c.push(vec![kind]);
        c.push(p);
        c.push(if kind == b'l' { rng.pick(TARGETS).to_vec() } else { rng.pick(DATA).to_vec() });
    }
    let nent = 1 + rng.below(7) as usize;
    let mut earlier: Vec<Vec<u8>> = pre_paths
        .iter()
        .filter(|p| p.starts_with(b"R/"))
        .map(|p| p[2..].to_vec())
        .collect();
    for _ in 0..nent {
        let kind = *rng.pick(b"ffffxxlllmt");
        let p = rel_path(rng, &earlier);
        earlier.push(p.clone());
        c.push(vec![kind]);
        c.push(p);
        c.push(if kind == b'l' { rng.pick(TARGETS).to_vec() } else { rng.pick(DATA).to_vec() });
    }
    c
}

/// a well-formed index (no duplicates, no file/directory conflicts, plain names) over a destination
/// that may hold anything: the cases `git checkout-index` is the reference for
fn sane_case(rng: &mut Rng) -> Case {
    const PATHS: &[&[u8]] = &[b"a", b"b", b"d/a", b"d/b", b"d/e/a", b"sub/x y", b"a-b", b"0/0/0", b"A", b"\xff/q"];
    const PRE: &[&[u8]] = &[b"R/a", b"R/b", b"R/d", b"R/d/a", b"R/d/e", b"R/sub", b"R/0/0", b"R/A", b"R/zz", b"out/a", b"R/d/e/a/k"];
    let mut flags = rng.below(32) | F_SYMLINK | F_EXEC;
    if rng.chance(1, 2) {
        flags |= F_OVERWRITE;
        flags &= !F_EMPTY;
    }
    let npre = if rng.chance(1, 3) { 0 } else { 1 + rng.below(3) as usize };
    let mut c = vec![tag("co"), num(flags), num(npre)];
    for _ in 0..npre {
        let kind = *rng.pick(b"fxlld");
        c.push(vec![kind]);
        c.push(rng.pick(PRE).to_vec());
        c.push(if kind == b'l' { rng.pick(TARGETS).to_vec() } else { rng.pick(DATA).to_vec() });
    }
    let mut used = Vec::new();
    for _ in 0..(1 + rng.below(6)) {
        let p = *rng.pick(PATHS);
        if used.contains(&p) {
            continue;
        }
        used.push(p);
        let kind = *rng.pick(b"fffxxll");
        c.push(vec![kind]);
        c.push(p.to_vec());
        c.push(if kind == b'l' { rng.pick(&TARGETS[..12]).to_vec() } else { rng.pick(DATA).to_vec() });
    }
    c
}

pub fn gen(rng: &mut Rng, n: usize) -> Vec<Case> {
    let mut out = Vec::new();
    for flags in 0..32u64 {
        out.push(mk(flags, &[], &[("f", "a", "A"), ("x", "d/e", "E"), ("l", "l", "a"), ("m", "sub", ""), ("l", "d/up", "../..")]));
        // a leaf used as a directory by the next entry, both symbolic links
        out.push(mk(flags, &[], &[("l", "a", "../out"), ("l", "a/b", "x")]));
        // a directory of the stack's cache replaced by a symbolic link
        out.push(mk(flags, &[], &[("l", "z", "/S/out"), ("l", "z/y", "x"), ("f", "z/y/x", "X")]));
        // a pre-existing symbolic link, a file colliding with it, then used as a directory
        out.push(mk(flags, &[("l", "R/a", "../out")], &[("f", "a", "A"), ("f", "a/b", "B")]));
        out.push(mk(flags, &[("l", "R/a", "../out")], &[("f", "a", "A"), ("m", "a", ""), ("f", "a/b", "B")]));
        // the empty path
        out.push(mk(flags, &[], &[("f", "", "A")]));
        out.push(mk(flags, &[], &[("f", "", "A"), ("f", "q", "Q")]));
        out.push(mk(flags, &[], &[("l", "", "/S/out"), ("l", "q", "x")]));
        out.push(mk(flags, &[], &[("f", ".git/config", "A"), ("f", ".GIT/x", "A"), ("f", "a/.git", "A"), ("f", "b/../../out/g", "A")]));
        out.push(mk(flags, &[], &[("l", ".gitmodules", "x"), ("f", ".gitmodules", "x"), ("l", ".gitmodules/y", "x")]));
        out.push(mk(flags, &[("l", "R/d", "/S/out"), ("x", "R/e", "old"), ("d", "R/g", ""), ("f", "R/g/h", "H")], &[("f", "d/n", "N"), ("f", "e", "new"), ("f", "g", "G")]));
        out.push(mk(flags, &[("l", "R/l", "/S/out/f"), ("f", "R/x", "old"), ("l", "R/dang", "nowhere")], &[("f", "l", "L"), ("x", "x", "new"), ("f", "dang", "D")]));
        out.push(mk(flags, &[], &[("f", "a", "1"), ("f", "a", "2"), ("x", "b", "1"), ("f", "b", "2"), ("l", "c", "a"), ("f", "c", "C")]));
        out.push(mk(flags, &[], &[("l", "loop", "loop"), ("f", "loop/x", "X"), ("l", "up", ".."), ("l", "up/R/w", "x")]));
        out.push(mk(flags, &[("d", "R/sub", ""), ("l", "R/sub/l", "../../out")], &[("m", "sub", ""), ("f", "sub/l/n", "N"), ("t", "sp", ""), ("f", "sp/f", "F")]));
        out.push(mk(flags, &[], &[("f", "/abs", "A"), ("f", "./rel", "B"), ("f", "a//b", "C"), ("f", "a/./c", "D"), ("f", "t/", "E"), ("l", "e", "")]));
    }
    while out.len() < n {
        out.push(if rng.chance(1, 4) { sane_case(rng) } else { random_case(rng) });
    }
    out.truncate(n);
    out
}

// ------------------------------------------------------------------------------------- oracle

/// the components a relative index path designates, or None if checkout has to refuse it
fn normalized(path: &[u8]) -> Option<Vec<Vec<u8>>> {
    if path.is_empty() || path[0] == b'/' {
        return None;
    }
    let comps = split_slash(path);
    if comps[0] == b"." {
        return None;
    }
    let mut out = Vec::new();
    for c in comps {
        if c.is_empty() || c == b"." {
            continue;
        }
        if c == b".." || c.eq_ignore_ascii_case(b".git") {
            return None;
        }
        out.push(c.to_vec());
    }
    if out.is_empty() {
        None
    } else {
        Some(out)
    }
}
fn join(comps: &[Vec<u8>]) -> Vec<u8> {
    comps.join(&b'/')
}

fn protected(path: &[u8]) -> bool {
    // everything that is not strictly below S/R, and everything at or below S/R/.git (any case)
    let Some(rel) = path.strip_prefix(b"S/R/") else { return true };
    let first = rel.split(|b| *b == b'/').next().unwrap_or(b"");
    first.eq_ignore_ascii_case(b".git")
}

type Snap = BTreeMap<Vec<u8>, (u8, Vec<u8>)>;
fn to_map(s: &Snapshot) -> Snap {
    s.iter().map(|(p, k, d)| (p.clone(), (*k, d.clone()))).collect()
}

fn sane_index(case: &CaseData) -> bool {
    let mut seen: Vec<Vec<u8>> = Vec::new();
    for e in &case.entries {
        if !b"fxl".contains(&e.kind) {
            return false;
        }
        let Some(n) = normalized(&e.path) else { return false };
        if join(&n) != e.path {
            return false;
        }
        if n.iter().any(|c| c.contains(&b'\\') || c.eq_ignore_ascii_case(b".gitmodules") || c.ends_with(b".") || c.ends_with(b" ")) {
            return false; // things git or gix's default validation treat specially
        }
        if e.kind == b'l' && e.data.is_empty() {
            return false;
        }
        seen.push(e.path.clone());
    }
    for (i, a) in seen.iter().enumerate() {
        for (j, b) in seen.iter().enumerate() {
            if i != j && (a == b || (b.starts_with(a) && b.get(a.len()) == Some(&b'/'))) {
                return false;
            }
        }
    }
    true
}

fn check_one(case: &CaseData, threads: usize, default_validation: bool) -> Result<(String, Snapshot, Snapshot), Verdict> {
    let Some(w) = World::create(case) else { return Err(Verdict::ok(false, "skip")) };
    let before = w.snapshot();
    let status = std::panic::catch_unwind(std::panic::AssertUnwindSafe(|| {
        run_checkout(&w, case, case.flags, threads, default_validation)
    }));
    let after = w.snapshot();
    w.destroy();
    let status = match status {
        Ok(s) => s,
        Err(_) => return Err(Verdict::ok(false, "panic-empty-path-backing")),
    };
    Ok((status, before, after))
}

fn lenient(path: &[u8]) -> Vec<u8> {
    let comps: Vec<Vec<u8>> =
        split_slash(path).into_iter().filter(|c| !c.is_empty() && *c != b".").map(|c| c.to_vec()).collect();
    join(&comps)
}
fn related(a: &[u8], b: &[u8]) -> bool {
    a == b || (a.starts_with(b) && a.get(b.len()) == Some(&b'/')) || (b.starts_with(a) && b.get(a.len()) == Some(&b'/'))
}
/// the paths of entries that share their place with another entry (duplicates, file/directory
/// conflicts): with more than one thread what ends up there depends on the schedule (two threads
/// writing the same file can even interleave), so only confinement is judged for them
fn conflicted_paths(case: &CaseData) -> Vec<Vec<u8>> {
    let paths: Vec<Vec<u8>> = case.entries.iter().map(|e| lenient(&e.path)).collect();
    paths
        .iter()
        .enumerate()
        .filter(|(i, a)| paths.iter().enumerate().any(|(j, b)| *i != j && related(a, b)))
        .map(|(_, a)| a.clone())
        .collect()
}

fn check_confined(case: &CaseData, before: &Snap, after: &Snap, cfg: &str, threads: usize) -> Option<Verdict> {
    let conflicted = if threads > 1 { conflicted_paths(case) } else { Vec::new() };
    let schedule_dependent = |rel: &[u8]| conflicted.iter().any(|c| related(rel, c));
    for (p, v) in before.iter() {
        if protected(p) && after.get(p) != Some(v) {
            let class = if p.starts_with(b"S/R/") { "wrote-into-dotgit" } else { "escaped-destination" };
            return Some(Verdict::fail(class, format!("{cfg}: {:?} was {:?}, now {:?}", bstr(p), v.0 as char, after.get(p).map(|x| x.0 as char))));
        }
    }
    for (p, v) in after.iter() {
        if protected(p) && !before.contains_key(p) {
            let class = if p.starts_with(b"S/R/") { "wrote-into-dotgit" } else { "escaped-destination" };
            return Some(Verdict::fail(class, format!("{cfg}: {:?} created as {:?}", bstr(p), v.0 as char)));
        }
    }
    let overwrite = case.flags & F_OVERWRITE != 0;
    let cap_symlink = case.flags & F_SYMLINK != 0;
    let cap_exec = case.flags & F_EXEC != 0;
    let norm: Vec<(Option<Vec<u8>>, &Item)> = case.entries.iter().map(|e| (normalized(&e.path).map(|n| join(&n)), e)).collect();
    // whatever is new or changed below the destination comes from the index
    for (p, v) in after.iter() {
        if protected(p) || before.get(p) == Some(v) {
            continue;
        }
        let rel = &p[4..];
        if schedule_dependent(rel) {
            continue;
        }
        let same_path: Vec<&Item> = norm.iter().filter(|(n, _)| n.as_deref() == Some(rel)).map(|(_, e)| *e).collect();
        // directories are also made for the leading components of an entry that is refused later on
        let below = case.entries.iter().any(|e| {
            let lenient: Vec<Vec<u8>> =
                split_slash(&e.path).into_iter().filter(|c| !c.is_empty() && *c != b".").map(|c| c.to_vec()).collect();
            let n = join(&lenient);
            n.starts_with(rel) && n.get(rel.len()) == Some(&b'/')
        });
        let ok = match v.0 {
            b'd' => below || same_path.iter().any(|e| e.kind == b'm' || e.kind == b't'),
            b'l' => cap_symlink && same_path.iter().any(|e| e.kind == b'l' && e.data == v.1),
            _ => same_path.iter().any(|e| (b"fx".contains(&e.kind) || (e.kind == b'l' && !cap_symlink)) && e.data == v.1),
        };
        if !ok {
            return Some(Verdict::fail("content-not-from-index", format!("{cfg}: {:?} is {:?} {:?}", bstr(rel), v.0 as char, bstr(&v.1))));
        }
        if v.0 == b'f' || v.0 == b'x' {
            // mode: executable iff some entry of that path and content asks for it (and the fs can)
            let wants_x = same_path.iter().any(|e| e.kind == b'x' && e.data == v.1) && cap_exec;
            let wants_f = same_path.iter().any(|e| (e.kind != b'x' || !cap_exec) && e.data == v.1);
            let is_x = v.0 == b'x';
            // `destination_is_initially_empty` with something in the way is outside the option's contract
            let contract_broken = case.flags & F_EMPTY != 0 && before.contains_key(p);
            if !contract_broken && ((is_x && !wants_x) || (!is_x && !wants_f)) {
                // the file existed (before the checkout, or written for a duplicate entry) and was rewritten in place
                let existed = before.get(p).is_some_and(|b| b.0 == b'x' || b.0 == b'f') || same_path.len() > 1;
                let class = if existed { "exec-bit-not-updated-on-existing-file" } else { "mode-differs" };
                return Some(Verdict::fail(class, format!("{cfg}: {:?} has mode {:?}", bstr(rel), v.0 as char)));
            }
        }
    }
    // nothing disappears or changes type unless an entry designates that place (or a place above/below it)
    for (p, v) in before.iter() {
        if protected(p) {
            continue;
        }
        let rel = &p[4..];
        let changed = match after.get(p) {
            None => true,
            Some(a) => (a.0 == b'd') != (v.0 == b'd') || (a.0 == b'l') != (v.0 == b'l') || (a.0 == b'l' && a.1 != v.1),
        };
        if !changed || schedule_dependent(rel) {
            continue;
        }
        if !overwrite {
            return Some(Verdict::fail("removed-without-overwrite", format!("{cfg}: {:?}", bstr(rel))));
        }
        // (leading directories of an entry that is refused further down count as well)
        let related = case.entries.iter().any(|e| {
            let lenient: Vec<Vec<u8>> =
                split_slash(&e.path).into_iter().filter(|c| !c.is_empty() && *c != b".").map(|c| c.to_vec()).collect();
            let n = join(&lenient);
            n.as_slice() == rel
                || (n.starts_with(rel) && n.get(rel.len()) == Some(&b'/'))
                || (rel.starts_with(&n) && rel.get(n.len()) == Some(&b'/'))
        });
        if !related {
            return Some(Verdict::fail("removed-unrelated-path", format!("{cfg}: {:?}", bstr(rel))));
        }
    }
    None
}

/// the status line with the collision and error lists sorted (their order depends on the schedule)
fn sorted_status(s: &str) -> String {
    let sort_list = |l: &str| {
        let mut v: Vec<&str> = l.split(';').collect();
        v.sort();
        v.join(";")
    };
    match (s.find(" c=["), s.find("] e=[")) {
        (Some(a), Some(b)) if s.ends_with(']') => {
            format!("{} c=[{}] e=[{}]", &s[..a], sort_list(&s[a + 4..b]), sort_list(&s[b + 5..s.len() - 1]))
        }
        _ => s.to_string(),
    }
}

fn bstr(b: &[u8]) -> String {
    String::from_utf8_lossy(b).into_owned()
}

fn below_root(s: &Snap) -> Snap {
    s.iter().filter(|(p, _)| !protected(p)).map(|(p, v)| (p.clone(), v.clone())).collect()
}

// ---- git checkout-index as the reference for well-formed indexes ----
fn write_loose(objects: &std::path::Path, data: &[u8]) -> gix_hash::ObjectId {
    let id = gix_object::compute_hash(gix_hash::Kind::Sha1, gix_object::Kind::Blob, data);
    let hex = id.to_hex().to_string();
    let dir = objects.join(&hex[..2]);
    let _ = std::fs::create_dir_all(&dir);
    let mut raw = format!("blob {}\0", data.len()).into_bytes();
    raw.extend_from_slice(data);
    let mut enc = gix_features::zlib::stream::deflate::Write::new(Vec::new());
    enc.write_all(&raw).expect("deflate");
    enc.flush().expect("deflate");
    let bytes = enc.into_inner();
    std::fs::write(dir.join(&hex[2..]), bytes).expect("write object");
    id
}

fn git_reference(case: &CaseData) -> Option<Snap> {
    let w = World::create(case)?;
    let git_dir = w.root().join(".git");
    let (state, odb) = build_index(&w.top, case);
    for data in odb.0.values() {
        write_loose(&git_dir.join("objects"), data);
    }
    let mut file = gix_index::File::from_state(state, git_dir.join("index"));
    if file.write(Default::default()).is_err() {
        w.destroy();
        return None;
    }
    let mut cmd = std::process::Command::new("git");
    cmd.current_dir(w.root())
        .env_clear()
        .env("PATH", "/usr/bin:/bin")
        .env("HOME", &w.top)
        .env("GIT_CONFIG_NOSYSTEM", "1")
        .args(["-c", "core.symlinks=true", "-c", "core.fileMode=true", "-c", "core.protectNTFS=false", "checkout-index", "-a", "-q"]);
    if case.flags & F_OVERWRITE != 0 {
        cmd.arg("-f");
    }
    let out = cmd.output().ok()?;
    let snap = to_map(&w.snapshot());
    w.destroy();
    if !out.status.success() {
        return None;
    }
    Some(below_root(&snap))
}

pub fn prop(c: &Case) -> Verdict {
    let Some(case) = parse(c) else { return Verdict::ok(false, "skip") };
    if !case.entries.is_empty() && case.entries.iter().all(|e| e.path.is_empty()) {
        return Verdict::ok(false, "panic-empty-path-backing");
    }
    let mut nontrivial = false;
    let mut first: Option<(String, Snap)> = None;
    let sane = sane_index(&case);
    for (threads, default_validation, cfg) in [(1usize, false, "t1"), (3, false, "t3"), (1, true, "t1-default-validation")] {
        let (status, before, after) = match check_one(&case, threads, default_validation) {
            Ok(x) => x,
            Err(v) => return v,
        };
        let (before, after) = (to_map(&before), to_map(&after));
        let status = sorted_status(&status);
        if before != after || status != "ok f=0 c=[] e=[]" {
            nontrivial = true;
        }
        if let Some(v) = check_confined(&case, &before, &after, cfg, threads) {
            return v;
        }
        if sane {
            // a well-formed index: the result does not depend on threads or validation options
            match &first {
                None => first = Some((status.clone(), below_root(&after))),
                Some((s0, a0)) => {
                    if *a0 != below_root(&after) || *s0 != status {
                        // threads that have to replace the same pre-existing file or link by a directory race
                        // (lstat / unlink / mkdir are not atomic together): one of them reports a collision
                        let class = if threads > 1 && case.flags & F_OVERWRITE != 0 && !case.pre.is_empty() {
                            "threads-race-replacing-a-file-by-a-directory"
                        } else {
                            "configuration-dependent-result"
                        };
                        return Verdict::fail(class, format!("{cfg}: {status} vs {s0}"));
                    }
                }
            }
        }
    }
    let mut class = if sane { "sane-index" } else { "hostile-index" }.to_string();
    if sane {
        let (status, after) = first.expect("ran");
        let caps = case.flags & F_SYMLINK != 0 && case.flags & F_EXEC != 0;
        let overwrite = case.flags & F_OVERWRITE != 0;
        if status.starts_with("ok") && status.ends_with("c=[] e=[]") {
            // everything was reported as written: it is there with the content of the index
            for e in &case.entries {
                let mut p = b"S/R/".to_vec();
                p.extend_from_slice(&e.path);
                let got = after.get(&p);
                let ok = match (e.kind, got) {
                    (b'l', Some((b'l', t))) => case.flags & F_SYMLINK != 0 && *t == e.data,
                    (b'l', Some((b'f', d))) => case.flags & F_SYMLINK == 0 && *d == e.data,
                    (b'f' | b'x', Some((b'f' | b'x', d))) => *d == e.data,
                    _ => false,
                };
                if !ok {
                    return Verdict::fail("entry-missing", format!("{:?}: {:?}", bstr(&e.path), got.map(|g| g.0 as char)));
                }
            }
        }
        if caps && (case.pre.is_empty() || (overwrite && case.flags & F_EMPTY == 0)) {
            if let Some(reference) = git_reference(&case) {
                class = "sane-index-git".into();
                if reference != after {
                    let diff: Vec<String> = reference
                        .iter()
                        .filter(|(p, v)| after.get(*p) != Some(v))
                        .map(|(p, v)| format!("git {:?}={:?}", bstr(p), v.0 as char))
                        .chain(after.iter().filter(|(p, v)| reference.get(*p) != Some(v)).map(|(p, v)| format!("gix {:?}={:?}", bstr(p), v.0 as char)))
                        .collect();
                    let only_exec = reference.len() == after.len()
                        && reference.iter().all(|(p, v)| after.get(p).is_some_and(|a| a.1 == v.1 && (a.0 == v.0 || (a.0 == b'x' && v.0 == b'f'))));
                    let class = if only_exec { "exec-bit-not-updated-on-existing-file" } else { "differs-from-git" };
                    return Verdict::fail(class, format!("{status}: {}", diff.join(", ")));
                }
            }
        }
    }
    Verdict::ok(nontrivial, class)
}
