//! generator and the property oracle
use crate::world::*;
use gixv_common::*;

pub fn mk(flags: u64, pre: &[(&str, &str, &str)], entries: &[(&str, &str, &str)]) -> Case {
    let mut c = vec![tag("co"), num(flags), num(pre.len())];
    for (k, p, d) in pre.iter().chain(entries.iter()) {
        c.push(k.as_bytes().to_vec());
        c.push(p.as_bytes().to_vec());
        c.push(d.as_bytes().to_vec());
    }
    c
}

pub fn gen(_rng: &mut Rng, n: usize) -> Vec<Case> {
    let mut out = Vec::new();
    for flags in [24u64, 25, 26, 27, 28, 29, 30, 31] {
        out.push(mk(flags, &[], &[("f", "a", "A"), ("x", "d/e", "E"), ("l", "l", "a"), ("m", "sub", ""), ("l", "d/up", "../..")]));
        // leaf turned directory, both symlinks
        out.push(mk(flags, &[], &[("l", "a", "../out"), ("l", "a/b", "x")]));
        // cached directory replaced by a symlink
        out.push(mk(flags, &[], &[("l", "z", "/S/out"), ("l", "z/y", "x"), ("f", "z/y/x", "X")]));
        // pre-existing symlink, file collides with it, then used as a directory
        out.push(mk(flags, &[("l", "R/a", "../out")], &[("f", "a", "A"), ("f", "a/b", "B")]));
        // the empty path
        out.push(mk(flags, &[], &[("f", "", "A")]));
        out.push(mk(flags, &[], &[("l", "", "/S/out"), ("l", "q", "x")]));
        out.push(mk(flags, &[], &[("f", ".git/config", "A"), ("f", ".GIT/x", "A"), ("f", "a/.git", "A"), ("f", "b/../../out/g", "A")]));
        out.push(mk(flags, &[("l", "R/d", "/S/out"), ("x", "R/e", "old"), ("d", "R/g", ""), ("f", "R/g/h", "H")], &[("f", "d/n", "N"), ("f", "e", "new"), ("f", "g", "G")]));
    }
    out.truncate(n);
    out
}

pub fn prop(c: &Case) -> Verdict {
    let Some(_case) = parse(c) else { return Verdict::ok(false, "skip") };
    Verdict::ok(true, "todo")
}
