(* C41 — Checkout stays inside the worktree and reproduces the index.

   Model: GixV.C41.Model (decision logic of gix_worktree_state::checkout, single thread, on an abstract
   unix file system with symbolic links; ROOT is the destination directory, [trace] lists the physical
   key of every system call, [fs] is the resulting file system).  [chain f0 ROOT] says that the
   destination and its parent are real directories in the initial file system f0 — everything else in
   f0 (symbolic links anywhere, files in the way, a non-empty destination) is arbitrary, as are the
   index (any paths, modes, contents, duplicates, file/directory conflicts) and the options. *)
From Coq Require Import List Bool.
From GixV.Base Require Import Bytes Outcome.
From GixV.C41 Require Import Model Run ProofsFs ProofsOps ProofsCheckout ProofsTop.
Import ListNotations.

(* every system call acts on a physical path ROOT/n1/…/nk (k >= 1) reached without following any
   symbolic link, where every ni passed gix-validate *)
Theorem every_fs_operation_is_confined : forall o index f0,
  chain f0 ROOT -> Forall Confined (trace (final o index f0)).
Proof. exact confinement. Qed.

(* what a confined key is: strictly below ROOT, plain names only (no "", ".", "..", "/"), no `.git`
   in any letter case at any depth *)
Theorem confined_keys_are_plain_paths_below_root : forall k, Confined k ->
  exists names, k = ROOT ++ names /\ names <> [] /\ Forall plain_name names.
Proof. exact confined_meaning. Qed.
Theorem confined_keys_are_strictly_below_root : forall k, Confined k -> is_prefix ROOT k = true /\ k <> ROOT.
Proof. exact confined_below_root. Qed.
Theorem confined_keys_avoid_dotgit : forall k c rest, Confined k -> k = ROOT ++ c :: rest -> ci_eqb c DOTGIT = false.
Proof. exact confined_not_dotgit. Qed.

(* the resulting file system: nothing outside the destination is created, modified or removed … *)
Theorem nothing_outside_the_destination_changes : forall o index f0 k',
  chain f0 ROOT -> is_prefix ROOT k' = false ->
  fs_get (fs (final o index f0)) k' = fs_get f0 k'.
Proof. exact nothing_outside_root_changes. Qed.
(* … the destination itself stays a directory (it is never unlinked or replaced by a link) … *)
Theorem destination_stays_a_directory : forall o index f0,
  chain f0 ROOT -> fs_get (fs (final o index f0)) ROOT = Some NDir.
Proof. exact root_is_kept. Qed.
(* … and nothing at or below ROOT/.git (any letter case) is created, modified or removed *)
Theorem dotgit_is_never_written : forall o index f0 c rest,
  chain f0 ROOT -> ci_eqb c DOTGIT = true ->
  fs_get (fs (final o index f0)) (ROOT ++ c :: rest) = fs_get f0 (ROOT ++ c :: rest).
Proof. exact dotgit_is_untouched. Qed.
(* the general frame statement the three above are instances of *)
Theorem frame_for_everything_outside_confined_keys : forall o index f0 k',
  chain f0 ROOT -> Outside k' -> fs_get (fs (final o index f0)) k' = fs_get f0 k'.
Proof. exact frame_outside. Qed.

(* the invariant behind it: before every entry, all directories above the stack's current path are
   real directories below ROOT with validated names *)
Theorem stack_invariant_holds_initially : forall f0, chain f0 ROOT -> INV0 (init_st f0).
Proof. exact invariant_initially. Qed.
Theorem stack_invariant_is_kept_by_every_entry : forall o e s, INV0 s -> INV0 (fst (entry_checkout o e s)).
Proof. exact invariant_kept. Qed.

(* content: an entry reported as written sits at ROOT/<components of its path> and holds the blob:
   a regular file with the blob's bytes, or a symbolic link whose target is the blob *)
Theorem written_entry_has_index_content : forall o e s, INV0 s -> snd (entry_checkout o e s) = EOk ->
  map Normal (cur (fst (entry_checkout o e s))) = components (epath e)
  /\ written o e (fst (entry_checkout o e s)).
Proof. exact written_entry. Qed.

(* ---- non-vacuity ---- *)
Example the_sandbox_satisfies_the_hypothesis : chain fs0 ROOT.
Proof. exact fs0_root. Qed.

Definition hostile_index : list entry :=
  [ {| emode_of := MLink; epath := bs "a"; edata := bs "../out" |};
    {| emode_of := MLink; epath := bs "a/b"; edata := bs "x" |};
    {| emode_of := MFile; epath := bs ".git/config"; edata := bs "evil" |};
    {| emode_of := MExec; epath := bs "d/e"; edata := bs "E" |} ].
Definition all_on : opts :=
  {| overwrite := true; empty := false; keep_going := true; cap_symlink := true; cap_exec := true |}.
(* the index that escaped before fix 872f8a2e1: `a` -> ../out, then `a/b` *)
Example hostile_index_stays_inside :
  let s := final all_on hostile_index fs0 in
  fs_get (fs s) [bs "S"; bs "out"; bs "b"] = None
  /\ fs_get (fs s) (ROOT ++ [bs "a"; bs "b"]) = Some (NLink (bs "x"))
  /\ fs_get (fs s) (ROOT ++ [bs "d"; bs "e"]) = Some (NFile true (bs "E"))
  /\ length (trace s) = 9.
Proof. vm_compute. repeat split; reflexivity. Qed.
Example a_confined_key : Confined (ROOT ++ [bs "d"; bs "e"]).
Proof. exists [bs "d"; bs "e"]. repeat split; try discriminate. repeat constructor. Qed.
