(* C41 — theorems (filled in below) *)
From GixV.Base Require Import Bytes Outcome.
From GixV.C41 Require Import Model.
