(* C41 — executable model of the decision logic of `gix_worktree_state::checkout` on an abstract unix
   file system with symbolic links.

   Follows (after the fixes named in NOTES.md):
     gix-worktree-state/src/checkout/function.rs   checkout_inner: files first, symbolic links last
     gix-worktree-state/src/checkout/chunk.rs      process, checkout_entry_handle_result, is_collision, handle_error
     gix-worktree-state/src/checkout/entry.rs      checkout, open_file, open_options, try_op_or_unlink,
                                                   try_unlink_path_recursively, finalize_entry
     gix-worktree/src/stack/mod.rs                 Stack::at_path (incl. the re-validation of a leaf used as directory)
     gix-worktree/src/stack/delegate.rs            push = validate_last_component + create_leading_directory
     gix-fs/src/stack.rs                           make_relative_path_current (path part; the directory
                                                   notifications are the subject of C42 and have no effect here)
     gix-validate/src/path.rs                      component() with all three protections off
   The kernel is [walk] (path resolution following symbolic links in directory position, 40 links) and
   the [sys_*] calls; every call logs the physical key it acts on in [trace].
   Single threaded, no attributes / filters (C43), no SKIP_WORKTREE. *)
From GixV.Base Require Import Bytes Outcome.

(* ---- std::path::Path::components on unix (as in C42) ------------------------------------ *)
Inductive comp := Normal (name : bytes) | Other.   (* Other: RootDir, CurDir, ParentDir *)
Definition slash : byte := x2f.
Definition dot : byte := x2e.

Fixpoint split_slash (p : bytes) (acc : bytes) : list bytes :=   (* acc in reverse *)
  match p with
  | [] => [rev acc]
  | b :: r => if beqb b slash then rev acc :: split_slash r [] else split_slash r (b :: acc)
  end.

Definition is_nil {A} (l : list A) : bool := match l with [] => true | _ => false end.
Definition is_dot (s : bytes) := bytes_eqb s [dot].
Definition is_dotdot (s : bytes) := bytes_eqb s [dot; dot].

Fixpoint seg_comps (segs : list bytes) : list comp :=
  match segs with
  | [] => []
  | s :: r =>
      if is_nil s then seg_comps r
      else if is_dot s then seg_comps r
      else if is_dotdot s then Other :: seg_comps r
      else Normal s :: seg_comps r
  end.

Definition components (p : bytes) : list comp :=
  match p with
  | [] => []
  | b :: _ =>
      let segs := split_slash p [] in
      if beqb b slash then Other :: seg_comps segs
      else match segs with
           | s :: r => if is_dot s then Other :: seg_comps r else seg_comps segs
           | [] => []
           end
  end.

(* ---- gix_validate::path::component, all protections off ---------------------------------- *)
Definition lower (b : byte) : byte :=
  let n := b2N b in if (N.leb 65 n && N.leb n 90)%bool then N2b (n + 32) else b.
Fixpoint ci_eqb (a b : bytes) : bool :=
  match a, b with
  | [], [] => true
  | x :: a', y :: b' => (beqb (lower x) (lower y) && ci_eqb a' b')%bool
  | _, _ => false
  end.
Definition has_slash (c : bytes) : bool := existsb (fun b => beqb b slash) c.
Definition DOTGIT : bytes := bs ".git".
Definition validate (c : bytes) (sym : bool) : bool :=
  (negb (is_nil c) && negb (has_slash c) && negb (ci_eqb c DOTGIT)
   && negb (sym && ci_eqb c (bs ".gitmodules")))%bool.

(* ---- the file system ---------------------------------------------------------------------- *)
Definition ppath := list bytes.             (* physical path: names from the top directory *)
Inductive node := NFile (exec : bool) (content : bytes) | NLink (target : bytes) | NDir.
Definition fsT := list (ppath * node).

Fixpoint path_eqb (a b : ppath) : bool :=
  match a, b with
  | [], [] => true
  | x :: a', y :: b' => (bytes_eqb x y && path_eqb a' b')%bool
  | _, _ => false
  end.
Fixpoint is_prefix (p k : ppath) : bool :=
  match p, k with
  | [], _ => true
  | x :: p', y :: k' => (bytes_eqb x y && is_prefix p' k')%bool
  | _ :: _, [] => false
  end.
Fixpoint fs_get (fs : fsT) (k : ppath) : option node :=
  match fs with
  | [] => None
  | (k', v) :: r => if path_eqb k' k then Some v else fs_get r k
  end.
Definition fs_del (fs : fsT) (k : ppath) : fsT := filter (fun kv => negb (path_eqb (fst kv) k)) fs.
Definition fs_set (fs : fsT) (k : ppath) (v : node) : fsT := (k, v) :: fs_del fs k.
Definition fs_del_tree (fs : fsT) (k : ppath) : fsT := filter (fun kv => negb (is_prefix k (fst kv))) fs.

Inductive errno := ENOENT | ENOTDIR | EEXIST | EISDIR | ELOOP.
Inductive wres := WOk (d : ppath) | WErr (e : errno) | WFuel.

(* resolve every component of [cs] as a directory, starting in directory [cur] *)
Fixpoint walk (fuel links : nat) (fs : fsT) (cur : ppath) (cs : list bytes) : wres :=
  match cs with
  | [] => WOk cur
  | c :: r =>
      match fuel with
      | O => WFuel
      | S fuel' =>
          if (is_nil c || is_dot c)%bool then walk fuel' links fs cur r
          else if is_dotdot c then walk fuel' links fs (removelast cur) r
          else match fs_get fs (cur ++ [c]) with
               | None => WErr ENOENT
               | Some NDir => walk fuel' links fs (cur ++ [c]) r
               | Some (NFile _ _) => WErr ENOTDIR
               | Some (NLink t) =>
                   match links with
                   | O => WErr ELOOP
                   | S links' =>
                       match t with
                       | [] => WErr ENOENT
                       | b :: _ =>
                           if beqb b slash then walk fuel' links' fs [] (split_slash t [] ++ r)
                           else walk fuel' links' fs cur (split_slash t [] ++ r)
                       end
                   end
               end
      end
  end.

Definition FUEL : nat := 6000.
Definition MAXLINKS : nat := 40.
Definition ROOT : ppath := [bs "S"; bs "R"].

Record st := { fs : fsT; trace : list ppath; cur : list bytes; hung : bool }.
Definition set_fs (s : st) (f : fsT) : st := {| fs := f; trace := trace s; cur := cur s; hung := hung s |}.
Definition set_cur (s : st) (c : list bytes) : st := {| fs := fs s; trace := trace s; cur := c; hung := hung s |}.
Definition log (s : st) (k : ppath) : st := {| fs := fs s; trace := k :: trace s; cur := cur s; hung := hung s |}.
Definition set_hung (s : st) : st := {| fs := fs s; trace := trace s; cur := cur s; hung := true |}.

(* the parent directory of ROOT/names is resolved following links, the last name is not followed:
   all calls below are lstat-like (mkdir, lstat, unlink, symlink, open with O_NOFOLLOW) *)
Definition resolve (s : st) (names : list bytes) : st * (errno + ppath) :=
  match walk FUEL MAXLINKS (fs s) [] (ROOT ++ removelast names) with
  | WOk d => let k := d ++ [last names []] in (log s k, inr k)
  | WErr e => (s, inl e)
  | WFuel => (set_hung s, inl ELOOP)
  end.

Definition sys_mkdir (s : st) (names : list bytes) : st * option errno :=
  match resolve s names with
  | (s1, inl e) => (s1, Some e)
  | (s1, inr k) =>
      match fs_get (fs s1) k with
      | Some _ => (s1, Some EEXIST)
      | None => (set_fs s1 (fs_set (fs s1) k NDir), None)
      end
  end.
Definition sys_lstat (s : st) (names : list bytes) : st * (errno + node) :=
  match resolve s names with
  | (s1, inl e) => (s1, inl e)
  | (s1, inr k) => match fs_get (fs s1) k with Some n => (s1, inr n) | None => (s1, inl ENOENT) end
  end.
Definition sys_unlink (s : st) (names : list bytes) : st * option errno :=   (* std::fs::remove_file *)
  match resolve s names with
  | (s1, inl e) => (s1, Some e)
  | (s1, inr k) =>
      match fs_get (fs s1) k with
      | None => (s1, Some ENOENT)
      | Some NDir => (s1, Some EISDIR)
      | Some _ => (set_fs s1 (fs_del (fs s1) k), None)
      end
  end.
Definition sys_rmtree (s : st) (names : list bytes) : st * option errno :=   (* std::fs::remove_dir_all *)
  match resolve s names with
  | (s1, inl e) => (s1, Some e)
  | (s1, inr k) =>
      match fs_get (fs s1) k with
      | None => (s1, Some ENOENT)
      | Some NDir => (set_fs s1 (fs_del_tree (fs s1) k), None)
      | Some _ => (set_fs s1 (fs_del (fs s1) k), None)
      end
  end.
(* symlink(2) refuses an empty target with ENOENT before it looks at the link path *)
Definition sys_symlink (target : bytes) (s : st) (names : list bytes) : st * option errno :=
  if is_nil target then (s, Some ENOENT)
  else
  match resolve s names with
  | (s1, inl e) => (s1, Some e)
  | (s1, inr k) =>
      match fs_get (fs s1) k with
      | Some _ => (s1, Some EEXIST)
      | None => (set_fs s1 (fs_set (fs s1) k (NLink target)), None)
      end
  end.
(* open(O_WRONLY|O_NOFOLLOW| O_CREAT|O_EXCL  or  O_CREAT|O_TRUNC, mode 0666 or 0777) followed by write_all *)
Definition sys_write (excl exec_on_create : bool) (content : bytes) (s : st) (names : list bytes)
  : st * option errno :=
  match resolve s names with
  | (s1, inl e) => (s1, Some e)
  | (s1, inr k) =>
      match fs_get (fs s1) k with
      | None => (set_fs s1 (fs_set (fs s1) k (NFile exec_on_create content)), None)
      | Some (NFile x _) => if excl then (s1, Some EEXIST)
                            else (set_fs s1 (fs_set (fs s1) k (NFile x content)), None)
      | Some (NLink _) => (s1, Some (if excl then EEXIST else ELOOP))
      | Some NDir => (s1, Some (if excl then EEXIST else EISDIR))
      end
  end.
(* symlink_metadata + set_permissions(0o777) on a file this checkout has just written *)
Definition sys_chmodx (s : st) (names : list bytes) : st * option errno :=
  match resolve s names with
  | (s1, inl e) => (s1, Some e)
  | (s1, inr k) =>
      match fs_get (fs s1) k with
      | Some (NFile _ c) => (set_fs s1 (fs_set (fs s1) k (NFile true c)), None)
      | Some _ => (s1, None)
      | None => (s1, Some ENOENT)
      end
  end.

(* ---- options, entries ---------------------------------------------------------------------- *)
Record opts := { overwrite : bool; empty : bool; keep_going : bool; cap_symlink : bool; cap_exec : bool }.
Inductive emode := MFile | MExec | MLink | MCommit | MDir.
Record entry := { emode_of : emode; epath : bytes; edata : bytes }.
Definition is_link (m : emode) : bool := match m with MLink => true | _ => false end.
Definition is_dirlike (m : emode) : bool := match m with MCommit | MDir => true | _ => false end.

(* ---- gix-worktree delegate: create_leading_directory (after validation) -------------------- *)
Definition create_leading_directory (unlink : bool) (s : st) (names : list bytes) : st * option errno :=
  let (s1, r) := sys_mkdir s names in
  match r with
  | None => (s1, None)
  | Some EEXIST =>
      let (s2, m) := sys_lstat s1 names in
      match m with
      | inl e => (s2, Some e)
      | inr NDir => (s2, None)
      | inr _ =>
          if unlink then
            let (s3, r3) := sys_unlink s2 names in
            match r3 with
            | Some e => (s3, Some e)
            | None => sys_mkdir s3 names
            end
          else (s2, Some EEXIST)
      end
  | Some e => (s1, Some e)
  end.

Inductive aerr := AErrno (e : errno) | AInvalid.

(* gix_fs::Stack::make_relative_path_current: the common prefix with the current path … *)
Fixpoint common (ex : list bytes) (nw : list comp) : nat * list comp :=
  match ex, nw with
  | e :: ex', Normal n :: nw' =>
      if bytes_eqb e n then let (k, r) := common ex' nw' in (S k, r) else (O, nw)
  | _, _ => (O, nw)
  end.
(* … and the push loop with gix-worktree's delegate for State::CreateDirectoryAndAttributesStack *)
Fixpoint push_loop (unlink sym dirlike : bool) (rem : list comp) (s : st) : st * option aerr :=
  match rem with
  | [] => (s, None)
  | Other :: _ => (s, Some AInvalid)
  | Normal n :: rem' =>
      let last := is_nil rem' in
      let s1 := set_cur s (cur s ++ [n]) in
      if negb (validate n sym) then (set_cur s1 (removelast (cur s1)), Some AInvalid)
      else if (last && negb dirlike)%bool then push_loop unlink sym dirlike rem' s1
      else
        let (s2, r) := create_leading_directory unlink s1 (cur s1) in
        match r with
        | None => push_loop unlink sym dirlike rem' s2
        | Some e => (set_cur s2 (removelast (cur s2)), Some (AErrno e))
        end
  end.

(* `relative != current && relative.starts_with(current)` for a non-empty current *)
Fixpoint proper_ext (cs : list comp) (c : list bytes) : bool :=
  match c, cs with
  | [], [] => false
  | [], _ :: _ => true
  | x :: c', Normal n :: cs' => (bytes_eqb x n && proper_ext cs' c')%bool
  | _, _ => false
  end.

(* gix_worktree::Stack::at_path *)
Definition at_path (unlink sym dirlike : bool) (relative : bytes) (s : st) : st * option aerr :=
  let cs := components relative in
  let (s0, v) :=
    if (negb (is_nil (cur s)) && proper_ext cs (cur s))%bool
    then create_leading_directory unlink s (cur s) else (s, None) in
  match v with
  | Some e => (s0, Some (AErrno e))
  | None =>
      if (negb (is_nil (cur s0)) && is_nil relative)%bool then (s0, Some AInvalid)
      else
        let (m, rem) := common (cur s0) cs in
        push_loop unlink sym dirlike rem (set_cur s0 (firstn m (cur s0)))
  end.

(* ---- entry::checkout ------------------------------------------------------------------------ *)
Definition is_collision (e : errno) : bool :=
  match e with EEXIST | EISDIR | ELOOP => true | _ => false end.

Definition try_op_or_unlink (ow : bool) (op : st -> list bytes -> st * option errno)
  (s : st) (names : list bytes) : st * option errno :=
  if ow then
    let (s1, r) := op s names in
    match r with
    | None => (s1, None)
    | Some e =>
        if is_collision e then
          let (s2, m) := sys_lstat s1 names in
          match m with
          | inl e2 => (s2, Some e2)
          | inr n =>
              let (s3, r3) := match n with NDir => sys_rmtree s2 names | _ => sys_unlink s2 names end in
              match r3 with
              | Some e3 => (s3, Some e3)
              | None => op s3 names
              end
          end
        else (s1, Some e)
    end
  else op s names.

Inductive eres := EOk | ECollision (e : errno) | EError.
Definition classify (e : errno) : eres := if is_collision e then ECollision e else EError.
Definition lift (r : st * option errno) : st * eres :=
  match r with (s, None) => (s, EOk) | (s, Some e) => (s, classify e) end.

Definition entry_checkout (o : opts) (e : entry) (s : st) : st * eres :=
  if is_nil (epath e) then (s, EError)
  else
    let m := emode_of e in
    let (s1, a) := at_path (overwrite o) (is_link m) (is_dirlike m) (epath e) s in
    match a with
    | Some AInvalid => (s1, EError)
    | Some (AErrno x) => (s1, classify x)
    | None =>
        let dest := cur s1 in
        let excl := (empty o && negb (overwrite o))%bool in
        match m with
        | MFile | MExec =>
            let needs := (cap_exec o && match m with MExec => true | _ => false end)%bool in
            let (s2, r) := try_op_or_unlink (overwrite o)
                             (sys_write excl (needs && empty o)%bool (edata e)) s1 dest in
            match r with
            | Some x => (s2, classify x)
            | None => if (needs && negb (empty o))%bool then lift (sys_chmodx s2 dest) else (s2, EOk)
            end
        | MLink =>
            if cap_symlink o
            then lift (try_op_or_unlink (overwrite o) (sys_symlink (edata e)) s1 dest)
            else lift (try_op_or_unlink (overwrite o) (sys_write excl false (edata e)) s1 dest)
        | _ => (s1, EOk)
        end
    end.

(* ---- chunk::process / checkout_entry_handle_result ------------------------------------------- *)
Record acc := { files : N; colls : list (bytes * errno); errs : list bytes }.   (* lists newest first *)
Definition acc0 : acc := {| files := 0; colls := []; errs := [] |}.
Definition bump (count : bool) (a : acc) : N := if count then (files a + 1)%N else files a.

Fixpoint run_entries (o : opts) (count : bool) (es : list entry) (s : st) (a : acc) : st * acc * bool :=
  match es with
  | [] => (s, a, false)
  | e :: r =>
      let (s1, res) := entry_checkout o e s in
      match res with
      | EOk => run_entries o count r s1 {| files := bump count a; colls := colls a; errs := errs a |}
      | ECollision x =>
          run_entries o count r s1 {| files := bump count a; colls := (epath e, x) :: colls a; errs := errs a |}
      | EError =>
          if keep_going o
          then run_entries o count r s1 {| files := bump count a; colls := colls a; errs := epath e :: errs a |}
          else (s1, a, true)
      end
  end.

(* gix_index::State::sort_entries: stable, by path bytes *)
Fixpoint insert_entry (e : entry) (l : list entry) : list entry :=
  match l with
  | [] => [e]
  | x :: r => match bytes_cmp (epath e) (epath x) with
              | Gt => x :: insert_entry e r
              | _ => e :: l
              end
  end.
Definition sort_entries (l : list entry) : list entry := fold_right insert_entry [] l.

(* checkout_inner with one thread: everything but symbolic links in index order, then the links *)
Definition checkout (o : opts) (index : list entry) (s0 : st) : st * option acc :=
  let es := sort_entries index in
  let files_first := filter (fun e => negb (is_link (emode_of e))) es in
  let links := filter (fun e => is_link (emode_of e)) es in
  let '(s1, a1, aborted) := run_entries o true files_first s0 acc0 in
  if aborted then (s1, None)
  else
    let '(s2, a2, aborted2) := run_entries o false links s1 a1 in
    if aborted2 then (s2, None) else (s2, Some a2).

Definition init_st (f : fsT) : st := {| fs := f; trace := []; cur := []; hung := false |}.
