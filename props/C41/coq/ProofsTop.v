(* C41 — the statements of Properties.v *)
From Coq Require Import List Bool Arith Lia.
From GixV.Base Require Import Bytes BytesFacts Outcome.
From GixV.C41 Require Import Model Run ProofsFs ProofsOps ProofsCheckout.
Import ListNotations.

Definition final (o : opts) (index : list entry) (f0 : fsT) : st := fst (checkout o index (init_st f0)).

Lemma confinement o index f0 : chain f0 ROOT -> Forall Confined (trace (final o index f0)).
Proof. intros HC. apply (g_trace _ _ (checkout_spec o index f0 HC)). constructor. Qed.

Lemma frame_outside o index f0 k' : chain f0 ROOT -> Outside k' ->
  fs_get (fs (final o index f0)) k' = fs_get f0 k'.
Proof. intros HC HO. apply (g_frame _ _ (checkout_spec o index f0 HC) k' HO). Qed.

Definition plain_name (c : bytes) : Prop :=
  c <> [] /\ has_slash c = false /\ is_dot c = false /\ is_dotdot c = false /\ ci_eqb c DOTGIT = false.
Lemma good_plain c : good c -> plain_name c.
Proof.
  intros Hg. pose proof (good_not_dotgit c Hg) as Hd. destruct Hg as [V [D1 D2]].
  unfold validate in V. repeat (apply andb_true_iff in V as [V ?]).
  repeat split; auto.
  - intros ->. discriminate.
  - destruct (has_slash c); [discriminate | reflexivity].
Qed.

Lemma confined_meaning k : Confined k ->
  exists names, k = ROOT ++ names /\ names <> [] /\ Forall plain_name names.
Proof.
  intros (names & -> & Hne & Hg). exists names. repeat split; auto.
  eapply Forall_impl; [|exact Hg]. apply good_plain.
Qed.
Lemma confined_below_root k : Confined k -> is_prefix ROOT k = true /\ k <> ROOT.
Proof.
  intros (names & -> & Hne & Hg). split.
  - apply is_prefix_spec. exists names. reflexivity.
  - unfold K. intros E. apply (f_equal (@length _)) in E. rewrite app_length in E.
    destruct names; [congruence | cbn in E; lia].
Qed.
Lemma confined_not_dotgit k c rest : Confined k -> k = ROOT ++ c :: rest -> ci_eqb c DOTGIT = false.
Proof.
  intros (names & -> & Hne & Hg) E. unfold K in E. apply app_inv_head in E. subst.
  inversion Hg; subst. apply good_not_dotgit. assumption.
Qed.

Lemma outside_of_root k' : is_prefix ROOT k' = false -> Outside k'.
Proof.
  intros H k Hk. destruct (is_prefix k k') eqn:E; [|reflexivity].
  destruct (confined_below_root k Hk) as [P _]. rewrite (is_prefix_trans _ _ _ P E) in H. discriminate.
Qed.
Lemma outside_root_itself : Outside ROOT.
Proof.
  intros k (names & -> & Hne & Hg). destruct (is_prefix (K names) ROOT) eqn:E; [|reflexivity].
  apply is_prefix_length in E. unfold K in E. rewrite app_length in E. destruct names; [congruence | cbn in E; lia].
Qed.
Lemma outside_dotgit c rest : ci_eqb c DOTGIT = true -> Outside (ROOT ++ c :: rest).
Proof.
  intros Hc k (names & -> & Hne & Hg). unfold K. rewrite is_prefix_app.
  destruct names as [|n names]; [congruence|]. cbn [is_prefix].
  destruct (bytes_eqb n c) eqn:E; [|reflexivity]. apply bytes_eqb_eq in E. subst.
  inversion Hg; subst. rewrite (good_not_dotgit c) in Hc by assumption. discriminate.
Qed.

Lemma nothing_outside_root_changes o index f0 k' : chain f0 ROOT -> is_prefix ROOT k' = false ->
  fs_get (fs (final o index f0)) k' = fs_get f0 k'.
Proof. intros HC H. apply frame_outside; [exact HC | apply outside_of_root, H]. Qed.
Lemma root_is_kept o index f0 : chain f0 ROOT -> fs_get (fs (final o index f0)) ROOT = Some NDir.
Proof.
  intros HC. rewrite frame_outside; [|exact HC | apply outside_root_itself].
  apply (HC 2). cbn. lia.
Qed.
Lemma dotgit_is_untouched o index f0 c rest : chain f0 ROOT -> ci_eqb c DOTGIT = true ->
  fs_get (fs (final o index f0)) (ROOT ++ c :: rest) = fs_get f0 (ROOT ++ c :: rest).
Proof. intros HC H. apply frame_outside; [exact HC | apply outside_dotgit, H]. Qed.

(* every state a checkout passes through satisfies INV0 *)
Lemma invariant_initially f0 : chain f0 ROOT -> INV0 (init_st f0).
Proof. intros HC. split; [constructor | exact HC]. Qed.
Lemma invariant_kept o e s : INV0 s -> INV0 (fst (entry_checkout o e s)).
Proof.
  intros I. destruct (entry_checkout o e s) as [s' res] eqn:E.
  destruct (entry_checkout_spec _ _ _ _ _ E I) as (I' & _). exact I'.
Qed.
Lemma written_entry o e s : INV0 s -> snd (entry_checkout o e s) = EOk ->
  map Normal (cur (fst (entry_checkout o e s))) = components (epath e)
  /\ written o e (fst (entry_checkout o e s)).
Proof.
  intros I H. destruct (entry_checkout o e s) as [s' res] eqn:E. cbn [fst snd] in *.
  destruct (entry_checkout_spec _ _ _ _ _ E I) as (_ & _ & W). apply W, H.
Qed.

Lemma fs0_root : chain fs0 ROOT.
Proof.
  intros k Hk. cbn in Hk. assert (k = 1 \/ k = 2) as [-> | ->] by lia; vm_compute; reflexivity.
Qed.
