(* C41 — the invariant of the path stack (all directories above the current leaf are real directories
   below ROOT with validated names) and its consequences for a whole checkout. *)
From Coq Require Import List Bool Arith Lia.
From GixV.Base Require Import Bytes BytesFacts Outcome.
From GixV.C41 Require Import Model ProofsFs ProofsOps.
Import ListNotations.

Definition Confined (k : ppath) : Prop := exists names, k = K names /\ names <> [] /\ Forall good names.
Definition Outside (k' : ppath) : Prop := forall k, Confined k -> is_prefix k k' = false.

Record G (s s' : st) : Prop := mkG {
  g_trace : Forall Confined (trace s) -> Forall Confined (trace s');
  g_frame : forall k', Outside k' -> fs_get (fs s') k' = fs_get (fs s) k' }.

Lemma G_refl s : G s s.
Proof. constructor; [tauto | reflexivity]. Qed.
Lemma G_trans s1 s2 s3 : G s1 s2 -> G s2 s3 -> G s1 s3.
Proof. intros [T1 F1] [T2 F2]. constructor; [tauto|]. intros k' Hk. rewrite F2, F1; auto. Qed.
Lemma G_same s s' : fs s' = fs s -> trace s' = trace s -> G s s'.
Proof. intros Hf Ht. constructor; [rewrite Ht; tauto | intros; rewrite Hf; reflexivity]. Qed.
Lemma step_G names s s' : names <> [] -> Forall good names -> step names s s' -> G s s'.
Proof.
  intros Hne Hg [_ [n T] F]. assert (C : Confined (K names)) by (exists names; auto).
  constructor.
  - intros H. rewrite T. apply Forall_app. split; [|exact H].
    apply Forall_forall. intros x Hx. apply repeat_spec in Hx. subst. exact C.
  - intros k' Hk. apply F. apply Hk. exact C.
Qed.

Definition INV0 (s : st) : Prop := Forall good (cur s) /\ chain (fs s) (ROOT ++ removelast (cur s)).

Lemma chain_removelast f l : chain f (ROOT ++ l) -> chain f (ROOT ++ removelast l).
Proof.
  intros H. destruct l as [|a l]; [exact H|].
  assert (Hne : a :: l <> []) by discriminate.
  destruct (exists_last Hne) as (l' & b & E). rewrite E in *. rewrite removelast_last.
  rewrite app_assoc in H. eapply chain_prefix. exact H.
Qed.

Lemma step_INV names s s' : names = cur s -> names <> [] -> INV0 s -> step names s s' -> INV0 s' /\ G s s'.
Proof.
  intros -> Hne [Hg Hc] S. split; [|eapply step_G; eassumption].
  split; rewrite (st_cur _ _ _ S); [exact Hg|]. eapply step_pre; eassumption.
Qed.

(* ---- Path::components ---- *)
Definition normal_comp (c : comp) : Prop :=
  match c with Normal n => is_nil n = false /\ is_dot n = false /\ is_dotdot n = false | Other => True end.
Lemma seg_comps_normal segs : Forall normal_comp (seg_comps segs).
Proof.
  induction segs as [|s r IH]; cbn [seg_comps]; [constructor|].
  destruct (is_nil s) eqn:E1; [exact IH|]. destruct (is_dot s) eqn:E2; [exact IH|].
  destruct (is_dotdot s) eqn:E3; constructor; cbn; auto.
Qed.
Lemma components_normal p : Forall normal_comp (components p).
Proof.
  unfold components. destruct p as [|b r]; [constructor|].
  destruct (beqb b slash); [constructor; [exact I | apply seg_comps_normal]|].
  destruct (split_slash (b :: r) []) as [|s segs] eqn:E; [constructor|].
  destruct (is_dot s); [constructor; [exact I | apply seg_comps_normal] | apply seg_comps_normal].
Qed.
Lemma split_first p : forall acc, acc <> [] -> exists s rest, split_slash p acc = s :: rest /\ is_nil s = false.
Proof.
  induction p as [|b r IH]; intros acc Hacc; cbn [split_slash].
  - exists (rev acc), []. split; [reflexivity|]. destruct acc as [|a acc]; [congruence|]. cbn.
    destruct (rev acc); reflexivity.
  - destruct (beqb b slash).
    + exists (rev acc), (split_slash r []). split; [reflexivity|]. destruct acc as [|a acc]; [congruence|]. cbn.
      destruct (rev acc); reflexivity.
    + apply IH. discriminate.
Qed.
Lemma components_nonempty p : p <> [] -> components p <> [].
Proof.
  intros Hp. unfold components. destruct p as [|b r]; [congruence|].
  destruct (beqb b slash) eqn:Eb; [discriminate|].
  cbn [split_slash]. rewrite Eb.
  destruct (split_first r [b]) as (s & rest & -> & Hs); [discriminate|].
  destruct (is_dot s) eqn:E2; [discriminate|]. cbn [seg_comps]. rewrite Hs, E2.
  destruct (is_dotdot s); discriminate.
Qed.

Lemma common_spec ex : forall nw m rem, common ex nw = (m, rem) ->
  m <= length ex /\ nw = map Normal (firstn m ex) ++ rem
  /\ (m = length ex -> rem <> [] -> proper_ext nw ex = true).
Proof.
  induction ex as [|e ex IH]; intros nw m rem H.
  - cbn in H. injection H as <- <-. cbn. repeat split; [lia|]. intros _ Hr. destruct nw; [congruence | reflexivity].
  - destruct nw as [|[n|] nw]; cbn [common] in H.
    + injection H as <- <-. cbn. repeat split; [lia|]. intros; discriminate.
    + destruct (bytes_eqb e n) eqn:E.
      * destruct (common ex nw) as [k r] eqn:C. injection H as <- <-.
        apply bytes_eqb_eq in E. subst. destruct (IH nw k r C) as (L & S & P).
        cbn [length firstn map app proper_ext]. repeat split; [lia | f_equal; exact S|].
        intros Hm Hr. replace (bytes_eqb n n) with true by (symmetry; apply bytes_eqb_eq; reflexivity).
        apply P; [lia | exact Hr].
      * injection H as <- <-. cbn. repeat split; [lia|]. intros; discriminate.
    + injection H as <- <-. cbn. repeat split; [lia|]. intros; discriminate.
Qed.

Lemma validate_weaken n sym : validate n sym = true -> validate n false = true.
Proof.
  unfold validate. intros H. repeat (apply andb_true_iff in H as [H ?]).
  rewrite H. cbn. repeat (apply andb_true_iff; split); auto.
Qed.

Lemma removelast_snoc {A} (l : list A) x : removelast (l ++ [x]) = l.
Proof. apply removelast_last. Qed.

Ltac sp3 := split; [|split].
Ltac sp4 := split; [|split; [|split]].

Lemma push_loop_spec u sym dl : forall rem s s' r,
  push_loop u sym dl rem s = (s', r) ->
  Forall normal_comp rem ->
  Forall good (cur s) ->
  chain (fs s) (ROOT ++ removelast (cur s)) ->
  (rem <> [] -> chain (fs s) (ROOT ++ cur s)) ->
  Forall good (cur s') /\ chain (fs s') (ROOT ++ removelast (cur s')) /\ G s s'
  /\ (r = None -> exists names', rem = map Normal names' /\ cur s' = cur s ++ names').
Proof.
  induction rem as [|c rem' IH]; intros s s' r H HN Hg Hc Hfull.
  - cbn in H. injection H as <- <-. sp4; auto using G_refl.
    intros _. exists []. rewrite app_nil_r. auto.
  - destruct c as [n|]; cbn [push_loop] in H.
    2:{ injection H as <- <-. sp4; auto using G_refl. discriminate. }
    inversion HN as [|? ? HN1 HN']; subst. cbn [normal_comp] in HN1. destruct HN1 as [N1 [N2 N3]].
    specialize (Hfull ltac:(discriminate)).
    cbn [cur set_cur] in H.
    destruct (validate n sym) eqn:V; cbn [negb] in H.
    2:{ injection H as <- <-. cbn [cur set_cur fs]. rewrite removelast_snoc.
        sp4; auto; [apply G_same; reflexivity | discriminate]. }
    assert (Gn : good n) by (split; [eapply validate_weaken; eassumption | auto]).
    assert (Hg1 : Forall good (cur s ++ [n])) by (apply Forall_app; split; auto).
    destruct (is_nil rem' && negb dl)%bool eqn:L.
    + apply andb_true_iff in L as [L _]. destruct rem'; [|discriminate]. cbn in H. injection H as <- <-.
      cbn [cur set_cur fs]. rewrite removelast_snoc. sp4; auto.
      * apply G_same; reflexivity.
      * intros _. exists [n]. auto.
    + set (s1 := set_cur s (cur s ++ [n])) in *.
      assert (Hne : cur s ++ [n] <> []) by (destruct (cur s); discriminate).
      assert (HP : pre_ok (cur s ++ [n]) s1) by (unfold pre_ok; rewrite removelast_snoc; exact Hfull).
      pose proof (create_leading_directory_spec (cur s ++ [n]) Hne Hg1 u s1 HP) as [S D].
      destruct (create_leading_directory u s1 (cur s ++ [n])) as [s2 r2]. cbn [fst snd] in *.
      assert (C2 : cur s2 = cur s ++ [n]) by (rewrite (st_cur _ _ _ S); reflexivity).
      assert (G12 : G s s2).
      { eapply G_trans; [apply (G_same s s1); reflexivity | eapply step_G; eassumption]. }
      assert (HP2 : chain (fs s2) (ROOT ++ cur s)).
      { pose proof (step_pre _ _ _ Hne S HP) as X. unfold pre_ok in X. rewrite removelast_snoc in X. exact X. }
      destruct r2 as [e|].
      * injection H as <- <-. cbn [cur set_cur fs]. rewrite C2, removelast_snoc.
        sp4; auto; [apply chain_removelast, HP2
                   | eapply G_trans; [exact G12 | apply G_same; reflexivity] | discriminate].
      * specialize (D eq_refl).
        assert (Hfull2 : chain (fs s2) (ROOT ++ cur s2)).
        { rewrite C2, app_assoc. apply chain_snoc; [exact HP2|]. rewrite <- app_assoc. exact D. }
        destruct (IH s2 s' r H HN') as (A1 & A2 & A3 & A4).
        -- rewrite C2. exact Hg1.
        -- rewrite C2, removelast_snoc. exact HP2.
        -- intros _. exact Hfull2.
        -- sp4; auto. eapply G_trans; eassumption.
           intros Hr. destruct (A4 Hr) as (names' & -> & E). exists (n :: names'). split; [reflexivity|].
           rewrite E, C2, <- app_assoc. reflexivity.
Qed.

Lemma firstn_removelast_prefix {A} (l : list A) m : m < length l -> exists q, removelast l = firstn m l ++ q.
Proof.
  intros H. assert (Hne : l <> []) by (destruct l; [cbn in H; lia | discriminate]).
  destruct (exists_last Hne) as (l' & b & ->). rewrite removelast_last.
  rewrite app_length in H. cbn in H. rewrite firstn_app. replace (m - length l') with 0 by lia. cbn.
  rewrite app_nil_r. exists (skipn m l'). symmetry. apply firstn_skipn.
Qed.

Lemma at_path_spec u sym dl rel s s' r : at_path u sym dl rel s = (s', r) -> INV0 s ->
  INV0 s' /\ G s s' /\ (r = None -> map Normal (cur s') = components rel).
Proof.
  intros H [Hg Hc]. unfold at_path in H.
  (* the re-validation of a leaf that is used as a directory *)
  assert (V : exists s0 v, (if (negb (is_nil (cur s)) && proper_ext (components rel) (cur s))%bool
                            then create_leading_directory u s (cur s) else (s, None)) = (s0, v)
              /\ cur s0 = cur s /\ G s s0 /\ chain (fs s0) (ROOT ++ removelast (cur s))
              /\ (v = None -> is_nil (cur s) = false -> proper_ext (components rel) (cur s) = true ->
                  chain (fs s0) (ROOT ++ cur s))).
  { destruct (negb (is_nil (cur s)) && proper_ext (components rel) (cur s))%bool eqn:E.
    - apply andb_true_iff in E as [E1 E2]. assert (Hne : cur s <> []) by (destruct (cur s); [discriminate | discriminate]).
      pose proof (create_leading_directory_spec (cur s) Hne Hg u s Hc) as [S D].
      destruct (create_leading_directory u s (cur s)) as [s0 v]. cbn [fst snd] in *.
      exists s0, v. split; [reflexivity|]. sp4.
      + apply (st_cur _ _ _ S).
      + eapply step_G; eassumption.
      + apply (step_pre _ _ _ Hne S Hc).
      + intros -> _ _. specialize (D eq_refl). pose proof (step_pre _ _ _ Hne S Hc) as X. unfold pre_ok in X.
        destruct (exists_last Hne) as (l' & b & El). rewrite El in *. rewrite removelast_snoc in X.
        rewrite app_assoc. apply chain_snoc; [exact X|]. unfold K in D. rewrite <- app_assoc. exact D.
    - exists s, None. split; [reflexivity|]. sp4; auto using G_refl.
      intros _ E1 E2. rewrite E1, E2 in E. discriminate. }
  destruct V as (s0 & v & EV & C0 & G0 & Hc0 & Hfull0). rewrite EV in H.
  destruct v as [e|].
  { injection H as <- <-. sp3; [split; rewrite C0; auto | auto | discriminate]. }
  destruct (negb (is_nil (cur s0)) && is_nil rel)%bool.
  { injection H as <- <-. sp3; [split; rewrite C0; auto | auto | discriminate]. }
  destruct (common (cur s0) (components rel)) as [m rem] eqn:Cm.
  destruct (common_spec _ _ _ _ Cm) as (Lm & Split & Pext). rewrite C0 in *.
  assert (Hgm : Forall good (firstn m (cur s))).
  { rewrite <- (firstn_skipn m (cur s)) in Hg. apply Forall_app in Hg. tauto. }
  assert (HNrem : Forall normal_comp rem).
  { pose proof (components_normal rel) as X. rewrite Split in X. apply Forall_app in X. tauto. }
  destruct (push_loop_spec u sym dl rem (set_cur s0 (firstn m (cur s))) s' r H HNrem) as (A1 & A2 & A3 & A4);
    cbn [cur set_cur fs].
  - exact Hgm.
  - destruct (Nat.eq_dec m (length (cur s))) as [->|Hlt].
    + rewrite firstn_all. exact Hc0.
    + destruct (firstn_removelast_prefix (cur s) m ltac:(lia)) as [q Eq].
      apply chain_removelast. rewrite Eq, app_assoc in Hc0. eapply chain_prefix. exact Hc0.
  - intros Hrem. destruct (Nat.eq_dec m (length (cur s))) as [->|Hlt].
    + rewrite firstn_all. destruct (cur s) as [|a l] eqn:Ecur; [exact Hc0|].
      apply Hfull0; auto.
    + destruct (firstn_removelast_prefix (cur s) m ltac:(lia)) as [q Eq].
      rewrite Eq, app_assoc in Hc0. eapply chain_prefix. exact Hc0.
  - split; [split; assumption|]. split.
    + eapply G_trans; [exact G0|]. eapply G_trans; [|exact A3]. apply G_same; reflexivity.
    + intros Hr. destruct (A4 Hr) as (names' & -> & E). rewrite E, map_app, Split. reflexivity.
Qed.

(* ---- one entry ---- *)
Definition written (o : opts) (e : entry) (s' : st) : Prop :=
  match emode_of e with
  | MFile | MExec => exists x, fs_get (fs s') (K (cur s')) = Some (NFile x (edata e))
  | MLink => if cap_symlink o then fs_get (fs s') (K (cur s')) = Some (NLink (edata e))
             else exists x, fs_get (fs s') (K (cur s')) = Some (NFile x (edata e))
  | _ => True
  end.

Lemma classify_not_ok e : classify e <> EOk.
Proof. unfold classify. destruct (is_collision e); discriminate. Qed.
Lemma lift_spec r : fst (lift r) = fst r /\ (snd (lift r) = EOk -> snd r = None).
Proof.
  destruct r as [s [e|]]; cbn; split; auto. intros H. exfalso. eapply classify_not_ok; eassumption.
Qed.

Lemma entry_checkout_spec o e s s' res : entry_checkout o e s = (s', res) -> INV0 s ->
  INV0 s' /\ G s s' /\ (res = EOk -> map Normal (cur s') = components (epath e) /\ written o e s').
Proof.
  intros H I. unfold entry_checkout in H.
  destruct (is_nil (epath e)) eqn:En.
  { injection H as <- <-. sp3; auto using G_refl; discriminate. }
  destruct (at_path (overwrite o) (is_link (emode_of e)) (is_dirlike (emode_of e)) (epath e) s) as [s1 a] eqn:A.
  destruct (at_path_spec _ _ _ _ _ _ _ A I) as (I1 & G1 & Hcomp).
  destruct a as [[x|]|].
  { injection H as <- <-. sp3; auto. intros X. exfalso. eapply classify_not_ok; eassumption. }
  { injection H as <- <-. sp3; auto; discriminate. }
  specialize (Hcomp eq_refl).
  assert (Hne : cur s1 <> []).
  { intros E. rewrite E in Hcomp. cbn in Hcomp. symmetry in Hcomp. revert Hcomp. apply components_nonempty.
    destruct (epath e); [discriminate | discriminate]. }
  destruct I1 as [Hg1 Hc1].
  assert (finish : forall s2, step (cur s1) s1 s2 -> INV0 s2 /\ G s s2).
  { intros s2 S. destruct (step_INV (cur s1) s1 s2 eq_refl Hne (conj Hg1 Hc1) S) as [X Y].
    split; [exact X | eapply G_trans; eassumption]. }
  assert (Wfile : forall excl x0 s0, pre_ok (cur s1) s0 ->
      step (cur s1) s0 (fst (sys_write excl x0 (edata e) s0 (cur s1)))
      /\ (snd (sys_write excl x0 (edata e) s0 (cur s1)) = None ->
          (fun s => exists x, fs_get (fs s) (K (cur s1)) = Some (NFile x (edata e)))
            (fst (sys_write excl x0 (edata e) s0 (cur s1))))).
  { intros. apply sys_write_spec; assumption. }
  assert (Wlink : forall s0, pre_ok (cur s1) s0 ->
      step (cur s1) s0 (fst (sys_symlink (edata e) s0 (cur s1)))
      /\ (snd (sys_symlink (edata e) s0 (cur s1)) = None ->
          (fun s => fs_get (fs s) (K (cur s1)) = Some (NLink (edata e)))
            (fst (sys_symlink (edata e) s0 (cur s1))))).
  { intros. apply sys_symlink_spec; assumption. }
  pose (Qf := fun s : st => exists x, fs_get (fs s) (K (cur s1)) = Some (NFile x (edata e))).
  pose (Ql := fun s : st => fs_get (fs s) (K (cur s1)) = Some (NLink (edata e))).
  unfold written.
  destruct (emode_of e) eqn:Em; cbn [is_link is_dirlike] in *.
  - (* MFile *)
    pose proof (try_op_or_unlink_spec (cur s1) Hne Hg1 (overwrite o) _ Qf s1
                  (Wfile (empty o && negb (overwrite o))%bool (cap_exec o && false && empty o)%bool) Hc1) as [T1 T2].
    destruct (try_op_or_unlink _ _ s1 (cur s1)) as [s2 r]. cbn [fst snd] in *.
    destruct r as [x|].
    + injection H as <- <-. destruct (finish s2 T1). sp3; auto.
      intros X; exfalso; eapply classify_not_ok; eassumption.
    + rewrite andb_false_r in H. cbn in H. injection H as <- <-. destruct (finish s2 T1) as [X Y].
      sp3; auto. intros _. rewrite (st_cur _ _ _ T1); auto.
Show.
Abort.
