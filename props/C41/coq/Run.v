(* C41 — transcript printer: case fields -> the line the Rust harness prints for the same case. *)
From GixV.Base Require Import Bytes Outcome.
From GixV.C41 Require Import Model.

Local Open Scope N_scope.

Definition nul : byte := x00.
Definition has_nul (b : bytes) : bool := existsb (fun x => beqb x nul) b.
Definition lenN (b : bytes) : N := N.of_nat (length b).

Fixpoint triples (l : list bytes) : option (list (bytes * bytes * bytes)) :=
  match l with
  | [] => Some []
  | k :: p :: d :: r => match triples r with Some t => Some ((k, p, d) :: t) | None => None end
  | _ => None
  end.

Definition kind_in (k : bytes) (allowed : bytes) : bool :=
  match k with [b] => existsb (fun a => beqb a b) allowed | _ => false end.

Definition pre_path_ok (p : bytes) : bool :=
  (negb (is_nil p) && (lenN p <=? 300)
   && forallb (fun c => negb (is_nil c) && negb (is_dot c) && negb (is_dotdot c)
                        && (lenN c <=? 100) && negb (has_nul c)) (split_slash p []))%bool.
Definition entry_path_ok (p : bytes) : bool :=
  ((lenN p <=? 300) && negb (has_nul p)
   && forallb (fun c => (lenN c <=? 100) && negb (ci_eqb c (bs ".gitattributes"))) (split_slash p []))%bool.
Definition dotdots (t : bytes) : N := N.of_nat (length (filter is_dotdot (split_slash t []))).
Definition is_l (k : bytes) : bool := bytes_eqb k (bs "l").
Definition link_ok (d : bytes) : bool :=
  (negb (has_nul d) && (lenN d <=? 200)
   && negb (match d with b :: _ => beqb b slash | [] => false end && (0 <? dotdots d)))%bool.

Definition mode_of (k : bytes) : emode :=
  if bytes_eqb k (bs "f") then MFile else if bytes_eqb k (bs "x") then MExec
  else if bytes_eqb k (bs "l") then MLink else if bytes_eqb k (bs "m") then MCommit else MDir.

Definition S_ : bytes := bs "S".
Definition fs0 : fsT :=
  [ ([S_], NDir); ([S_; bs "R"], NDir); ([S_; bs "R"; bs ".git"], NDir);
    ([S_; bs "R"; bs ".git"; bs "objects"], NDir); ([S_; bs "R"; bs ".git"; bs "refs"], NDir);
    ([S_; bs "R"; bs ".git"; bs "HEAD"], NFile false (bs "ref: refs/heads/main" ++ [x0a]));
    ([S_; bs "R"; bs ".git"; bs "config"],
       NFile false (bs "[core]" ++ [x0a; x09] ++ bs "repositoryformatversion = 0" ++ [x0a]));
    ([S_; bs "out"], NDir); ([S_; bs "out"; bs "f"], NFile false (bs "o")) ].

(* place one pre item; None = cannot be placed *)
Fixpoint place (f : fsT) (curp : ppath) (comps : list bytes) (k d : bytes) : option fsT :=
  match comps with
  | [] => None
  | [c] =>
      let key := curp ++ [c] in
      match fs_get f key with
      | Some _ => None
      | None =>
          if bytes_eqb k (bs "d") then Some (fs_set f key NDir)
          else if is_l k then (if is_nil d then None else Some (fs_set f key (NLink d)))
          else Some (fs_set f key (NFile (bytes_eqb k (bs "x")) d))
      end
  | c :: r =>
      let key := curp ++ [c] in
      match fs_get f key with
      | Some NDir => place f key r k d
      | Some _ => None
      | None => place (fs_set f key NDir) key r k d
      end
  end.
Fixpoint place_all (f : fsT) (pre : list (bytes * bytes * bytes)) : option fsT :=
  match pre with
  | [] => Some f
  | (k, p, d) :: r =>
      match place f [S_] (split_slash p []) k d with
      | Some f' => place_all f' r
      | None => None
      end
  end.

Fixpoint join_with (sep : bytes) (l : list bytes) : bytes :=
  match l with
  | [] => []
  | [x] => x
  | x :: r => x ++ sep ++ join_with sep r
  end.

Definition errno_name (e : errno) : bytes :=
  match e with
  | EEXIST => bs "AlreadyExists" | EISDIR => bs "IsADirectory" | ELOOP => bs "FilesystemLoop"
  | ENOENT => bs "NotFound" | ENOTDIR => bs "NotADirectory"
  end.

Definition show_node (n : node) : bytes :=
  match n with
  | NFile x c => (if x then bs "x:" else bs "f:") ++ hex_encode c
  | NLink t => bs "l:" ++ hex_encode t
  | NDir => bs "d:"
  end.
Fixpoint insert_kv (e : bytes * node) (l : list (bytes * node)) : list (bytes * node) :=
  match l with
  | [] => [e]
  | x :: r => match bytes_cmp (fst e) (fst x) with Gt => x :: insert_kv e r | _ => e :: l end
  end.
Definition show_fs (f : fsT) : bytes :=
  let flat := map (fun kv => (join_with (bs "/") (fst kv), snd kv)) f in
  let sorted := fold_right insert_kv [] flat in
  join_with (bs " ") (map (fun kv => hex_encode (fst kv) ++ bs "=" ++ show_node (snd kv)) sorted).

Definition show_status (r : option acc) : bytes :=
  match r with
  | None => bs "err"
  | Some a =>
      bs "ok f=" ++ N_to_dec (files a)
      ++ bs " c=[" ++ join_with (bs ";") (map (fun pe => hex_encode (fst pe) ++ bs ":" ++ errno_name (snd pe)) (rev (colls a)))
      ++ bs "] e=[" ++ join_with (bs ";") (map hex_encode (rev (errs a))) ++ bs "]"
  end.

Definition testbit (n : N) (i : N) : bool := N.testbit n i.

Definition run_model (f : list bytes) : bytes :=
  let skip := bs "skip" in
  if negb (bytes_eqb (nth_field 0 f) (bs "co")) then skip else
  let len := N.of_nat (length f) in
  if len <? 3 then skip else
  let flags := field_N 1 f in
  let npre := field_N 2 f in
  if (32 <=? flags) || (8 <? npre) || (len <? 3 + 3 * npre) then skip else
  match triples (skipn 3 f) with
  | None => skip
  | Some items =>
      let pre := firstn (N.to_nat npre) items in
      let ents := skipn (N.to_nat npre) items in
      if negb (forallb (fun '(k, p, d) => kind_in k (bs "fxld") && pre_path_ok p) pre) then skip else
      if (16 <? N.of_nat (length ents)) then skip else
      if negb (forallb (fun '(k, p, d) => kind_in k (bs "fxlmt") && entry_path_ok p) ents) then skip else
      let links := filter (fun '(k, p, d) => is_l k) (pre ++ ents) in
      if negb (forallb (fun '(k, p, d) => link_ok d) links) then skip else
      if 2 <? fold_right (fun '(k, p, d) a => dotdots d + a) 0 links then skip else
      match place_all fs0 pre with
      | None => skip
      | Some f1 =>
          if negb (is_nil ents) && forallb (fun '(k, p, d) => is_nil p) ents then bs "PANIC" else
          let o := {| overwrite := testbit flags 0; empty := testbit flags 1; keep_going := testbit flags 2;
                      cap_symlink := testbit flags 3; cap_exec := testbit flags 4 |} in
          let index := map (fun '(k, p, d) => {| emode_of := mode_of k; epath := p; edata := d |}) ents in
          let (s, r) := checkout o index (init_st f1) in
          if hung s then bs "HANG"
          else show_status r ++ bs " | " ++ show_fs (fs s)
      end
  end.

Definition run (f : list bytes) : bytes :=
  match f with
  | _mode :: rest => run_model rest
  | [] => bs "?"
  end.
