(* C41 — facts about the abstract file system: lookups after updates, path resolution along a chain
   of real directories, and the frame property of every system call. *)
From Coq Require Import List Bool Arith Lia.
From GixV.Base Require Import Bytes BytesFacts Outcome.
From GixV.C41 Require Import Model.
Import ListNotations.

Lemma path_eqb_eq a : forall b, path_eqb a b = true <-> a = b.
Proof.
  induction a as [|x a IH]; intros [|y b]; cbn [path_eqb]; split; intro H; try congruence; try reflexivity.
  - apply andb_true_iff in H as [H1 H2]. apply bytes_eqb_eq in H1. apply IH in H2. congruence.
  - injection H as -> ->. apply andb_true_iff. split; [apply bytes_eqb_eq; reflexivity | apply IH; reflexivity].
Qed.
Lemma path_eqb_refl a : path_eqb a a = true.
Proof. apply path_eqb_eq. reflexivity. Qed.

Lemma is_prefix_spec p : forall k, is_prefix p k = true <-> exists r, k = p ++ r.
Proof.
  induction p as [|x p IH]; intros k; cbn [is_prefix].
  - split; [intros _; exists k; reflexivity | reflexivity].
  - destruct k as [|y k].
    + split; [discriminate | intros [r H]; discriminate].
    + split.
      * intros H. apply andb_true_iff in H as [H1 H2]. apply bytes_eqb_eq in H1. apply IH in H2 as [r ->].
        exists r. subst. reflexivity.
      * intros [r H]. cbn in H. injection H as -> ->. apply andb_true_iff. split.
        -- apply bytes_eqb_eq. reflexivity.
        -- apply IH. exists r. reflexivity.
Qed.
Lemma is_prefix_refl p : is_prefix p p = true.
Proof. apply is_prefix_spec. exists []. now rewrite app_nil_r. Qed.
Lemma is_prefix_length p k : is_prefix p k = true -> length p <= length k.
Proof. intros H. apply is_prefix_spec in H as [r ->]. rewrite app_length. lia. Qed.
Lemma is_prefix_app p a b : is_prefix (p ++ a) (p ++ b) = is_prefix a b.
Proof.
  induction p as [|x p IH]; cbn [app is_prefix]; [reflexivity|].
  rewrite IH. replace (bytes_eqb x x) with true; [reflexivity|]. symmetry. apply bytes_eqb_eq. reflexivity.
Qed.
Lemma is_prefix_trans a b c : is_prefix a b = true -> is_prefix b c = true -> is_prefix a c = true.
Proof.
  intros H1 H2. apply is_prefix_spec in H1 as [r1 ->]. apply is_prefix_spec in H2 as [r2 ->].
  apply is_prefix_spec. exists (r1 ++ r2). now rewrite app_assoc.
Qed.

(* ---- lookups after updates ---- *)
Lemma fs_get_filter (f : ppath -> bool) fs k :
  fs_get (filter (fun kv => f (fst kv)) fs) k = if f k then fs_get fs k else None.
Proof.
  induction fs as [|[k' v] fs IH]; cbn [filter fs_get fst].
  - destruct (f k); reflexivity.
  - destruct (f k') eqn:Fk'; cbn [fs_get].
    + destruct (path_eqb k' k) eqn:E.
      * apply path_eqb_eq in E. subst. rewrite Fk'. reflexivity.
      * exact IH.
    + rewrite IH. destruct (path_eqb k' k) eqn:E; [|reflexivity].
      apply path_eqb_eq in E. subst. rewrite Fk'. reflexivity.
Qed.
Lemma fs_get_del fs k k' : fs_get (fs_del fs k) k' = if path_eqb k' k then None else fs_get fs k'.
Proof.
  unfold fs_del. rewrite (fs_get_filter (fun x => negb (path_eqb x k))).
  destruct (path_eqb k' k); reflexivity.
Qed.
Lemma fs_get_set fs k v k' : fs_get (fs_set fs k v) k' = if path_eqb k k' then Some v else fs_get fs k'.
Proof.
  unfold fs_set. cbn [fs_get]. destruct (path_eqb k k') eqn:E; [reflexivity|].
  rewrite fs_get_del. destruct (path_eqb k' k) eqn:E2; [|reflexivity].
  apply path_eqb_eq in E2. subst. rewrite path_eqb_refl in E. discriminate.
Qed.
Lemma fs_get_del_tree fs k k' : fs_get (fs_del_tree fs k) k' = if is_prefix k k' then None else fs_get fs k'.
Proof.
  unfold fs_del_tree. rewrite (fs_get_filter (fun x => negb (is_prefix k x))).
  destruct (is_prefix k k'); reflexivity.
Qed.

Definition frame (K : ppath) (f f' : fsT) : Prop :=
  forall k', is_prefix K k' = false -> fs_get f' k' = fs_get f k'.
Lemma frame_refl K f : frame K f f.
Proof. intros k' _. reflexivity. Qed.
Lemma frame_trans K f1 f2 f3 : frame K f1 f2 -> frame K f2 f3 -> frame K f1 f3.
Proof. intros H1 H2 k' Hk. rewrite (H2 k' Hk). apply H1, Hk. Qed.
Lemma frame_set K f v : frame K f (fs_set f K v).
Proof.
  intros k' Hk. rewrite fs_get_set. destruct (path_eqb K k') eqn:E; [|reflexivity].
  apply path_eqb_eq in E. subst. rewrite is_prefix_refl in Hk. discriminate.
Qed.
Lemma frame_del K f : frame K f (fs_del f K).
Proof.
  intros k' Hk. rewrite fs_get_del. destruct (path_eqb k' K) eqn:E; [|reflexivity].
  apply path_eqb_eq in E. subst. rewrite is_prefix_refl in Hk. discriminate.
Qed.
Lemma frame_del_tree K f : frame K f (fs_del_tree f K).
Proof. intros k' Hk. rewrite fs_get_del_tree, Hk. reflexivity. Qed.

(* ---- chains of real directories ---- *)
Definition chain (f : fsT) (p : ppath) : Prop :=
  forall k, 0 < k <= length p -> fs_get f (firstn k p) = Some NDir.
Definition normalc (c : bytes) : Prop := is_nil c = false /\ is_dot c = false /\ is_dotdot c = false.

Lemma chain_prefix f p q : chain f (p ++ q) -> chain f p.
Proof.
  intros H k Hk. specialize (H k). rewrite firstn_app in H.
  replace (k - length p) with 0 in H by lia. cbn in H. rewrite app_nil_r in H. apply H. rewrite app_length. lia.
Qed.
Lemma chain_snoc f p c : chain f p -> fs_get f (p ++ [c]) = Some NDir -> chain f (p ++ [c]).
Proof.
  intros H Hc k Hk. rewrite app_length in Hk. cbn in Hk.
  destruct (Nat.eq_dec k (length p + 1)) as [->|Hne].
  - rewrite firstn_all2 by (rewrite app_length; cbn; lia). exact Hc.
  - rewrite firstn_app. replace (k - length p) with 0 by lia. cbn. rewrite app_nil_r. apply H. lia.
Qed.
Lemma chain_frame K f f' p : frame K f f' -> length p < length K -> chain f p -> chain f' p.
Proof.
  intros HF HL HC k Hk. rewrite HF; [apply HC, Hk|].
  destruct (is_prefix K (firstn k p)) eqn:E; [|reflexivity].
  apply is_prefix_length in E. rewrite firstn_length in E. lia.
Qed.

Lemma walk_dirs : forall rest fuel links f pre,
  Forall normalc rest ->
  (forall k, 0 < k <= length rest -> fs_get f (pre ++ firstn k rest) = Some NDir) ->
  walk fuel links f pre rest = WOk (pre ++ rest) \/ walk fuel links f pre rest = WFuel.
Proof.
  induction rest as [|c r IH]; intros fuel links f pre HN HD.
  - left. destruct fuel; cbn; now rewrite app_nil_r.
  - destruct fuel as [|fuel']; [right; reflexivity|].
    cbn [walk]. inversion HN as [|? ? [N1 [N2 N3]] HN']; subst.
    rewrite N1, N2, N3. cbn [orb].
    assert (H1 : fs_get f (pre ++ [c]) = Some NDir) by (apply (HD 1); cbn; lia).
    rewrite H1.
    replace (pre ++ c :: r) with ((pre ++ [c]) ++ r) by (rewrite <- app_assoc; reflexivity).
    apply IH; [exact HN'|].
    intros k Hk. rewrite <- app_assoc. cbn [app]. apply (HD (S k)). cbn. lia.
Qed.
Lemma walk_chain fuel links f p :
  Forall normalc p -> chain f p -> walk fuel links f [] p = WOk p \/ walk fuel links f [] p = WFuel.
Proof. intros HN HC. apply (walk_dirs p fuel links f []); [exact HN|]. intros k Hk. cbn. apply HC, Hk. Qed.
