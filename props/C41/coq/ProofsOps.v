(* C41 — every system call issued for ROOT/names, where the directories above the last name are real
   directories, acts on the physical key ROOT ++ names and on nothing else. *)
From Coq Require Import List Bool Arith Lia.
From GixV.Base Require Import Bytes BytesFacts Outcome.
From GixV.C41 Require Import Model ProofsFs.
Import ListNotations.

Definition good (c : bytes) : Prop := validate c false = true /\ is_dot c = false /\ is_dotdot c = false.
Lemma good_normalc c : good c -> normalc c.
Proof.
  intros [V [D1 D2]]. unfold validate in V. repeat (apply andb_true_iff in V as [V ?]).
  repeat split; try assumption. destruct (is_nil c); [discriminate | reflexivity].
Qed.
Lemma good_not_dotgit c : good c -> ci_eqb c DOTGIT = false.
Proof.
  intros [V _]. unfold validate in V. repeat (apply andb_true_iff in V as [V ?]).
  destruct (ci_eqb c DOTGIT); [discriminate | reflexivity].
Qed.
Lemma root_normal : Forall normalc ROOT.
Proof. repeat constructor. Qed.

Definition K (names : list bytes) : ppath := ROOT ++ names.
Definition pre_ok (names : list bytes) (s : st) : Prop := chain (fs s) (ROOT ++ removelast names).

Record step (names : list bytes) (s s' : st) : Prop := mkstep {
  st_cur : cur s' = cur s;
  st_trace : exists n, trace s' = repeat (K names) n ++ trace s;
  st_frame : frame (K names) (fs s) (fs s') }.

Lemma step_refl names s : step names s s.
Proof. constructor; [reflexivity | exists 0; reflexivity | apply frame_refl]. Qed.
Lemma step_trans names s1 s2 s3 : step names s1 s2 -> step names s2 s3 -> step names s1 s3.
Proof.
  intros [C1 [n1 T1] F1] [C2 [n2 T2] F2]. constructor.
  - congruence.
  - exists (n2 + n1). rewrite T2, T1, repeat_app, app_assoc. reflexivity.
  - eapply frame_trans; eassumption.
Qed.
Lemma removelast_length {A} (l : list A) : l <> [] -> length l = S (length (removelast l)).
Proof.
  intros H. destruct (exists_last H) as (l' & a & ->). rewrite removelast_last, app_length. cbn. lia.
Qed.
Lemma step_pre names s s' : names <> [] -> step names s s' -> pre_ok names s -> pre_ok names s'.
Proof.
  intros Hne [_ _ F] HP. unfold pre_ok in *. eapply chain_frame; [exact F | | exact HP].
  unfold K. rewrite !app_length, (removelast_length names Hne). lia.
Qed.
Lemma step_err names s s' : fs s' = fs s -> trace s' = trace s -> cur s' = cur s -> step names s s'.
Proof.
  intros Hf Ht Hc. constructor; [exact Hc | exists 0; exact Ht | rewrite Hf; apply frame_refl].
Qed.
Lemma step_log names s : step names s (log s (K names)).
Proof. constructor; [reflexivity | exists 1; reflexivity | apply frame_refl]. Qed.
Lemma step_log_set names s f' : frame (K names) (fs s) f' -> step names s (set_fs (log s (K names)) f').
Proof. intros F. constructor; [reflexivity | exists 1; reflexivity | exact F]. Qed.

Lemma good_removelast names : Forall good names -> Forall good (removelast names).
Proof.
  intros H. destruct names as [|a l]; [constructor|].
  assert (Hne : a :: l <> []) by discriminate.
  destruct (exists_last Hne) as (l' & b & E). rewrite E in *. rewrite removelast_last.
  apply Forall_app in H. tauto.
Qed.

Lemma resolve_spec s names : names <> [] -> Forall good names -> pre_ok names s ->
  (exists s' e, resolve s names = (s', inl e) /\ fs s' = fs s /\ trace s' = trace s /\ cur s' = cur s)
  \/ resolve s names = (log s (K names), inr (K names)).
Proof.
  intros Hne Hg HP. unfold resolve.
  assert (HN : Forall normalc (ROOT ++ removelast names)).
  { apply Forall_app. split; [apply root_normal|].
    eapply Forall_impl; [|apply good_removelast, Hg]. intros a. apply good_normalc. }
  destruct (walk_chain FUEL MAXLINKS (fs s) _ HN HP) as [-> | ->].
  - right. replace ((ROOT ++ removelast names) ++ [last names []]) with (K names); [reflexivity|].
    unfold K. rewrite <- app_assoc. f_equal. apply app_removelast_last. exact Hne.
  - left. exists (set_hung s), ELOOP. repeat split; reflexivity.
Qed.

Section Ops.
  Variable names : list bytes.
  Hypothesis Hne : names <> [].
  Hypothesis Hg : Forall good names.

  Ltac start s HP :=
    destruct (resolve_spec s names Hne Hg HP) as [(s' & e & -> & Hf & Ht & Hc) | ->];
    [ cbn [fst snd]; split; [apply step_err; assumption | try discriminate] | cbn [fs log set_fs fst snd] ].

  Lemma sys_mkdir_spec s : pre_ok names s ->
    step names s (fst (sys_mkdir s names))
    /\ (snd (sys_mkdir s names) = None -> fs_get (fs (fst (sys_mkdir s names))) (K names) = Some NDir).
  Proof.
    intros HP. unfold sys_mkdir. start s HP.
    destruct (fs_get (fs s) (K names)) eqn:E; cbn [fst snd fs set_fs log].
    - split; [apply step_log | discriminate].
    - split; [apply step_log_set, frame_set|]. intros _. rewrite fs_get_set, path_eqb_refl. reflexivity.
  Qed.

  Lemma sys_lstat_spec s : pre_ok names s ->
    step names s (fst (sys_lstat s names))
    /\ (forall n, snd (sys_lstat s names) = inr n -> fs_get (fs (fst (sys_lstat s names))) (K names) = Some n).
  Proof.
    intros HP. unfold sys_lstat. start s HP.
    destruct (fs_get (fs s) (K names)) eqn:E; cbn [fst snd fs set_fs log].
    - split; [apply step_log|]. intros n0 H. injection H as ->. exact E.
    - split; [apply step_log | discriminate].
  Qed.

  Lemma sys_unlink_spec s : pre_ok names s -> step names s (fst (sys_unlink s names)).
  Proof.
    intros HP. unfold sys_unlink.
    destruct (resolve_spec s names Hne Hg HP) as [(s' & e & -> & Hf & Ht & Hc) | ->];
      [apply step_err; assumption|].
    cbn [fs log]. destruct (fs_get (fs s) (K names)) as [[| |]|]; cbn [fst];
      try apply step_log; apply step_log_set, frame_del.
  Qed.

  Lemma sys_rmtree_spec s : pre_ok names s -> step names s (fst (sys_rmtree s names)).
  Proof.
    intros HP. unfold sys_rmtree.
    destruct (resolve_spec s names Hne Hg HP) as [(s' & e & -> & Hf & Ht & Hc) | ->];
      [apply step_err; assumption|].
    cbn [fs log]. destruct (fs_get (fs s) (K names)) as [[| |]|]; cbn [fst];
      try apply step_log; apply step_log_set; try apply frame_del; apply frame_del_tree.
  Qed.

  Lemma sys_symlink_spec t s : pre_ok names s ->
    step names s (fst (sys_symlink t s names))
    /\ (snd (sys_symlink t s names) = None -> fs_get (fs (fst (sys_symlink t s names))) (K names) = Some (NLink t)).
  Proof.
    intros HP. unfold sys_symlink.
    destruct (is_nil t); [cbn [fst snd]; split; [apply step_refl | discriminate]|].
    start s HP.
    destruct (fs_get (fs s) (K names)) eqn:E; cbn [fst snd fs set_fs log].
    - split; [apply step_log | discriminate].
    - split; [apply step_log_set, frame_set|]. intros _. rewrite fs_get_set, path_eqb_refl. reflexivity.
  Qed.

  Lemma sys_write_spec excl x0 c s : pre_ok names s ->
    step names s (fst (sys_write excl x0 c s names))
    /\ (snd (sys_write excl x0 c s names) = None ->
        exists x, fs_get (fs (fst (sys_write excl x0 c s names))) (K names) = Some (NFile x c)).
  Proof.
    intros HP. unfold sys_write. start s HP.
    destruct (fs_get (fs s) (K names)) as [[x cc|t|]|] eqn:E; cbn [fst snd fs set_fs log].
    - destruct excl; cbn [fst snd fs set_fs log].
      + split; [apply step_log | discriminate].
      + split; [apply step_log_set, frame_set|]. intros _. exists x. rewrite fs_get_set, path_eqb_refl. reflexivity.
    - split; [apply step_log | discriminate].
    - split; [apply step_log | discriminate].
    - split; [apply step_log_set, frame_set|]. intros _. exists x0. rewrite fs_get_set, path_eqb_refl. reflexivity.
  Qed.

  Lemma sys_chmodx_spec s : pre_ok names s ->
    step names s (fst (sys_chmodx s names))
    /\ (forall c, (exists x, fs_get (fs s) (K names) = Some (NFile x c)) ->
                  exists x, fs_get (fs (fst (sys_chmodx s names))) (K names) = Some (NFile x c)).
  Proof.
    intros HP. unfold sys_chmodx.
    destruct (resolve_spec s names Hne Hg HP) as [(s' & e & -> & Hf & Ht & Hc) | ->].
    - cbn [fst]. split; [apply step_err; assumption|]. intros c [x Hx]. exists x. rewrite Hf. exact Hx.
    - cbn [fs log]. destruct (fs_get (fs s) (K names)) as [[x cc|t|]|] eqn:E; cbn [fst fs set_fs log].
      + split; [apply step_log_set, frame_set|]. intros c [x' Hx]. injection Hx as -> ->.
        exists true. rewrite fs_get_set, path_eqb_refl. reflexivity.
      + split; [apply step_log|]. intros c [x' Hx]. discriminate.
      + split; [apply step_log|]. intros c [x' Hx]. discriminate.
      + split; [apply step_log|]. intros c [x' Hx]. discriminate.
  Qed.

  Lemma create_leading_directory_spec u s : pre_ok names s ->
    step names s (fst (create_leading_directory u s names))
    /\ (snd (create_leading_directory u s names) = None ->
        fs_get (fs (fst (create_leading_directory u s names))) (K names) = Some NDir).
  Proof.
    intros HP. unfold create_leading_directory.
    pose proof (sys_mkdir_spec s HP) as [M1 M2]. destruct (sys_mkdir s names) as [s1 r]. cbn [fst snd] in *.
    destruct r as [e|]; [|split; [exact M1 | exact M2]].
    destruct e; try (cbn [fst snd]; split; [exact M1 | discriminate]).
    assert (HP1 : pre_ok names s1) by (eapply step_pre; eassumption).
    pose proof (sys_lstat_spec s1 HP1) as [L1 L2]. destruct (sys_lstat s1 names) as [s2 m]. cbn [fst snd] in *.
    assert (S2 : step names s s2) by (eapply step_trans; eassumption).
    destruct m as [e|n]; [cbn [fst snd]; split; [exact S2 | discriminate]|].
    assert (HP2 : pre_ok names s2) by (eapply step_pre; eassumption).
    assert (Hfile : forall n', n = n' -> n' <> NDir ->
      step names s (fst (if u then let (s3, r3) := sys_unlink s2 names in
                           match r3 with Some e => (s3, Some e) | None => sys_mkdir s3 names end
                         else (s2, Some EEXIST)))
      /\ (snd (if u then let (s3, r3) := sys_unlink s2 names in
                           match r3 with Some e => (s3, Some e) | None => sys_mkdir s3 names end
                         else (s2, Some EEXIST)) = None ->
          fs_get (fs (fst (if u then let (s3, r3) := sys_unlink s2 names in
                           match r3 with Some e => (s3, Some e) | None => sys_mkdir s3 names end
                         else (s2, Some EEXIST)))) (K names) = Some NDir)).
    { intros n' _ _. destruct u; [|cbn [fst snd]; split; [exact S2 | discriminate]].
      pose proof (sys_unlink_spec s2 HP2) as U1. destruct (sys_unlink s2 names) as [s3 r3]. cbn [fst] in U1.
      assert (S3 : step names s s3) by (eapply step_trans; eassumption).
      destruct r3 as [e|]; [cbn [fst snd]; split; [exact S3 | discriminate]|].
      assert (HP3 : pre_ok names s3) by (eapply step_pre; eassumption).
      pose proof (sys_mkdir_spec s3 HP3) as [M3 M4]. split; [eapply step_trans; eassumption | exact M4]. }
    destruct n as [x c|t|].
    - apply (Hfile (NFile x c)); [reflexivity | discriminate].
    - apply (Hfile (NLink t)); [reflexivity | discriminate].
    - cbn [fst snd]. split; [exact S2|]. intros _. apply L2. reflexivity.
  Qed.

  (* try_op_or_unlink for any operation that is itself confined to K names; [Q] is any fact a successful
     operation establishes *)
  Lemma try_op_or_unlink_spec ow (op : st -> list bytes -> st * option errno) (Q : st -> Prop) s :
    (forall s0, pre_ok names s0 -> step names s0 (fst (op s0 names))
                                   /\ (snd (op s0 names) = None -> Q (fst (op s0 names)))) ->
    pre_ok names s ->
    step names s (fst (try_op_or_unlink ow op s names))
    /\ (snd (try_op_or_unlink ow op s names) = None -> Q (fst (try_op_or_unlink ow op s names))).
  Proof.
    intros Hop HP. unfold try_op_or_unlink. destruct ow; [|apply Hop, HP].
    pose proof (Hop s HP) as [O1 O2]. destruct (op s names) as [s1 r]. cbn [fst snd] in *.
    destruct r as [e|]; [|split; [exact O1 | exact O2]].
    destruct (is_collision e); [|cbn [fst snd]; split; [exact O1 | discriminate]].
    assert (HP1 : pre_ok names s1) by (eapply step_pre; eassumption).
    pose proof (sys_lstat_spec s1 HP1) as [L1 _]. destruct (sys_lstat s1 names) as [s2 m]. cbn [fst] in L1.
    assert (S2 : step names s s2) by (eapply step_trans; eassumption).
    destruct m as [e2|n]; [cbn [fst snd]; split; [exact S2 | discriminate]|].
    assert (HP2 : pre_ok names s2) by (eapply step_pre; eassumption).
    assert (R : step names s2 (fst (match n with NDir => sys_rmtree s2 names | _ => sys_unlink s2 names end))).
    { destruct n; [apply sys_unlink_spec | apply sys_unlink_spec | apply sys_rmtree_spec]; exact HP2. }
    destruct (match n with NDir => sys_rmtree s2 names | _ => sys_unlink s2 names end) as [s3 r3]. cbn [fst] in R.
    assert (S3 : step names s s3) by (eapply step_trans; eassumption).
    destruct r3 as [e3|]; [cbn [fst snd]; split; [exact S3 | discriminate]|].
    assert (HP3 : pre_ok names s3) by (eapply step_pre; eassumption).
    pose proof (Hop s3 HP3) as [O3 O4]. split; [eapply step_trans; eassumption | exact O4].
  Qed.
End Ops.
