(* C36 — abort soundness of dowild in general, including the `**/` shortcut.  The suffix property
   is stated relative to the byte before the position: where the pattern continues with a `**`
   that follows a slash, only suffixes that are themselves preceded by a slash are considered. *)
From Coq Require Import Lia.
From GixV.Base Require Import Bytes BytesFacts.
From GixV.C36 Require Import Model Spec ProofsBytes ProofsBracket ProofsMain ProofsEarly ProofsAbort ProofsAbort2.

Lemma suffix_length a b : suffix a b -> length a <= length b.
Proof. intros [pre ->]. rewrite app_length. lia. Qed.

(* ---- the loop fuel does not matter once it exceeds the length of the pattern ---- *)
Lemma fuel_irrel e rec cf pn : forall f f' prev p t, length p < f -> length p < f' ->
  g_main e rec cf pn f prev p t = g_main e rec cf pn f' prev p t.
Proof.
  induction f as [|f IH]; intros f' prev p t Hf Hf'; [lia|]. destruct f' as [|f']; [lia|].
  cbn [g_main]. destruct p as [|praw p1]; [reflexivity|]. cbn [length] in Hf, Hf'.
  assert (Hstar : match g_star e rec cf pn prev p1 t with Done r => r | Cont pv p' t' => g_main e rec cf pn f pv p' t' end =
                  match g_star e rec cf pn prev p1 t with Done r => r | Cont pv p' t' => g_main e rec cf pn f' pv p' t' end).
  { destruct (g_star e rec cf pn prev p1 t) as [r|pv p' t'] eqn:Eg; [reflexivity|].
    apply star_cont_suffix in Eg. apply suffix_length in Eg. apply IH; lia. }
  destruct t as [|traw t1]; [destruct (beqb praw cSTAR); [exact Hstar | reflexivity]|].
  destruct (beqb (fold cf praw) cBSL).
  { destruct p1 as [|e0 p2]; [reflexivity|]. destruct (beqb (fold cf traw) e0); [|reflexivity].
    cbn [length] in Hf, Hf'. apply IH; lia. }
  destruct (beqb (fold cf praw) cQM).
  { destruct (pn && beqb (fold cf traw) cSLASH); [reflexivity|]. apply IH; lia. }
  destruct (beqb (fold cf praw) cSTAR); [exact Hstar|].
  destruct (beqb (fold cf praw) cLBR).
  { destruct (g_bracket cf (fold cf traw) p1) as [[ok p']|] eqn:Eb; [|reflexivity].
    destruct (negb ok || (pn && beqb (fold cf traw) cSLASH)); [reflexivity|].
    apply bracket_suffix in Eb. apply suffix_length in Eb. apply IH; lia. }
  destruct (beqb (fold cf traw) (fold cf praw)); [|reflexivity]. apply IH; lia.
Qed.

Lemma prev_irrel e rec cf pn f p t :
  g_main e rec cf pn f None p t = g_main e rec cf pn f (Some cSLASH) p t.
Proof. destruct f as [|f]; [reflexivity|]. cbn [g_main]. destruct p as [|praw p1]; reflexivity. Qed.

Lemma after_slash_self : forall s s'', after_slash s = Some s'' -> suffix (cSLASH :: s'') s.
Proof.
  induction s as [|y s IH]; intros s'' H; [discriminate|]. cbn [after_slash] in H.
  destruct (beqb y cSLASH) eqn:E.
  - inversion H; subst. apply beqb_eq in E. subst y. apply suffix_refl.
  - apply suffix_cons. now apply IH.
Qed.

Lemma after_slash_guard : forall t s t'' s'', suffix s t ->
  after_slash t = Some t'' -> after_slash s = Some s'' -> s'' = t'' \/ suffix (cSLASH :: s'') t''.
Proof.
  induction t as [|x t1 IH]; intros s t'' s'' Hs Ht Hs2; [discriminate|].
  apply suffix_inv in Hs. destruct Hs as [->|Hs].
  - rewrite Ht in Hs2. inversion Hs2. now left.
  - cbn [after_slash] in Ht. destruct (beqb x cSLASH).
    + inversion Ht; subst. right. eapply suffix_trans; [apply after_slash_self; exact Hs2 | exact Hs].
    + eapply IH; eassumption.
Qed.

(* the guard: after a slash in the pattern only positions after a slash in the text are compared *)
Definition G (prev : option byte) (t t' : bytes) : Prop :=
  prev = Some cSLASH -> t' = t \/ suffix (cSLASH :: t') t.

Section Level.
  Variables (recT recF : bytes -> bytes -> res) (cf pn : bool) (n : nat).
  Hypothesis HA : forall p t, length p < n -> R (recT p t) (recF p t).
  Hypothesis HS : forall p t, length p < n -> beqb (hd0 p) cSTAR = false -> recT p t = AbortAll ->
                  forall t', suffix t' t -> recT p t' <> Match.
  Hypothesis HEF : forall c r, beqb c cSTAR = false -> recF (c :: r) [] <> Match.
  Hypothesis HSh : forall r s, length (cSLASH :: r) < n ->
                   recT (cSLASH :: r) (cSLASH :: s) <> Match -> recT r s <> Match.

  Lemma go_R2 t ms nx : length nx < n -> beqb (hd0 nx) cSTAR = false ->
    stepR (g_go true recT cf t ms nx) (g_go false recF cf t ms nx).
  Proof.
    intros Hn Hh. destruct nx as [|c r]; cbn [g_go]; [constructor; apply R_refl|].
    destruct (negb ms && beqb c cSLASH).
    { destruct (after_slash t); constructor. apply R_refl. }
    constructor. destruct t as [|c0 rest]; cbn [g_star_loop].
    - right. split; [reflexivity|].
      destruct (negb (g_is_glob_special c) && negb (beqb x00 (fold cf c))); [discriminate|].
      apply g_after_nm; [|discriminate]. now apply HEF.
    - apply loop_R; [intros s; now apply HA | intros s; now apply HS].
  Qed.

  Lemma skip_stars_hd0 l : beqb (hd0 (skip_stars l)) cSTAR = false.
  Proof. destruct (skip_stars l) as [|c r] eqn:E; [reflexivity|]. cbn [hd0]. eapply skip_stars_head. exact E. Qed.

  Lemma star_R prev p1 t : length p1 < n ->
    stepR (g_star true recT cf pn prev p1 t) (g_star false recF cf pn prev p1 t).
  Proof.
    intros Hn. unfold g_star.
    assert (Hnx : length (skip_stars p1) < n).
    { pose proof (suffix_length _ _ (skip_stars_suffix p1)). lia. }
    destruct (beqb (hd0 p1) cSTAR) eqn:Eh.
    - destruct (negb pn); [apply go_R2; [assumption | apply skip_stars_hd0]|].
      destruct (_ && _); [|apply go_R2; [assumption | apply skip_stars_hd0]].
      assert (E : res_eqb (recT (tl (skip_stars p1)) t) Match = res_eqb (recF (tl (skip_stars p1)) t) Match).
      { apply R_B. apply HA. destruct (skip_stars p1); cbn [tl length] in *; lia. }
      rewrite E. destruct (_ && _); [constructor; apply R_refl | apply go_R2; [assumption | apply skip_stars_hd0]].
    - now apply go_R2.
  Qed.

  Lemma main_R2 : forall f prev p t, length p < n ->
    R (g_main true recT cf pn f prev p t) (g_main false recF cf pn f prev p t).
  Proof.
    induction f as [|f IH]; intros prev p t Hn; [apply R_refl|].
    cbn [g_main]. destruct p as [|praw p1]; [apply R_refl|]. cbn [length] in Hn.
    assert (Hstar :
      R match g_star true recT cf pn prev p1 t with Done r => r | Cont pv p' t' => g_main true recT cf pn f pv p' t' end
        match g_star false recF cf pn prev p1 t with Done r => r | Cont pv p' t' => g_main false recF cf pn f pv p' t' end).
    { pose proof (star_R prev p1 t ltac:(lia)) as SR.
      destruct (g_star true recT cf pn prev p1 t) as [r1|pv1 p1' t1'] eqn:E1;
        destruct (g_star false recF cf pn prev p1 t) as [r2|pv2 p2' t2'] eqn:E2;
        inversion SR; subst; [assumption|].
      apply star_cont_suffix in E2. apply suffix_length in E2. apply IH. lia. }
    destruct t as [|traw t1].
    { destruct (beqb praw cSTAR); [exact Hstar | apply R_refl]. }
    destruct (beqb (fold cf praw) cBSL).
    { destruct p1 as [|e p2]; [apply R_refl|]. destruct (beqb (fold cf traw) e); [|apply R_refl].
      cbn [length] in Hn. apply IH. lia. }
    destruct (beqb (fold cf praw) cQM).
    { destruct (pn && beqb (fold cf traw) cSLASH); [apply R_refl|]. apply IH. lia. }
    destruct (beqb (fold cf praw) cSTAR); [exact Hstar|].
    destruct (beqb (fold cf praw) cLBR).
    { destruct (g_bracket cf (fold cf traw) p1) as [[ok p']|] eqn:Eb; [|apply R_refl].
      destruct (negb ok || (pn && beqb (fold cf traw) cSLASH)); [apply R_refl|].
      apply bracket_suffix in Eb. apply suffix_length in Eb. apply IH. lia. }
    destruct (beqb (fold cf traw) (fold cf praw)); [|apply R_refl]. apply IH. lia.
  Qed.

  (* one evaluated position of the loop: if rec matches there, the loop matches *)
  Lemma loop_slash_first (r : bytes -> res) s :
    g_star_ne cf true cSLASH r cSLASH s <> Match -> r (cSLASH :: s) <> Match.
  Proof.
    intros H HM. apply H. destruct s as [|y s']; cbn [g_star_ne];
      replace (g_is_glob_special cSLASH) with false by reflexivity; cbn [negb orb];
      rewrite beqb_refl; unfold g_after; rewrite HM; reflexivity.
  Qed.

  Lemma main_S2 : forall f prev p t, length p < n -> (prev = None -> beqb (hd0 p) cSTAR = false) ->
    g_main true recT cf pn f prev p t = AbortAll ->
    forall t', suffix t' t -> G prev t t' -> g_main true recT cf pn f prev p t' <> Match.
  Proof.
    induction f as [|f IH]; intros prev p t Hn Hp H t' Hsuf HG; [discriminate H|].
    destruct t as [|x t1].
    { apply suffix_nil in Hsuf. subst t'. rewrite H. discriminate. }
    apply suffix_inv in Hsuf. destruct Hsuf as [->|Hsuf]; [rewrite H; discriminate|].
    destruct p as [|praw p1]; [discriminate H|]. cbn [length] in Hn.
    cbn [g_main] in H. cbn [g_main].
    assert (Efold : beqb (fold cf praw) cSTAR = beqb praw cSTAR) by apply (fold_special cf praw cSTAR eq_refl).
    (* what follows the star(s), for any slash mode *)
    assert (Hgo : forall ms nx, length nx < n -> beqb (hd0 nx) cSTAR = false ->
      match g_go true recT cf (x :: t1) ms nx with Done r => r | Cont pv p' t'' => g_main true recT cf pn f pv p' t'' end = AbortAll ->
      match g_go true recT cf t' ms nx with Done r => r | Cont pv p' t'' => g_main true recT cf pn f pv p' t'' end <> Match).
    { intros ms nx Hlen Hhd. destruct nx as [|c r]; cbn [g_go].
      { destruct (negb ms && has_slash (x :: t1)); discriminate. }
      destruct (negb ms && beqb c cSLASH) eqn:Ec.
      { destruct (after_slash (x :: t1)) as [t''|] eqn:Ea; [|discriminate]. intros HA1.
        destruct (after_slash t') as [s''|] eqn:Ea2; [|discriminate].
        cbn [length] in Hlen.
        apply (IH (Some c) r t''); [lia | discriminate | exact HA1 | |].
        - eapply after_slash_suffix; [|exact Ea|exact Ea2]. now apply suffix_cons.
        - intros _. eapply after_slash_guard; [|exact Ea|exact Ea2]. now apply suffix_cons. }
      cbn [g_star_loop]. intros HA1.
      destruct t' as [|y s]; [discriminate|].
      eapply loop_S; [| exact HA1 | now apply suffix_cons].
      intros s0. now apply HS. }
    assert (Hnx : length (skip_stars p1) < n).
    { pose proof (suffix_length _ _ (skip_stars_suffix p1)). lia. }
    assert (Hstar : beqb praw cSTAR = true ->
      match g_star true recT cf pn prev p1 (x :: t1) with Done r => r | Cont pv p' t'' => g_main true recT cf pn f pv p' t'' end = AbortAll ->
      match g_star true recT cf pn prev p1 t' with Done r => r | Cont pv p' t'' => g_main true recT cf pn f pv p' t'' end <> Match).
    { intros Es. unfold g_star.
      destruct (beqb (hd0 p1) cSTAR) eqn:Eh; [|apply Hgo; [lia | exact Eh]].
      destruct (negb pn); [apply Hgo; [exact Hnx | apply skip_stars_hd0]|].
      destruct (match prev with None => true | Some b => beqb b cSLASH end &&
                (beqb (hd0 (skip_stars p1)) x00 || beqb (hd0 (skip_stars p1)) cSLASH ||
                 (beqb (hd0 (skip_stars p1)) cBSL && beqb (hd0 (tl (skip_stars p1))) cSLASH))) eqn:Econd;
        [|apply Hgo; [exact Hnx | apply skip_stars_hd0]].
      (* the shortcut is in play: the star follows a slash *)
      apply Bool.andb_true_iff in Econd. destruct Econd as [Eprev _].
      destruct prev as [b|]; [|specialize (Hp eq_refl); cbn [hd0] in Hp; congruence].
      apply beqb_eq in Eprev. subst b.
      destruct (beqb (hd0 (skip_stars p1)) cSLASH && res_eqb (recT (tl (skip_stars p1)) (x :: t1)) Match); [discriminate|].
      intros HA1.
      destruct (beqb (hd0 (skip_stars p1)) cSLASH) eqn:Esl; cbn [andb];
        [|apply Hgo; [exact Hnx | apply skip_stars_hd0 | exact HA1]].
      destruct (res_eqb (recT (tl (skip_stars p1)) t') Match) eqn:EM;
        [|apply Hgo; [exact Hnx | apply skip_stars_hd0 | exact HA1]].
      exfalso.
      destruct (skip_stars p1) as [|c r] eqn:Enx; [discriminate Esl|]. cbn [hd0 tl] in *.
      apply beqb_eq in Esl. subst c.
      assert (HM : recT r t' = Match) by (destruct (recT r t'); try discriminate EM; reflexivity).
      revert HM. apply HSh; [exact Hnx|].
      destruct (HG eq_refl) as [->|Hg].
      { (* t' = x :: t1 is excluded: it is a suffix of t1 *)
        apply suffix_length in Hsuf. cbn [length] in Hsuf. lia. }
      cbn [g_go negb andb g_star_loop] in HA1.
      apply loop_slash_first.
      eapply (loop_S cf true cSLASH (recT (cSLASH :: r))); [| exact HA1 | exact Hg].
      intros s0. apply HS; [exact Hnx | reflexivity]. }
    destruct t' as [|y s].
    { destruct (beqb praw cSTAR) eqn:Es; [|discriminate].
      rewrite Efold in H. destruct (beqb (fold cf praw) cBSL) eqn:E1.
      { rewrite (fold_special cf praw cBSL eq_refl) in E1. apply beqb_eq in E1, Es. subst praw. discriminate Es. }
      destruct (beqb (fold cf praw) cQM) eqn:E2.
      { rewrite (fold_special cf praw cQM eq_refl) in E2. apply beqb_eq in E2, Es. subst praw. discriminate Es. }
      now apply Hstar. }
    assert (Hs1 : suffix s t1) by (eapply suffix_cons_inv; exact Hsuf).
    (* after a single-byte token that is a slash, the next position follows a slash of the text *)
    assert (Gnext : forall b, (b = cSLASH -> fold cf y = cSLASH) -> G (Some b) t1 s).
    { intros b Hb E. inversion E; subst b. specialize (Hb eq_refl).
      assert (y = cSLASH) as ->.
      { apply beqb_eq. rewrite <- (fold_special cf y cSLASH eq_refl). now apply beqb_eq. }
      right. exact Hsuf. }
    destruct (beqb (fold cf praw) cBSL).
    { destruct p1 as [|e p2]; [discriminate|]. cbn [length] in Hn.
      destruct (beqb (fold cf x) e); [|discriminate H]. destruct (beqb (fold cf y) e) eqn:Ey; [|discriminate].
      apply (IH (Some e) p2 t1); [lia | discriminate | exact H | exact Hs1 |].
      apply Gnext. intros ->. now apply beqb_eq. }
    destruct (beqb (fold cf praw) cQM) eqn:Eq.
    { destruct (pn && beqb (fold cf x) cSLASH); [discriminate H|].
      destruct (pn && beqb (fold cf y) cSLASH); [discriminate|].
      apply (IH (Some praw) p1 t1); [lia | discriminate | exact H | exact Hs1 |].
      apply Gnext. intros ->. rewrite fold_slash in Eq. vm_compute in Eq. discriminate Eq. }
    rewrite Efold in *. destruct (beqb praw cSTAR) eqn:Es; [now apply Hstar|].
    destruct (beqb (fold cf praw) cLBR) eqn:El.
    { pose proof (bracket_shape cf (fold cf x) (fold cf y) p1) as BS.
      destruct (g_bracket cf (fold cf x) p1) as [[ok p']|] eqn:Eb.
      - destruct BS as [ok' ->].
        destruct (negb ok || (pn && beqb (fold cf x) cSLASH)); [discriminate H|].
        destruct (negb ok' || (pn && beqb (fold cf y) cSLASH)); [discriminate|].
        apply bracket_suffix in Eb. apply suffix_length in Eb.
        apply (IH (Some cRBR) p' t1); [lia | discriminate | exact H | exact Hs1 |].
        intros E. discriminate E.
      - rewrite BS. discriminate. }
    destruct (beqb (fold cf x) (fold cf praw)); [|discriminate H].
    destruct (beqb (fold cf y) (fold cf praw)) eqn:Ey; [|discriminate].
    apply (IH (Some praw) p1 t1); [lia | discriminate | exact H | exact Hs1 |].
    apply Gnext. intros ->. apply beqb_eq in Ey. rewrite Ey. apply fold_slash.
  Qed.
End Level.

Lemma dowild_shortcut e cf pn n d r s : length (cSLASH :: r) < n ->
  dowild e cf pn n d (cSLASH :: r) (cSLASH :: s) <> Match -> dowild e cf pn n d r s <> Match.
Proof.
  intros Hn. destruct d as [|d]; [intros _; discriminate|]. cbn [dowild].
  destruct n as [|n1]; [lia|]. cbn [length] in Hn.
  assert (E : g_main e (dowild e cf pn (S n1) d) cf pn (S n1) None (cSLASH :: r) (cSLASH :: s) =
              g_main e (dowild e cf pn (S n1) d) cf pn n1 (Some cSLASH) r s).
  { cbn [g_main]. rewrite !fold_slash.
    replace (beqb cSLASH cBSL) with false by reflexivity.
    replace (beqb cSLASH cQM) with false by reflexivity.
    replace (beqb cSLASH cSTAR) with false by reflexivity.
    replace (beqb cSLASH cLBR) with false by reflexivity.
    rewrite beqb_refl. reflexivity. }
  rewrite E, <- prev_irrel. rewrite (fuel_irrel e _ cf pn (S n1) n1 None r s); [exact (fun H => H) | lia | lia].
Qed.

Lemma dowild_RS2 cf pn n : forall d,
  (forall p t, length p < n -> R (dowild true cf pn n d p t) (dowild false cf pn n d p t)) /\
  (forall p t, length p < n -> beqb (hd0 p) cSTAR = false -> dowild true cf pn n d p t = AbortAll ->
     forall t', suffix t' t -> dowild true cf pn n d p t' <> Match).
Proof.
  induction d as [|d [IHA IHS]].
  - split; [intros; apply R_refl | intros p t _ _ H; discriminate H].
  - split.
    + intros p t Hn. cbn [dowild]. apply (main_R2 _ _ cf pn n); try assumption.
      intros c r Hc. now apply dowild_nonstar_empty.
    + intros p t Hn Hh H t' Hs. cbn [dowild] in *.
      eapply (main_S2 _ cf pn n); try eassumption.
      * intros r s Hl. now apply dowild_shortcut.
      * intros _. exact Hh.
      * intros E. discriminate E.
Qed.

(* git's early exit of the star loop never changes the answer *)
Lemma dowild_early_all cf pn n d p t : length p < n ->
  B (dowild true cf pn n d p t) (dowild false cf pn n d p t).
Proof. intros Hn. apply R_B. now apply (dowild_RS2 cf pn n d). Qed.

(* ABORT_ALL is sound: no later start of the text can match *)
Lemma abort_all_sound cf pn n d p t : length p < n -> beqb (hd0 p) cSTAR = false ->
  dowild true cf pn n d p t = AbortAll -> forall t', suffix t' t -> dowild true cf pn n d p t' <> Match.
Proof. intros. eapply (dowild_RS2 cf pn n d); eassumption. Qed.
