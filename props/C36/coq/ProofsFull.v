(* C36 — the full statement. *)
From Coq Require Import Lia.
From GixV.Base Require Import Bytes BytesFacts.
From GixV.C36 Require Import Model Spec ProofsBytes ProofsBracket ProofsMain ProofsEarly ProofsTop ProofsAbort ProofsAbort2 ProofsAbort3.

Lemma L_full cf pn p t :
  nul_free p = true -> known_icase cf p = false -> stars p < RECURSION_LIMIT ->
  wildmatch cf pn p t = git_wildmatch cf pn p t.
Proof.
  intros Hn Hk Hs. rewrite L_lockstep by assumption. unfold git_wildmatch. symmetry.
  apply dowild_early_all. lia.
Qed.

Lemma L_early_exit_irrelevant cf pn p t :
  git_wildmatch cf pn p t = res_eqb (dowild false cf pn (S (length p)) (S (S (length p))) p t) Match.
Proof. unfold git_wildmatch. apply dowild_early_all. lia. Qed.

Lemma L_abort_all_sound cf pn p t t' :
  beqb (hd0 p) cSTAR = false ->
  dowild true cf pn (S (length p)) (S (S (length p))) p t = AbortAll -> suffix t' t ->
  dowild true cf pn (S (length p)) (S (S (length p))) p t' <> Match.
Proof. intros Hh H Hs. eapply abort_all_sound; [lia | exact Hh | exact H | exact Hs]. Qed.
