(* C36 — top-level statements about gix_glob::wildmatch and git's wildmatch. *)
From Coq Require Import Lia.
From GixV.Base Require Import Bytes BytesFacts.
From GixV.C36 Require Import Model Spec ProofsBytes ProofsBracket ProofsMain ProofsEarly.

Definition nul_free (p : bytes) : bool := forallb (fun c => negb (beqb c x00)) p.
(* the known deviation: with IGNORE_CASE, a pattern containing an upper-case ASCII letter or a dash *)
Definition known_icase (cf : bool) (p : bytes) : bool :=
  cf && existsb (fun c => is_upper c || beqb c cDASH) p.

Lemma okp_of cf p : nul_free p = true -> known_icase cf p = false -> okp cf p.
Proof.
  unfold nul_free, known_icase, okp. intros Hn Hk.
  apply Forall_forall. intros c Hin.
  rewrite forallb_forall in Hn. specialize (Hn c Hin).
  assert (c <> x00) as Hc0.
  { intros ->. discriminate Hn. }
  destruct cf.
  - cbn [andb] in Hk.
    assert (is_upper c || beqb c cDASH = false) as Hc.
    { destruct (is_upper c || beqb c cDASH) eqn:E; [|reflexivity].
      assert (existsb (fun c => is_upper c || beqb c cDASH) p = true) as X by (apply existsb_exists; eauto).
      congruence. }
    apply Bool.orb_false_iff in Hc. destruct Hc as [Hu Hd].
    repeat split; [|assumption|].
    + unfold lc, to_lower. now rewrite Hu.
    + right. intros ->. discriminate Hd.
  - repeat split; [assumption|now left].
Qed.

Lemma L_lockstep cf pn p t :
  nul_free p = true -> known_icase cf p = false -> stars p < RECURSION_LIMIT ->
  wildmatch cf pn p t = res_eqb (dowild false cf pn (S (length p)) (S (S (length p))) p t) Match.
Proof.
  intros Hn Hk Hs. unfold wildmatch. f_equal.
  apply mr_agree; [now apply okp_of | exact Hs |]. pose proof (stars_le_length p). lia.
Qed.

Lemma L_one_run cf pn p t :
  nul_free p = true -> known_icase cf p = false -> stars p < RECURSION_LIMIT -> one_run p ->
  wildmatch cf pn p t = git_wildmatch cf pn p t.
Proof.
  intros Hn Hk Hs Hone. rewrite L_lockstep by assumption. unfold git_wildmatch. symmetry.
  apply dowild_early; [now apply okp_of | assumption].
Qed.

Lemma L_star_free cf pn p t :
  nul_free p = true -> known_icase cf p = false -> stars p = 0 ->
  wildmatch cf pn p t = git_wildmatch cf pn p t.
Proof.
  intros Hn Hk Hs. apply L_one_run; try assumption.
  - rewrite Hs. unfold RECURSION_LIMIT. lia.
  - now apply stars0_one_run.
Qed.

Lemma L_bracket cf t p1 :
  nul_free p1 = true -> known_icase cf p1 = false -> m_bracket cf t p1 = g_bracket cf t p1.
Proof. intros. apply bracket_agree. now apply okp_of. Qed.

Lemma L_refuted_icase :
  exists p t, nul_free p = true /\ stars p = 0 /\
              wildmatch true false p t = true /\ git_wildmatch true false p t = false.
Proof. exists (bs "[A]"), (bs "a"). vm_compute. repeat split; reflexivity. Qed.

Lemma L_refuted_icase_range :
  exists p t, nul_free p = true /\ stars p = 0 /\
              wildmatch true false p t = false /\ git_wildmatch true false p t = true.
Proof. exists (bs "[@-a]"), (bs "x"). vm_compute. repeat split; reflexivity. Qed.

(* beyond the recursion bound the two differ: 64 nested stars *)
Fixpoint repeat_bytes (n : nat) (l : bytes) : bytes := match n with O => [] | S n' => l ++ repeat_bytes n' l end.
Lemma L_bound_is_tight :
  let p := repeat_bytes 64 (bs "*a") in let t := repeat_bytes 64 (bs "a") in
  stars p = 64 /\ wildmatch false false p t = false /\ git_wildmatch false false p t = true.
Proof. vm_compute. repeat split; reflexivity. Qed.
