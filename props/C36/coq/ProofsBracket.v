(* C36 — bracket expressions: the model's parser and git's agree; the parser returns a suffix. *)
From Coq Require Import Lia.
From GixV.Base Require Import Bytes BytesFacts.
From GixV.C36 Require Import Model Spec ProofsBytes.

(* a pattern byte on which `possibly_lowercase` does nothing, which is not NUL, and which is not a
   dash when case folding is on (the range rules differ there) *)
Definition okb (cf : bool) (c : byte) : Prop := lc cf c = c /\ c <> x00 /\ (cf = false \/ c <> cDASH).
Definition okp (cf : bool) (p : bytes) : Prop := Forall (okb cf) p.

Definition suffix (a b : bytes) : Prop := exists pre, b = pre ++ a.

Lemma suffix_refl a : suffix a a.
Proof. now exists []. Qed.
Lemma suffix_cons a b c : suffix a b -> suffix a (c :: b).
Proof. intros [pre ->]. now exists (c :: pre). Qed.
Lemma suffix_trans a b c : suffix a b -> suffix b c -> suffix a c.
Proof. intros [p1 ->] [p2 ->]. exists (p2 ++ p1). now rewrite app_assoc. Qed.
Lemma suffix_tl a b : suffix a (tl b) -> suffix a b.
Proof. destruct b; [exact (fun H => H)|]. apply suffix_cons. Qed.
Lemma suffix_Forall {P : byte -> Prop} a b : suffix a b -> Forall P b -> Forall P a.
Proof. intros [pre ->] H. apply Forall_app in H. tauto. Qed.

Lemma okp_tl cf q : okp cf q -> okp cf (tl q).
Proof. intros H. destruct q; [exact H|]. now inversion H. Qed.

Lemma scan_rbr_suffix l : forall seg rest, scan_rbr l = Some (seg, rest) -> suffix rest l.
Proof.
  induction l as [|c r IH]; intros seg rest H; cbn [scan_rbr] in H; [discriminate|].
  destruct (beqb c cRBR).
  - inversion H; subst. apply suffix_cons, suffix_refl.
  - destruct (scan_rbr r) as [[s' r']|]; [|discriminate]. inversion H; subst.
    apply suffix_cons. eapply IH. reflexivity.
Qed.

Lemma split_scan cf l : okp cf l -> split_rbr cf l = scan_rbr l.
Proof.
  induction l as [|c r IH]; intros H; [reflexivity|].
  inversion H as [|? ? [Hc _] Hr]; subst. cbn [split_rbr scan_rbr]. rewrite Hc.
  rewrite (IH Hr). reflexivity.
Qed.

Lemma hd0_nul_false cf n q : okp cf (n :: q) -> beqb n x00 = false.
Proof. intros H. inversion H as [|? ? [_ [Hn _]] _]; subst. now apply beqb_neq. Qed.

Lemma step_cond cf k1 k2 m pv q :
  okp cf q -> (forall pv m q, okp cf q -> k1 pv m q = k2 pv m q) -> m_step cf k1 m pv q = g_cond k2 m pv q.
Proof.
  intros H K. unfold m_step, g_cond. destruct q as [|r q'']; [reflexivity|].
  inversion H as [|? ? [Hr _] _]; subst. rewrite Hr. destruct (beqb r cRBR); [reflexivity|]. now apply K.
Qed.

Lemma brk_agree : forall fuel cf t prev m q, okp cf q ->
  m_brk fuel cf t prev m q = g_brk fuel cf t prev m q.
Proof.
  induction fuel as [|fuel IH]; intros cf t prev m q H; [reflexivity|].
  cbn [m_brk g_brk].
  assert (ST : forall m pv q, okp cf q ->
            m_step cf (m_brk fuel cf t) m pv q = g_cond (g_brk fuel cf t) m pv q).
  { intros. apply step_cond; [assumption|]. intros. now apply IH. }
  destruct q as [|c q1]; [reflexivity|].
  inversion H as [|? ? [Hc [Hc0 Hcd]] Hq1]; subst. rewrite Hc.
  destruct (beqb c cBSL) eqn:Ebsl.
  { destruct q1 as [|e q2]; [reflexivity|].
    inversion Hq1 as [|? ? [He _] Hq2]; subst. rewrite He, (beqb_sym e t). now apply ST. }
  (* the dash condition *)
  assert (DC : match q1 with [] => false | n :: _ => negb (beqb (lc cf n) cRBR) end
               = negb (beqb (hd0 q1) x00) && negb (beqb (hd0 q1) cRBR)).
  { destruct q1 as [|n q2]; [reflexivity|]. cbn [hd0].
    rewrite (hd0_nul_false cf n q2 Hq1). inversion Hq1 as [|? ? [Hn _] _]; subst. now rewrite Hn. }
  rewrite DC. rewrite <- !Bool.andb_assoc.
  destruct (beqb c cDASH && (negb (beqb prev x00) && (negb (beqb (hd0 q1) x00) && negb (beqb (hd0 q1) cRBR)))) eqn:Edash.
  { apply Bool.andb_true_iff in Edash. destruct Edash as [Ed _]. apply beqb_eq in Ed.
    destruct Hcd as [-> | Hcd]; [|contradiction].
    destruct q1 as [|e q2]; [reflexivity|].
    inversion Hq1 as [|? ? _ Hq2]; subst. cbn [lc].
    destruct (beqb e cBSL).
    - destruct q2 as [|e2 q3]; [reflexivity|]. inversion Hq2; subst. now apply ST.
    - now apply ST. }
  assert (CC : match q1 with n :: _ => beqb (lc cf n) cCOLON | [] => false end = beqb (hd0 q1) cCOLON).
  { destruct q1 as [|n q2]; [reflexivity|]. inversion Hq1 as [|? ? [Hn _] _]; subst. now rewrite Hn. }
  rewrite CC.
  destruct (beqb c cLBR && beqb (hd0 q1) cCOLON).
  { rewrite (split_scan cf (tl q1) (okp_tl cf q1 Hq1)).
    destruct (scan_rbr (tl q1)) as [[seg q3]|] eqn:Escan; [|reflexivity].
    destruct (match seg with [] => true | _ :: _ => negb (beqb (last_byte seg) cCOLON) end).
    - now apply ST.
    - rewrite class_agree. destruct (g_class cf (removelast seg) t); [|reflexivity].
      apply ST. eapply suffix_Forall; [|exact Hq1]. apply suffix_tl. eapply scan_rbr_suffix. exact Escan. }
  rewrite (beqb_sym c t). now apply ST.
Qed.

Lemma bracket_agree cf t p1 : okp cf p1 -> m_bracket cf t p1 = g_bracket cf t p1.
Proof.
  intros H. unfold m_bracket, g_bracket. destruct p1 as [|c p2]; [reflexivity|].
  inversion H as [|? ? [Hc _] Hp2]; subst. rewrite Hc.
  rewrite brk_agree; [reflexivity|]. destruct (beqb c cCARET || beqb c cBANG); assumption.
Qed.

(* ---- what is left after a bracket expression is a suffix of what was there ---- *)
Lemma cond_suffix k m pv q m' rest :
  (forall pv m q m' rest, k pv m q = Some (m', rest) -> suffix rest q) ->
  g_cond k m pv q = Some (m', rest) -> suffix rest q.
Proof.
  intros K H. unfold g_cond in H. destruct q as [|r q'']; [discriminate|].
  destruct (beqb r cRBR).
  - inversion H; subst. apply suffix_cons, suffix_refl.
  - eapply K. exact H.
Qed.

Lemma brk_suffix : forall fuel cf t prev m q m' rest,
  g_brk fuel cf t prev m q = Some (m', rest) -> suffix rest q.
Proof.
  induction fuel as [|fuel IH]; intros cf t prev m q m' rest H; [discriminate|].
  cbn [g_brk] in H.
  assert (CS : forall m pv q m' rest, g_cond (g_brk fuel cf t) m pv q = Some (m', rest) -> suffix rest q).
  { intros. eapply cond_suffix; [|eassumption]. intros. eapply IH. eassumption. }
  destruct q as [|c q1]; [discriminate|].
  destruct (beqb c cBSL).
  { destruct q1 as [|e q2]; [discriminate|]. apply CS in H. now do 2 apply suffix_cons. }
  destruct (beqb c cDASH && negb (beqb prev x00) && negb (beqb (hd0 q1) x00) && negb (beqb (hd0 q1) cRBR)).
  { destruct q1 as [|e q2]; [discriminate|]. destruct (beqb e cBSL).
    - destruct q2 as [|e2 q3]; [discriminate|]. apply CS in H. now do 3 apply suffix_cons.
    - apply CS in H. now do 2 apply suffix_cons. }
  destruct (beqb c cLBR && beqb (hd0 q1) cCOLON).
  { destruct (scan_rbr (tl q1)) as [[seg q3]|] eqn:Escan; [|discriminate].
    destruct (match seg with [] => true | _ :: _ => negb (beqb (last_byte seg) cCOLON) end).
    - apply CS in H. now apply suffix_cons.
    - destruct (g_class cf (removelast seg) t); [|discriminate]. apply CS in H.
      apply suffix_cons. eapply suffix_trans; [exact H|]. apply suffix_tl. eapply scan_rbr_suffix. exact Escan. }
  apply CS in H. now apply suffix_cons.
Qed.

Lemma bracket_suffix cf t p1 ok rest : g_bracket cf t p1 = Some (ok, rest) -> suffix rest p1.
Proof.
  unfold g_bracket. destruct p1 as [|c p2]; [discriminate|].
  destruct (g_brk _ cf t x00 false _) as [[m r]|] eqn:E; [|discriminate].
  intros H. inversion H; subst. apply brk_suffix in E.
  destruct (beqb c cCARET || beqb c cBANG); [now apply suffix_cons | exact E].
Qed.
