From GixV.Base Require Import Bytes BytesFacts Outcome.
From GixV.C36 Require Import Model Spec.
Example placeholder : wildmatch false false (bs "a*") (bs "abc") = true.
Proof. vm_compute. reflexivity. Qed.
