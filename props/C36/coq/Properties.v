(* C36 — Wildcard matching agrees with git's wildmatch.
   Only statements here; every proof is [exact <lemma of Proofs*.v>].
   Model.v:  [wildmatch cf pn p t] = gix_glob::wildmatch(p, t, mode) with cf = IGNORE_CASE and
             pn = NO_MATCH_SLASH_LITERAL (match_recursive with its recursion limit of 64),
             [m_bracket]/[m_class] its bracket-expression parser and POSIX class table.
   Spec.v:   [git_wildmatch cf pn p t] = git 2.39.5 wildmatch(p, t, flags) with cf = WM_CASEFOLD and
             pn = WM_PATHNAME ([dowild true]); [dowild false] is dowild without the statement
             `if (t_ch == '\0') break;` at the top of the star loop; [g_bracket]/[g_class] are the
             '[' case and the class tests over git's sane_ctype table.
   [nul_free p]: no NUL byte (C strings cannot hold one).  [stars p]: number of '*' bytes.
   [known_icase cf p]: case folding is on and the pattern has an upper-case ASCII letter or a '-'
   (the known deviation, findings.txt).  [one_run p]: all '*' of the pattern are adjacent. *)
From Coq Require Import Lia.
From GixV.Base Require Import Bytes BytesFacts Outcome.
From GixV.C36 Require Import Model Spec ProofsBytes ProofsBracket ProofsMain ProofsEarly ProofsTop ProofsShortcut ProofsAbort ProofsAbort3 ProofsFull.

(* The full statement of the property (proved below: wildmatch_is_git). *)
Definition wildmatch_is_git_full_statement : Prop :=
  forall cf pn p t, nul_free p = true -> known_icase cf p = false -> stars p < RECURSION_LIMIT ->
    wildmatch cf pn p t = git_wildmatch cf pn p t.

(* every POSIX class name selects the same bytes as in git, with and without case folding;
   unknown names abort on both sides *)
Theorem posix_classes_are_gits : forall cf name t, m_class cf name t = g_class cf name t.
Proof. exact class_agree. Qed.

(* the byte-level ingredients: the case folding of both sides, the glob specials *)
Theorem case_folding_is_gits : forall cf c, lc cf c = fold cf c.
Proof. exact lc_fold. Qed.
Theorem glob_specials_are_gits : forall c, glob_char c = g_is_glob_special c.
Proof. exact glob_char_spec. Qed.

(* a bracket expression (negation, ranges, escapes, classes, the `[` / `[:` fallbacks, unterminated
   forms) is parsed and decided exactly as git does, for every text byte *)
Theorem bracket_expressions_are_gits : forall cf t p1,
  nul_free p1 = true -> known_icase cf p1 = false -> m_bracket cf t p1 = g_bracket cf t p1.
Proof. exact L_bracket. Qed.

(* for every pattern within the recursion bound and outside the known class, gix's matcher returns
   what git's dowild returns when its star loop does not stop early at the end of the text *)
Theorem wildmatch_is_git_modulo_early_exit_partial : forall cf pn p t,
  nul_free p = true -> known_icase cf p = false -> stars p < RECURSION_LIMIT ->
  wildmatch cf pn p t = res_eqb (dowild false cf pn (S (length p)) (S (S (length p))) p t) Match.
Proof. exact L_lockstep. Qed.

(* THE PROPERTY: for every NUL-free pattern with fewer than 64 stars outside the known case-folding
   class, every text and all four flag combinations, gix's matcher returns what git's wildmatch returns *)
Theorem wildmatch_is_git : wildmatch_is_git_full_statement.
Proof. exact L_full. Qed.

(* the two facts about git's own algorithm that close the gap between the lock-step theorem and the
   full one: ABORT_ALL is sound (when dowild aborts on a text, no later start of that text matches;
   [suffix t' t]: t = pre ++ t'), hence dropping the early exit of the star loop never changes
   git's answer.  Both hold for every pattern and text, with and without WM_PATHNAME / WM_CASEFOLD. *)
Theorem git_abort_all_is_sound : forall cf pn p t t',
  beqb (hd0 p) cSTAR = false ->
  dowild true cf pn (S (length p)) (S (S (length p))) p t = AbortAll -> suffix t' t ->
  dowild true cf pn (S (length p)) (S (S (length p))) p t' <> Match.
Proof. exact L_abort_all_sound. Qed.
Theorem git_early_exit_is_irrelevant : forall cf pn p t,
  git_wildmatch cf pn p t = res_eqb (dowild false cf pn (S (length p)) (S (S (length p))) p t) Match.
Proof. exact L_early_exit_irrelevant. Qed.

(* full agreement with git for patterns whose stars are adjacent (`*.c`, `foo*bar`, `a/**/b`, …) *)
Theorem wildmatch_is_git_one_star_run : forall cf pn p t,
  nul_free p = true -> known_icase cf p = false -> stars p < RECURSION_LIMIT -> one_run p ->
  wildmatch cf pn p t = git_wildmatch cf pn p t.
Proof. exact L_one_run. Qed.

(* full agreement with git for star-free patterns: literals, `?`, `\c`, bracket expressions *)
Theorem wildmatch_is_git_star_free : forall cf pn p t,
  nul_free p = true -> known_icase cf p = false -> stars p = 0 ->
  wildmatch cf pn p t = git_wildmatch cf pn p t.
Proof. exact L_star_free. Qed.

(* Pattern::matches: the parser stores the first wildcard position of the text it returns; without a
   wildcard the comparison shortcut is what wildmatch computes; with one, outside the `*literal`
   shortcut, the literal-prefix test never changes the answer of wildmatch.  (The `*literal` suffix
   shortcut is tested only.) *)
Theorem parsed_pattern_wildcard_pos : forall pat pt,
  parse_pattern pat = Some pt -> pfwp pt = first_wildcard_pos (ptext pt).
Proof. exact parse_fwp. Qed.
Theorem matches_shortcut_no_wildcard : forall pt cf pn value,
  pfwp pt = first_wildcard_pos (ptext pt) -> pfwp pt = None ->
  pattern_matches pt cf pn value = wildmatch cf pn (ptext pt) value.
Proof. exact L_no_wildcard. Qed.
Theorem matches_shortcut_literal_prefix : forall pt cf pn value pos,
  pfwp pt = first_wildcard_pos (ptext pt) -> pfwp pt = Some pos ->
  has_flag (pmode pt) ENDS_WITH && (negb pn || negb (has_slash value)) = false ->
  pattern_matches pt cf pn value = wildmatch cf pn (ptext pt) value.
Proof. exact L_prefix_shortcut. Qed.

(* the known deviation is real: with case folding, `[A]` matches `a` in gix only, `[@-a]` matches
   `x` in git only *)
Theorem wildmatch_is_git_refuted_icase : exists p t, nul_free p = true /\ stars p = 0 /\
  wildmatch true false p t = true /\ git_wildmatch true false p t = false.
Proof. exact L_refuted_icase. Qed.
Theorem wildmatch_is_git_refuted_icase_range : exists p t, nul_free p = true /\ stars p = 0 /\
  wildmatch true false p t = false /\ git_wildmatch true false p t = true.
Proof. exact L_refuted_icase_range. Qed.

(* the recursion bound in the statement is needed: 64 nested stars match in git, not in gix *)
Theorem recursion_bound_is_tight :
  let p := repeat_bytes 64 (bs "*a") in let t := repeat_bytes 64 (bs "a") in
  stars p = 64 /\ wildmatch false false p t = false /\ git_wildmatch false false p t = true.
Proof. exact L_bound_is_tight. Qed.

(* non-vacuity *)
Example hyps_satisfiable_fold :
  let p := bs "a/**/[b-d]*.[ch]" in
  nul_free p = true /\ known_icase false p = false /\ stars p < RECURSION_LIMIT.
Proof. vm_compute. repeat split; lia. Qed.
Example hyps_satisfiable_one_run :
  let p := bs "src/**/[[:alpha:]_]?.rs" in
  nul_free p = true /\ known_icase true p = false /\ stars p < RECURSION_LIMIT /\ one_run p /\
  wildmatch true true p (bs "SRC/x/y/ab.RS") = true /\ git_wildmatch true true p (bs "SRC/x/y/ab.RS") = true.
Proof. vm_compute. repeat split; lia. Qed.
Example shortcut_hyps_satisfiable :
  exists pt, parse_pattern (bs "/src/a?c") = Some pt /\ pfwp pt = Some 5 /\
             has_flag (pmode pt) ENDS_WITH && (negb true || negb (has_slash (bs "src/abc"))) = false /\
             pattern_matches pt false true (bs "src/abc") = true.
Proof. exists {| ptext := bs "src/a?c"; pmode := 16%N; pfwp := Some 5%nat |}. vm_compute. repeat split; reflexivity. Qed.
Example abort_hyps_satisfiable :
  let p := bs "?*b?" in let t := bs "xxb" in
  beqb (hd0 p) cSTAR = false /\ dowild true false true (S (length p)) (S (S (length p))) p t = AbortAll /\
  suffix (bs "xb") t.
Proof. cbv zeta. split; [vm_compute; reflexivity|]. split; [vm_compute; reflexivity|]. exists (bs "x"). reflexivity. Qed.
Example full_theorem_example :
  let p := bs "**/*.[ch]" in
  nul_free p = true /\ known_icase true p = false /\ stars p < RECURSION_LIMIT /\
  wildmatch true true p (bs "src/A/main.C") = true /\ git_wildmatch true true p (bs "src/A/main.C") = true.
Proof. vm_compute. repeat split; lia. Qed.
Example star_free_example :
  wildmatch false true (bs "[[:digit:]]?\*[!a-c]") (bs "7x*d") = true /\
  git_wildmatch false true (bs "[[:digit:]]?\*[!a-c]") (bs "7x*d") = true.
Proof. vm_compute. split; reflexivity. Qed.
