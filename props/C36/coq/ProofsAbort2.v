(* C36 — abort soundness lifted to the main loop and to dowild (no `**/` shortcut in play). *)
From Coq Require Import Lia.
From GixV.Base Require Import Bytes BytesFacts.
From GixV.C36 Require Import Model Spec ProofsBytes ProofsBracket ProofsMain ProofsEarly ProofsAbort.

Inductive stepR : step -> step -> Prop :=
| sr_done r1 r2 : R r1 r2 -> stepR (Done r1) (Done r2)
| sr_cont pv p t : stepR (Cont pv p t) (Cont pv p t).

Section Level.
  Variables (recT recF : bytes -> bytes -> res) (cf pn : bool).
  Hypothesis HA : forall p t, noshort pn p -> R (recT p t) (recF p t).
  Hypothesis HS : forall p t, noshort pn p -> recT p t = AbortAll ->
                  forall t', suffix t' t -> recT p t' <> Match.
  Hypothesis HEF : forall c r, beqb c cSTAR = false -> recF (c :: r) [] <> Match.

  Lemma go_R t ms nx : noshort pn nx -> (forall c r, nx = c :: r -> beqb c cSTAR = false) ->
    stepR (g_go true recT cf t ms nx) (g_go false recF cf t ms nx).
  Proof.
    intros Hn Hh. destruct nx as [|c r]; cbn [g_go]; [constructor; apply R_refl|].
    destruct (negb ms && beqb c cSLASH).
    { destruct (after_slash t); constructor. apply R_refl. }
    constructor. destruct t as [|c0 rest]; cbn [g_star_loop].
    - right. split; [reflexivity|].
      destruct (negb (g_is_glob_special c) && negb (beqb x00 (fold cf c))); [discriminate|].
      apply g_after_nm; [|discriminate]. apply HEF. now apply (Hh c r).
    - apply loop_R; [intros s; now apply HA | intros s; now apply HS].
  Qed.

  Lemma main_R : forall f prev p t, noshort pn p ->
    R (g_main true recT cf pn f prev p t) (g_main false recF cf pn f prev p t).
  Proof.
    induction f as [|f IH]; intros prev p t Hn; [apply R_refl|].
    cbn [g_main]. destruct p as [|praw p1]; [apply R_refl|].
    assert (Hn1 : noshort pn p1) by (eapply noshort_suffix; [apply suffix_cons, suffix_refl | exact Hn]).
    assert (Hstar : beqb praw cSTAR = true ->
      R match g_star true recT cf pn prev p1 t with Done r => r | Cont pv p' t' => g_main true recT cf pn f pv p' t' end
        match g_star false recF cf pn prev p1 t with Done r => r | Cont pv p' t' => g_main false recF cf pn f pv p' t' end).
    { intros Es. rewrite !(star_go _ _ cf pn prev praw p1 t Es Hn).
      assert (Hnx : noshort pn (star_nx p1)) by (eapply noshort_suffix; [apply star_nx_suffix | exact Hn1]).
      pose proof (go_R t (star_ms pn p1) (star_nx p1) Hnx (star_nx_head p1)) as SR.
      destruct (g_go true recT cf t (star_ms pn p1) (star_nx p1)) as [r1|pv1 p1' t1'] eqn:E1;
        destruct (g_go false recF cf t (star_ms pn p1) (star_nx p1)) as [r2|pv2 p2' t2'] eqn:E2;
        inversion SR; subst; [assumption|].
      apply go_cont_suffix in E2. apply IH. eapply noshort_suffix; eassumption. }
    assert (Efold : beqb (fold cf praw) cSTAR = beqb praw cSTAR) by apply (fold_special cf praw cSTAR eq_refl).
    destruct t as [|traw t1].
    { destruct (beqb praw cSTAR) eqn:Es; [now apply Hstar | apply R_refl]. }
    destruct (beqb (fold cf praw) cBSL).
    { destruct p1 as [|e p2]; [apply R_refl|]. destruct (beqb (fold cf traw) e); [|apply R_refl].
      apply IH. eapply noshort_suffix; [apply suffix_cons, suffix_refl | exact Hn1]. }
    destruct (beqb (fold cf praw) cQM).
    { destruct (pn && beqb (fold cf traw) cSLASH); [apply R_refl|]. now apply IH. }
    rewrite Efold. destruct (beqb praw cSTAR) eqn:Es; [now apply Hstar|].
    destruct (beqb (fold cf praw) cLBR).
    { destruct (g_bracket cf (fold cf traw) p1) as [[ok p']|] eqn:Eb; [|apply R_refl].
      destruct (negb ok || (pn && beqb (fold cf traw) cSLASH)); [apply R_refl|].
      apply bracket_suffix in Eb. apply IH. eapply noshort_suffix; eassumption. }
    destruct (beqb (fold cf traw) (fold cf praw)); [|apply R_refl]. now apply IH.
  Qed.

  Lemma main_S : forall f prev p t, noshort pn p ->
    g_main true recT cf pn f prev p t = AbortAll ->
    forall t', suffix t' t -> g_main true recT cf pn f prev p t' <> Match.
  Proof.
    induction f as [|f IH]; intros prev p t Hn H t' Hsuf; [discriminate H|].
    destruct t as [|x t1].
    { apply suffix_nil in Hsuf. subst t'. rewrite H. discriminate. }
    apply suffix_inv in Hsuf. destruct Hsuf as [->|Hsuf]; [rewrite H; discriminate|].
    destruct p as [|praw p1]; [discriminate H|].
    assert (Hn1 : noshort pn p1) by (eapply noshort_suffix; [apply suffix_cons, suffix_refl | exact Hn]).
    cbn [g_main] in H. cbn [g_main].
    assert (Efold : beqb (fold cf praw) cSTAR = beqb praw cSTAR) by apply (fold_special cf praw cSTAR eq_refl).
    (* the star case, for any text *)
    assert (Hstar : beqb praw cSTAR = true ->
      match g_star true recT cf pn prev p1 (x :: t1) with Done r => r | Cont pv p' t'' => g_main true recT cf pn f pv p' t'' end = AbortAll ->
      match g_star true recT cf pn prev p1 t' with Done r => r | Cont pv p' t'' => g_main true recT cf pn f pv p' t'' end <> Match).
    { intros Es. rewrite !(star_go _ _ cf pn prev praw p1 _ Es Hn).
      assert (Hnx : noshort pn (star_nx p1)) by (eapply noshort_suffix; [apply star_nx_suffix | exact Hn1]).
      set (ms := star_ms pn p1). destruct (star_nx p1) as [|c r] eqn:Enx; cbn [g_go].
      { destruct (negb ms && has_slash (x :: t1)); discriminate. }
      destruct (negb ms && beqb c cSLASH).
      { destruct (after_slash (x :: t1)) as [t''|] eqn:Ea; [|discriminate]. intros HA1.
        destruct (after_slash t') as [s''|] eqn:Ea2; [|discriminate].
        apply (IH (Some c) r t''); [eapply noshort_suffix; [apply suffix_cons, suffix_refl | exact Hnx] | exact HA1 |].
        eapply after_slash_suffix; [|exact Ea|exact Ea2]. now apply suffix_cons. }
      cbn [g_star_loop]. intros HA1.
      destruct t' as [|y s]; [discriminate|].
      eapply loop_S; [| exact HA1 | now apply suffix_cons].
      intros s0. now apply HS. }
    destruct t' as [|y s].
    { destruct (beqb praw cSTAR) eqn:Es; [|discriminate].
      rewrite Efold in H. destruct (beqb (fold cf praw) cBSL) eqn:E1.
      { rewrite (fold_special cf praw cBSL eq_refl) in E1. apply beqb_eq in E1, Es. subst praw. discriminate Es. }
      destruct (beqb (fold cf praw) cQM) eqn:E2.
      { rewrite (fold_special cf praw cQM eq_refl) in E2. apply beqb_eq in E2, Es. subst praw. discriminate Es. }
      now apply Hstar. }
    assert (Hs1 : suffix s t1) by (eapply suffix_cons_inv; exact Hsuf).
    destruct (beqb (fold cf praw) cBSL).
    { destruct p1 as [|e p2]; [discriminate|].
      destruct (beqb (fold cf x) e); [|discriminate H]. destruct (beqb (fold cf y) e); [|discriminate].
      apply (IH (Some e) p2 t1); [eapply noshort_suffix; [apply suffix_cons, suffix_refl | exact Hn1] | exact H | exact Hs1]. }
    destruct (beqb (fold cf praw) cQM).
    { destruct (pn && beqb (fold cf x) cSLASH); [discriminate H|].
      destruct (pn && beqb (fold cf y) cSLASH); [discriminate|]. now apply (IH (Some praw) p1 t1). }
    rewrite Efold in *. destruct (beqb praw cSTAR) eqn:Es; [now apply Hstar|].
    destruct (beqb (fold cf praw) cLBR).
    { pose proof (bracket_shape cf (fold cf x) (fold cf y) p1) as BS.
      destruct (g_bracket cf (fold cf x) p1) as [[ok p']|] eqn:Eb.
      - destruct BS as [ok' ->].
        destruct (negb ok || (pn && beqb (fold cf x) cSLASH)); [discriminate H|].
        destruct (negb ok' || (pn && beqb (fold cf y) cSLASH)); [discriminate|].
        apply bracket_suffix in Eb. apply (IH (Some cRBR) p' t1); [eapply noshort_suffix; eassumption | exact H | exact Hs1].
      - rewrite BS. discriminate. }
    destruct (beqb (fold cf x) (fold cf praw)); [|discriminate H].
    destruct (beqb (fold cf y) (fold cf praw)); [|discriminate]. now apply (IH (Some praw) p1 t1).
  Qed.
End Level.

Lemma dowild_RS cf pn n : forall d,
  (forall p t, noshort pn p -> R (dowild true cf pn n d p t) (dowild false cf pn n d p t)) /\
  (forall p t, noshort pn p -> dowild true cf pn n d p t = AbortAll ->
     forall t', suffix t' t -> dowild true cf pn n d p t' <> Match).
Proof.
  induction d as [|d [IHA IHS]].
  - split; [intros; apply R_refl | intros p t _ H; discriminate H].
  - split.
    + intros p t Hn. cbn [dowild]. apply main_R; try assumption.
      intros c r Hc. now apply dowild_nonstar_empty.
    + intros p t Hn H t' Hs. cbn [dowild] in *. eapply main_S; eassumption.
Qed.

Lemma dowild_early_noshort cf pn n d p t : noshort pn p ->
  B (dowild true cf pn n d p t) (dowild false cf pn n d p t).
Proof. intros Hn. apply R_B. now apply (dowild_RS cf pn n d). Qed.
