(* C36 — soundness of git's ABORT_ALL where the `**/` shortcut is not in play: when dowild returns
   ABORT_ALL for (p, t) it returns no MATCH for (p, t') with t' a suffix of t.  Consequence: the early
   exit of the star loop does not change the boolean answer, for every pattern when WM_PATHNAME is
   off, and for patterns without two adjacent stars when it is on. *)
From Coq Require Import Lia.
From GixV.Base Require Import Bytes BytesFacts.
From GixV.C36 Require Import Model Spec ProofsBytes ProofsBracket ProofsMain ProofsEarly.

(* [s] is git's result, [m] the result without the early exit *)
Definition R (s m : res) : Prop := s = m \/ (s = AbortAll /\ m <> Match).
Lemma R_refl r : R r r. Proof. now left. Qed.
Lemma R_B s m : R s m -> B s m.
Proof. intros [->|[-> H]]; [reflexivity|]. unfold B. destruct m; try reflexivity. contradiction. Qed.

(* no two adjacent stars *)
Fixpoint nas (p : bytes) : bool :=
  match p with
  | c :: r => match r with d :: _ => negb (beqb c cSTAR && beqb d cSTAR) | [] => true end && nas r
  | [] => true
  end.
Definition noshort (pn : bool) (p : bytes) : Prop := pn = false \/ nas p = true.

Lemma nas_tail c r : nas (c :: r) = true -> nas r = true.
Proof. cbn [nas]. intros H. apply Bool.andb_true_iff in H. tauto. Qed.
Lemma noshort_suffix pn a b : suffix a b -> noshort pn b -> noshort pn a.
Proof.
  intros [pre ->] [H|H]; [now left|]. right. induction pre as [|c pre IH]; [exact H|].
  apply IH. eapply nas_tail. exact H.
Qed.

(* ---- suffixes of the text ---- *)
Lemma suffix_nil a : suffix a [] -> a = [].
Proof. intros [pre H]. symmetry in H. apply app_eq_nil in H. tauto. Qed.
Lemma suffix_inv a x b : suffix a (x :: b) -> a = x :: b \/ suffix a b.
Proof.
  intros [pre H]. destruct pre as [|y pre]; [left; now symmetry|].
  right. cbn [app] in H. inversion H; subst. now exists pre.
Qed.
Lemma suffix_cons_inv y s t : suffix (y :: s) t -> suffix s t.
Proof. intros [pre ->]. exists (pre ++ [y]). now rewrite <- app_assoc. Qed.

Lemma after_slash_suffix : forall t s t'' s'', suffix s t ->
  after_slash t = Some t'' -> after_slash s = Some s'' -> suffix s'' t''.
Proof.
  induction t as [|x t1 IH]; intros s t'' s'' Hs Ht Hs2; [discriminate|].
  apply suffix_inv in Hs. destruct Hs as [->|Hs].
  - rewrite Ht in Hs2. inversion Hs2; subst. apply suffix_refl.
  - cbn [after_slash] in Ht. destruct (beqb x cSLASH).
    + inversion Ht; subst. clear IH Ht. revert s'' Hs Hs2.
      induction s as [|y s IHs]; intros s'' Hs Hs2; [discriminate|].
      cbn [after_slash] in Hs2. destruct (beqb y cSLASH).
      * inversion Hs2; subst. eapply suffix_cons_inv. exact Hs.
      * apply IHs; [eapply suffix_cons_inv; exact Hs | exact Hs2].
    + eapply IH; eassumption.
Qed.

(* ---- the rest of the pattern after a bracket expression does not depend on the text byte ---- *)
Lemma class_shape cf name t t' :
  (g_class cf name t = None /\ g_class cf name t' = None) \/
  (exists h h', g_class cf name t = Some h /\ g_class cf name t' = Some h').
Proof.
  unfold g_class.
  repeat match goal with |- context [bytes_eqb name ?x] => destruct (bytes_eqb name x); [right; eauto|] end.
  now left.
Qed.

Definition shape (o : option (bool * bytes)) : option bytes := option_map snd o.

Lemma cond_shape k1 k2 m m' pv q :
  (forall pv m m' q, shape (k1 pv m q) = shape (k2 pv m' q)) ->
  shape (g_cond k1 m pv q) = shape (g_cond k2 m' pv q).
Proof.
  intros K. unfold g_cond. destruct q as [|r q'']; [reflexivity|]. destruct (beqb r cRBR); [reflexivity|]. apply K.
Qed.

Lemma brk_shape : forall fuel cf t t' prev m m' q,
  shape (g_brk fuel cf t prev m q) = shape (g_brk fuel cf t' prev m' q).
Proof.
  induction fuel as [|fuel IH]; intros cf t t' prev m m' q; [reflexivity|].
  cbn [g_brk].
  assert (CS : forall m m' pv q, shape (g_cond (g_brk fuel cf t) m pv q) = shape (g_cond (g_brk fuel cf t') m' pv q)).
  { intros. apply cond_shape. intros. apply IH. }
  destruct q as [|c q1]; [reflexivity|].
  destruct (beqb c cBSL).
  { destruct q1 as [|e q2]; [reflexivity|]. apply CS. }
  destruct (beqb c cDASH && negb (beqb prev x00) && negb (beqb (hd0 q1) x00) && negb (beqb (hd0 q1) cRBR)).
  { destruct q1 as [|e q2]; [reflexivity|]. destruct (beqb e cBSL).
    - destruct q2 as [|e2 q3]; [reflexivity|]. apply CS.
    - apply CS. }
  destruct (beqb c cLBR && beqb (hd0 q1) cCOLON).
  { destruct (scan_rbr (tl q1)) as [[seg q3]|]; [|reflexivity].
    destruct (match seg with [] => true | _ :: _ => negb (beqb (last_byte seg) cCOLON) end).
    - apply CS.
    - destruct (class_shape cf (removelast seg) t t') as [[-> ->]|(h & h' & -> & ->)]; [reflexivity|]. apply CS. }
  apply CS.
Qed.

Lemma bracket_shape cf t t' p1 :
  match g_bracket cf t p1 with
  | None => g_bracket cf t' p1 = None
  | Some (_, rest) => exists ok', g_bracket cf t' p1 = Some (ok', rest)
  end.
Proof.
  unfold g_bracket. destruct p1 as [|c p2]; [reflexivity|]. cbv zeta.
  match goal with |- context [g_brk ?f cf t x00 false ?q] =>
    pose proof (brk_shape f cf t t' x00 false false q) as H; unfold shape in H;
    destruct (g_brk f cf t x00 false q) as [[m r]|]; destruct (g_brk f cf t' x00 false q) as [[m2 r2]|]
  end;
    cbn [option_map snd] in H; try discriminate H.
  - inversion H; subst. cbv beta iota zeta. eexists. reflexivity.
  - cbv beta iota zeta. reflexivity.
Qed.

(* ---- without the `**/` shortcut the star case is [g_go] ---- *)
Lemma skip_stars_head l c r : skip_stars l = c :: r -> beqb c cSTAR = false.
Proof.
  induction l as [|x l IH]; cbn [skip_stars]; [discriminate|].
  destruct (beqb x cSTAR) eqn:E; [exact IH|]. intros H. inversion H; subst. exact E.
Qed.

Definition star_ms (pn : bool) (p1 : bytes) : bool := if beqb (hd0 p1) cSTAR then true else negb pn.
Definition star_nx (p1 : bytes) : bytes := if beqb (hd0 p1) cSTAR then skip_stars p1 else p1.

Lemma star_go e rec cf pn prev praw p1 t :
  beqb praw cSTAR = true -> noshort pn (praw :: p1) ->
  g_star e rec cf pn prev p1 t = g_go e rec cf t (star_ms pn p1) (star_nx p1).
Proof.
  intros Es Hn. unfold g_star, star_ms, star_nx. destruct (beqb (hd0 p1) cSTAR) eqn:Eh; [|reflexivity].
  destruct Hn as [->|Hn]; [reflexivity|].
  destruct p1 as [|d p2]; [discriminate Eh|]. cbn [hd0] in Eh. cbn [nas] in Hn. rewrite Es, Eh in Hn. discriminate Hn.
Qed.

Lemma star_nx_suffix p1 : suffix (star_nx p1) p1.
Proof. unfold star_nx. destruct (beqb (hd0 p1) cSTAR); [apply skip_stars_suffix | apply suffix_refl]. Qed.
Lemma star_nx_head p1 c r : star_nx p1 = c :: r -> beqb c cSTAR = false.
Proof.
  unfold star_nx. destruct (beqb (hd0 p1) cSTAR) eqn:E; [apply skip_stars_head|].
  intros ->. exact E.
Qed.

(* ---- the star loop ---- *)
Lemma g_after_nm ms t r next : r <> Match -> next tt <> Match -> g_after ms t r next <> Match.
Proof.
  intros Hr Hn. unfold g_after. destruct (negb (res_eqb r NoMatch)).
  - destruct (negb ms || negb (res_eqb r AbortToStarStar)); assumption.
  - destruct (negb ms && beqb t cSLASH); [discriminate | assumption].
Qed.

Lemma g_after_cases ms t r next :
  g_after ms t r next = r \/ g_after ms t r next = AbortToStarStar \/ g_after ms t r next = next tt.
Proof.
  unfold g_after. destruct (negb (res_eqb r NoMatch)).
  - destruct (negb ms || negb (res_eqb r AbortToStarStar)); tauto.
  - destruct (negb ms && beqb t cSLASH); tauto.
Qed.

Lemma g_after_abort ms t next : g_after ms t AbortAll next = AbortAll.
Proof. unfold g_after. cbn [res_eqb negb]. now rewrite Bool.orb_true_r. Qed.

Section Loop.
  Variables (cf ms : bool) (pc : byte).

  (* no suffix matches: the loop does not match *)
  Lemma loop_nm (r : bytes -> res) : forall rest c,
    (forall s, suffix s (c :: rest) -> r s <> Match) -> g_star_ne cf ms pc r c rest <> Match.
  Proof.
    induction rest as [|c1 rest1 IH]; intros c H; cbn [g_star_ne].
    - assert (H0 : r [c] <> Match) by (apply H, suffix_refl).
      destruct (negb (g_is_glob_special pc)); [|apply g_after_nm; [assumption|discriminate]].
      destruct (ms || negb (beqb c cSLASH)).
      + destruct (beqb _ _); [apply g_after_nm; [assumption|discriminate] | discriminate].
      + destruct (beqb _ _); [apply g_after_nm; [assumption|discriminate] | discriminate].
    - assert (H0 : r (c :: c1 :: rest1) <> Match) by (apply H, suffix_refl).
      assert (H1 : g_star_ne cf ms pc r c1 rest1 <> Match).
      { apply IH. intros s Hs. apply H. now apply suffix_cons. }
      destruct (negb (g_is_glob_special pc)); [|now apply g_after_nm].
      destruct (ms || negb (beqb c cSLASH)).
      + destruct (beqb _ _); [now apply g_after_nm | assumption].
      + destruct (beqb _ _); [now apply g_after_nm | discriminate].
  Qed.

  Variables (rT rF : bytes -> res).
  Hypothesis Ha : forall s, R (rT s) (rF s).
  Hypothesis Hs : forall s, rT s = AbortAll -> forall s', suffix s' s -> rT s' <> Match.

  Lemma rF_nm s : rT s = AbortAll -> forall s', suffix s' s -> rF s' <> Match.
  Proof.
    intros H s' Hs' HM. destruct (Ha s') as [E|[E _]].
    - rewrite HM in E. exact (Hs s H s' Hs' E).
    - apply (Hs s H s' Hs'). destruct (Ha s') as [E2|[_ E2]]; [|now rewrite HM in E2]. congruence.
  Qed.

  (* one evaluation of the loop body: related results, given related continuations *)
  Lemma after_R t s nT nF :
    R (nT tt) (nF tt) -> (rT s = AbortAll -> nF tt <> Match) ->
    R (g_after ms t (rT s) nT) (g_after ms t (rF s) nF).
  Proof.
    intros Hn Hab. destruct (Ha s) as [E|[E Hnm]].
    - rewrite <- E. unfold g_after. destruct (negb (res_eqb (rT s) NoMatch)).
      + destruct (negb ms || negb (res_eqb (rT s) AbortToStarStar)); [apply R_refl | exact Hn].
      + destruct (negb ms && beqb t cSLASH); [apply R_refl | exact Hn].
    - rewrite E, g_after_abort. right. split; [reflexivity|]. apply g_after_nm; [assumption | now apply Hab].
  Qed.

  Lemma loop_R : forall rest c, R (g_star_ne cf ms pc rT c rest) (g_star_ne cf ms pc rF c rest).
  Proof.
    induction rest as [|c1 rest1 IH]; intros c; cbn [g_star_ne].
    - assert (A : forall t, R (g_after ms t (rT [c]) (fun _ => AbortAll)) (g_after ms t (rF [c]) (fun _ => AbortAll))).
      { intros t. apply after_R; [apply R_refl | discriminate]. }
      destruct (negb (g_is_glob_special pc)); [|apply A].
      destruct (ms || negb (beqb c cSLASH)); destruct (beqb _ _); try apply A; apply R_refl.
    - assert (A : forall t, R (g_after ms t (rT (c :: c1 :: rest1)) (fun _ => g_star_ne cf ms pc rT c1 rest1))
                              (g_after ms t (rF (c :: c1 :: rest1)) (fun _ => g_star_ne cf ms pc rF c1 rest1))).
      { intros t. apply after_R; [apply IH|]. intros Hab. apply loop_nm. intros s Hsuf.
        eapply rF_nm; [exact Hab|]. now apply suffix_cons. }
      destruct (negb (g_is_glob_special pc)); [|apply A].
      destruct (ms || negb (beqb c cSLASH)); destruct (beqb _ _); try apply A; try apply IH; apply R_refl.
  Qed.

  (* soundness of an abort of the loop *)
  Lemma loop_S : forall rest c, g_star_ne cf ms pc rT c rest = AbortAll ->
    forall c' rest', suffix (c' :: rest') (c :: rest) -> g_star_ne cf ms pc rT c' rest' <> Match.
  Proof.
    induction rest as [|c1 rest1 IH]; intros c H c' rest' Hsuf.
    - apply suffix_inv in Hsuf. destruct Hsuf as [E|Hsuf].
      + inversion E; subst. rewrite H. discriminate.
      + apply suffix_nil in Hsuf. discriminate Hsuf.
    - apply suffix_inv in Hsuf. destruct Hsuf as [E|Hsuf].
      { inversion E; subst. rewrite H. discriminate. }
      cbn [g_star_ne] in H.
      assert (A : forall t, g_after ms t (rT (c :: c1 :: rest1)) (fun _ => g_star_ne cf ms pc rT c1 rest1) = AbortAll ->
                  g_star_ne cf ms pc rT c' rest' <> Match).
      { intros t HA.
        destruct (g_after_cases ms t (rT (c :: c1 :: rest1)) (fun _ => g_star_ne cf ms pc rT c1 rest1)) as [E|[E|E]];
          rewrite E in HA.
        - apply loop_nm. intros s Hs2. eapply Hs; [exact HA|].
          eapply suffix_trans; [exact Hs2|]. now apply suffix_cons.
        - discriminate HA.
        - now apply (IH c1 HA). }
      destruct (negb (g_is_glob_special pc)); [|now apply (A _ H)].
      destruct (ms || negb (beqb c cSLASH)).
      + destruct (beqb _ _); [now apply (A _ H) | now apply (IH c1 H)].
      + destruct (beqb _ _); [now apply (A _ H) | discriminate H].
  Qed.
End Loop.
