(* C36 — transcript printer.
   case:  wm <flags> <pattern> <text>     flags bit0 = NO_MATCH_SLASH_LITERAL / WM_PATHNAME, bit1 = IGNORE_CASE / WM_CASEFOLD
   model: wm=<0|1> pat=<none|hex(text)/<mode bits>/<first wildcard pos|none>> m=<0|1|->
   spec:  ignored=<0|1>   what `git check-ignore --no-index` answers for a single exclude pattern
          (harness `git`): without PATHNAME wildmatch(p, t, 0|CASEFOLD) on a slash-free name; with
          PATHNAME the pattern is anchored ("/" + p) and the path or one of its leading directories
          has to match wildmatch(p, ., WM_PATHNAME|..). *)
From GixV.Base Require Import Bytes Outcome.
From GixV.C36 Require Import Model Spec.

Definition flag_pn (fs : list bytes) : bool := N.odd (field_N 1 fs).
Definition flag_cf (fs : list bytes) : bool := N.odd (N.div (field_N 1 fs) 2).

Definition show_pattern (p : pattern) : bytes :=
  hex_encode (ptext p) ++ bs "/" ++ N_to_dec (pmode p) ++ bs "/" ++
  match pfwp p with Some n => N_to_dec (N.of_nat n) | None => bs "none" end.

Definition run_model (fs : list bytes) : bytes :=
  let cf := flag_cf fs in let pn := flag_pn fs in
  let p := nth_field 2 fs in let t := nth_field 3 fs in
  bs "wm=" ++ bool_to_bytes (wildmatch cf pn p t) ++ bs " pat=" ++
  match parse_pattern p with
  | None => bs "none m=-"
  | Some pt => show_pattern pt ++ bs " m=" ++ bool_to_bytes (pattern_matches pt cf pn t)
  end.

(* the path and its leading directories: "a/b/c" -> a, a/b, a/b/c *)
Fixpoint dir_prefixes (acc : bytes) (l : bytes) : list bytes :=
  match l with
  | [] => [rev acc]
  | c :: r => if beqb c cSLASH then rev acc :: dir_prefixes (c :: acc) r else dir_prefixes (c :: acc) r
  end.

Definition run_spec (fs : list bytes) : bytes :=
  let cf := flag_cf fs in let pn := flag_pn fs in
  let p := nth_field 2 fs in let t := nth_field 3 fs in
  bs "ignored=" ++
  bool_to_bytes (if pn then existsb (git_wildmatch cf true p) (dir_prefixes [] t)
                 else git_wildmatch cf false p t).

Definition run (fs : list bytes) : bytes :=
  match fs with
  | mode :: rest =>
      if bytes_eqb (nth_field 0 rest) (bs "wm") then
        if bytes_eqb mode (bs "spec") then run_spec rest else run_model rest
      else bs "?"
  | [] => bs "?"
  end.
