(* C36 — when the early exit of git's star loop (`if (t_ch == '\0') break;`) cannot change the
   answer: patterns whose stars form one run (so that nested calls see star-free patterns). *)
From Coq Require Import Lia.
From GixV.Base Require Import Bytes BytesFacts.
From GixV.C36 Require Import Model Spec ProofsBytes ProofsBracket ProofsMain.

Fixpoint drop_nonstars (l : bytes) : bytes :=
  match l with
  | c :: r => if beqb c cSTAR then l else drop_nonstars r
  | [] => []
  end.
(* the stars of the pattern form a single run *)
Definition one_run (p : bytes) : Prop := stars (skip_stars (drop_nonstars p)) = 0.

Definition B (r1 r2 : res) : Prop := res_eqb r1 Match = res_eqb r2 Match.

Lemma stars0_suffix a b : suffix a b -> stars b = 0 -> stars a = 0.
Proof. intros H Hb. apply stars_suffix in H. lia. Qed.

Lemma drop_nonstars_suffix l : suffix (drop_nonstars l) l.
Proof.
  induction l as [|c r IH]; [apply suffix_refl|]. cbn [drop_nonstars].
  destruct (beqb c cSTAR); [apply suffix_refl | now apply suffix_cons].
Qed.

Lemma one_run_tail c p : one_run (c :: p) -> one_run p.
Proof.
  unfold one_run. cbn [drop_nonstars]. destruct (beqb c cSTAR) eqn:E; [|exact (fun H => H)].
  cbn [skip_stars]. rewrite E. intros H.
  destruct p as [|d p']; [reflexivity|]. cbn [drop_nonstars]. destruct (beqb d cSTAR) eqn:Ed; [exact H|].
  cbn [skip_stars] in H. rewrite Ed in H.
  eapply stars0_suffix; [|exact H].
  eapply suffix_trans; [apply skip_stars_suffix|]. apply suffix_cons, drop_nonstars_suffix.
Qed.

Lemma one_run_suffix a b : suffix a b -> one_run b -> one_run a.
Proof.
  intros [pre ->]. induction pre as [|c pre IH]; [exact (fun H => H)|].
  intros H. apply IH. eapply one_run_tail. exact H.
Qed.

Lemma stars0_one_run p : stars p = 0 -> one_run p.
Proof.
  intros H. unfold one_run. eapply stars0_suffix; [|exact H].
  eapply suffix_trans; [apply skip_stars_suffix | apply drop_nonstars_suffix].
Qed.

Lemma stars0_head c r : stars (c :: r) = 0 -> beqb c cSTAR = false /\ stars r = 0.
Proof. cbn [stars]. destruct (beqb c cSTAR); [lia|]. intros H. split; [reflexivity|lia]. Qed.

(* ---- star-free patterns never reach the star case ---- *)
Lemma main_star_free e1 e2 r1 r2 cf pn : forall fuel prev p t, stars p = 0 ->
  g_main e1 r1 cf pn fuel prev p t = g_main e2 r2 cf pn fuel prev p t.
Proof.
  induction fuel as [|fuel IH]; intros prev p t H; [reflexivity|].
  cbn [g_main]. destruct p as [|praw p1]; [reflexivity|].
  apply stars0_head in H. destruct H as [Es Hp1].
  assert (Efold : beqb (fold cf praw) cSTAR = false) by now rewrite (fold_special cf praw cSTAR eq_refl).
  rewrite Efold, Es.
  destruct t as [|traw t1]; [reflexivity|].
  destruct (beqb (fold cf praw) cBSL).
  { destruct p1 as [|e p2]; [reflexivity|]. destruct (beqb (fold cf traw) e); [|reflexivity].
    apply IH. apply stars0_head in Hp1. tauto. }
  destruct (beqb (fold cf praw) cQM).
  { destruct (pn && beqb (fold cf traw) cSLASH); [reflexivity|]. now apply IH. }
  destruct (beqb (fold cf praw) cLBR).
  { destruct (g_bracket cf (fold cf traw) p1) as [[ok p']|] eqn:Eb; [|reflexivity].
    destruct (negb ok || (pn && beqb (fold cf traw) cSLASH)); [reflexivity|].
    apply IH. apply bracket_suffix in Eb. eapply stars0_suffix; eassumption. }
  destruct (beqb (fold cf traw) (fold cf praw)); [|reflexivity]. now apply IH.
Qed.

Lemma dowild_star_free e1 e2 cf pn n d1 d2 p t : stars p = 0 ->
  dowild e1 cf pn n (S d1) p t = dowild e2 cf pn n (S d2) p t.
Proof. intros H. cbn [dowild]. now apply main_star_free. Qed.

Lemma dowild_nonstar_empty e cf pn n d c r : beqb c cSTAR = false -> dowild e cf pn n d (c :: r) [] <> Match.
Proof.
  intros H. destruct d as [|d]; [discriminate|]. cbn [dowild]. destruct n as [|n]; [discriminate|].
  cbn [g_main]. rewrite H. discriminate.
Qed.

(* ---- the star loop ---- *)
Lemma g_after_ext ms t r n1 n2 : n1 tt = n2 tt -> g_after ms t r n1 = g_after ms t r n2.
Proof. intros H. unfold g_after. now rewrite H. Qed.

Lemma g_star_ne_ext cf ms pc r1 r2 : (forall t, r1 t = r2 t) ->
  forall rest c, g_star_ne cf ms pc r1 c rest = g_star_ne cf ms pc r2 c rest.
Proof.
  intros Hr. induction rest as [|c' rest' IH]; intros c; cbn [g_star_ne]; rewrite Hr.
  - reflexivity.
  - destruct (negb (g_is_glob_special pc)); [|apply g_after_ext; apply IH].
    destruct (ms || negb (beqb c cSLASH)).
    + destruct (beqb (fold cf c) (fold cf pc)); [apply g_after_ext; apply IH | apply IH].
    + destruct (beqb c (fold cf pc)); [apply g_after_ext; apply IH | reflexivity].
Qed.

Inductive stepB : step -> step -> Prop :=
| sb_done r1 r2 : B r1 r2 -> stepB (Done r1) (Done r2)
| sb_cont pv p t : stepB (Cont pv p t) (Cont pv p t).

Lemma B_refl r : B r r. Proof. reflexivity. Qed.

Section Early.
  Variables (recT recF : bytes -> bytes -> res) (cf pn : bool).
  Hypothesis H1 : forall p' t', stars p' = 0 -> recT p' t' = recF p' t'.
  Hypothesis H2 : forall c r, beqb c cSTAR = false -> recF (c :: r) [] <> Match.

  Lemma go_early tcur ms nx : okp cf nx -> stars nx = 0 ->
    stepB (g_go true recT cf tcur ms nx) (g_go false recF cf tcur ms nx).
  Proof.
    intros Hok Hs. destruct nx as [|c r]; cbn [g_go]; [constructor; apply B_refl|].
    destruct (negb ms && beqb c cSLASH).
    { destruct (after_slash tcur); constructor. apply B_refl. }
    constructor. destruct tcur as [|c0 rest]; cbn [g_star_loop].
    - apply stars0_head in Hs. destruct Hs as [Ec _]. unfold B. cbn [res_eqb].
      destruct (negb (g_is_glob_special c) && negb (beqb x00 (fold cf c))); [reflexivity|].
      specialize (H2 c r Ec). unfold g_after.
      destruct (recF (c :: r) []); try contradiction; cbn [res_eqb negb andb orb];
        destruct ms; cbn [negb andb orb]; try reflexivity;
        destruct (beqb x00 cSLASH); reflexivity.
    - rewrite (g_star_ne_ext cf ms c (recT (c :: r)) (recF (c :: r))); [apply B_refl|].
      intros t. now apply H1.
  Qed.

  Lemma star_early prev p1 tcur : okp cf p1 -> stars (skip_stars p1) = 0 ->
    stepB (g_star true recT cf pn prev p1 tcur) (g_star false recF cf pn prev p1 tcur).
  Proof.
    intros Hok Hs. unfold g_star.
    assert (Hnx : okp cf (skip_stars p1)) by (eapply suffix_Forall; [apply skip_stars_suffix | exact Hok]).
    destruct (beqb (hd0 p1) cSTAR) eqn:Eh.
    - destruct (negb pn); [now apply go_early|].
      destruct (_ && _); [|now apply go_early].
      rewrite (H1 (tl (skip_stars p1)) tcur).
      2:{ eapply stars0_suffix; [|exact Hs]. destruct (skip_stars p1); [apply suffix_refl | apply suffix_cons, suffix_refl]. }
      destruct (_ && _); [constructor; apply B_refl | now apply go_early].
    - apply go_early; [assumption|].
      destruct p1 as [|c r]; [reflexivity|]. cbn [hd0] in Eh. cbn [skip_stars] in Hs. now rewrite Eh in Hs.
  Qed.

  Lemma main_early : forall fuel prev p t, okp cf p -> one_run p ->
    B (g_main true recT cf pn fuel prev p t) (g_main false recF cf pn fuel prev p t).
  Proof.
    induction fuel as [|fuel IH]; intros prev p t Hok Hone; [apply B_refl|].
    cbn [g_main]. destruct p as [|praw p1]; [apply B_refl|].
    inversion Hok as [|? ? _ Hp1]; subst.
    pose proof (one_run_tail praw p1 Hone) as Hone1.
    assert (Hstar : beqb praw cSTAR = true ->
      B match g_star true recT cf pn prev p1 t with Done r => r | Cont pv p' t' => g_main true recT cf pn fuel pv p' t' end
        match g_star false recF cf pn prev p1 t with Done r => r | Cont pv p' t' => g_main false recF cf pn fuel pv p' t' end).
    { intros Es. assert (Hs : stars (skip_stars p1) = 0).
      { unfold one_run in Hone. cbn [drop_nonstars] in Hone. rewrite Es in Hone. cbn [skip_stars] in Hone. now rewrite Es in Hone. }
      pose proof (star_early prev p1 t Hp1 Hs) as SB.
      destruct (g_star true recT cf pn prev p1 t) as [r1|pv1 p1' t1'] eqn:E1;
        destruct (g_star false recF cf pn prev p1 t) as [r2|pv2 p2' t2'] eqn:E2; inversion SB; subst; [assumption|].
      apply star_cont_suffix in E2. apply IH; [eapply suffix_Forall; eassumption|].
      eapply one_run_suffix; eassumption. }
    assert (Efold : beqb (fold cf praw) cSTAR = beqb praw cSTAR) by apply (fold_special cf praw cSTAR eq_refl).
    destruct t as [|traw t1].
    { destruct (beqb praw cSTAR) eqn:Es; [now apply Hstar | apply B_refl]. }
    destruct (beqb (fold cf praw) cBSL).
    { destruct p1 as [|e p2]; [apply B_refl|]. destruct (beqb (fold cf traw) e); [|apply B_refl].
      inversion Hp1; subst. apply IH; [assumption|]. eapply one_run_tail; eassumption. }
    destruct (beqb (fold cf praw) cQM).
    { destruct (pn && beqb (fold cf traw) cSLASH); [apply B_refl|]. now apply IH. }
    rewrite Efold. destruct (beqb praw cSTAR) eqn:Es; [now apply Hstar|].
    destruct (beqb (fold cf praw) cLBR).
    { destruct (g_bracket cf (fold cf traw) p1) as [[ok p']|] eqn:Eb; [|apply B_refl].
      destruct (negb ok || (pn && beqb (fold cf traw) cSLASH)); [apply B_refl|].
      apply bracket_suffix in Eb. apply IH; [eapply suffix_Forall; eassumption|].
      eapply one_run_suffix; eassumption. }
    destruct (beqb (fold cf traw) (fold cf praw)); [|apply B_refl]. now apply IH.
  Qed.
End Early.

Lemma dowild_early cf pn n d1 d2 p t : okp cf p -> one_run p ->
  B (dowild true cf pn n (S (S d1)) p t) (dowild false cf pn n (S (S d2)) p t).
Proof.
  intros Hok Hone.
  change (dowild true cf pn n (S (S d1)) p t) with (g_main true (dowild true cf pn n (S d1)) cf pn n None p t).
  change (dowild false cf pn n (S (S d2)) p t) with (g_main false (dowild false cf pn n (S d2)) cf pn n None p t).
  apply main_early; try assumption.
  - intros p' t' Hs. now apply (dowild_star_free true false cf pn n d1 d2).
  - intros c r Hc. now apply dowild_nonstar_empty.
Qed.

Lemma stars_le_length p : stars p <= length p.
Proof. induction p as [|c r IH]; cbn [stars length]; [lia|]. destruct (beqb c cSTAR); lia. Qed.
