(* C36 — the matcher of the model and git's dowild (without the early exit of the star loop) walk
   in lock step. *)
From Coq Require Import Lia.
From GixV.Base Require Import Bytes BytesFacts.
From GixV.C36 Require Import Model Spec ProofsBytes ProofsBracket.

Fixpoint stars (p : bytes) : nat :=
  match p with
  | [] => 0
  | c :: r => (if beqb c cSTAR then 1 else 0) + stars r
  end.

Lemma stars_app a b : stars (a ++ b) = stars a + stars b.
Proof. induction a as [|c a IH]; cbn [stars app]; [reflexivity|]. rewrite IH. lia. Qed.
Lemma stars_suffix a b : suffix a b -> stars a <= stars b.
Proof. intros [pre ->]. rewrite stars_app. lia. Qed.

Lemma lc_slash cf : lc cf cSLASH = cSLASH.
Proof. destruct cf; reflexivity. Qed.

(* ---- the star loop ---- *)
Lemma after_agree ms t r n1 n2 : n1 tt = n2 tt -> star_after ms t r n1 = g_after ms t r n2.
Proof. intros H. unfold star_after, g_after. now rewrite H. Qed.

Lemma star_ne_agree cf ms pc recM recS :
  lc cf pc = pc -> (forall t, recM t = recS t) ->
  forall rest c, m_star_ne cf ms pc recM c rest = g_star_ne cf ms pc recS c rest.
Proof.
  intros Hpc Hrec. induction rest as [|c' rest' IH]; intros c.
  - cbn [m_star_ne g_star_ne]. rewrite glob_char_spec, <- !lc_fold, Hpc, Hrec.
    destruct (g_is_glob_special pc); cbn [negb].
    + now apply after_agree.
    + destruct ms; cbn [negb andb orb].
      * destruct (beqb (lc cf c) pc); [now apply after_agree | reflexivity].
      * rewrite (lc_special cf c cSLASH eq_refl).
        destruct (beqb c cSLASH) eqn:Es; cbn [negb orb].
        -- apply beqb_eq in Es. subst c. rewrite lc_slash.
           destruct (beqb cSLASH pc); [now apply after_agree | reflexivity].
        -- destruct (beqb (lc cf c) pc); [now apply after_agree | reflexivity].
  - cbn [m_star_ne g_star_ne]. rewrite glob_char_spec, <- !lc_fold, Hpc, Hrec.
    destruct (g_is_glob_special pc); cbn [negb].
    + apply after_agree. apply IH.
    + destruct ms; cbn [negb andb orb].
      * destruct (beqb (lc cf c) pc); [apply after_agree; apply IH | apply IH].
      * rewrite (lc_special cf c cSLASH eq_refl).
        destruct (beqb c cSLASH) eqn:Es; cbn [negb orb].
        -- apply beqb_eq in Es. subst c. rewrite lc_slash.
           destruct (beqb cSLASH pc); [apply after_agree; apply IH | reflexivity].
        -- destruct (beqb (lc cf c) pc); [apply after_agree; apply IH | apply IH].
Qed.

Lemma star_loop_agree cf ms pc recM recS tcur :
  lc cf pc = pc -> (forall t, recM t = recS t) ->
  m_star_loop cf ms pc recM tcur = g_star_loop false cf ms pc recS tcur.
Proof.
  intros Hpc Hrec. destruct tcur as [|c rest]; cbn [m_star_loop g_star_loop].
  - unfold m_star_end. rewrite glob_char_spec, <- lc_fold, Hpc, Hrec.
    destruct (negb (g_is_glob_special pc) && negb (beqb x00 pc)); [reflexivity|].
    now apply after_agree.
  - now apply star_ne_agree.
Qed.

(* ---- after the stars ---- *)
Lemma go_agree recM recS cf tcur ms nx :
  okp cf nx -> (forall p' t', suffix p' nx -> recM p' t' = recS p' t') ->
  m_go recM cf tcur ms nx = g_go false recS cf tcur ms nx.
Proof.
  intros Hok Hrec. destruct nx as [|c r]; [reflexivity|].
  inversion Hok as [|? ? [Hc _] Hr]; subst. cbn [m_go g_go]. rewrite Hc.
  destruct (negb ms && beqb c cSLASH); [reflexivity|].
  f_equal. apply star_loop_agree; [assumption|]. intros t. apply Hrec. apply suffix_refl.
Qed.

Lemma drop_skip cf l : okp cf l -> drop_stars cf l = skip_stars l.
Proof.
  induction l as [|c r IH]; intros H; [reflexivity|].
  inversion H as [|? ? [Hc _] Hr]; subst. cbn [drop_stars skip_stars]. rewrite Hc.
  destruct (beqb c cSTAR); [now apply IH | reflexivity].
Qed.

Lemma skip_stars_suffix l : suffix (skip_stars l) l.
Proof.
  induction l as [|c r IH]; [apply suffix_refl|]. cbn [skip_stars].
  destruct (beqb c cSTAR); [now apply suffix_cons | apply suffix_refl].
Qed.

(* the extra attempt of the model for `**\/`: it succeeds only if the first round of the star loop does *)
Definition escaped_slash_ok (rec : bytes -> bytes -> res) : Prop :=
  forall r t, rec (cSLASH :: r) t = Match -> rec (cBSL :: cSLASH :: r) t = Match.

Lemma go_escaped_slash recM cf tcur r' :
  escaped_slash_ok recM -> recM (cSLASH :: r') tcur = Match ->
  m_go recM cf tcur true (cBSL :: cSLASH :: r') = Done Match.
Proof.
  intros HL HM. apply HL in HM. cbn [m_go negb andb].
  assert (lc cf cBSL = cBSL) as -> by (destruct cf; reflexivity).
  f_equal. destruct tcur as [|c rest]; cbn [m_star_loop].
  - unfold m_star_end. replace (glob_char cBSL) with true by reflexivity. cbn [negb andb].
    unfold star_after. rewrite HM. reflexivity.
  - destruct rest; cbn [m_star_ne]; replace (glob_char cBSL) with true by reflexivity; cbn [negb];
      unfold star_after; rewrite HM; reflexivity.
Qed.

Lemma star_agree recM recS cf pn prev p1 tcur :
  okp cf p1 -> escaped_slash_ok recM ->
  (forall p' t', suffix p' p1 -> recM p' t' = recS p' t') ->
  m_star recM cf pn prev p1 tcur = g_star false recS cf pn prev p1 tcur.
Proof.
  intros Hok HL Hrec. unfold m_star, g_star.
  destruct p1 as [|n1 p2].
  { cbn [hd0]. replace (beqb x00 cSTAR) with false by reflexivity. reflexivity. }
  inversion Hok as [|? ? [Hn1 _] Hp2]; subst. cbn [hd0]. rewrite Hn1.
  destruct (beqb n1 cSTAR) eqn:Estar.
  2:{ apply go_agree; assumption. }
  cbn [skip_stars]. rewrite Estar. rewrite (drop_skip cf p2 Hp2).
  pose proof (skip_stars_suffix p2) as Hsuf.
  set (nx := skip_stars p2) in *.
  assert (Hnx : okp cf nx) by (eapply suffix_Forall; eassumption).
  assert (Hsuf' : suffix nx (n1 :: p2)) by now apply suffix_cons.
  assert (Hgo : forall ms, m_go recM cf tcur ms nx = g_go false recS cf tcur ms nx).
  { intros ms. apply go_agree; [assumption|]. intros p' t' Hs. apply Hrec. eapply suffix_trans; eassumption. }
  destruct (negb pn); [apply Hgo|].
  assert (Hcond :
    match nx with
    | [] => true
    | c :: r => beqb (lc cf c) cSLASH ||
                (beqb (lc cf c) cBSL && match r with n :: _ => beqb (lc cf n) cSLASH | [] => false end)
    end = (beqb (hd0 nx) x00 || beqb (hd0 nx) cSLASH || (beqb (hd0 nx) cBSL && beqb (hd0 (tl nx)) cSLASH))).
  { destruct nx as [|c r]; [reflexivity|]. cbn [hd0 tl].
    rewrite (hd0_nul_false cf c r Hnx). inversion Hnx as [|? ? [Hc _] Hr]; subst. rewrite Hc. cbn [orb].
    destruct r as [|n r']; [reflexivity|]. inversion Hr as [|? ? [Hn _] _]; subst. now rewrite Hn. }
  rewrite Hcond.
  destruct (match prev with None => true | Some b => beqb b cSLASH end &&
            (beqb (hd0 nx) x00 || beqb (hd0 nx) cSLASH || (beqb (hd0 nx) cBSL && beqb (hd0 (tl nx)) cSLASH))) eqn:Econd.
  2:{ apply Hgo. }
  destruct nx as [|c r] eqn:Enx.
  { cbn [hd0]. replace (beqb x00 cSLASH) with false by reflexivity. cbn [andb]. apply Hgo. }
  cbn [hd0 tl]. rewrite <- (Hrec r tcur).
  2:{ eapply suffix_trans; [|exact Hsuf']. apply suffix_cons, suffix_refl. }
  destruct (beqb c cSLASH) eqn:Ecs; cbn [andb].
  { destruct (res_eqb (recM r tcur) Match); [reflexivity | apply Hgo]. }
  (* c is a backslash followed by a slash *)
  destruct (res_eqb (recM r tcur) Match) eqn:EM; [|apply Hgo].
  rewrite <- Hgo.
  apply Bool.andb_true_iff in Econd. destruct Econd as [_ Econd].
  cbn [hd0 tl] in Econd. rewrite (hd0_nul_false cf c r Hnx), Ecs in Econd. cbn [orb] in Econd.
  apply Bool.andb_true_iff in Econd. destruct Econd as [Eb Es].
  apply beqb_eq in Eb. subst c.
  destruct r as [|n r']; [discriminate Es|]. cbn [hd0] in Es. apply beqb_eq in Es. subst n.
  symmetry. apply go_escaped_slash; [assumption|].
  destruct (recM (cSLASH :: r') tcur); try discriminate EM. reflexivity.
Qed.

Lemma go_cont_suffix early rec cf tcur ms nx pv p' t' :
  g_go early rec cf tcur ms nx = Cont pv p' t' -> suffix p' nx.
Proof.
  destruct nx as [|c r]; cbn [g_go]; [discriminate|].
  destruct (negb ms && beqb c cSLASH); [|discriminate].
  destruct (after_slash tcur); [|discriminate]. intros H. inversion H; subst. apply suffix_cons, suffix_refl.
Qed.

Lemma star_cont_suffix early rec cf pn prev p1 tcur pv p' t' :
  g_star early rec cf pn prev p1 tcur = Cont pv p' t' -> suffix p' p1.
Proof.
  unfold g_star. intros H.
  assert (G : forall ms nx, suffix nx p1 -> g_go early rec cf tcur ms nx = Cont pv p' t' -> suffix p' p1).
  { intros ms nx Hs Hg. apply go_cont_suffix in Hg. eapply suffix_trans; eassumption. }
  destruct (beqb (hd0 p1) cSTAR).
  - destruct (negb pn); [eapply G; [apply skip_stars_suffix|exact H]|].
    destruct (_ && _).
    + destruct (_ && _); [discriminate|]. eapply G; [apply skip_stars_suffix|exact H].
    + eapply G; [apply skip_stars_suffix|exact H].
  - eapply G; [apply suffix_refl|exact H].
Qed.

(* ---- the main loop ---- *)
Lemma stars_cons_le c r : stars r <= stars (c :: r).
Proof. cbn [stars]. lia. Qed.

Lemma main_agree recM recS cf pn K :
  escaped_slash_ok recM ->
  (forall p' t', okp cf p' -> stars p' < K -> recM p' t' = recS p' t') ->
  forall fuel prev p t, okp cf p -> stars p <= K ->
    m_main recM cf pn fuel prev p t = g_main false recS cf pn fuel prev p t.
Proof.
  intros HL Hrec. induction fuel as [|fuel IH]; intros prev p t Hok Hst; [reflexivity|].
  cbn [m_main g_main]. destruct p as [|praw p1]; [reflexivity|].
  inversion Hok as [|? ? [Hpr _] Hp1]; subst. rewrite <- ?(lc_fold cf praw), Hpr.
  pose proof (stars_cons_le praw p1) as Hle.
  assert (Hstar : beqb praw cSTAR = true ->
     match m_star recM cf pn prev p1 t with Done r => r | Cont pv p' t' => m_main recM cf pn fuel pv p' t' end =
     match g_star false recS cf pn prev p1 t with Done r => r | Cont pv p' t' => g_main false recS cf pn fuel pv p' t' end).
  { intros Es. assert (stars p1 < K) as Hlt by (cbn [stars] in Hst; rewrite Es in Hst; lia).
    rewrite (star_agree recM recS cf pn prev p1 t Hp1 HL).
    2:{ intros p' t' Hs. apply Hrec; [eapply suffix_Forall; eassumption|]. apply stars_suffix in Hs. lia. }
    destruct (g_star false recS cf pn prev p1 t) as [r|pv p' t'] eqn:Eg; [reflexivity|].
    apply star_cont_suffix in Eg. apply IH; [eapply suffix_Forall; eassumption|].
    apply stars_suffix in Eg. lia. }
  destruct t as [|traw t1].
  { destruct (beqb praw cSTAR) eqn:Es; [now apply Hstar | reflexivity]. }
  rewrite <- ?(lc_fold cf traw).
  destruct (beqb praw cBSL).
  { destruct p1 as [|e p2]; [reflexivity|]. inversion Hp1 as [|? ? [He _] Hp2]; subst.
    rewrite He, (beqb_sym e (lc cf traw)). destruct (beqb (lc cf traw) e); [|reflexivity].
    apply IH; [assumption|]. pose proof (stars_cons_le e p2). lia. }
  destruct (beqb praw cQM).
  { destruct (pn && beqb (lc cf traw) cSLASH); [reflexivity|]. apply IH; [assumption|lia]. }
  destruct (beqb praw cSTAR) eqn:Es; [now apply Hstar|].
  destruct (beqb praw cLBR).
  { rewrite (bracket_agree cf (lc cf traw) p1 Hp1).
    destruct (g_bracket cf (lc cf traw) p1) as [[ok p']|] eqn:Eb; [|reflexivity].
    destruct (negb ok || (pn && beqb (lc cf traw) cSLASH)); [reflexivity|].
    apply bracket_suffix in Eb. apply IH; [eapply suffix_Forall; eassumption|].
    apply stars_suffix in Eb. lia. }
  rewrite (beqb_sym praw (lc cf traw)). destruct (beqb (lc cf traw) praw); [|reflexivity].
  apply IH; [assumption|lia].
Qed.

Lemma escaped_slash_mr cf pn n d : escaped_slash_ok (match_recursive cf pn n d).
Proof.
  intros r t. destruct d as [|d]; [discriminate|]. cbn [match_recursive].
  destruct n as [|n]; [discriminate|]. cbn [m_main]. rewrite lc_slash.
  assert (lc cf cBSL = cBSL) as -> by (destruct cf; reflexivity).
  destruct t as [|traw t1].
  - replace (beqb cSLASH cSTAR) with false by reflexivity. discriminate.
  - replace (beqb cSLASH cBSL) with false by reflexivity.
    replace (beqb cSLASH cQM) with false by reflexivity.
    replace (beqb cSLASH cSTAR) with false by reflexivity.
    replace (beqb cSLASH cLBR) with false by reflexivity.
    replace (beqb cBSL cBSL) with true by reflexivity.
    rewrite ?lc_slash. exact (fun H => H).
Qed.

Lemma mr_agree cf pn n : forall d dS p t, okp cf p -> stars p < d -> stars p < dS ->
  match_recursive cf pn n d p t = dowild false cf pn n dS p t.
Proof.
  induction d as [|d IH]; intros dS p t Hok Hd HdS; [lia|].
  destruct dS as [|dS]; [lia|]. cbn [match_recursive dowild].
  apply (main_agree _ _ cf pn (stars p)); [apply escaped_slash_mr | | assumption | lia].
  intros p' t' Hok' Hlt. apply IH; [assumption|lia|lia].
Qed.
