//! C36 harness: gix_glob::wildmatch and Pattern::matches against a transcription of git's wildmatch.c.
//!
//! case:  wm <flags> <pattern> <text>      flags (decimal): bit0 = NO_MATCH_SLASH_LITERAL (WM_PATHNAME),
//!                                         bit1 = IGNORE_CASE (WM_CASEFOLD)
//! transcript:  wm=<0|1> pat=<none|hex(text)/<mode bits>/<first wildcard pos|none>> m=<0|1|->
use bstr::ByteSlice;
use gix_glob::wildmatch::Mode;
use gixv_common::*;

// ------------------------------------------------------------------------------------------------
// Oracle: git 2.39.5 wildmatch.c `dowild`, transcribed statement by statement. Strings are NUL
// terminated in C: `at(s, i)` is 0 at and beyond the end.
// ------------------------------------------------------------------------------------------------
const WM_NOMATCH: i32 = 1;
const WM_MATCH: i32 = 0;
const WM_ABORT_ALL: i32 = -1;
const WM_ABORT_TO_STARSTAR: i32 = -2;
const WM_CASEFOLD: u32 = 1;
const WM_PATHNAME: u32 = 2;

fn at(s: &[u8], i: usize) -> u8 {
    s.get(i).copied().unwrap_or(0)
}
// git-compat-util.h sane_ctype
fn g_isspace(c: u8) -> bool {
    matches!(c, b' ' | b'\t' | b'\n' | b'\r')
}
fn g_isdigit(c: u8) -> bool {
    c.is_ascii_digit()
}
fn g_isalpha(c: u8) -> bool {
    c.is_ascii_alphabetic()
}
fn g_isalnum(c: u8) -> bool {
    g_isalpha(c) || g_isdigit(c)
}
fn g_isprint(c: u8) -> bool {
    (0x20..=0x7e).contains(&c)
}
fn g_islower(c: u8) -> bool {
    c.is_ascii_lowercase()
}
fn g_isupper(c: u8) -> bool {
    c.is_ascii_uppercase()
}
fn g_iscntrl(c: u8) -> bool {
    c < 0x20 || c == 0x7f
}
fn g_ispunct(c: u8) -> bool {
    matches!(c, 33..=47 | 58..=64 | 91..=96 | 123..=126)
}
fn g_isxdigit(c: u8) -> bool {
    c.is_ascii_hexdigit()
}
fn g_isblank(c: u8) -> bool {
    c == b' ' || c == b'\t'
}
fn g_isgraph(c: u8) -> bool {
    (0x21..=0x7e).contains(&c)
}
fn is_glob_special(c: u8) -> bool {
    matches!(c, b'*' | b'?' | b'[' | b'\\')
}
fn strchr_slash(s: &[u8], from: usize) -> Option<usize> {
    (from..s.len()).find(|&i| s[i] == b'/')
}

/// `pat` is the C variable `pattern` (start of this call's pattern), `p`/`text` are indices.
fn dowild(pfull: &[u8], pstart: usize, tfull: &[u8], tstart: usize, flags: u32) -> i32 {
    let mut p = pstart;
    let mut text = tstart;
    let pattern = pstart;
    loop {
        let mut p_ch = at(pfull, p);
        if p_ch == 0 {
            break;
        }
        let mut t_ch = at(tfull, text);
        if t_ch == 0 && p_ch != b'*' {
            return WM_ABORT_ALL;
        }
        if flags & WM_CASEFOLD != 0 && g_isupper(t_ch) {
            t_ch = t_ch.to_ascii_lowercase();
        }
        if flags & WM_CASEFOLD != 0 && g_isupper(p_ch) {
            p_ch = p_ch.to_ascii_lowercase();
        }
        match p_ch {
            b'?' => {
                if flags & WM_PATHNAME != 0 && t_ch == b'/' {
                    return WM_NOMATCH;
                }
            }
            b'*' => {
                let match_slash;
                p += 1;
                if at(pfull, p) == b'*' {
                    let prev_p: isize = p as isize - 2;
                    loop {
                        p += 1;
                        if at(pfull, p) != b'*' {
                            break;
                        }
                    }
                    if flags & WM_PATHNAME == 0 {
                        match_slash = true;
                    } else if (prev_p < pattern as isize || at(pfull, prev_p as usize) == b'/')
                        && (at(pfull, p) == 0
                            || at(pfull, p) == b'/'
                            || (at(pfull, p) == b'\\' && at(pfull, p + 1) == b'/'))
                    {
                        if at(pfull, p) == b'/' && dowild(pfull, p + 1, tfull, text, flags) == WM_MATCH {
                            return WM_MATCH;
                        }
                        match_slash = true;
                    } else {
                        match_slash = false;
                    }
                } else {
                    match_slash = flags & WM_PATHNAME == 0;
                }
                if at(pfull, p) == 0 {
                    if !match_slash && strchr_slash(tfull, text).is_some() {
                        return WM_NOMATCH;
                    }
                    return WM_MATCH;
                } else if !match_slash && at(pfull, p) == b'/' {
                    match strchr_slash(tfull, text) {
                        None => return WM_NOMATCH,
                        Some(s) => text = s,
                    }
                    // break out of the switch: the for loop's increment consumes the slash
                    text += 1;
                    p += 1;
                    continue;
                }
                loop {
                    if t_ch == 0 {
                        break;
                    }
                    if !is_glob_special(at(pfull, p)) {
                        p_ch = at(pfull, p);
                        if flags & WM_CASEFOLD != 0 && g_isupper(p_ch) {
                            p_ch = p_ch.to_ascii_lowercase();
                        }
                        loop {
                            t_ch = at(tfull, text);
                            if !(t_ch != 0 && (match_slash || t_ch != b'/')) {
                                break;
                            }
                            if flags & WM_CASEFOLD != 0 && g_isupper(t_ch) {
                                t_ch = t_ch.to_ascii_lowercase();
                            }
                            if t_ch == p_ch {
                                break;
                            }
                            text += 1;
                        }
                        if t_ch != p_ch {
                            return WM_NOMATCH;
                        }
                    }
                    let matched = dowild(pfull, p, tfull, text, flags);
                    if matched != WM_NOMATCH {
                        if !match_slash || matched != WM_ABORT_TO_STARSTAR {
                            return matched;
                        }
                    } else if !match_slash && t_ch == b'/' {
                        return WM_ABORT_TO_STARSTAR;
                    }
                    text += 1;
                    t_ch = at(tfull, text);
                }
                return WM_ABORT_ALL;
            }
            b'[' => {
                p += 1;
                p_ch = at(pfull, p);
                if p_ch == b'^' {
                    p_ch = b'!';
                }
                let negated = p_ch == b'!';
                if negated {
                    p += 1;
                    p_ch = at(pfull, p);
                }
                let mut prev_ch: u8 = 0;
                let mut matched = false;
                loop {
                    // do { ... } while (prev_ch = p_ch, (p_ch = *++p) != ']');
                    'body: {
                        if p_ch == 0 {
                            return WM_ABORT_ALL;
                        }
                        if p_ch == b'\\' {
                            p += 1;
                            p_ch = at(pfull, p);
                            if p_ch == 0 {
                                return WM_ABORT_ALL;
                            }
                            if t_ch == p_ch {
                                matched = true;
                            }
                        } else if p_ch == b'-' && prev_ch != 0 && at(pfull, p + 1) != 0 && at(pfull, p + 1) != b']' {
                            p += 1;
                            p_ch = at(pfull, p);
                            if p_ch == b'\\' {
                                p += 1;
                                p_ch = at(pfull, p);
                                if p_ch == 0 {
                                    return WM_ABORT_ALL;
                                }
                            }
                            if t_ch <= p_ch && t_ch >= prev_ch {
                                matched = true;
                            } else if flags & WM_CASEFOLD != 0 && g_islower(t_ch) {
                                let t_ch_upper = t_ch.to_ascii_uppercase();
                                if t_ch_upper <= p_ch && t_ch_upper >= prev_ch {
                                    matched = true;
                                }
                            }
                            p_ch = 0;
                        } else if p_ch == b'[' && at(pfull, p + 1) == b':' {
                            p += 2;
                            let s = p;
                            loop {
                                p_ch = at(pfull, p);
                                if p_ch == 0 || p_ch == b']' {
                                    break;
                                }
                                p += 1;
                            }
                            if p_ch == 0 {
                                return WM_ABORT_ALL;
                            }
                            let i: isize = p as isize - s as isize - 1;
                            if i < 0 || at(pfull, p - 1) != b':' {
                                p = s - 2;
                                p_ch = b'[';
                                if t_ch == p_ch {
                                    matched = true;
                                }
                                break 'body; // `continue` of the do-while: goes to the condition
                            }
                            let class = &pfull[s..s + i as usize];
                            let hit = match class {
                                b"alnum" => g_isalnum(t_ch),
                                b"alpha" => g_isalpha(t_ch),
                                b"blank" => g_isblank(t_ch),
                                b"cntrl" => g_iscntrl(t_ch),
                                b"digit" => g_isdigit(t_ch),
                                b"graph" => g_isgraph(t_ch),
                                b"lower" => g_islower(t_ch),
                                b"print" => g_isprint(t_ch),
                                b"punct" => g_ispunct(t_ch),
                                b"space" => g_isspace(t_ch),
                                b"upper" => g_isupper(t_ch) || (flags & WM_CASEFOLD != 0 && g_islower(t_ch)),
                                b"xdigit" => g_isxdigit(t_ch),
                                _ => return WM_ABORT_ALL,
                            };
                            if hit {
                                matched = true;
                            }
                            p_ch = 0;
                        } else if t_ch == p_ch {
                            matched = true;
                        }
                    }
                    prev_ch = p_ch;
                    p += 1;
                    p_ch = at(pfull, p);
                    if p_ch == b']' {
                        break;
                    }
                }
                if matched == negated || (flags & WM_PATHNAME != 0 && t_ch == b'/') {
                    return WM_NOMATCH;
                }
            }
            _ => {
                if p_ch == b'\\' {
                    p += 1;
                    p_ch = at(pfull, p);
                }
                if t_ch != p_ch {
                    return WM_NOMATCH;
                }
            }
        }
        text += 1;
        p += 1;
    }
    if at(tfull, text) != 0 {
        WM_NOMATCH
    } else {
        WM_MATCH
    }
}

fn git_wildmatch(p: &[u8], t: &[u8], flags_case: u64) -> bool {
    let mut f = 0;
    if flags_case & 1 != 0 {
        f |= WM_PATHNAME;
    }
    if flags_case & 2 != 0 {
        f |= WM_CASEFOLD;
    }
    dowild(p, 0, t, 0, f) == WM_MATCH
}

// ------------------------------------------------------------------------------------------------
fn mode_of(flags: u64) -> Mode {
    let mut m = Mode::empty();
    if flags & 1 != 0 {
        m |= Mode::NO_MATCH_SLASH_LITERAL;
    }
    if flags & 2 != 0 {
        m |= Mode::IGNORE_CASE;
    }
    m
}

fn imp(c: &Case) -> String {
    if f_str(c, 0) != b"wm" {
        return "?".into();
    }
    let flags = f_u64(c, 1);
    let pat = f_str(c, 2);
    let text = f_str(c, 3);
    let mode = mode_of(flags);
    let wm = gix_glob::wildmatch(pat.as_bstr(), text.as_bstr(), mode);
    let (ps, m) = match gix_glob::Pattern::from_bytes_without_negation(pat) {
        None => ("none".to_string(), "-".to_string()),
        Some(p) => (
            format!(
                "{}/{}/{}",
                hexs(&p.text),
                p.mode.bits(),
                p.first_wildcard_pos.map_or("none".to_string(), |n| n.to_string())
            ),
            (p.matches(text.as_bstr(), mode) as u8).to_string(),
        ),
    };
    format!("wm={} pat={} m={}", wm as u8, ps, m)
}

fn has_upper(p: &[u8]) -> bool {
    p.iter().any(u8::is_ascii_uppercase)
}

/// The classes of inputs on which gix is known to differ from git (see findings.txt / NOTES.md).
fn known_class(flags: u64, pat: &[u8]) -> Option<&'static str> {
    if flags & 2 != 0 && pat.contains(&b'[') && (has_upper(pat) || pat.contains(&b'-')) {
        return Some("icase-bracket-upper-or-range");
    }
    if flags & 2 != 0 && pat.windows(2).any(|w| w[0] == b'\\' && w[1].is_ascii_uppercase()) {
        return Some("icase-escaped-upper");
    }
    None
}

fn prop(c: &Case) -> Verdict {
    if f_str(c, 0) != b"wm" {
        return Verdict::ok(false, "?");
    }
    let flags = f_u64(c, 1);
    let pat = f_str(c, 2);
    let text = f_str(c, 3);
    if pat.contains(&0) || text.contains(&0) {
        return Verdict::ok(false, "nul-byte");
    }
    let stars = pat.iter().filter(|b| **b == b'*').count();
    if stars >= 64 {
        return Verdict::ok(false, "beyond-recursion-bound");
    }
    let mode = mode_of(flags);
    let got = gix_glob::wildmatch(pat.as_bstr(), text.as_bstr(), mode);
    let want = git_wildmatch(pat, text, flags);
    let shape = format!(
        "{}{}{}-{}",
        if pat.contains(&b'*') { "s" } else { "" },
        if pat.contains(&b'[') { "b" } else { "" },
        if pat.contains(&b'\\') || pat.contains(&b'?') { "q" } else { "" },
        if want { "match" } else { "nomatch" }
    );
    if got != want {
        let cls = known_class(flags, pat).unwrap_or("wildmatch-differs-from-git");
        return Verdict::fail(cls, format!("flags={flags} gix={got} git={want}"));
    }
    // Pattern::matches (prefix / suffix shortcuts) must agree with git's wildmatch on the parsed text
    if let Some(p) = gix_glob::Pattern::from_bytes_without_negation(pat) {
        let got = p.matches(text.as_bstr(), mode);
        let want = git_wildmatch(&p.text, text, flags);
        if got != want {
            let cls = known_class(flags, pat).unwrap_or("pattern-matches-differs-from-git");
            return Verdict::fail(cls, format!("flags={flags} gix={got} git={want}"));
        }
    }
    let nontrivial = pat.iter().any(|b| is_glob_special(*b)) && !text.is_empty();
    Verdict::ok(nontrivial, shape)
}

// ------------------------------------------------------------------------------------------------
// generator
// ------------------------------------------------------------------------------------------------
const CLASSES: &[&str] = &[
    "alnum", "alpha", "blank", "cntrl", "digit", "graph", "lower", "print", "punct", "space", "upper", "xdigit",
];
const LIT: &[u8] = b"abcABZz09/-.]![^:_ \t,";
const EDGE_BYTES: &[u8] = &[
    1, 8, 9, 10, 11, 12, 13, 14, 27, 31, 32, 33, 45, 47, 48, 57, 58, 64, 65, 70, 71, 90, 91, 92, 93, 94, 95, 96, 97,
    102, 103, 122, 123, 126, 127, 128, 160, 255,
];

fn case(flags: u64, p: &[u8], t: &[u8]) -> Case {
    vec![tag("wm"), num(flags), p.to_vec(), t.to_vec()]
}

fn flip_case(rng: &mut Rng, b: u8) -> u8 {
    if rng.chance(1, 3) {
        if b.is_ascii_lowercase() {
            b.to_ascii_uppercase()
        } else {
            b.to_ascii_lowercase()
        }
    } else {
        b
    }
}

fn any_byte(rng: &mut Rng) -> u8 {
    match rng.below(10) {
        0..=5 => *rng.pick(LIT),
        6..=7 => *rng.pick(EDGE_BYTES),
        _ => 1 + rng.below(255) as u8,
    }
}

/// one bracket expression; returns the pattern text and pushes one byte the set is likely to contain
fn gen_bracket(rng: &mut Rng, member: &mut Vec<u8>) -> Vec<u8> {
    let mut p = vec![b'['];
    match rng.below(6) {
        0 => p.push(b'!'),
        1 => p.push(b'^'),
        _ => {}
    }
    if rng.chance(1, 8) {
        p.push(b']');
        member.push(b']');
    }
    let items = 1 + rng.below(5);
    for _ in 0..items {
        match rng.below(15) {
            0..=3 => {
                let b = *rng.pick(LIT);
                if b != b']' {
                    p.push(b);
                    member.push(b);
                }
            }
            4..=6 => {
                let ranges: &[(u8, u8)] = &[
                    (b'a', b'c'),
                    (b'A', b'C'),
                    (b'0', b'9'),
                    (b'B', b'a'),
                    (b'Z', b'y'),
                    (b'c', b'a'),
                    (b' ', b'-'),
                    (b'-', b'A'),
                    (b'@', b'a'),
                    (b'_', b'0'),
                    (b'A', b'_'),
                    (b'a', b'z'),
                    (b'+', b'/'),
                    (b'[', b'^'),
                ];
                let (lo, hi) = *rng.pick(ranges);
                if rng.chance(1, 6) {
                    p.push(b'\\');
                }
                p.push(lo);
                p.push(b'-');
                if rng.chance(1, 6) {
                    p.push(b'\\');
                }
                p.push(hi);
                if hi >= lo {
                    member.push(lo + rng.below((hi - lo) as u64 + 1) as u8);
                }
            }
            7..=8 => {
                let cl = rng.pick(CLASSES);
                p.extend_from_slice(b"[:");
                p.extend_from_slice(cl.as_bytes());
                p.extend_from_slice(b":]");
                let b = match *cl {
                    "alnum" => *rng.pick(b"aZ5"),
                    "alpha" => *rng.pick(b"aZ"),
                    "blank" => *rng.pick(b" \t"),
                    "cntrl" => *rng.pick(&[1u8, 9, 10, 31, 127]),
                    "digit" => *rng.pick(b"059"),
                    "graph" => *rng.pick(b"!a~"),
                    "lower" => *rng.pick(b"az"),
                    "print" => *rng.pick(b" a~"),
                    "punct" => *rng.pick(b"!/:@[`{~"),
                    "space" => *rng.pick(b" \t\n\r\x0b\x0c"),
                    "upper" => *rng.pick(b"AZ"),
                    _ => *rng.pick(b"09afAF"),
                };
                member.push(b);
            }
            9 => {
                // malformed / odd class syntax
                let odd: &[&[u8]] = &[
                    b"[:spaci:]", b"[:", b"[:]", b"[::]", b"[:digit", b"[:digit]", b"[:alpha:", b"[:]]", b"[:a]", b"[:ALPHA:]",
                    b"[::alpha:]", b"[:alpha::]", b"[:-:]",
                ];
                p.extend_from_slice(*rng.pick(odd));
                member.push(*rng.pick(b"[:a]"));
            }
            10 => {
                let b = *rng.pick(b"]\\-a[A!^");
                p.push(b'\\');
                p.push(b);
                member.push(b);
            }
            11 => {
                p.push(b'-');
                member.push(b'-');
            }
            12 => {
                // a dash directly followed by a byte: a range if the previous item left a range start
                // (literal, escaped literal), a literal dash after a range or a class
                let b = *rng.pick(b"zaZ9_.!^");
                p.push(b'-');
                if rng.chance(1, 5) {
                    p.push(b'\\');
                }
                p.push(b);
                member.push(*rng.pick(&[b'-', b, b'q', b'm']));
            }
            _ => {
                // one or more classes with nothing in between, then a dash and a byte
                for _ in 0..1 + rng.below(2) {
                    let cl = rng.pick(CLASSES);
                    p.extend_from_slice(b"[:");
                    p.extend_from_slice(cl.as_bytes());
                    p.extend_from_slice(b":]");
                }
                let b = *rng.pick(b"zaZ9_");
                p.push(b'-');
                p.push(b);
                member.push(*rng.pick(&[b'-', b, b'q', b'5', b'B']));
            }
        }
    }
    match rng.below(14) {
        0 => {}                       // unclosed
        1 => p.extend_from_slice(b"-]"), // trailing dash
        _ => p.push(b']'),
    }
    p
}

/// a pattern and a text that is likely (not certainly) matched by it
fn gen_pair(rng: &mut Rng, slashy: bool) -> (Vec<u8>, Vec<u8>) {
    let mut p = Vec::new();
    let mut t = Vec::new();
    let ntok = 1 + rng.below(6);
    let mut stars = 0;
    for _ in 0..ntok {
        match rng.below(16) {
            0..=4 => {
                let b = if slashy && rng.chance(1, 4) { b'/' } else { *rng.pick(b"abcABZ.-_ x") };
                p.push(b);
                t.push(b);
            }
            5 => {
                p.push(b'?');
                t.push(if slashy && rng.chance(1, 5) { b'/' } else { any_byte(rng) });
            }
            6..=8 if stars < 5 => {
                stars += 1;
                let form: &[u8] = match rng.below(if slashy { 9 } else { 4 }) {
                    0 | 1 => b"*",
                    2 => b"**",
                    3 => b"***",
                    4 => b"**/",
                    5 => b"/**/",
                    6 => b"/**",
                    7 => b"*/",
                    _ => b"**\\/",
                };
                p.extend_from_slice(form);
                let n = rng.below(4);
                for _ in 0..n {
                    t.push(if slashy && rng.chance(1, 4) { b'/' } else { *rng.pick(b"abcAx.") });
                }
                if form.ends_with(b"/") && !form.starts_with(b"/") && rng.chance(2, 3) && n > 0 {
                    t.push(b'/');
                } else if form.contains(&b'/') && rng.chance(1, 2) {
                    t.push(b'/');
                }
            }
            9..=12 => {
                let mut member = Vec::new();
                let b = gen_bracket(rng, &mut member);
                p.extend_from_slice(&b);
                if member.is_empty() || rng.chance(1, 5) {
                    t.push(any_byte(rng));
                } else {
                    t.push(*rng.pick(&member));
                }
            }
            13 => {
                let b = *rng.pick(b"*?[\\aA/]!");
                p.push(b'\\');
                p.push(b);
                t.push(b);
            }
            _ => {
                let b = any_byte(rng);
                p.push(b);
                t.push(b);
            }
        }
    }
    // mutate the text now and then
    match rng.below(10) {
        0 if !t.is_empty() => {
            let i = rng.below(t.len() as u64) as usize;
            t[i] = any_byte(rng);
        }
        1 if !t.is_empty() => {
            let i = rng.below(t.len() as u64) as usize;
            t.remove(i);
        }
        2 => {
            let i = rng.below(t.len() as u64 + 1) as usize;
            t.insert(i, if slashy { b'/' } else { any_byte(rng) });
        }
        3 => {
            t.truncate(rng.below(t.len() as u64 + 1) as usize);
        }
        4 => {
            for b in t.iter_mut() {
                *b = flip_case(rng, *b);
            }
        }
        5 => {
            for b in p.iter_mut() {
                *b = flip_case(rng, *b);
            }
        }
        _ => {}
    }
    for b in t.iter_mut().chain(p.iter_mut()) {
        if *b == 0 {
            *b = 1;
        }
    }
    (p, t)
}

fn gen(rng: &mut Rng, n: usize) -> Vec<Case> {
    let mut out = Vec::new();
    // boundary block 1: every class against the bytes at the edges of the ctype ranges
    for (k, cl) in CLASSES.iter().enumerate() {
        let pat = format!("[[:{cl}:]]").into_bytes();
        let npat = format!("[^[:{cl}:]]").into_bytes();
        for (j, b) in EDGE_BYTES.iter().enumerate() {
            let f = ((k + j) % 4) as u64;
            out.push(case(f & 2, &pat, &[*b]));
            if (k + j) % 3 == 0 {
                out.push(case(f | 1, &npat, &[*b]));
            }
        }
    }
    // boundary block 2: recursion bound (k nested stars), k = 62..66
    for k in [1usize, 2, 62, 63, 64, 65] {
        let p: Vec<u8> = b"*a".repeat(k);
        let t: Vec<u8> = b"a".repeat(k);
        out.push(case(0, &p, &t));
        out.push(case(1, &p, &t));
        let p2: Vec<u8> = b"**/".repeat(k);
        let mut p2b = p2.clone();
        p2b.push(b'a');
        out.push(case(1, &p2b, b"x/a"));
        out.push(case(1, &p2b, b"a"));
    }
    // boundary block 3: ranges under case folding, reversed ranges, escaped members
    for p in [
        &b"[A-Z]"[..], b"[a-z]", b"[B-a]", b"[Z-y]", b"[z-a]", b"[@-a]", b"[A-_]", b"[_-0]", b"[A]", b"[a]", b"\\A", b"\\a",
        b"[\\A]", b"[[:upper:]]", b"[[:lower:]]", b"A", b"*A", b"*[A]", b"[a-c-e]", b"[!a-c]", b"[]-a]", b"[--A]",
    ] {
        for t in [&b"a"[..], b"A", b"z", b"Z", b"^", b"_", b"5", b"x", b"-", b"d"] {
            for f in [0u64, 2, 3] {
                out.push(case(f, p, t));
            }
        }
    }
    // boundary block 5: adjacency inside one bracket expression: what a `-` means after a literal, an
    // escaped literal, a range, and after one or two classes that follow them (the class resets the
    // range start, so `[a[:digit:]-z]` is a, digits, '-', z)
    for first in [&b""[..], b"a", b"\\a", b"a-c", b"]", b"-"] {
        for classes in [&b""[..], b"[:digit:]", b"[:digit:][:upper:]", b"[:spaci:]", b"[:digit]"] {
            for tail in [&b"-z"[..], b"-\\z", b"-", b"--z", b"-[:alpha:]", b"z"] {
                for neg in [&b""[..], b"!"] {
                    let mut p = b"[".to_vec();
                    p.extend_from_slice(neg);
                    p.extend_from_slice(first);
                    p.extend_from_slice(classes);
                    p.extend_from_slice(tail);
                    p.push(b']');
                    let texts: &[&[u8]] = if neg.is_empty() { &[b"q", b"-", b"5", b"z", b"b"] } else { &[b"q", b"-"] };
                    for t in texts {
                        out.push(case(0, &p, t));
                    }
                }
            }
        }
    }
    // boundary block 4: star shapes with and without slashes
    for p in [
        &b"*"[..], b"**", b"a*", b"*a", b"a/*", b"a/**", b"**/a", b"a/**/b", b"a**/b", b"a/**b", b"*/a", b"a*/b", b"**\\/a",
        b"a/**/**/b", b"*?", b"*[a]", b"*\\a", b"a*b*c", b"/**/", b"**/", b"/**", b"*/*", b"a/***/b", b"[[:a]*b", b"[[:]*b",
        b"[[:a]**/b", b"[[:digit]ab]*b", b"x[[:a]*b/**/c",
    ] {
        for t in [
            &b""[..], b"a", b"b", b"a/", b"/a", b"a/b", b"a/x/b", b"a/x/y/b", b"ab", b"axb", b"ax/b", b"a/xb", b"abc", b"a/b/c",
            b"/", b"//", b"x/a", b"x/y/a", b"aa", b"[b", b":b", b"[xb", b"axb/c", b"[ab/c", b"x[b/c", b"x:b/q/c",
        ] {
            for f in [0u64, 1] {
                out.push(case(f, p, t));
            }
        }
    }
    while out.len() < n {
        let flags = rng.below(4);
        let slashy = flags & 1 != 0 || rng.chance(1, 3);
        match rng.below(20) {
            0 => {
                // single class against any byte
                let cl = rng.pick(CLASSES);
                let neg = if rng.chance(1, 4) { "^" } else { "" };
                let pat = format!("[{neg}[:{cl}:]]").into_bytes();
                let b = 1 + rng.below(255) as u8;
                out.push(case(flags, &pat, &[b]));
            }
            1 => {
                // single bracket against one byte
                let mut member = Vec::new();
                let p = gen_bracket(rng, &mut member);
                let b = if member.is_empty() || rng.chance(1, 2) { any_byte(rng).max(1) } else { *rng.pick(&member) };
                out.push(case(flags, &p, &[b]));
            }
            2 => {
                // literal-only and "*literal" patterns: the shortcuts of Pattern::matches
                let w = rng.word(b"abAB/.", 0, 4);
                let mut p = if rng.chance(1, 2) { b"*".to_vec() } else { vec![] };
                p.extend_from_slice(&w);
                let mut t = rng.word(b"abAB/.", 0, 3);
                if rng.chance(3, 4) {
                    t.extend_from_slice(&w);
                }
                if rng.chance(1, 4) {
                    for b in t.iter_mut() {
                        *b = flip_case(rng, *b);
                    }
                }
                out.push(case(flags, &p, &t));
            }
            3 => {
                // literal prefix then wildcard
                let w = rng.word(b"abAB/.", 1, 4);
                let (p2, t2) = gen_pair(rng, slashy);
                let mut p = w.clone();
                p.extend_from_slice(&p2);
                let mut t = if rng.chance(4, 5) { w.clone() } else { rng.word(b"abAB/.", 0, 4) };
                if rng.chance(1, 4) {
                    for b in t.iter_mut() {
                        *b = flip_case(rng, *b);
                    }
                }
                t.extend_from_slice(&t2);
                out.push(case(flags, &p, &t));
            }
            4 => {
                // random soup over the special characters
                let p = rng.word(b"*?[]\\/a!-:^A", 0, 8);
                let t = rng.word(b"a/A[]:-b\\", 0, 6);
                out.push(case(flags, &p, &t));
            }
            _ => {
                let (p, t) = gen_pair(rng, slashy);
                out.push(case(flags, &p, &t));
            }
        }
    }
    out.truncate(n.max(1));
    out
}

// ------------------------------------------------------------------------------------------------
// git oracle: `git check-ignore --no-index` with a single exclude pattern.
//   flags without PATHNAME: pattern and text without '/': dir.c match_basename -> wildmatch(p, t, 0|CASEFOLD)
//   flags with PATHNAME: the pattern is written as "/" + p with p starting with a glob special, so
//   that dir.c match_pathname strips no literal prefix and calls wildmatch(p, path, WM_PATHNAME|..);
//   check-ignore also reports a match when a leading directory of the path matches, the "spec"
//   transcript computes the same disjunction.
// ------------------------------------------------------------------------------------------------
fn git_applicable(flags: u64, p: &[u8], t: &[u8]) -> bool {
    if p.is_empty() || t.is_empty() || t[0] == b':' {
        return false; // a leading ':' is pathspec magic for check-ignore
    }
    if p.contains(&0) || p.contains(&b'\n') || t.contains(&0) {
        return false;
    }
    if matches!(p.last(), Some(b' ' | b'\t' | b'\r' | b'/' | b'\\')) || p.contains(&b'\r') {
        return false;
    }
    if t.split(|b| *b == b'/').any(|comp| comp.is_empty() || comp == b"." || comp == b".." || comp.eq_ignore_ascii_case(b".git")) {
        return false;
    }
    if flags & 1 == 0 {
        !p.contains(&b'/') && !t.contains(&b'/') && !matches!(p[0], b'!' | b'#' | b' ' | b'\t')
    } else {
        is_glob_special(p[0])
    }
}

fn git(c: &Case) -> String {
    use std::io::Write as _;
    if f_str(c, 0) != b"wm" {
        return "-".into();
    }
    let flags = f_u64(c, 1);
    let p = f_str(c, 2);
    let t = f_str(c, 3);
    if !git_applicable(flags, p, t) {
        return "-".into();
    }
    static CTR: std::sync::atomic::AtomicU64 = std::sync::atomic::AtomicU64::new(0);
    let dir = &{
        let k = CTR.fetch_add(1, std::sync::atomic::Ordering::SeqCst);
        let d = std::env::temp_dir().join(format!("gixv-c36-{}-{}", std::process::id(), k));
        let _ = std::fs::remove_dir_all(&d);
        std::fs::create_dir_all(d.join(".git/objects")).unwrap();
        std::fs::create_dir_all(d.join(".git/refs")).unwrap();
        std::fs::create_dir_all(d.join(".git/info")).unwrap();
        std::fs::write(d.join(".git/HEAD"), "ref: refs/heads/main\n").unwrap();
        d
    };
    let mut line = Vec::new();
    if flags & 1 != 0 {
        line.push(b'/');
    }
    line.extend_from_slice(p);
    line.push(b'\n');
    std::fs::write(dir.join(".git/info/exclude"), &line).unwrap();
    let mut child = std::process::Command::new("git")
        .current_dir(dir)
        .env("GIT_CONFIG_NOSYSTEM", "1")
        .env("HOME", dir)
        .env("LC_ALL", "C")
        .args([
            "-c",
            if flags & 2 != 0 { "core.ignorecase=true" } else { "core.ignorecase=false" },
            "-c",
            "core.excludesFile=",
            "check-ignore",
            "--no-index",
            "-z",
            "--stdin",
        ])
        .stdin(std::process::Stdio::piped())
        .stdout(std::process::Stdio::piped())
        .stderr(std::process::Stdio::piped())
        .spawn()
        .expect("git");
    {
        let mut si = child.stdin.take().unwrap();
        si.write_all(t).unwrap();
        si.write_all(&[0]).unwrap();
    }
    let o = child.wait_with_output().expect("git out");
    let _ = std::fs::remove_dir_all(dir);
    match o.status.code() {
        Some(0) => "ignored=1".into(),
        Some(1) => "ignored=0".into(),
        _ => "-".into(),
    }
}

fn main() {
    main_with(Harness { gen, imp, prop, git: Some(git), deadline: std::time::Duration::from_secs(60) });
}
