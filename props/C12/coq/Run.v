(* C12 — transcript printer.  Case kinds:
     pid  <index> <multi | "-">        PackId -> intrinsic id -> PackId
     pidr <u32>                         intrinsic id -> PackId -> intrinsic id
     hist <slots> <op> <op> ...         a sequential history on an abstract object directory (see NOTES.md)
     ts   <fx> <slots> <label> ...      a schedule of the interleaving semantics (model-only; the harness prints `-`
                                         ... it is not compared) *)
From GixV.Base Require Import Bytes Outcome.
From GixV.C12 Require Import Model.
From Coq Require Import Arith.
Local Open Scope N_scope.

Definition dec (n : N) : bytes := N_to_dec n.
Definition decn (n : nat) : bytes := N_to_dec (N.of_nat n).

Definition show_packid (p : packid) : bytes :=
  dec (pk_index p) ++ bs "/" ++ match pk_multi p with None => bs "-" | Some m => dec m end.

Definition run_pid (fs : list bytes) : bytes :=
  let p := mkPackId (field_N 1 fs)
                    (match dec_to_N (nth_field 2 fs) with Some m => Some m | None => None end) in
  match to_intrinsic p with
  | Ok id => bs "ok " ++ dec id ++ bs " " ++ show_packid (from_intrinsic id)
  | _ => bs "PANIC"
  end.
Definition run_pidr (fs : list bytes) : bytes :=
  let p := from_intrinsic (field_N 1 fs) in
  bs "ok " ++ show_packid p ++ bs " " ++
  match to_intrinsic p with Ok id => dec id | _ => bs "PANIC" end.

(* ---- histories ---- *)
Definition fstate_char (s : fstate) : byte :=
  match s with Unloaded => "U" | Loaded => "L" | Garbage => "G" | Missing => "M" end%byte.

Fixpoint join_with (sep : bytes) (l : list bytes) : bytes :=
  match l with
  | [] => []
  | [x] => x
  | x :: r => x ++ sep ++ join_with sep r
  end.

Definition show_slot (i : nat) (s : slot) : bytes :=
  match sfiles s with
  | Some (BSingle p ist dst) =>
      bs " " ++ decn i ++ bs ":" ++ dec (sgen s) ++ bs ":S:p" ++ dec p ++ bs ":" ++ [fstate_char ist; fstate_char dst]
  | Some (BMulti v mst dsts) =>
      bs " " ++ decn i ++ bs ":" ++ dec (sgen s) ++ bs ":M:m:" ++ fstate_char mst :: map fstate_char dsts
  | None => if sgen s =? 0 then [] else bs " " ++ decn i ++ bs ":" ++ dec (sgen s) ++ bs ":-"
  end.
Fixpoint show_slots (i : nat) (l : list slot) : bytes :=
  match l with
  | [] => []
  | s :: r => show_slot i s ++ show_slots (S i) r
  end.
Definition show_store (st : store) : bytes :=
  let ix := cur st in
  bs "g" ++ dec (igen ix) ++ bs " i" ++ join_with (bs ",") (map decn (islots ix)) ++
  bs " n" ++ decn (inext ix) ++ bs " l" ++ decn (iloaded ix) ++ bs " c" ++ dec (ncons st) ++
  bs " h" ++ decn (nstable st) ++ show_slots O (slots st).

Definition show_entry (e : sentry) : bytes :=
  bs " " ++ decn (e_slot e) ++ bs ":" ++
  match e_path e with PIdx p => bs "p" ++ dec p | PMidx => bs "m" end ++ bs ":" ++
  map (fun b : bool => if b then "1"%byte else "0"%byte) (e_data e).
Definition show_snapshot (s : snapshot) : bytes :=
  bs "g" ++ dec (m_gen s) ++ concat (map show_entry (s_ents s)).

Record hnd := mkH { hd_refresh : bool; hd_stable : bool; hd_snap : snapshot }.
Record world := mkW {
  w_st : store; w_handles : list (option hnd); w_nobj : N; w_npack : N; w_nmidx : N }.

Fixpoint split_dot (l : bytes) (cur : bytes) : list bytes :=
  match l with
  | [] => [cur]
  | b :: r => if beqb b "."%byte then cur :: split_dot r [] else split_dot r (cur ++ [b])
  end.
Definition arg (k : nat) (args : list bytes) : N :=
  match dec_to_N (nth k args []) with Some v => v | None => 0 end.

Fixpoint seqN (start : N) (n : nat) : list N :=
  match n with O => [] | S k => start :: seqN (start + 1) k end.

Definition all_disk_objs (st : store) : list N :=
  rev (dedupN (concat (map (objs_of_pack (reg st)) (d_packs (dsk st))) ++ d_loose (dsk st)) []).

Fixpoint insert_sortedN (x : N) (l : list N) : list N :=
  match l with
  | [] => [x]
  | y :: r => if x <=? y then x :: l else y :: insert_sortedN x r
  end.
Definition sortN (l : list N) : list N := fold_right insert_sortedN [] l.

Definition with_store (w : world) (st : store) : world :=
  mkW st (w_handles w) (w_nobj w) (w_npack w) (w_nmidx w).
Definition set_hnd (w : world) (h : nat) (x : option hnd) : world :=
  mkW (w_st w) (replace_nth h x (w_handles w)) (w_nobj w) (w_npack w) (w_nmidx w).

Definition add_pack (w : world) (objs : list N) : world :=
  let st := w_st w in
  let p := w_npack w + 1 in
  let d := dsk st in
  let r := reg st in
  mkW (set_disk st (mkDisk (d_packs d ++ [p]) (d_midx d) (d_loose d))
                (mkReg (r_packs r ++ [(p, objs)]) (r_midx r)))
      (w_handles w) (w_nobj w) p (w_nmidx w).

Definition lookup_fuel : nat := 40.

Definition show_after (w : world) (h : nat) : bytes :=
  bs " [" ++ show_store (w_st w) ++ bs "] [" ++
  match nth h (w_handles w) None with Some hd => show_snapshot (hd_snap hd) | None => [] end ++ bs "]".

(* one op; the transcript piece, or None for PANIC / HANG *)
Definition do_op (w : world) (op : bytes) : outcome (world * bytes) unit :=
  match op with
  | [] => Ok (w, bs "?")
  | c :: rest =>
      let args := split_dot rest [] in
      let st := w_st w in
      let d := dsk st in
      if beqb c "P"%byte then
        let k := N.to_nat (arg 0 args) in
        let w1 := add_pack w (seqN (w_nobj w) k) in
        Ok (mkW (w_st w1) (w_handles w1) (w_nobj w + N.of_nat k) (w_npack w1) (w_nmidx w1), bs ".")
      else if beqb c "L"%byte then
        let k := N.to_nat (arg 0 args) in
        Ok (mkW (set_disk st (mkDisk (d_packs d) (d_midx d) (d_loose d ++ seqN (w_nobj w) k)) (reg st))
                (w_handles w) (w_nobj w + N.of_nat k) (w_npack w) (w_nmidx w), bs ".")
      else if beqb c "R"%byte then
        match all_disk_objs st with
        | [] => Ok (w, bs ".")
        | objs =>
            let w1 := add_pack w objs in
            let st1 := w_st w1 in
            Ok (with_store w1 (set_disk st1 (mkDisk [w_npack w1] None []) (reg st1)), bs ".")
        end
      else if beqb c "r"%byte then
        match d_loose d with
        | [] => Ok (w, bs ".")
        | objs =>
            let w1 := add_pack w objs in
            let st1 := w_st w1 in
            let d1 := dsk st1 in
            Ok (with_store w1 (set_disk st1 (mkDisk (d_packs d1) (d_midx d1) []) (reg st1)), bs ".")
        end
      else if beqb c "M"%byte then
        match d_packs d with
        | [] => Ok (w, bs ".")
        | ps =>
            let v := w_nmidx w + 1 in
            let r := reg st in
            Ok (mkW (set_disk st (mkDisk (d_packs d) (Some v) (d_loose d))
                              (mkReg (r_packs r) (r_midx r ++ [(v, sortN ps)])))
                    (w_handles w) (w_nobj w) (w_npack w) v, bs ".")
        end
      else if beqb c "m"%byte then
        Ok (with_store w (set_disk st (mkDisk (d_packs d) None (d_loose d)) (reg st)), bs ".")
      else if beqb c "D"%byte then
        match d_packs d, d_midx d with
        | ((_ :: _) as ps), None =>
            let k := Nat.modulo (N.to_nat (arg 0 args)) (length ps) in
            let p := nth k ps 0 in
            Ok (with_store w (set_disk st (mkDisk (filter (fun q => negb (q =? p)) ps) None (d_loose d)) (reg st)),
                bs ".")
        | _, _ => Ok (w, bs ".")
        end
      else if beqb c "H"%byte then
        Ok (mkW st (w_handles w ++ [Some (mkH true false (collect_snapshot st))])
                (w_nobj w) (w_npack w) (w_nmidx w),
            bs "H" ++ show_after (mkW st (w_handles w ++ [Some (mkH true false (collect_snapshot st))])
                                     (w_nobj w) (w_npack w) (w_nmidx w)) (length (w_handles w)))
      else
        let h := N.to_nat (arg 0 args) in
        match nth h (w_handles w) None with
        | None => Ok (w, bs "x")
        | Some hd =>
            if beqb c "C"%byte then
              let st1 := if hd_stable hd
                         then mkStore (slots st) (cur st) (fresh st) (S (nstable st)) (ncons st) (dsk st) (reg st)
                         else st in
              let w1 := mkW st1 (w_handles w ++ [Some (mkH (hd_refresh hd) (hd_stable hd) (collect_snapshot st1))])
                            (w_nobj w) (w_npack w) (w_nmidx w) in
              Ok (w1, bs "C" ++ show_after w1 (length (w_handles w)))
            else if beqb c "S"%byte then
              if hd_stable hd then Ok (w, bs "S" ++ show_after w h)
              else
                let st1 := mkStore (slots st) (cur st) (fresh st) (S (nstable st)) (ncons st) (dsk st) (reg st) in
                let w1 := set_hnd (with_store w st1) h (Some (mkH (hd_refresh hd) true (hd_snap hd))) in
                Ok (w1, bs "S" ++ show_after w1 h)
            else if beqb c "N"%byte then
              Ok (set_hnd w h (Some (mkH false (hd_stable hd) (hd_snap hd))), bs "N")
            else if beqb c "Z"%byte then
              let st1 := if hd_stable hd
                         then mkStore (slots st) (cur st) (fresh st) (Nat.pred (nstable st)) (ncons st) (dsk st) (reg st)
                         else st in
              let w1 := set_hnd (with_store w st1) h None in
              Ok (w1, bs "Z" ++ show_after w1 h)
            else if beqb c "e"%byte then
              obind (contains lookup_fuel st (hd_refresh hd) (hd_snap hd) (arg 1 args)) (fun '(st1, sn, b) =>
                let w1 := set_hnd (with_store w st1) h (Some (mkH (hd_refresh hd) (hd_stable hd) sn)) in
                Ok (w1, bs "e=" ++ bool_to_bytes b ++ show_after w1 h))
            else if beqb c "f"%byte then
              obind (try_find lookup_fuel st (hd_refresh hd) (hd_snap hd) (arg 1 args)) (fun '(st1, sn, r) =>
                let w1 := set_hnd (with_store w st1) h (Some (mkH (hd_refresh hd) (hd_stable hd) sn)) in
                Ok (w1, bs "f=" ++ match r with
                                   | Found _ src => src
                                   | NotFound => bs "none"
                                   | LErr => bs "err"
                                   | WrongPack _ _ => bs "wrong"
                                   end ++ show_after w1 h))
            else Ok (w, bs "?")
        end
  end.

Fixpoint run_ops (w : world) (ops : list bytes) (acc : list bytes) : bytes :=
  match ops with
  | [] => join_with (bs ";") (rev acc)
  | op :: r =>
      match do_op w op with
      | Ok (w', t) => run_ops w' r (t :: acc)
      | Panic => bs "PANIC"
      | OutOfFuel => bs "HANG"
      | Err _ => bs "?"
      end
  end.

Definition run_hist (fs : list bytes) : bytes :=
  let n := N.to_nat (field_N 1 fs) in
  run_ops (mkW (init_store n) [] 0 0 0) (skipn 3 fs) [].

Definition run_model (fs : list bytes) : bytes :=
  let op := nth_field 0 fs in
  if bytes_eqb op (bs "pid") then run_pid fs
  else if bytes_eqb op (bs "pidr") then run_pidr fs
  else if bytes_eqb op (bs "hist") then run_hist fs
  else bs "?".

Definition run (fs : list bytes) : bytes :=
  match fs with
  | _mode :: rest => run_model rest
  | [] => bs "?"
  end.
