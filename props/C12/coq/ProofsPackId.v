(* C12 — PackId <-> intrinsic pack id *)
From Coq Require Import List NArith Lia Bool ZifyBool ZifyN.
From GixV.Base Require Import Bytes Outcome.
From GixV.C12 Require Import Model.
Local Open Scope N_scope.
Ltac Zify.zify_post_hook ::= Z.div_mod_to_equations.

Lemma land_pow2_testbit x k : N.land x (2 ^ k) = 0 <-> N.testbit x k = false.
Proof.
  split; intros H.
  - assert (E : N.testbit (N.land x (2 ^ k)) k = false) by (rewrite H; apply N.bits_0).
    rewrite N.land_spec, N.pow2_bits_true, andb_true_r in E. exact E.
  - apply N.bits_inj. intros n. rewrite N.land_spec, N.bits_0, N.pow2_bits_eqb.
    destruct (N.eqb_spec k n) as [->|_]; [rewrite H; reflexivity | apply andb_false_r].
Qed.

Lemma testbit_small x k : x < 2 ^ k -> forall n, k <= n -> N.testbit x n = false.
Proof.
  intros H n Hn. destruct (N.eq_dec x 0) as [->|Hx]; [apply N.bits_0|].
  apply N.bits_above_log2. apply N.log2_lt_pow2 in H; lia.
Qed.

Lemma land_small_shifted a m k : a < 2 ^ k -> N.land a (N.shiftl m k) = 0.
Proof.
  intros H. apply N.bits_inj. intros n. rewrite N.land_spec, N.bits_0.
  destruct (N.lt_ge_cases n k) as [L|L].
  - rewrite N.shiftl_spec_low by exact L. apply andb_false_r.
  - rewrite (testbit_small a k H n L). reflexivity.
Qed.

Lemma lor_disjoint a b : N.land a b = 0 -> N.lor a b = a + b.
Proof. intros H. rewrite <- N.lxor_lor by exact H. symmetry. apply N.add_nocarry_lxor. exact H. Qed.

Lemma layout i m : i < 2 ^ 15 -> N.lor (N.lor i (N.shiftl 1 15)) (N.shiftl m 16) = i + 2 ^ 15 + m * 2 ^ 16.
Proof.
  intros Hi.
  assert (E1 : N.lor i (N.shiftl 1 15) = i + 2 ^ 15).
  { rewrite lor_disjoint; [rewrite N.shiftl_1_l; reflexivity | apply land_small_shifted; exact Hi]. }
  rewrite E1. rewrite lor_disjoint; [rewrite N.shiftl_mul_pow2; reflexivity|].
  apply land_small_shifted. change (2 ^ 16) with 65536. change (2 ^ 15) with 32768 in *. lia.
Qed.

Definition packid_valid (p : packid) : Prop :=
  pk_index p < 2 ^ 15 /\ match pk_multi p with Some m => m <= 65535 | None => True end.

Lemma L_packid_roundtrip p : packid_valid p ->
  exists id, to_intrinsic p = Ok id /\ id < 2 ^ 32 /\ from_intrinsic id = p.
Proof.
  destruct p as [i [m|]]; unfold packid_valid; cbn [pk_index pk_multi]; intros (Hi & Hm).
  - unfold to_intrinsic; cbn [pk_index pk_multi].
    destruct (N.ltb_spec i (2 ^ 15)); [|lia].
    unfold max_packs_in_multi_index. destruct (N.leb_spec m (2 ^ 16 - 1)); [|change (2 ^ 16 - 1) with 65535 in *; lia].
    rewrite layout by exact Hi.
    change (2 ^ 15) with 32768 in *. change (2 ^ 16) with 65536 in *. change (2 ^ 32) with 4294967296.
    assert (Hx : (i + 32768 + m * 65536) mod 4294967296 = i + 32768 + m * 65536) by (apply N.mod_small; lia).
    rewrite Hx. eexists. split; [reflexivity|]. split; [lia|].
    unfold from_intrinsic. set (x := i + 32768 + m * 65536).
    assert (Hb : N.testbit x 15 = true).
    { rewrite N.testbit_eqb. change (2 ^ 15) with 32768. apply N.eqb_eq. unfold x. lia. }
    destruct (N.eqb_spec (N.land x (N.shiftl 1 15)) 0) as [E|_].
    + rewrite N.shiftl_1_l in E. apply land_pow2_testbit in E. congruence.
    + f_equal.
      * change 32767 with (N.ones 15). rewrite N.land_ones. change (2 ^ 15) with 32768. unfold x. lia.
      * f_equal. rewrite N.shiftr_div_pow2. change (2 ^ 16) with 65536. unfold x. lia.
  - unfold to_intrinsic; cbn [pk_index pk_multi].
    destruct (N.ltb_spec i (2 ^ 15)); [|lia].
    exists i. split; [reflexivity|]. change (2 ^ 15) with 32768 in *. change (2 ^ 32) with 4294967296. split; [lia|].
    unfold from_intrinsic.
    destruct (N.eqb_spec (N.land i (N.shiftl 1 15)) 0) as [_|E].
    + f_equal. change 32767 with (N.ones 15). rewrite N.land_ones. change (2 ^ 15) with 32768. lia.
    + exfalso. apply E. rewrite N.shiftl_1_l. apply land_pow2_testbit.
      apply (testbit_small i 15); [change (2 ^ 15) with 32768; lia | lia].
Qed.

Lemma L_packid_panics_exactly p : to_intrinsic p = Panic <-> ~ packid_valid p.
Proof.
  destruct p as [i [m|]]; unfold packid_valid, to_intrinsic, max_packs_in_multi_index; cbn [pk_index pk_multi];
    change (2 ^ 16 - 1) with 65535; destruct (N.ltb_spec i (2 ^ 15)) as [L1|L1];
    try destruct (N.leb_spec m 65535) as [L2|L2];
    split; intros HH; try discriminate; try reflexivity; try lia; try (exfalso; apply HH; split; auto; lia).
Qed.

(* two valid pack ids never share an intrinsic id (the id is used as cache key) *)
Lemma L_packid_injective p q id :
  packid_valid p -> packid_valid q -> to_intrinsic p = Ok id -> to_intrinsic q = Ok id -> p = q.
Proof.
  intros Hp Hq Ep Eq.
  destruct (L_packid_roundtrip p Hp) as (i1 & E1 & _ & R1).
  destruct (L_packid_roundtrip q Hq) as (i2 & E2 & _ & R2).
  rewrite Ep in E1. rewrite Eq in E2. apply Ok_inj in E1. apply Ok_inj in E2. congruence.
Qed.

(* the decision table's last filter: no slot that was (re)assigned in this refresh is cleared afterwards *)
Lemma L_removed_not_reassigned (newl rm : list nat) :
  disjoint_nat (filter (fun i => negb (mem_nat i newl)) rm) newl = true.
Proof.
  unfold disjoint_nat. apply forallb_forall. intros x Hx. apply filter_In in Hx. apply Hx.
Qed.
