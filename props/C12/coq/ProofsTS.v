(* C12 — the slot/generation protocol under every interleaving (Model.v, Part 3): invariant and its consequences. *)
From Coq Require Import List Arith NArith Lia Bool.
From GixV.Base Require Import Bytes.
From GixV.C12 Require Import Model.
Import ListNotations.
Local Open Scope N_scope.

(* ---- list helpers ---- *)
Lemma replace_nth_In {A} (i : nat) (x : A) (l : list A) (y : A) :
  In y (replace_nth i x l) -> y = x \/ In y l.
Proof.
  revert i. induction l as [|a l IH]; intros i H; cbn in H.
  - destruct i; contradiction.
  - destruct i; cbn in H.
    + destruct H as [H|H]; [left; now symmetry | right; now right].
    + destruct H as [H|H]; [right; now left|]. destruct (IH _ H); [now left | right; now right].
Qed.

Lemma replace_nth_length {A} (i : nat) (x : A) (l : list A) : length (replace_nth i x l) = length l.
Proof. revert i. induction l; intros [|i]; cbn; auto. Qed.

Lemma nth_replace_nth {A} (i j : nat) (x d : A) (l : list A) :
  nth j (replace_nth i x l) d = nth j l d \/ (j = i /\ (i < length l)%nat /\ nth j (replace_nth i x l) d = x).
Proof.
  revert i j. induction l as [|a l IH]; intros i j.
  - left. destruct i; reflexivity.
  - destruct i, j; cbn.
    + right. repeat split. lia.
    + now left.
    + now left.
    + destruct (IH i j) as [H|(H1 & H2 & H3)]; [now left|]. right. subst. repeat split; auto. lia.
Qed.

Lemma mem_nat_In x l : mem_nat x l = true <-> In x l.
Proof.
  unfold mem_nat. rewrite existsb_exists. split.
  - intros (y & Hy & E). apply Nat.eqb_eq in E. now subst.
  - intros H. exists x. split; auto. apply Nat.eqb_refl.
Qed.

Lemma disjoint_nat_spec a b : disjoint_nat a b = true -> forall x, In x a -> ~ In x b.
Proof.
  unfold disjoint_nat. rewrite forallb_forall. intros H x Hx Hb.
  specialize (H x Hx). apply mem_nat_In in Hb. rewrite Hb in H. discriminate.
Qed.

(* ---- the invariant ---- *)
Definition gen_of (g : astate_ts) (s : nat) : N := a_gen (aslot_at g s).
Definition id_of (g : astate_ts) (s : nat) : option N := a_id (aslot_at g s).

Definition hinv (g : astate_ts) (hd : ahandle) : Prop :=
  h_gen hd <= t_gen g /\
  (forall s c, In (s, c) (h_ents hd) -> In s (h_idx hd)) /\
  (forall s c, In (s, c) (h_ents hd) -> id_of g s = Some c \/ h_gen hd < gen_of g s) /\
  match h_lp hd with
  | L2 s f => forall c, In (s, c) (h_ents hd) -> f = Some c \/ h_gen hd < gen_of g s
  | L3 s c' => forall c, In (s, c) (h_ents hd) -> c' = c
  | LDone s (Some b) => forall c, In (s, c) (h_ents hd) -> b = c
  | LPanic => False
  | _ => True
  end.

Definition le_all (g : astate_ts) (b : N) : Prop := forall s, gen_of g s <= b.
Definition empties_low (g : astate_ts) : Prop := forall s, id_of g s = None -> gen_of g s <= t_gen g.
Definition rm_ok (g : astate_ts) (rm : list nat) : Prop :=
  (forall x, In x rm -> ~ In x (t_islots g)) /\
  (forall hd, In hd (t_handles g) -> h_gen hd = t_gen g -> forall x, In x rm -> ~ In x (h_idx hd)).

Definition cinv (g : astate_ts) : Prop :=
  match t_cons g with
  | CIdle => le_all g (t_gen g)
  | CAssign todo newl rm stable bump =>
      le_all g (if bump then t_gen g + 1 else t_gen g) /\ empties_low g /\ disjoint_nat rm newl = true
  | CAssignW s c todo newl rm stable bump =>
      le_all g (if bump then t_gen g + 1 else t_gen g) /\ empties_low g /\ disjoint_nat rm newl = true /\
      (gen_of g s = t_gen g + 1 \/ id_of g s = None)
  | CRemove rm stable => le_all g (t_gen g) /\ (stable = false -> rm_ok g rm)
  | CRemoveW s rm =>
      le_all g (t_gen g) /\ rm_ok g (s :: rm) /\ ((s < length (t_slots g))%nat -> gen_of g s = t_gen g)
  end.

Definition Inv (g : astate_ts) : Prop := cinv g /\ forall hd, In hd (t_handles g) -> hinv g hd.

(* ---- how one slot store changes what a handle can rely on ---- *)
Lemma hinv_slots g g' hd :
  hinv g hd -> t_gen g <= t_gen g' ->
  (forall s, gen_of g s <= gen_of g' s) ->
  (forall s c, In (s, c) (h_ents hd) -> id_of g' s = id_of g s \/ h_gen hd < gen_of g' s) ->
  hinv g' hd.
Proof.
  intros (H1 & H2 & H3 & H4) Hg Hm Hid. repeat split; auto.
  - lia.
  - intros s c Hin. destruct (H3 s c Hin) as [E|E].
    + destruct (Hid s c Hin) as [E'|E']; [left; congruence | now right].
    + right. specialize (Hm s). lia.
  - destruct (h_lp hd) as [|s|s f|s c'|s [b|]|]; auto.
    intros c Hin. destruct (H4 c Hin) as [E|E]; [now left|]. right. specialize (Hm s). lia.
Qed.

Lemma set_aslot_at g s x s' :
  aslot_at (set_aslot g s x) s' = aslot_at g s' \/
  (s' = s /\ (s < length (t_slots g))%nat /\ aslot_at (set_aslot g s x) s' = x).
Proof. unfold aslot_at, set_aslot; cbn. apply nth_replace_nth. Qed.

Lemma set_aslot_fields g s x :
  t_gen (set_aslot g s x) = t_gen g /\ t_islots (set_aslot g s x) = t_islots g /\
  t_cons (set_aslot g s x) = t_cons g /\ t_handles (set_aslot g s x) = t_handles g /\
  length (t_slots (set_aslot g s x)) = length (t_slots g).
Proof. unfold set_aslot; cbn. repeat split. apply replace_nth_length. Qed.

Lemma set_cons_same g c s : aslot_at (set_cons g c) s = aslot_at g s.
Proof. reflexivity. Qed.

(* a store that only raises the generation of one slot *)
Lemma raise_gen_hinv g s v hd :
  hinv g hd -> gen_of g s <= v ->
  hinv (set_aslot g s (mkASlot v (id_of g s))) hd.
Proof.
  intros H Hv. apply (hinv_slots g); auto.
  - cbn. lia.
  - intros s'. unfold gen_of. destruct (set_aslot_at g s (mkASlot v (id_of g s)) s') as [E|(E1 & _ & E)]; rewrite E.
    + lia.
    + subst. exact Hv.
  - intros s' c _. left. unfold id_of.
    destruct (set_aslot_at g s (mkASlot v (a_id (aslot_at g s))) s') as [E|(E1 & _ & E)]; unfold id_of; rewrite E; auto.
    subst. reflexivity.
Qed.

Lemma raise_gen_le_all g s v b :
  le_all g b -> v <= b -> le_all (set_aslot g s (mkASlot v (id_of g s))) b.
Proof.
  intros H Hv s'. unfold gen_of.
  destruct (set_aslot_at g s (mkASlot v (id_of g s)) s') as [E|(_ & _ & E)]; rewrite E; [apply H | exact Hv].
Qed.

Lemma hinv_cons g c hd : hinv g hd -> hinv (set_cons g c) hd.
Proof. intros H. exact H. Qed.

(* hinv depends on the global state only through t_gen and the slots *)
Lemma hinv_ext g g' hd :
  t_gen g' = t_gen g -> t_slots g' = t_slots g -> hinv g hd -> hinv g' hd.
Proof.
  intros Eg Es (H1 & H2 & H3 & H4).
  assert (Egen : forall s, gen_of g' s = gen_of g s) by (intros; unfold gen_of, aslot_at; now rewrite Es).
  assert (Eid : forall s, id_of g' s = id_of g s) by (intros; unfold id_of, aslot_at; now rewrite Es).
  repeat split; auto.
  - rewrite Eg. exact H1.
  - intros s c Hin. rewrite Eid, Egen. auto.
  - destruct (h_lp hd) as [|s|s f|s c'|s [b|]|]; auto. intros c Hin. rewrite Egen. auto.
Qed.

Lemma set_aslot_same g s x : (s < length (t_slots g))%nat -> aslot_at (set_aslot g s x) s = x.
Proof.
  unfold aslot_at, set_aslot; cbn. revert s. induction (t_slots g) as [|a l IH]; intros s H; cbn in *; [lia|].
  destruct s; cbn; auto. apply IH. lia.
Qed.
Lemma some_in_range g s c : a_id (aslot_at g s) = Some c -> (s < length (t_slots g))%nat.
Proof.
  unfold aslot_at. intros H. destruct (Nat.lt_ge_cases s (length (t_slots g))) as [L|L]; auto.
  rewrite (nth_overflow _ _ L) in H. discriminate.
Qed.

(* a store that only changes the identity of one slot *)
Lemma set_id_gen g s x s' : gen_of (set_aslot g s (mkASlot (gen_of g s) x)) s' = gen_of g s'.
Proof.
  unfold gen_of. destruct (set_aslot_at g s (mkASlot (a_gen (aslot_at g s)) x) s') as [E|(E1 & _ & E)]; rewrite E; auto.
  subst. reflexivity.
Qed.

Lemma gen_of_set_cons g c s : gen_of (set_cons g c) s = gen_of g s. Proof. reflexivity. Qed.
Lemma id_of_set_cons g c s : id_of (set_cons g c) s = id_of g s. Proof. reflexivity. Qed.
Lemma t_gen_set_cons g c : t_gen (set_cons g c) = t_gen g. Proof. reflexivity. Qed.
Lemma t_gen_set_aslot g s x : t_gen (set_aslot g s x) = t_gen g. Proof. reflexivity. Qed.
Lemma le_all_set_cons g c b : le_all (set_cons g c) b <-> le_all g b. Proof. reflexivity. Qed.
Ltac norm := rewrite ?gen_of_set_cons, ?id_of_set_cons, ?t_gen_set_cons, ?t_gen_set_aslot in *.

(* ---- preservation: the consolidating thread ---- *)
Lemma cons_step_inv g g' : Inv g -> cons_step true g = Some g' -> Inv g'.
Proof.
  intros (Hc & Hh) Hs. unfold cons_step in Hs. unfold cinv in Hc.
  destruct (t_cons g) as [|todo newl rm stable bump|s c todo newl rm stable bump|rm stable|s rm] eqn:Ec;
    try discriminate.
  - (* CAssign *)
    destruct Hc as (Hle & Hlow & Hdis).
    destruct todo as [|[s c] todo].
    + (* store the new index *)
      injection Hs as <-. split.
      * unfold cinv; cbn. split.
        -- intros s. specialize (Hle s). unfold gen_of, aslot_at in *; cbn [t_slots t_gen] in *.
           destruct bump, (negb stable && negb (length rm =? 0)%nat); cbn [orb] in *; lia.
        -- intros ->. split.
           ++ cbn. apply disjoint_nat_spec. exact Hdis.
           ++ cbn. intros hd Hin Hgen x Hx _.
              destruct (Hh hd Hin) as (H1 & _).
              destruct rm as [|r rm']; [contradiction|]. cbn in Hgen.
              rewrite orb_true_r in Hgen. lia.
      * cbn. intros hd Hin. specialize (Hh hd Hin). destruct Hh as (H1 & H2 & H3 & H4).
        repeat split; auto. cbn.
        destruct (bump || negb stable && negb (length rm =? 0)%nat); lia.
    + (* store the generation of the slot to assign *)
      destruct (a_id (aslot_at g s)) as [old|] eqn:Eid.
      * injection Hs as <-. pose proof (some_in_range _ _ _ Eid) as Hr. split.
        -- unfold cinv; cbn. repeat split.
           ++ change (Some old) with (a_id (mkASlot 0 (Some old))). cbn [a_id].
              rewrite <- Eid. apply raise_gen_le_all.
              ** intros s'. specialize (Hle s'). destruct bump; lia.
              ** lia.
           ++ intros s' Hn. norm. unfold id_of, gen_of in *.
              destruct (set_aslot_at g s (mkASlot (t_gen g + 1) (Some old)) s') as [E|(E1 & _ & E)];
                rewrite E in *; [apply Hlow; exact Hn | cbn in Hn; discriminate].
           ++ exact Hdis.
           ++ left. norm. unfold gen_of. rewrite set_aslot_same; auto.
        -- cbn. intros hd Hin. rewrite <- Eid. apply raise_gen_hinv; [apply Hh; exact Hin|].
           specialize (Hle s). destruct bump; lia.
      * injection Hs as <-. split.
        -- unfold cinv; cbn. repeat split.
           ++ rewrite <- Eid. apply raise_gen_le_all; [exact Hle | destruct bump; lia].
           ++ intros s' Hn. norm. unfold id_of, gen_of in *.
              destruct (set_aslot_at g s (mkASlot (t_gen g) None) s') as [E|(E1 & _ & E)];
                rewrite E in *; [apply Hlow; exact Hn | cbn; lia].
           ++ exact Hdis.
           ++ right. norm. unfold id_of.
              destruct (set_aslot_at g s (mkASlot (t_gen g) None) s) as [E|(_ & _ & E)]; rewrite E; [exact Eid | reflexivity].
        -- cbn. intros hd Hin. rewrite <- Eid. apply raise_gen_hinv; [apply Hh; exact Hin|]. apply Hlow. exact Eid.
  - (* CAssignW: the files of the slot are stored *)
    destruct Hc as (Hle & Hlow & Hdis & Hs').
    injection Hs as <-. split.
    + unfold cinv; cbn. repeat split.
      * intros s'. change (gen_of (set_aslot g s (mkASlot (gen_of g s) (Some c))) s' <= (if bump then t_gen g + 1 else t_gen g)).
        rewrite set_id_gen. apply Hle.
      * intros s' Hn. change (gen_of (set_aslot g s (mkASlot (gen_of g s) (Some c))) s' <= t_gen g).
        rewrite set_id_gen. apply Hlow. norm. unfold id_of in *.
        destruct (set_aslot_at g s (mkASlot (gen_of g s) (Some c)) s') as [E|(E1 & _ & E)]; unfold gen_of in *; rewrite E in Hn; auto.
        cbn in Hn. discriminate.
      * exact Hdis.
    + cbn. intros hd Hin. specialize (Hh hd Hin).
      apply (hinv_slots g); auto.
      * cbn. lia.
      * intros s'. change (gen_of g s' <= gen_of (set_aslot g s (mkASlot (gen_of g s) (Some c))) s').
        rewrite set_id_gen. lia.
      * intros s' c' Hin'.
        change (id_of (set_aslot g s (mkASlot (gen_of g s) (Some c))) s' = id_of g s' \/
                h_gen hd < gen_of (set_aslot g s (mkASlot (gen_of g s) (Some c))) s').
        rewrite set_id_gen. unfold id_of.
        destruct (set_aslot_at g s (mkASlot (gen_of g s) (Some c)) s') as [E|(E1 & _ & E)]; [left; unfold gen_of in *; now rewrite E|].
        subst s'. right. destruct Hh as (H1 & H2 & H3 & H4).
        destruct Hs' as [Hg|Hn].
        -- rewrite Hg. lia.
        -- destruct (H3 s c' Hin') as [E3|E3]; [congruence | exact E3].
  - (* CRemove *)
    destruct Hc as (Hle & Hrm).
    destruct rm as [|s rm].
    + injection Hs as <-. split; [exact Hle | exact Hh].
    + destruct stable.
      * injection Hs as <-. split; [|exact Hh]. unfold cinv; cbn. split; [exact Hle | discriminate].
      * injection Hs as <-. specialize (Hrm eq_refl). split.
        -- unfold cinv; cbn. repeat split.
           ++ apply raise_gen_le_all; [exact Hle | lia].
           ++ apply Hrm.
           ++ apply Hrm.
           ++ intros Hr. norm. unfold gen_of. rewrite set_aslot_same; auto.
              rewrite replace_nth_length in Hr. exact Hr.
        -- cbn. intros hd Hin. apply raise_gen_hinv; [apply Hh; exact Hin | apply Hle].
  - (* CRemoveW: the slot is cleared *)
    destruct Hc as (Hle & Hrm & Hg).
    injection Hs as <-. split.
    + unfold cinv; cbn. split.
      * intros s'. change (gen_of (set_aslot g s (mkASlot (gen_of g s) None)) s' <= t_gen g).
        rewrite set_id_gen. apply Hle.
      * intros _. destruct Hrm as (R1 & R2). split.
        -- intros x Hx. apply R1. now right.
        -- intros hd Hin E x Hx. apply (R2 hd Hin E). now right.
    + cbn. intros hd Hin. pose proof (Hh hd Hin) as Hhd.
      apply (hinv_slots g); auto.
      * cbn. lia.
      * intros s'. change (gen_of g s' <= gen_of (set_aslot g s (mkASlot (gen_of g s) None)) s').
        rewrite set_id_gen. lia.
      * intros s' c' Hin'.
        change (id_of (set_aslot g s (mkASlot (gen_of g s) None)) s' = id_of g s' \/
                h_gen hd < gen_of (set_aslot g s (mkASlot (gen_of g s) None)) s').
        rewrite set_id_gen. unfold id_of.
        destruct (set_aslot_at g s (mkASlot (gen_of g s) None) s') as [E|(E1 & Hr & E)]; [left; unfold gen_of in *; now rewrite E|].
        subst s'. right. rewrite (Hg Hr).
        destruct Hhd as (H1 & H2 & H3 & H4). destruct Hrm as (R1 & R2).
        assert (h_gen hd <> t_gen g).
        { intros E'. apply (R2 hd Hin E' s); [now left|]. apply (H2 s c'). exact Hin'. }
        lia.
Qed.

(* ---- preservation: handles ---- *)
Definition with_handles (g : astate_ts) (hs : list ahandle) : astate_ts :=
  mkTS (t_slots g) (t_gen g) (t_islots g) (t_cons g) hs.

Lemma cinv_handles g hs' :
  cinv g ->
  (forall y, In y hs' ->
     In y (t_handles g) \/
     (exists hd, In hd (t_handles g) /\ h_gen y = h_gen hd /\ h_idx y = h_idx hd) \/
     (h_gen y = t_gen g /\ h_idx y = t_islots g)) ->
  cinv (with_handles g hs').
Proof.
  intros Hc Hy. unfold cinv in *. cbn.
  assert (Hrm : forall rm, rm_ok g rm -> rm_ok (with_handles g hs') rm).
  { intros rm (R1 & R2). split; [exact R1|]. cbn. intros y Hin E x Hx.
    destruct (Hy y Hin) as [H|[(hd & H & Eg & Ei)|(Eg & Ei)]].
    - now apply R2.
    - rewrite Ei. apply (R2 hd H); [congruence | exact Hx].
    - rewrite Ei. now apply R1. }
  destruct (t_cons g); auto.
  - destruct Hc as (H1 & H2). split; auto.
  - destruct Hc as (H1 & H2 & H3). split; [exact H1|]. split; [apply Hrm; exact H2 | exact H3].
Qed.

Lemma hinv_with_handles g hs hd : hinv g hd -> hinv (with_handles g hs) hd.
Proof. apply hinv_ext; reflexivity. Qed.

Lemma set_handle_eq g h x : set_handle g h x = with_handles g (replace_nth h x (t_handles g)).
Proof. reflexivity. Qed.

Lemma handle_at_In g h : (h < length (t_handles g))%nat -> In (handle_at g h) (t_handles g).
Proof. intros H. unfold handle_at. now apply nth_In. Qed.

(* replacing handle h by x, where x keeps generation and index list or starts a new snapshot *)
Lemma set_handle_inv g h x :
  Inv g ->
  ((exists hd, In hd (t_handles g) /\ h_gen x = h_gen hd /\ h_idx x = h_idx hd) \/
   (h_gen x = t_gen g /\ h_idx x = t_islots g)) ->
  hinv g x -> Inv (set_handle g h x).
Proof.
  intros (Hc & Hh) Hx Hix. rewrite set_handle_eq. split.
  - apply cinv_handles; auto. intros y Hin. apply replace_nth_In in Hin. destruct Hin as [->|Hin]; auto.
  - cbn. intros y Hin. apply replace_nth_In in Hin. apply hinv_with_handles.
    destruct Hin as [->|Hin]; auto.
Qed.

Lemma fresh_handle_hinv g : hinv g (mkAH (t_gen g) (t_islots g) [] LIdle).
Proof. repeat split; cbn; try lia; try contradiction. Qed.

Lemma ts_step_inv g l g' : Inv g -> ts_step true g l = Some g' -> Inv g'.
Proof.
  intros HI Hs. destruct l as [assign newl rm stable|s| | |h|h s|h s|h mapped]; unfold ts_step in Hs.
  - (* ConsBegin *)
    destruct (t_cons g) eqn:Ec; try discriminate. unfold plan_ok in Hs.
    destruct (disjoint_nat rm newl) eqn:Ed; try discriminate. injection Hs as <-.
    destruct HI as (Hc & Hh). unfold cinv in Hc. rewrite Ec in Hc. split; [|exact Hh].
    unfold cinv; cbn. repeat split; auto. intros s _. apply Hc.
  - (* ConsPutBack *)
    destruct (t_cons g) as [|todo newl rm stable [|]| | |] eqn:Ec; try discriminate.
    injection Hs as <-. destruct HI as (Hc & Hh). unfold cinv in Hc. rewrite Ec in Hc.
    destruct Hc as (Hle & Hlow & Hdis). split.
    + unfold cinv. cbn. rewrite Ec. repeat split; auto.
      * apply raise_gen_le_all; [exact Hle | lia].
      * intros s' Hn. norm. unfold id_of, gen_of in *.
        destruct (set_aslot_at g s (mkASlot (t_gen g) (a_id (aslot_at g s))) s') as [E|(E1 & _ & E)]; rewrite E in *;
          [apply Hlow; exact Hn | cbn; lia].
    + cbn. intros hd Hin. apply raise_gen_hinv; [apply Hh; exact Hin | apply Hle].
  - (* ConsStep *) eapply cons_step_inv; eauto.
  - (* HNew *)
    injection Hs as <-. destruct HI as (Hc & Hh). split.
    + apply (cinv_handles g); auto. intros y Hin. apply in_app_or in Hin. destruct Hin as [Hin|[<-|[]]]; auto.
    + cbn. intros y Hin. apply in_app_or in Hin. apply (hinv_with_handles g).
      destruct Hin as [Hin|[<-|[]]]; auto. apply fresh_handle_hinv.
  - (* SnapBegin *)
    destruct (Nat.ltb h (length (t_handles g))) eqn:El; try discriminate.
    assert (Some (set_handle g h (mkAH (t_gen g) (t_islots g) [] LIdle)) = Some g') as Hs'.
    { destruct (h_lp (handle_at g h)); try discriminate; exact Hs. }
    injection Hs' as <-. apply set_handle_inv; auto. apply fresh_handle_hinv.
  - (* SnapRead *)
    destruct (Nat.ltb h (length (t_handles g))) eqn:El; cbn in Hs; try discriminate.
    apply Nat.ltb_lt in El. pose proof (handle_at_In g h El) as Hin.
    destruct (mem_nat s (h_idx (handle_at g h))) eqn:Em; try discriminate.
    apply mem_nat_In in Em. set (hd := handle_at g h) in *.
    destruct HI as (Hc & Hh). pose proof (Hh hd Hin) as (H1 & H2 & H3 & H4).
    assert (Hnew : forall c, a_id (aslot_at g s) = Some c ->
                   Inv (set_handle g h (mkAH (h_gen hd) (h_idx hd) ((s, c) :: h_ents hd) LIdle))).
    { intros c Ec. apply set_handle_inv; [split; auto| left; exists hd; auto |].
      repeat split; cbn; auto.
      - intros s' c' [E|E]; [injection E as <- <-; exact Em | eapply H2; eauto].
      - intros s' c' [E|E]; [injection E as <- <-; left; exact Ec | eapply H3; eauto]. }
    destruct (h_lp hd) eqn:Elp; try discriminate;
      destruct (a_id (aslot_at g s)) as [c|] eqn:Ec;
      injection Hs as <-; try (apply Hnew; reflexivity); split; auto.
  - (* LpBegin *)
    destruct (Nat.ltb h (length (t_handles g))) eqn:El; try discriminate.
    apply Nat.ltb_lt in El. pose proof (handle_at_In g h El) as Hin.
    set (hd := handle_at g h) in *.
    pose proof HI as (Hc & Hh). pose proof (Hh hd Hin) as (H1 & H2 & H3 & H4).
    assert (Some (set_handle g h (mkAH (h_gen hd) (h_idx hd) (h_ents hd)
                                      (if t_gen g =? h_gen hd then L1 s else LDone s None))) = Some g') as Hs'.
    { destruct (h_lp hd); try discriminate; exact Hs. }
    injection Hs' as <-. apply set_handle_inv; auto.
    + left. exists hd. auto.
    + repeat split; cbn; auto. destruct (t_gen g =? h_gen hd); exact I.
  - (* LpStep *)
    destruct (Nat.ltb h (length (t_handles g))) eqn:El; try discriminate.
    apply Nat.ltb_lt in El. pose proof (handle_at_In g h El) as Hin.
    unfold lp_step in Hs. set (hd := handle_at g h) in *.
    pose proof HI as (Hc & Hh). pose proof (Hh hd Hin) as (H1 & H2 & H3 & H4).
    assert (Hupd : forall p,
      match p with
      | L2 s f => forall c, In (s, c) (h_ents hd) -> f = Some c \/ h_gen hd < gen_of g s
      | L3 s c' => forall c, In (s, c) (h_ents hd) -> c' = c
      | LDone s (Some b) => forall c, In (s, c) (h_ents hd) -> b = c
      | LPanic => False
      | _ => True
      end -> Inv (set_handle g h (mkAH (h_gen hd) (h_idx hd) (h_ents hd) p))).
    { intros p Hp. apply set_handle_inv; auto; [left; exists hd; auto|]. repeat split; cbn; auto. }
    destruct (h_lp hd) as [|s|s f|s c'|s r|] eqn:Elp; try discriminate.
    + (* L1 -> L2 *) injection Hs as <-. apply Hupd. intros c Hc'. destruct (H3 s c Hc'); auto.
    + (* L2 *)
      destruct (h_gen hd <? a_gen (aslot_at g s)) eqn:Eg.
      * injection Hs as <-. apply Hupd. exact I.
      * apply N.ltb_ge in Eg. destruct f as [c'|].
        -- assert (forall c, In (s, c) (h_ents hd) -> c' = c) as Hcc.
           { intros c Hc'. destruct (H4 c Hc') as [E|E]; [congruence | unfold gen_of in E; lia]. }
           destruct mapped; injection Hs as <-; apply Hupd; exact Hcc.
        -- cbn in Hs. injection Hs as <-. apply Hupd. exact I.
    + (* L3 *)
      destruct (locked_by g s); try discriminate.
      cbn [andb] in Hs. destruct (h_gen hd <? a_gen (aslot_at g s)) eqn:Eg.
      * injection Hs as <-. apply Hupd. exact I.
      * apply N.ltb_ge in Eg. destruct (a_id (aslot_at g s)) as [c''|] eqn:Ei.
        -- injection Hs as <-. apply Hupd. intros c Hc'.
           destruct (H3 s c Hc') as [E|E]; [unfold id_of in E; congruence | unfold gen_of in E; lia].
        -- cbn in Hs. injection Hs as <-. apply Hupd. exact I.
Qed.

Lemma init_inv n : Inv (ts_init n).
Proof.
  split.
  - unfold cinv; cbn. intros s. unfold gen_of, aslot_at; cbn.
    destruct (nth_in_or_default s (repeat (mkASlot 0 None) n) (mkASlot 0 None)) as [H|H].
    + apply repeat_spec in H. rewrite H. cbn. lia.
    + rewrite H. cbn. lia.
  - cbn. contradiction.
Qed.

Lemma run_inv ls : forall g g', Inv g -> ts_run true g ls = Some g' -> Inv g'.
Proof.
  induction ls as [|l ls IH]; intros g g' HI Hr; cbn in Hr.
  - injection Hr as <-. exact HI.
  - destruct (ts_step true g l) as [g1|] eqn:Es; try discriminate.
    eapply IH; [eapply ts_step_inv; eauto | exact Hr].
Qed.

(* ---- the theorems ---- *)
Lemma L_no_wrong_pack n ls g h s b c :
  ts_run true (ts_init n) ls = Some g ->
  (h < length (t_handles g))%nat ->
  h_lp (handle_at g h) = LDone s (Some b) ->
  In (s, c) (h_ents (handle_at g h)) ->
  b = c.
Proof.
  intros Hr Hh Hlp Hin. pose proof (run_inv ls _ _ (init_inv n) Hr) as (_ & HI).
  specialize (HI _ (handle_at_In g h Hh)). destruct HI as (_ & _ & _ & H4).
  rewrite Hlp in H4. auto.
Qed.

Lemma L_load_pack_total n ls g h :
  ts_run true (ts_init n) ls = Some g -> h_lp (handle_at g h) <> LPanic.
Proof.
  intros Hr. pose proof (run_inv ls _ _ (init_inv n) Hr) as (_ & HI).
  destruct (Nat.lt_ge_cases h (length (t_handles g))) as [L|L].
  - specialize (HI _ (handle_at_In g h L)). destruct HI as (_ & _ & _ & H4).
    intros E. rewrite E in H4. exact H4.
  - unfold handle_at. rewrite (nth_overflow _ _ L). discriminate.
Qed.

(* a snapshot entry is only usable (slot generation not above the marker's) while the slot still stands for the
   same index file *)
Lemma L_entry_valid_or_fenced n ls g h s c :
  ts_run true (ts_init n) ls = Some g ->
  (h < length (t_handles g))%nat ->
  In (s, c) (h_ents (handle_at g h)) ->
  a_id (aslot_at g s) = Some c \/ h_gen (handle_at g h) < a_gen (aslot_at g s).
Proof.
  intros Hr Hh Hin. pose proof (run_inv ls _ _ (init_inv n) Hr) as (_ & HI).
  specialize (HI _ (handle_at_In g h Hh)). destruct HI as (_ & _ & H3 & _). exact (H3 s c Hin).
Qed.

(* generations never exceed the index generation by more than the pending bump, and markers are never from the future *)
Lemma L_marker_not_from_future n ls g h :
  ts_run true (ts_init n) ls = Some g -> (h < length (t_handles g))%nat -> h_gen (handle_at g h) <= t_gen g.
Proof.
  intros Hr Hh. pose proof (run_inv ls _ _ (init_inv n) Hr) as (_ & HI).
  specialize (HI _ (handle_at_In g h Hh)). apply HI.
Qed.

(* ---- the code as found: both failures, as schedules of the same semantics with fx = false ---- *)
Definition sched_setup : list label :=
  [ ConsBegin [(0%nat, 10)] [0%nat] [] false; ConsStep; ConsStep; ConsStep; ConsStep;   (* pack 10 in slot 0 *)
    HNew; SnapRead 0 0;                                                                   (* handle 0 sees (0, 10) *)
    ConsBegin [(1%nat, 11)] [1%nat] [0%nat] false; ConsStep; ConsStep; ConsStep; ConsStep; ConsStep; ConsStep ].
    (* repack: pack 11 into the empty slot 1, slot 0 cleared - no new generation *)
Definition sched_panic : list label := sched_setup ++ [ LpBegin 0 0; LpStep 0 false; LpStep 0 false ].
Definition sched_wrong : list label :=
  sched_setup ++
  [ ConsBegin [(0%nat, 12)] [0%nat] [1%nat] false; ConsStep; ConsStep; ConsStep; ConsStep; ConsStep; ConsStep;
    LpBegin 0 0; LpStep 0 false; LpStep 0 true ].

Lemma L_orig_panics :
  exists g, ts_run false (ts_init 2) sched_panic = Some g /\ h_lp (handle_at g 0) = LPanic.
Proof. eexists. split; [vm_compute; reflexivity | reflexivity]. Qed.

Lemma L_orig_wrong_pack :
  exists g, ts_run false (ts_init 2) sched_wrong = Some g /\
            h_lp (handle_at g 0) = LDone 0 (Some 12) /\ In (0%nat, 10) (h_ents (handle_at g 0)).
Proof. eexists. split; [vm_compute; reflexivity | split; [reflexivity | now left]]. Qed.

(* with the fixes the same histories end in "pack not available, refresh" at the first check of load_pack *)
Lemma L_fixed_same_histories :
  (exists g, ts_run true (ts_init 2) (sched_setup ++ [LpBegin 0 0]) = Some g /\
             h_lp (handle_at g 0) = LDone 0 None) /\
  (exists g, ts_run true (ts_init 2) (firstn 22 sched_wrong) = Some g /\
             h_lp (handle_at g 0) = LDone 0 None /\ In (0%nat, 10) (h_ents (handle_at g 0))).
Proof.
  split; eexists; (split; [vm_compute; reflexivity | ]); [reflexivity | split; [reflexivity | now left]].
Qed.
