(* C12 — model of gix-odb's dynamic store (gix-odb/src/store_impls/dynamic/{types,load_index,load_one,find,handle}.rs)
   as of /repo after the three `fix:` commits named in NOTES.md.  No proofs here.

   Part 1: PackId <-> intrinsic u32 pack id (types.rs).
   Part 2: executable, sequential (run-to-completion) model of the slot map: slots with generations and load states,
           the SlotMapIndex, consolidate_with_disk_state with its whole decision table, load_next_index,
           load_one_index, collect_snapshot, load_pack, and the lookup loops of Handle::contains / try_find.
           The object directory is abstract: packs are numbered, a pack is a list of object numbers, a
           multi-pack-index version is a list of pack numbers, loose objects are object numbers.
   Part 3: interleaving semantics (one atomic shared-memory access per step) of the slot/generation protocol,
           abstracted to slot identities: this is what the safety theorems are about.  [fx = true] is the code
           as fixed, [fx = false] the code as found (for the refutation examples). *)
From GixV.Base Require Import Bytes Outcome.
From Coq Require Import Arith.
Local Open Scope N_scope.

(* ------------------------------------------------------------------------------------------------- *)
(* Part 1: PackId                                                                                      *)
(* ------------------------------------------------------------------------------------------------- *)
Record packid := mkPackId { pk_index : N; pk_multi : option N }.

Definition max_indices : N := 2 ^ 15 - 1.
Definition max_packs_in_multi_index : N := 2 ^ 16 - 1.

(* assert!(index < 1<<15); assert!(midx <= max_packs_in_multi_index()); the result is a u32 *)
Definition to_intrinsic (p : packid) : outcome N unit :=
  if pk_index p <? 2 ^ 15 then
    match pk_multi p with
    | None => Ok (pk_index p)
    | Some m =>
        if m <=? max_packs_in_multi_index
        then Ok (N.lor (N.lor (pk_index p) (N.shiftl 1 15)) (N.shiftl m 16) mod 2 ^ 32)
        else Panic
    end
  else Panic.

Definition from_intrinsic (id : N) : packid :=
  if N.land id (N.shiftl 1 15) =? 0
  then mkPackId (N.land id 32767) None
  else mkPackId (N.land id 32767) (Some (N.shiftr id 16)).

(* ------------------------------------------------------------------------------------------------- *)
(* Part 2: the sequential store model                                                                  *)
(* ------------------------------------------------------------------------------------------------- *)
Inductive fstate := Unloaded | Loaded | Garbage | Missing.
Definition fs_is_loaded (s : fstate) := match s with Loaded | Garbage => true | _ => false end.
Definition fs_is_disposable (s : fstate) := match s with Garbage | Missing => true | _ => false end.
Definition fs_put_back (s : fstate) := match s with Garbage => Loaded | Missing => Unloaded | o => o end.
Definition fs_trash (s : fstate) := match s with Loaded => Garbage | o => o end.

(* an index file with its pack(s): a pack number, or a multi-pack-index version (= its mtime) *)
Inductive bundle :=
| BSingle (p : N) (ist dst : fstate)
| BMulti (v : N) (mst : fstate) (dsts : list fstate).

Inductive ipath := PIdx (p : N) | PMidx.
Definition ipath_eqb (a b : ipath) : bool :=
  match a, b with
  | PIdx p, PIdx q => p =? q
  | PMidx, PMidx => true
  | _, _ => false
  end.
Definition bundle_path (b : bundle) : ipath :=
  match b with BSingle p _ _ => PIdx p | BMulti _ _ _ => PMidx end.
Definition bundle_index_loaded (b : bundle) : bool :=
  match b with BSingle _ i _ => fs_is_loaded i | BMulti _ m _ => fs_is_loaded m end.
Definition bundle_disposable (b : bundle) : bool :=
  match b with
  | BSingle _ i d => fs_is_disposable i || fs_is_disposable d
  | BMulti _ m ds => fs_is_disposable m || existsb fs_is_disposable ds
  end.
Definition bundle_put_back (b : bundle) : bundle :=
  match b with
  | BSingle p i d => BSingle p (fs_put_back i) (fs_put_back d)
  | BMulti v m ds => BMulti v (fs_put_back m) (map fs_put_back ds)
  end.
Definition bundle_trash (b : bundle) : bundle :=
  match b with
  | BSingle p i d => BSingle p (fs_trash i) (fs_trash d)
  | BMulti v m ds => BMulti v (fs_trash m) (map fs_trash ds)
  end.

Record slot := mkSlot { sgen : N; sfiles : option bundle }.
Record sindex := mkIndex { iid : N; islots : list nat; igen : N; inext : nat; iloaded : nat; iinit : bool }.

(* the object directory, abstractly.  Registries are never shrunk: a file that was mapped stays readable. *)
Record disk := mkDisk { d_packs : list N; d_midx : option N; d_loose : list N }.
Record registry := mkReg { r_packs : list (N * list N); r_midx : list (N * list N) }.

Record store := mkStore {
  slots : list slot; cur : sindex; fresh : N; nstable : nat; ncons : N; dsk : disk; reg : registry }.

Fixpoint assocN {A} (k : N) (l : list (N * A)) : option A :=
  match l with
  | [] => None
  | (k', a) :: r => if k =? k' then Some a else assocN k r
  end.
Definition objs_of_pack (r : registry) (p : N) : list N :=
  match assocN p (r_packs r) with Some l => l | None => [] end.
Definition packs_of_midx (r : registry) (v : N) : list N :=
  match assocN v (r_midx r) with Some l => l | None => [] end.
Definition memN (x : N) (l : list N) : bool := existsb (N.eqb x) l.
Definition mem_nat (x : nat) (l : list nat) : bool := existsb (Nat.eqb x) l.
Fixpoint dedupN (l : list N) (acc : list N) : list N :=
  match l with
  | [] => acc
  | x :: r => if memN x acc then dedupN r acc else dedupN r (x :: acc)
  end.
Definition midx_objs (r : registry) (v : N) : list N :=
  dedupN (concat (map (objs_of_pack r) (packs_of_midx r v))) [].

(* what collect_indices_and_mtime_sorted_by_size sees *)
Inductive info := IIdx (p : N) | IMidx (v : N).
Definition info_path (i : info) : ipath := match i with IIdx p => PIdx p | IMidx _ => PMidx end.
Definition info_is_multi (i : info) : bool := match i with IMidx _ => true | _ => false end.
Definition pad4 (n : N) : N := (n + 3) / 4 * 4.
(* file sizes: v2 .idx = 8 + 1024 + 28 n + 40; multi-pack-index = 12 + 5*12 + pad4(50 p) + 1024 + 28 n + 20
   (file names are 50 bytes with their NUL; no large offsets) *)
Definition info_size (r : registry) (i : info) : N :=
  match i with
  | IIdx p => 1072 + 28 * N.of_nat (length (objs_of_pack r p))
  | IMidx v => 1116 + pad4 (50 * N.of_nat (length (packs_of_midx r v))) + 28 * N.of_nat (length (midx_objs r v))
  end.
(* stable sort, biggest first *)
Fixpoint insert_desc (r : registry) (x : info) (l : list info) : list info :=
  match l with
  | [] => [x]
  | y :: l' => if info_size r x <? info_size r y then y :: insert_desc r x l' else x :: y :: l'
  end.
Definition listing (r : registry) (d : disk) : list info :=
  let covered := match d_midx d with Some v => packs_of_midx r v | None => [] end in
  let singles := map IIdx (filter (fun p => negb (memN p covered)) (d_packs d)) in
  let all := match d_midx d with Some v => IMidx v :: singles | None => singles end in
  fold_right (insert_desc r) [] all.

Definition new_bundle (r : registry) (i : info) : bundle :=
  match i with
  | IIdx p => BSingle p Unloaded Unloaded
  | IMidx v => BMulti v Loaded (map (fun _ => Unloaded) (packs_of_midx r v))
  end.

Definition nslots (st : store) : nat := length (slots st).
Definition empty_slot : slot := mkSlot 0 None.
Definition get_slot (st : store) (i : nat) : slot := nth i (slots st) empty_slot.
Fixpoint replace_nth {A} (i : nat) (x : A) (l : list A) : list A :=
  match l, i with
  | [], _ => []
  | _ :: r, O => x :: r
  | y :: r, S i' => y :: replace_nth i' x r
  end.
Definition set_slot (st : store) (i : nat) (s : slot) : store :=
  mkStore (replace_nth i s (slots st)) (cur st) (fresh st) (nstable st) (ncons st) (dsk st) (reg st).
Definition set_cur (st : store) (x : sindex) : store :=
  mkStore (slots st) x (fresh st) (nstable st) (ncons st) (dsk st) (reg st).
Definition set_disk (st : store) (d : disk) (r : registry) : store :=
  mkStore (slots st) (cur st) (fresh st) (nstable st) (ncons st) d r.

(* a handle's snapshot *)
Record sentry := mkEntry { e_slot : nat; e_path : ipath; e_ver : N; e_data : list bool }.
Record snapshot := mkSnap { m_gen : N; m_slots : list nat; m_loaded : nat; s_init : bool; s_ents : list sentry }.

Definition entry_of_slot (st : store) (i : nat) : option sentry :=
  match sfiles (get_slot st i) with
  | Some (BSingle p ist dst) =>
      if fs_is_loaded ist then Some (mkEntry i (PIdx p) p [fs_is_loaded dst]) else None
  | Some (BMulti v mst dsts) =>
      if fs_is_loaded mst then Some (mkEntry i PMidx v (map fs_is_loaded dsts)) else None
  | None => None
  end.
Fixpoint filter_map {A B} (f : A -> option B) (l : list A) : list B :=
  match l with
  | [] => []
  | x :: r => match f x with Some y => y :: filter_map f r | None => filter_map f r end
  end.
Definition collect_snapshot (st : store) : snapshot :=
  let ix := cur st in
  mkSnap (igen ix) (islots ix) (iloaded ix) (iinit ix)
         (if iinit ix then filter_map (entry_of_slot st) (islots ix) else []).

(* --- load_next_index (sequentially nobody else is loading: the wait loop does not wait) --- *)
Definition index_file_on_disk (st : store) (b : bundle) : bool :=
  match b with
  | BSingle p _ _ => memN p (d_packs (dsk st))
  | BMulti _ _ _ => match d_midx (dsk st) with Some _ => true | None => false end
  end.
(* IndexAndPacks::load_index; the bool is "Ok" *)
Definition bundle_load_index (st : store) (b : bundle) : bundle * bool :=
  match b with
  | BSingle p ist dst =>
      match ist with
      | Loaded | Garbage => (b, true)
      | _ => if index_file_on_disk st b then (BSingle p Loaded dst, true) else (BSingle p Missing dst, false)
      end
  | BMulti v mst dsts =>
      match mst with
      | Loaded | Garbage => (BMulti v mst (map (fun _ => Unloaded) dsts), true)
      | _ => if index_file_on_disk st b then (BMulti v Loaded (map (fun _ => Unloaded) dsts), true)
             else (BMulti v Missing dsts, false)
      end
  end.
Definition bump_cur (st : store) (next loaded : nat) : store :=
  let ix := cur st in set_cur st (mkIndex (iid ix) (islots ix) (igen ix) next loaded (iinit ix)).

(* the 'retry_with_next_slot_index loop on the current index; true = the state id changed *)
Fixpoint load_next_slot (fuel : nat) (st : store) : store * bool :=
  match fuel with
  | O => (st, false)
  | S f =>
      let ix := cur st in
      if Nat.eqb (inext ix) (length (islots ix)) then (st, false)
      else
        let smi := inext ix in
        let st1 := bump_cur st (S smi) (iloaded ix) in
        let si := nth smi (islots ix) O in
        let sl := get_slot st1 si in
        if igen ix <? sgen sl then load_next_slot f st1
        else match sfiles sl with
             | Some b =>
                 let '(b', ok) := bundle_load_index st1 b in
                 let st2 := set_slot st1 si (mkSlot (sgen sl) (Some b')) in
                 let st3 := bump_cur st2 (S smi) (S (iloaded ix)) in
                 if ok then (st3, true)
                 else let '(st4, _) := load_next_slot f st3 in (st4, true)
             | None => load_next_slot f st1
             end
  end.
Definition load_next_index (st : store) : store * bool :=
  load_next_slot (S (length (islots (cur st)))) st.

(* --- consolidate_with_disk_state --- *)
Inductive cerr := InsufficientSlots | GenerationOverflow.
Inductive cres := CSome (s : snapshot) | CNone | CErr (e : cerr).

Definition pmap := list (ipath * nat).
Fixpoint pmap_insert (k : ipath) (v : nat) (m : pmap) : pmap :=
  match m with
  | [] => [(k, v)]
  | (k', v') :: r => if ipath_eqb k k' then (k, v) :: r else (k', v') :: pmap_insert k v r
  end.
Fixpoint pmap_find (k : ipath) (m : pmap) : option nat :=
  match m with
  | [] => None
  | (k', v) :: r => if ipath_eqb k k' then Some v else pmap_find k r
  end.
Definition pmap_remove (k : ipath) (m : pmap) : pmap :=
  filter (fun kv => negb (ipath_eqb k (fst kv))) m.
Definition idx_by_index_path (st : store) : pmap :=
  fold_left (fun m i => match sfiles (get_slot st i) with
                        | Some b => pmap_insert (bundle_path b) i m
                        | None => m
                        end) (islots (cur st)) [].

Definition bundle_mtime (b : bundle) : N := match b with BSingle _ _ _ => 0 | BMulti v _ _ => v end.
Definition info_mtime (i : info) : N := match i with IIdx _ => 0 | IMidx v => v end.

Record cstate := mkC {
  c_st : store; c_map : pmap; c_new : list nat; c_add : list (info * option nat); c_loaded : nat }.

(* first loop: match what is on disk against the slots we know; Panic = the expect()/unreachable!() *)
Definition match_one (c : cstate) (i : info) : outcome cstate unit :=
  match pmap_find (info_path i) (c_map c) with
  | Some si =>
      let m := pmap_remove (info_path i) (c_map c) in
      let st := c_st c in
      match sfiles (get_slot st si) with
      | None => Panic
      | Some b =>
          if info_is_multi i && negb (bundle_mtime b =? info_mtime i) then
            Ok (mkC st m (c_new c) (c_add c ++ [(i, Some si)])
                    (if bundle_index_loaded b then S (c_loaded c) else c_loaded c))
          else
            (* assure_slot_matches_index *)
            let st' := if bundle_disposable b
                       then set_slot st si (mkSlot (igen (cur st)) (Some (bundle_put_back b)))
                       else st in
            Ok (mkC st' m (c_new c ++ [si]) (c_add c)
                    (if bundle_index_loaded b then S (c_loaded c) else c_loaded c))
      end
  | None => Ok (mkC (c_st c) (c_map c) (c_new c) (c_add c ++ [(i, None)]) (c_loaded c))
  end.
Fixpoint match_all (c : cstate) (l : list info) : outcome cstate unit :=
  match l with
  | [] => Ok c
  | i :: r => obind (match_one c i) (fun c' => match_all c' r)
  end.

(* the 'increment_slot_index loop for one index to add: Some (slot, was_empty, next_free, checked) *)
Fixpoint find_slot (fuel : nat) (st : store) (i : info) (move_from : option nat) (stable : bool)
         (newl : list nat) (next_free checked : nat) : option (nat * bool * nat * nat) :=
  match fuel with
  | O => None
  | S f =>
      if Nat.eqb checked (nslots st) then None
      else
        let s := next_free in
        let nf := Nat.modulo (S next_free) (nslots st) in
        let ck := S checked in
        if mem_nat s newl then find_slot f st i move_from stable newl nf ck
        else if match move_from with Some m => Nat.eqb s m | None => false end
        then find_slot f st i move_from stable newl nf ck
        else match sfiles (get_slot st s) with
             | Some b =>
                 if ipath_eqb (bundle_path b) (info_path i) || (bundle_disposable b && stable)
                 then find_slot f st i move_from stable newl nf ck
                 else Some (s, false, nf, ck)
             | None => Some (s, true, nf, ck)
             end
  end.

Record astate := mkA {
  a_st : store; a_new : list nat; a_remove : list nat; a_next : nat; a_checked : nat; a_bump : bool }.
Fixpoint assign_all (a : astate) (stable : bool) (l : list (info * option nat)) : astate * bool (* ok *) :=
  match l with
  | [] => (a, true)
  | (i, mv) :: r =>
      let st := a_st a in
      match find_slot (S (nslots st)) st i mv stable (a_new a) (a_next a) (a_checked a) with
      | None => (a, false)
      | Some (s, was_empty, nf, ck) =>
          let g := if was_empty then igen (cur st) else igen (cur st) + 1 in
          let st' := set_slot st s (mkSlot g (Some (new_bundle (reg st) i))) in
          assign_all (mkA st' (a_new a ++ [s])
                          (match mv with Some m => a_remove a ++ [m] | None => a_remove a end)
                          nf ck (a_bump a || negb was_empty)) stable r
      end
  end.

Fixpoint list_max (l : list nat) : nat :=
  match l with [] => O | x :: r => Nat.max x (list_max r) end.
Fixpoint list_nat_eqb (a b : list nat) : bool :=
  match a, b with
  | [], [] => true
  | x :: a', y :: b' => Nat.eqb x y && list_nat_eqb a' b'
  | _, _ => false
  end.

(* SlotMapIndex::state_id(): identity of the loose db list (changes at initialisation only: no alternates here), the
   slot list and the number of load attempts *)
Definition same_state_id (a b : sindex) : bool :=
  Bool.eqb (iinit a) (iinit b) && list_nat_eqb (islots a) (islots b) && Nat.eqb (iloaded a) (iloaded b).

Definition remove_slot (stable : bool) (generation : N) (st : store) (i : nat) : store :=
  let sl := get_slot st i in
  if stable then
    match sfiles sl with
    | Some b => set_slot st i (mkSlot (sgen sl) (Some (bundle_trash b)))
    | None => st
    end
  else set_slot st i (mkSlot generation None).

Definition consolidate (st : store) (needs_init load_new_index : bool) : outcome (store * cres) unit :=
  let index := cur st in
  let was_uninit := negb (iinit index) in
  if negb was_uninit && needs_init then Ok (st, CSome (collect_snapshot st))
  else
    let st := mkStore (slots st) (cur st) (fresh st) (nstable st) (ncons st + 1) (dsk st) (reg st) in
    obind (match_all (mkC st (idx_by_index_path st) [] [] O) (listing (reg st) (dsk st))) (fun c =>
      let stable := negb (Nat.eqb (nstable st) O) in
      let next_free := match islots index with
                       | [] => O
                       | l => Nat.modulo (S (list_max l)) (nslots st)
                       end in
      let '(a, ok) := assign_all (mkA (c_st c) (c_new c) (map snd (c_map c)) next_free O false)
                                 stable (c_add c) in
      if negb ok then Ok (a_st a, CErr InsufficientSlots)
      else
        let bump := a_bump a || (negb stable && negb (Nat.eqb (length (a_remove a)) O)) in
        if bump && (igen index =? 2 ^ 32 - 1) then Ok (a_st a, CErr GenerationOverflow)
        else
          let generation := if bump then igen index + 1 else igen index in
          let to_remove := filter (fun i => negb (mem_nat i (a_new a))) (a_remove a) in
          let unchanged := (generation =? igen index) && list_nat_eqb (islots index) (a_new a) in
          let st1 := a_st a in
          let st2 :=
            if negb unchanged || was_uninit then
              mkStore (slots st1)
                      (mkIndex (fresh st1) (a_new a) generation
                               (if unchanged then inext index else O)
                               (if unchanged then iloaded index else c_loaded c) true)
                      (fresh st1 + 1) (nstable st1) (ncons st1) (dsk st1) (reg st1)
            else st1 in
          let st3 := fold_left (remove_slot stable generation) to_remove st2 in
          if same_state_id (cur st3) index
          then Ok (st3, CNone)
          else
            let st4 := if load_new_index then fst (load_next_index st3) else st3 in
            Ok (st4, CSome (collect_snapshot st4)))
      .

(* --- load_one_index --- *)
Definition load_one_index (st : store) (refresh : bool) (m : snapshot) : outcome (store * cres) unit :=
  let index := cur st in
  if negb (iinit index) then consolidate st true false
  else if negb (m_gen m =? igen index) ||
          negb (Bool.eqb (s_init m) (iinit index) && list_nat_eqb (m_slots m) (islots index) &&
                Nat.eqb (m_loaded m) (iloaded index))
  then Ok (st, CSome (collect_snapshot st))
  else
    let '(st1, changed) := load_next_index st in
    if changed then Ok (st1, CSome (collect_snapshot st1))
    else
      obind (if refresh then consolidate st1 false true else Ok (st1, CNone)) (fun '(st2, r) =>
        match r with
        | CNone =>
            (* nothing new compared to the current index - which may still be newer than the caller's marker *)
            let index := cur st2 in
            if negb (m_gen m =? igen index) ||
               negb (Bool.eqb (s_init m) (iinit index) && list_nat_eqb (m_slots m) (islots index) &&
                     Nat.eqb (m_loaded m) (iloaded index))
            then Ok (st2, CSome (collect_snapshot st2)) else Ok (st2, CNone)
        | _ => Ok (st2, r)
        end).

(* --- load_pack (fixed code): Some (pack number) or None; the pack is the one of the slot's bundle --- *)
Definition pack_on_disk (st : store) (p : N) : bool := memN p (d_packs (dsk st)).
(* OnDiskFile::load_with_recovery *)
Definition load_with_recovery (st : store) (p : N) (s : fstate) : fstate * bool :=
  match s with
  | Loaded | Garbage => (s, true)
  | Missing => (s, false)
  | Unloaded => if pack_on_disk st p then (Loaded, true) else (Missing, false)
  end.
Definition load_pack (st : store) (id : packid) (m : snapshot) : store * option N :=
  if negb (igen (cur st) =? m_gen m) then (st, None)
  else
    let si := N.to_nat (pk_index id) in
    let sl := get_slot st si in
    if m_gen m <? sgen sl then (st, None)
    else match pk_multi id, sfiles sl with
         | None, Some (BSingle p ist dst) =>
             let '(dst', ok) := load_with_recovery st p dst in
             (set_slot st si (mkSlot (sgen sl) (Some (BSingle p ist dst'))), if ok then Some p else None)
         | Some k, Some (BMulti v mst dsts) =>
             let k := N.to_nat k in
             match nth_error dsts k with
             | None => (st, None)
             | Some ds =>
                 let p := nth k (packs_of_midx (reg st) v) 0 in
                 let '(ds', ok) := load_with_recovery st p ds in
                 (set_slot st si (mkSlot (sgen sl) (Some (BMulti v mst (replace_nth k ds' dsts)))),
                  if ok then Some p else None)
             end
         | _, _ => (st, None)
         end.

(* --- the lookups of a handle --- *)
Definition entry_objs (r : registry) (e : sentry) : list N :=
  match e_path e with PIdx p => objs_of_pack r p | PMidx => midx_objs r (e_ver e) end.
(* the first pack (in the multi-index's pack order) that holds the object: gix' multi-index writer keeps the entry of
   the pack with the lowest index *)
Fixpoint first_pack_with (r : registry) (o : N) (ps : list N) (k : nat) : option (nat * N) :=
  match ps with
  | [] => None
  | p :: rest => if memN o (objs_of_pack r p) then Some (k, p) else first_pack_with r o rest (S k)
  end.

Fixpoint find_entry (r : registry) (o : N) (l : list sentry) (k : nat) : option (nat * sentry) :=
  match l with
  | [] => None
  | e :: rest => if memN o (entry_objs r e) then Some (k, e) else find_entry r o rest (S k)
  end.
Definition swap_front {A} (k : nat) (l : list A) : list A :=
  match k, l with
  | O, _ => l
  | _, [] => l
  | _, x0 :: _ => match nth_error l k with
                  | Some xk => replace_nth k x0 (replace_nth O xk l)
                  | None => l
                  end
  end.
Definition set_ents (s : snapshot) (l : list sentry) : snapshot :=
  mkSnap (m_gen s) (m_slots s) (m_loaded s) (s_init s) l.

Inductive lres := Found (o : N) (src : bytes) | NotFound | LErr | WrongPack (want got : N).

(* Handle::contains *)
Fixpoint contains (fuel : nat) (st : store) (refresh : bool) (sn : snapshot) (o : N)
  : outcome (store * snapshot * bool) unit :=
  match fuel with
  | O => OutOfFuel
  | S f =>
      match find_entry (reg st) o (s_ents sn) O with
      | Some (k, _) => Ok (st, set_ents sn (swap_front k (s_ents sn)), true)
      | None =>
          if s_init sn && memN o (d_loose (dsk st)) then Ok (st, sn, true)
          else obind (load_one_index st refresh sn) (fun '(st1, r) =>
                 match r with
                 | CSome sn1 => contains f st1 refresh sn1 o
                 | CNone => Ok (st1, sn, false)
                 | CErr _ => Ok (st1, sn, false)
                 end)
      end
  end.

(* Handle::try_find (no deltas: every entry is a base object) *)
Fixpoint try_find (fuel : nat) (st : store) (refresh : bool) (sn : snapshot) (o : N)
  : outcome (store * snapshot * lres) unit :=
  match fuel with
  | O => OutOfFuel
  | S f =>
      match find_entry (reg st) o (s_ents sn) O with
      | Some (k, e) =>
          (* the pack the entry's index says the object is in, and its position *)
          let '(pidx, want) :=
            match e_path e with
            | PIdx p => (O, p)
            | PMidx => match first_pack_with (reg st) o (packs_of_midx (reg st) (e_ver e)) O with
                       | Some kp => kp
                       | None => (O, 0)
                       end
            end in
          if nth pidx (e_data e) false then
            Ok (st, set_ents sn (swap_front k (s_ents sn)), Found o (bs "pack"))
          else
            let id := mkPackId (N.of_nat (e_slot e))
                               (match e_path e with PIdx _ => None | PMidx => Some (N.of_nat pidx) end) in
            match load_pack st id sn with
            | (st1, Some got) =>
                let e' := mkEntry (e_slot e) (e_path e) (e_ver e) (replace_nth pidx true (e_data e)) in
                let ents := swap_front k (replace_nth k e' (s_ents sn)) in
                Ok (st1, set_ents sn ents, if got =? want then Found o (bs "pack") else WrongPack want got)
            | (st1, None) =>
                obind (load_one_index st1 refresh sn) (fun '(st2, r) =>
                  match r with
                  | CSome sn1 => try_find f st2 refresh sn1 o
                  | CNone => Ok (st2, sn, NotFound)
                  | CErr _ => Ok (st2, sn, LErr)
                  end)
            end
      | None =>
          if s_init sn && memN o (d_loose (dsk st)) then Ok (st, sn, Found o (bs "loose"))
          else obind (load_one_index st refresh sn) (fun '(st1, r) =>
                 match r with
                 | CSome sn1 => try_find f st1 refresh sn1 o
                 | CNone => Ok (st1, sn, NotFound)
                 | CErr _ => Ok (st1, sn, LErr)
                 end)
      end
  end.

Definition init_store (n : nat) : store :=
  mkStore (repeat empty_slot n) (mkIndex 0 [] 0 O O false) 1 O 0 (mkDisk [] None []) (mkReg [] []).

(* ------------------------------------------------------------------------------------------------- *)
(* Part 3: interleaving semantics of the slot/generation protocol                                      *)
(* ------------------------------------------------------------------------------------------------- *)
(* A slot's identity: which index file (version) it stands for.  Load states do not matter here: every
   store of a bundle with changed load state happens under the slot lock and keeps the identity. *)
Record aslot := mkASlot { a_gen : N; a_id : option N }.

(* the consolidating thread (at most one: it holds Store::write).  A plan is what the decision table of
   consolidate_with_disk_state came up with: the slots to assign, the new slot list, the slots to remove. *)
Inductive cphase :=
| CIdle
| CAssign (todo : list (nat * N)) (newl : list nat) (rm : list nat) (stable : bool) (bump : bool)
| CAssignW (s : nat) (c : N) (todo : list (nat * N)) (newl : list nat) (rm : list nat) (stable : bool) (bump : bool)
    (* slot generation stored, files not yet *)
| CRemove (rm : list nat) (stable : bool)
| CRemoveW (s : nat) (rm : list nat).

(* load_pack of one handle *)
Inductive lphase :=
| LIdle
| L1 (s : nat)                 (* passed the index generation check *)
| L2 (s : nat) (f : option N)  (* pinned slot.files *)
| L3 (s : nat) (c : N)         (* passed the slot generation check, data not mapped yet: about to take the slot lock *)
| LDone (s : nat) (r : option N)
| LPanic.

Record ahandle := mkAH {
  h_gen : N;                   (* marker.generation *)
  h_idx : list nat;            (* slot list of the index the snapshot is being collected from *)
  h_ents : list (nat * N);     (* (slot, identity) pairs of the snapshot *)
  h_lp : lphase }.

Record astate_ts := mkTS {
  t_slots : list aslot; t_gen : N; t_islots : list nat; t_cons : cphase; t_handles : list ahandle }.

Definition aslot_at (g : astate_ts) (s : nat) : aslot := nth s (t_slots g) (mkASlot 0 None).
Definition set_aslot (g : astate_ts) (s : nat) (x : aslot) : astate_ts :=
  mkTS (replace_nth s x (t_slots g)) (t_gen g) (t_islots g) (t_cons g) (t_handles g).
Definition set_cons (g : astate_ts) (c : cphase) : astate_ts :=
  mkTS (t_slots g) (t_gen g) (t_islots g) c (t_handles g).
Definition set_handle (g : astate_ts) (h : nat) (x : ahandle) : astate_ts :=
  mkTS (t_slots g) (t_gen g) (t_islots g) (t_cons g) (replace_nth h x (t_handles g)).
Definition handle_at (g : astate_ts) (h : nat) : ahandle := nth h (t_handles g) (mkAH 0 [] [] LIdle).

Definition disjoint_nat (a b : list nat) : bool := forallb (fun x => negb (mem_nat x b)) a.

Inductive label :=
| ConsBegin (assign : list (nat * N)) (newl rm : list nat) (stable : bool)
| ConsPutBack (s : nat)         (* assure_slot_matches_index: slot.generation.store(current_generation) *)
| ConsStep                      (* the next atomic store of the consolidating thread *)
| HNew                          (* a new handle appears (Store::to_handle / Handle::clone) *)
| SnapBegin (h : nat)           (* collect_snapshot: self.index.load() *)
| SnapRead (h : nat) (s : nat)  (* collect_snapshot: file.files.load() of one slot of that index *)
| LpBegin (h : nat) (s : nat)   (* load_pack: index.generation != marker.generation *)
| LpStep (h : nat) (mapped : bool). (* next atomic access of load_pack; [mapped]: bundle.data.loaded() is Some *)

(* what the plan must satisfy — proved of the decision table (Part 2) in ProofsPlan.v:
   slots to remove are not in the new slot list (third fix) *)
Definition plan_ok (fx : bool) (newl rm : list nat) : bool :=
  if fx then disjoint_nat rm newl else true.

Definition cons_step (fx : bool) (g : astate_ts) : option astate_ts :=
  match t_cons g with
  | CIdle => None
  | CAssign [] newl rm stable bump =>
      (* all new indices have their slot: compute the generation, store the new index *)
      let bump' := if fx then bump || (negb stable && negb (Nat.eqb (length rm) O)) else bump in
      let generation := if bump' then t_gen g + 1 else t_gen g in
      Some (mkTS (t_slots g) generation newl (CRemove rm stable) (t_handles g))
  | CAssign ((s, c) :: todo) newl rm stable bump =>
      (* set_slot_to_index: slot.generation.store(..) *)
      let sl := aslot_at g s in
      match a_id sl with
      | Some _ => Some (set_cons (set_aslot g s (mkASlot (t_gen g + 1) (a_id sl)))
                                 (CAssignW s c todo newl rm stable true))
      | None => Some (set_cons (set_aslot g s (mkASlot (t_gen g) None))
                               (CAssignW s c todo newl rm stable bump))
      end
  | CAssignW s c todo newl rm stable bump =>
      (* set_slot_to_index: slot.files.store(..) *)
      Some (set_cons (set_aslot g s (mkASlot (a_gen (aslot_at g s)) (Some c))) (CAssign todo newl rm stable bump))
  | CRemove [] _ => Some (set_cons g CIdle)
  | CRemove (s :: rm) true => Some (set_cons g (CRemove rm true))   (* trash(): same identity *)
  | CRemove (s :: rm) false =>
      Some (set_cons (set_aslot g s (mkASlot (t_gen g) (a_id (aslot_at g s)))) (CRemoveW s rm))
  | CRemoveW s rm =>
      Some (set_cons (set_aslot g s (mkASlot (a_gen (aslot_at g s)) None)) (CRemove rm false))
  end.

Definition locked_by (g : astate_ts) (s : nat) : bool :=
  match t_cons g with
  | CAssignW s' _ _ _ _ _ _ => Nat.eqb s s'
  | CRemoveW s' _ => Nat.eqb s s'
  | _ => false
  end.

Definition lp_step (fx : bool) (g : astate_ts) (h : nat) (mapped : bool) : option astate_ts :=
  let hd := handle_at g h in
  let upd p := Some (set_handle g h (mkAH (h_gen hd) (h_idx hd) (h_ents hd) p)) in
  match h_lp hd with
  | L1 s => upd (L2 s (a_id (aslot_at g s)))
  | L2 s f =>
      if h_gen hd <? a_gen (aslot_at g s) then upd (LDone s None)
      else match f with
           | None => if fx then upd (LDone s None) else upd LPanic
           | Some c => if mapped then upd (LDone s (Some c)) else upd (L3 s c)
           end
  | L3 s c =>
      (* under the slot lock: a writer holds it from its store of the generation to its store of the files *)
      if locked_by g s then None
      else if fx && (h_gen hd <? a_gen (aslot_at g s)) then upd (LDone s None)
      else match a_id (aslot_at g s) with
           | Some c' => upd (LDone s (Some c'))
           | None => if fx then upd (LDone s None) else upd LPanic
           end
  | _ => None
  end.

Definition ts_step (fx : bool) (g : astate_ts) (l : label) : option astate_ts :=
  match l with
  | ConsBegin assign newl rm stable =>
      match t_cons g with
      | CIdle => if plan_ok fx newl rm then Some (set_cons g (CAssign assign newl rm stable false)) else None
      | _ => None
      end
  | ConsPutBack s =>
      match t_cons g with
      | CAssign todo newl rm stable false =>
          Some (set_aslot g s (mkASlot (t_gen g) (a_id (aslot_at g s))))
      | _ => None
      end
  | ConsStep => cons_step fx g
  | HNew => Some (mkTS (t_slots g) (t_gen g) (t_islots g) (t_cons g)
                       (t_handles g ++ [mkAH (t_gen g) (t_islots g) [] LIdle]))
  | SnapBegin h =>
      if Nat.ltb h (length (t_handles g)) then
        match h_lp (handle_at g h) with
        | L1 _ | L2 _ _ | L3 _ _ => None   (* the same thread is inside load_pack *)
        | _ => Some (set_handle g h (mkAH (t_gen g) (t_islots g) [] LIdle))
        end
      else None
  | SnapRead h s =>
      let hd := handle_at g h in
      if Nat.ltb h (length (t_handles g)) && mem_nat s (h_idx hd) then
        match h_lp hd, a_id (aslot_at g s) with
        | L1 _, _ | L2 _ _, _ | L3 _ _, _ => None
        | _, Some c => Some (set_handle g h (mkAH (h_gen hd) (h_idx hd) ((s, c) :: h_ents hd) LIdle))
        | _, None => Some g
        end
      else None
  | LpBegin h s =>
      let hd := handle_at g h in
      if Nat.ltb h (length (t_handles g)) then
        match h_lp hd with
        | L1 _ | L2 _ _ | L3 _ _ => None
        | _ => Some (set_handle g h (mkAH (h_gen hd) (h_idx hd) (h_ents hd)
                                          (if t_gen g =? h_gen hd then L1 s else LDone s None)))
        end
      else None
  | LpStep h mapped => if Nat.ltb h (length (t_handles g)) then lp_step fx g h mapped else None
  end.

Fixpoint ts_run (fx : bool) (g : astate_ts) (ls : list label) : option astate_ts :=
  match ls with
  | [] => Some g
  | l :: r => match ts_step fx g l with Some g' => ts_run fx g' r | None => None end
  end.

Definition ts_init (n : nat) : astate_ts := mkTS (repeat (mkASlot 0 None) n) 0 [] CIdle [].
