(* C12 — Object lookups stay correct while the object directory is repacked.
   Only statements; every proof is [exact <lemma>].

   Model.v Part 3 is an interleaving semantics of gix-odb's slot map protocol: [ts_step fx g l] performs ONE atomic
   shared-memory access of one thread ([l] says whose): the refreshing thread (consolidate_with_disk_state: per slot a
   store of its generation, then of its files; the store of the new index; per removed slot generation, then files),
   a handle collecting a snapshot (index load, one slot read at a time), a handle inside load_pack (index generation
   check, slot files pinned, slot generation check, locked section).  A slot stands for an index file identity
   [a_id]; [h_ents] are the (slot, identity) pairs of a handle's snapshot, [h_gen] its marker generation.
   [ts_run fx (ts_init n) ls = Some g]: g is reached from the empty store with n slots by schedule ls — any number of
   handles, any interleaving, any sequence of refresh plans (whatever the directory listing made them).
   fx = true: the code after the repairs;  fx = false: the code as it was found. *)
From GixV.Base Require Import Bytes BytesFacts Outcome.
From GixV.C12 Require Import Model ProofsPackId ProofsTS.
Local Open Scope N_scope.

(* -- the safety half of the property ------------------------------------------------------------- *)

(* under every schedule: when load_pack hands pack data to a handle for pack id s, it is the pack of the very index
   file the handle's snapshot has for s — a lookup can never be pointed into another pack *)
Theorem no_wrong_pack : forall n ls g h s b c,
  ts_run true (ts_init n) ls = Some g ->
  (h < length (t_handles g))%nat ->
  h_lp (handle_at g h) = LDone s (Some b) ->
  In (s, c) (h_ents (handle_at g h)) ->
  b = c.
Proof. exact L_no_wrong_pack. Qed.

(* under every schedule load_pack returns: the unreachable!() arms are never taken *)
Theorem load_pack_total : forall n ls g h,
  ts_run true (ts_init n) ls = Some g -> h_lp (handle_at g h) <> LPanic.
Proof. exact L_load_pack_total. Qed.

(* the mechanism: at every moment, for every snapshot entry, the slot still stands for the same index file, or its
   generation is already above the handle's marker (so every check in load_pack turns the handle away) *)
Theorem entry_valid_or_fenced : forall n ls g h s c,
  ts_run true (ts_init n) ls = Some g ->
  (h < length (t_handles g))%nat ->
  In (s, c) (h_ents (handle_at g h)) ->
  a_id (aslot_at g s) = Some c \/ h_gen (handle_at g h) < a_gen (aslot_at g s).
Proof. exact L_entry_valid_or_fenced. Qed.

Theorem marker_not_from_future : forall n ls g h,
  ts_run true (ts_init n) ls = Some g -> (h < length (t_handles g))%nat -> h_gen (handle_at g h) <= t_gen g.
Proof. exact L_marker_not_from_future. Qed.

(* one step keeps the invariant (stated for the record: it is what the four theorems above are instances of) *)
Theorem invariant_inductive : forall g l g', Inv g -> ts_step true g l = Some g' -> Inv g'.
Proof. exact ts_step_inv. Qed.

(* the refresh's decision table never clears a slot it has just (re)assigned — the side condition [plan_ok] of the
   semantics, for the expression consolidate_with_disk_state uses *)
Theorem removed_not_reassigned : forall newl rm,
  plan_ok true newl (filter (fun i => negb (mem_nat i newl)) rm) = true.
Proof. exact L_removed_not_reassigned. Qed.

(* -- the code as found (fx = false): both failures are schedules of the same semantics -------------------- *)

(* handle 0 sees pack 10 in slot 0; a repack puts the new pack into the empty slot 1 and clears slot 0 without a new
   generation; load_pack of handle 0 reaches unreachable!() *)
Theorem load_pack_total_refuted_before_fix :
  exists g, ts_run false (ts_init 2) sched_panic = Some g /\ h_lp (handle_at g 0) = LPanic.
Proof. exact L_orig_panics. Qed.

(* ... and after one more repack slot 0 holds pack 12: handle 0, whose snapshot says slot 0 = pack 10, is handed
   pack 12 *)
Theorem no_wrong_pack_refuted_before_fix :
  exists g, ts_run false (ts_init 2) sched_wrong = Some g /\
            h_lp (handle_at g 0) = LDone 0 (Some 12) /\ In (0%nat, 10) (h_ents (handle_at g 0)).
Proof. exact L_orig_wrong_pack. Qed.

(* non-vacuity of the theorems above: the same histories with the repairs end in "not available, refresh" *)
Theorem same_histories_after_fix :
  (exists g, ts_run true (ts_init 2) (sched_setup ++ [LpBegin 0 0]) = Some g /\
             h_lp (handle_at g 0) = LDone 0 None) /\
  (exists g, ts_run true (ts_init 2) (firstn 22 sched_wrong) = Some g /\
             h_lp (handle_at g 0) = LDone 0 None /\ In (0%nat, 10) (h_ents (handle_at g 0))).
Proof. exact L_fixed_same_histories. Qed.

(* a schedule in which a handle does get its pack (hypotheses of no_wrong_pack are satisfiable) *)
Example pack_obtained :
  exists g, ts_run true (ts_init 2)
              [ConsBegin [(0%nat, 10)] [0%nat] [] false; ConsStep; ConsStep; ConsStep; ConsStep;
               HNew; SnapRead 0 0; LpBegin 0 0; LpStep 0 false; LpStep 0 false; LpStep 0 false] = Some g /\
            h_lp (handle_at g 0) = LDone 0 (Some 10) /\ In (0%nat, 10) (h_ents (handle_at g 0)).
Proof. eexists. split; [vm_compute; reflexivity | split; [reflexivity | now left]]. Qed.

(* -- PackId --------------------------------------------------------------------------------------- *)

(* every representable pack id survives the trip through the u32 stored in the pack (and used as cache key) *)
Theorem packid_RT : forall p, packid_valid p ->
  exists id, to_intrinsic p = Ok id /\ id < 2 ^ 32 /\ from_intrinsic id = p.
Proof. exact L_packid_roundtrip. Qed.

Theorem packid_panics_exactly_out_of_range : forall p, to_intrinsic p = Panic <-> ~ packid_valid p.
Proof. exact L_packid_panics_exactly. Qed.

Theorem packid_injective : forall p q id,
  packid_valid p -> packid_valid q -> to_intrinsic p = Ok id -> to_intrinsic q = Ok id -> p = q.
Proof. exact L_packid_injective. Qed.

Example packid_example :
  packid_valid (mkPackId 32767 (Some 65535)) /\ to_intrinsic (mkPackId 32767 (Some 65535)) = Ok 4294967295.
Proof. split; [split; cbn; [reflexivity | discriminate] | vm_compute; reflexivity]. Qed.

(* -- not proved (tested by the harness only): the liveness half --------------------------------------- *)
(* with RefreshMode::AfterAllIndicesLoaded an object that is on disk throughout a lookup is found *)
Definition refresh_finds_full_statement : Prop :=
  forall (n : nat) (st : store) (sn : snapshot) (o : N),
    (* st reachable by the sequential model, o in a pack or loose on [dsk st], slots sufficient *)
    memN o (d_loose (dsk st)) = true ->
    exists st' sn', contains 40 st true sn o = Ok (st', sn', true).
