//! C12 harness: gix-odb's dynamic store under scripted histories of an object directory.
//!
//! Case kinds (field 0):
//!   pid  <index> <multi|->            PackId -> intrinsic id -> PackId
//!   pidr <u32>                        intrinsic id -> PackId -> intrinsic id
//!   hist <slots> <flags> <op>...      history; flags: bit0 = prop() uses real git for the directory changes,
//!                                     bit1 = prop() also runs 16 reader threads while the history is applied.
//! Ops: P<k> new pack of k fresh objects | L<k> k fresh loose objects | R repack everything into one new pack, drop the rest
//!      (git repack -adk) | r pack the loose objects | M write a multi-pack-index | m remove it | D<i> delete a pack |
//!      H new handle | C<h> clone | S<h> prevent_pack_unload | N<h> refresh_never | Z<h> drop |
//!      e<h>.<o> exists | f<h>.<o> try_find
//! `impl` always uses hand-made packs (deterministic names) and prints the store's slot map after every handle op.
use gix_object::Exists;
use gix_odb::Write as _;
use gixv_common::*;
use std::io::Write as _;
use std::path::{Path, PathBuf};
use std::process::Command;
use std::sync::atomic::{AtomicBool, AtomicU64, AtomicUsize, Ordering};
use std::sync::Arc;

type Store = gix_odb::Store;
type Handle = gix_odb::store::Handle<Arc<Store>>;

// ---------------------------------------------------------------------------------------------------
// abstract object directory (the same bookkeeping the Coq model does)
// ---------------------------------------------------------------------------------------------------
#[derive(Clone, Default)]
struct Sim {
    packs: Vec<(u64, Vec<u64>)>,
    midx: Option<(u64, Vec<u64>)>,
    loose: Vec<u64>,
    nobj: u64,
    npack: u64,
    nmidx: u64,
}

#[derive(Debug, Clone)]
enum Act {
    NewPack(u64, Vec<u64>),
    Loose(Vec<u64>),
    RepackAll(u64, Vec<u64>),
    PackLoose(u64, Vec<u64>),
    WriteMidx(u64, Vec<u64>),
    RemoveMidx,
    DeletePack(u64),
    Nothing,
}

fn idx_size(n: usize) -> u64 {
    1072 + 28 * n as u64
}
fn midx_size(packs: usize, objs: usize) -> u64 {
    1116 + ((50 * packs as u64 + 3) / 4) * 4 + 28 * objs as u64
}

impl Sim {
    fn all_objs(&self) -> Vec<u64> {
        let mut v: Vec<u64> = self.packs.iter().flat_map(|p| p.1.iter().copied()).collect();
        v.extend(self.loose.iter().copied());
        v.sort();
        v.dedup();
        v
    }
    fn on_disk(&self, o: u64) -> bool {
        self.loose.contains(&o) || self.packs.iter().any(|p| p.1.contains(&o))
    }
    /// sizes of the index files a directory listing would show
    fn sizes(&self) -> Vec<u64> {
        let covered: Vec<u64> = self.midx.as_ref().map(|m| m.1.clone()).unwrap_or_default();
        let mut v: Vec<u64> = self
            .packs
            .iter()
            .filter(|p| !covered.contains(&p.0))
            .map(|p| idx_size(p.1.len()))
            .collect();
        if let Some((_, ps)) = &self.midx {
            let mut objs: Vec<u64> = self
                .packs_ever(ps)
                .into_iter()
                .flatten()
                .collect();
            objs.sort();
            objs.dedup();
            v.push(midx_size(ps.len(), objs.len()));
        }
        v
    }
    fn packs_ever(&self, ps: &[u64]) -> Vec<Vec<u64>> {
        // a multi-index is only ever written over packs present at that time, and packs it covers are only removed
        // together with it (R) - so they are still in `packs`, except after D, which is not allowed with a multi-index
        ps.iter()
            .map(|p| self.packs.iter().find(|q| q.0 == *p).map(|q| q.1.clone()).unwrap_or_default())
            .collect()
    }
    fn has_tie(&self) -> bool {
        let mut s = self.sizes();
        s.sort();
        s.windows(2).any(|w| w[0] == w[1])
    }
    fn apply(&mut self, op: &[u8]) -> Act {
        let (c, args) = split_op(op);
        match c {
            b'P' => {
                let k = args.first().copied().unwrap_or(0);
                let objs: Vec<u64> = (self.nobj..self.nobj + k).collect();
                self.nobj += k;
                self.npack += 1;
                self.packs.push((self.npack, objs.clone()));
                Act::NewPack(self.npack, objs)
            }
            b'L' => {
                let k = args.first().copied().unwrap_or(0);
                let objs: Vec<u64> = (self.nobj..self.nobj + k).collect();
                self.nobj += k;
                self.loose.extend(objs.iter().copied());
                Act::Loose(objs)
            }
            b'R' => {
                let objs = self.all_objs();
                if objs.is_empty() {
                    return Act::Nothing;
                }
                self.npack += 1;
                self.packs = vec![(self.npack, objs.clone())];
                self.midx = None;
                self.loose.clear();
                Act::RepackAll(self.npack, objs)
            }
            b'r' => {
                if self.loose.is_empty() {
                    return Act::Nothing;
                }
                let objs = std::mem::take(&mut self.loose);
                self.npack += 1;
                self.packs.push((self.npack, objs.clone()));
                Act::PackLoose(self.npack, objs)
            }
            b'M' => {
                if self.packs.is_empty() {
                    return Act::Nothing;
                }
                self.nmidx += 1;
                let mut ps: Vec<u64> = self.packs.iter().map(|p| p.0).collect();
                ps.sort();
                self.midx = Some((self.nmidx, ps.clone()));
                Act::WriteMidx(self.nmidx, ps)
            }
            b'm' => {
                self.midx = None;
                Act::RemoveMidx
            }
            b'D' => {
                if self.packs.is_empty() || self.midx.is_some() {
                    return Act::Nothing;
                }
                let k = (args.first().copied().unwrap_or(0) as usize) % self.packs.len();
                let p = self.packs.remove(k).0;
                Act::DeletePack(p)
            }
            _ => Act::Nothing,
        }
    }
}

fn split_op(op: &[u8]) -> (u8, Vec<u64>) {
    if op.is_empty() {
        return (b'?', vec![]);
    }
    let rest = std::str::from_utf8(&op[1..]).unwrap_or("");
    (op[0], rest.split('.').filter(|s| !s.is_empty()).map(|s| s.parse().unwrap_or(0)).collect())
}
fn is_disk_op(c: u8) -> bool {
    matches!(c, b'P' | b'L' | b'R' | b'r' | b'M' | b'm' | b'D')
}

// ---------------------------------------------------------------------------------------------------
// objects
// ---------------------------------------------------------------------------------------------------
fn obj_data(n: u64) -> Vec<u8> {
    format!("object {n} {}\n", "xyz".repeat((n % 11) as usize)).into_bytes()
}
fn obj_id(n: u64) -> gix_hash::ObjectId {
    if n >= 1_000_000 {
        // an id no object has
        let mut b = [0x11u8; 20];
        b[19] = n as u8;
        return gix_hash::ObjectId::from_bytes_or_panic(&b);
    }
    gix_object::compute_hash(gix_hash::Kind::Sha1, gix_object::Kind::Blob, &obj_data(n))
}

// ---------------------------------------------------------------------------------------------------
// the directory on disk: hand-made files or real git
// ---------------------------------------------------------------------------------------------------
static DIRNO: AtomicU64 = AtomicU64::new(0);
struct Dir {
    root: PathBuf, // the git dir
    git: bool,
    /// git mode: pack number -> file stem
    names: Vec<(u64, String)>,
}
impl Drop for Dir {
    fn drop(&mut self) {
        let _ = std::fs::remove_dir_all(&self.root);
    }
}

fn deflate(data: &[u8]) -> Vec<u8> {
    let mut e = flate2::write::ZlibEncoder::new(Vec::new(), flate2::Compression::fast());
    e.write_all(data).unwrap();
    e.finish().unwrap()
}

impl Dir {
    fn new(git: bool) -> Dir {
        let base = if Path::new("/dev/shm").is_dir() { PathBuf::from("/dev/shm") } else { std::env::temp_dir() };
        let root = base.join(format!(
            "gixv-c12-{}-{}",
            std::process::id(),
            DIRNO.fetch_add(1, Ordering::SeqCst)
        ));
        let _ = std::fs::remove_dir_all(&root);
        std::fs::create_dir_all(root.join("objects/pack")).unwrap();
        std::fs::create_dir_all(root.join("refs/heads")).unwrap();
        std::fs::write(root.join("HEAD"), "ref: refs/heads/main\n").unwrap();
        std::fs::write(root.join("config"), "[core]\n\trepositoryformatversion = 0\n\tbare = true\n").unwrap();
        Dir { root, git, names: vec![] }
    }
    fn objects(&self) -> PathBuf {
        self.root.join("objects")
    }
    fn packdir(&self) -> PathBuf {
        self.root.join("objects/pack")
    }
    fn run_git(&self, args: &[&str], stdin: &[u8]) -> String {
        use std::process::Stdio;
        let mut ch = Command::new("git")
            .args(args)
            .env("GIT_DIR", &self.root)
            .env("GIT_CONFIG_NOSYSTEM", "1")
            .env("GIT_CONFIG_GLOBAL", "/dev/null")
            .env("HOME", &self.root)
            .stdin(Stdio::piped())
            .stdout(Stdio::piped())
            .stderr(Stdio::piped())
            .spawn()
            .expect("git");
        ch.stdin.take().unwrap().write_all(stdin).unwrap();
        let o = ch.wait_with_output().unwrap();
        assert!(
            o.status.success(),
            "git {:?} failed: {}",
            args,
            String::from_utf8_lossy(&o.stderr)
        );
        String::from_utf8_lossy(&o.stdout).into_owned()
    }
    fn stem(no: u64) -> String {
        format!("pack-{no:040x}")
    }
    fn write_pack_by_hand(&self, no: u64, objs: &[u64]) {
        let mut p = Vec::new();
        p.extend_from_slice(b"PACK");
        p.extend_from_slice(&2u32.to_be_bytes());
        p.extend_from_slice(&(objs.len() as u32).to_be_bytes());
        let mut ents: Vec<(gix_hash::ObjectId, u32)> = Vec::new();
        for o in objs {
            let data = obj_data(*o);
            ents.push((obj_id(*o), p.len() as u32));
            // entry header: type 3 (blob), size
            let mut size = data.len() as u64;
            let mut c = (3u8 << 4) | (size & 15) as u8;
            size >>= 4;
            while size != 0 {
                p.push(c | 0x80);
                c = (size & 0x7f) as u8;
                size >>= 7;
            }
            p.push(c);
            p.extend_from_slice(&deflate(&data));
        }
        p.extend_from_slice(&[0u8; 20]);
        ents.sort();
        let mut x = Vec::new();
        x.extend_from_slice(b"\xfftOc");
        x.extend_from_slice(&2u32.to_be_bytes());
        let mut fan = [0u32; 256];
        for (id, _) in &ents {
            fan[id.as_bytes()[0] as usize] += 1;
        }
        let mut acc = 0u32;
        for f in fan.iter() {
            acc += f;
            x.extend_from_slice(&acc.to_be_bytes());
        }
        for (id, _) in &ents {
            x.extend_from_slice(id.as_bytes());
        }
        for _ in &ents {
            x.extend_from_slice(&0u32.to_be_bytes());
        }
        for (_, ofs) in &ents {
            x.extend_from_slice(&ofs.to_be_bytes());
        }
        x.extend_from_slice(&[0u8; 40]);
        let stem = Self::stem(no);
        let d = self.packdir();
        // complete files appear by rename, the pack before its index
        std::fs::write(d.join(format!("tmp_{stem}.pack")), &p).unwrap();
        std::fs::write(d.join(format!("tmp_{stem}.idx_")), &x).unwrap();
        std::fs::rename(d.join(format!("tmp_{stem}.pack")), d.join(format!("{stem}.pack"))).unwrap();
        std::fs::rename(d.join(format!("tmp_{stem}.idx_")), d.join(format!("{stem}.idx"))).unwrap();
    }
    fn write_loose(&self, objs: &[u64]) {
        if self.git {
            let files: Vec<String> = objs
                .iter()
                .map(|o| {
                    let f = self.root.join(format!("blob{o}"));
                    std::fs::write(&f, obj_data(*o)).unwrap();
                    f.to_string_lossy().into_owned()
                })
                .collect();
            let out = self.run_git(&["hash-object", "-w", "--stdin-paths"], (files.join("\n") + "\n").as_bytes());
            for (o, line) in objs.iter().zip(out.lines()) {
                assert_eq!(line.trim(), obj_id(*o).to_string());
            }
            for f in files {
                let _ = std::fs::remove_file(f);
            }
        } else {
            let db = gix_odb::loose::Store::at(self.objects(), gix_hash::Kind::Sha1);
            for o in objs {
                db.write_buf(gix_object::Kind::Blob, &obj_data(*o)).unwrap();
            }
        }
    }
    fn remove_loose(&self, objs: &[u64]) {
        for o in objs {
            let h = obj_id(*o).to_string();
            let _ = std::fs::remove_file(self.objects().join(&h[..2]).join(&h[2..]));
        }
    }
    fn pack_names_on_disk(&self) -> Vec<String> {
        let mut v: Vec<String> = std::fs::read_dir(self.packdir())
            .unwrap()
            .filter_map(|e| e.ok())
            .filter_map(|e| {
                let n = e.file_name().to_string_lossy().into_owned();
                n.strip_suffix(".idx").map(|s| s.to_string())
            })
            .collect();
        v.sort();
        v
    }
    fn git_pack_objects(&mut self, no: u64, objs: &[u64]) {
        let before = self.pack_names_on_disk();
        let ids: String = objs.iter().map(|o| format!("{}\n", obj_id(*o))).collect();
        let prefix = self.packdir().join("pack");
        self.run_git(&["pack-objects", "-q", &prefix.to_string_lossy()], ids.as_bytes());
        let after = self.pack_names_on_disk();
        let new: Vec<&String> = after.iter().filter(|n| !before.contains(n)).collect();
        assert_eq!(new.len(), 1, "one new pack expected");
        self.names.push((no, new[0].clone()));
    }
    fn remove_pack(&self, no: u64) {
        let stem = if self.git {
            self.names.iter().find(|n| n.0 == no).map(|n| n.1.clone()).expect("known pack")
        } else {
            Self::stem(no)
        };
        let d = self.packdir();
        let _ = std::fs::remove_file(d.join(format!("{stem}.idx")));
        let _ = std::fs::remove_file(d.join(format!("{stem}.pack")));
        let _ = std::fs::remove_file(d.join(format!("{stem}.rev")));
    }
    fn write_midx(&self, version: u64, packs: &[u64]) {
        let d = self.packdir();
        if self.git {
            self.run_git(&["multi-pack-index", "write"], b"");
        } else {
            let paths: Vec<PathBuf> = packs.iter().map(|p| d.join(format!("{}.idx", Self::stem(*p)))).collect();
            let mut out = Vec::new();
            gix_pack::multi_index::File::write_from_index_paths(
                paths,
                &mut out,
                &mut gix_features::progress::Discard,
                &AtomicBool::new(false),
                gix_pack::multi_index::write::Options { object_hash: gix_hash::Kind::Sha1 },
            )
            .expect("multi-index written");
            let tmp = d.join("tmp_midx");
            std::fs::write(&tmp, &out).unwrap();
            let f = std::fs::File::options().write(true).open(&tmp).unwrap();
            f.set_modified(std::time::UNIX_EPOCH + std::time::Duration::from_secs(1_700_000_000 + version))
                .unwrap();
            drop(f);
            std::fs::rename(&tmp, d.join("multi-pack-index")).unwrap();
        }
    }
    /// apply one directory change in the order git uses: new things appear complete before old things vanish
    fn act(&mut self, a: &Act, before: &Sim) {
        match a {
            Act::Nothing => {}
            Act::NewPack(no, objs) => {
                if self.git {
                    self.write_loose(objs);
                    self.git_pack_objects(*no, objs);
                    self.run_git(&["prune-packed", "-q"], b"");
                } else {
                    self.write_pack_by_hand(*no, objs);
                }
            }
            Act::Loose(objs) => self.write_loose(objs),
            Act::PackLoose(no, objs) => {
                if self.git {
                    self.git_pack_objects(*no, objs);
                    self.run_git(&["prune-packed", "-q"], b"");
                } else {
                    self.write_pack_by_hand(*no, objs);
                    self.remove_loose(objs);
                }
            }
            Act::RepackAll(no, objs) => {
                if self.git {
                    // `repack -a -d -k` leaves unreachable loose objects alone when there is nothing else to do: pack them
                    // first (the pack becomes redundant and is removed by the repack, or is the result itself)
                    if !before.loose.is_empty() {
                        let ids: String = before.loose.iter().map(|o| format!("{}\n", obj_id(*o))).collect();
                        let prefix = self.packdir().join("pack");
                        self.run_git(&["pack-objects", "-q", &prefix.to_string_lossy()], ids.as_bytes());
                        self.run_git(&["prune-packed", "-q"], b"");
                    }
                    let names_before = self.pack_names_on_disk();
                    self.run_git(&["repack", "-a", "-d", "-k", "-q"], b"");
                    let after = self.pack_names_on_disk();
                    let new: Vec<&String> = after.iter().filter(|n| !names_before.contains(n)).collect();
                    if let Some(n) = new.first() {
                        self.names.push((*no, (*n).clone()));
                    } else if let Some(n) = after.first() {
                        // git found the very same pack again (same content): it stays
                        self.names.push((*no, n.clone()));
                    }
                    // the multi-index goes away with the packs it names
                    let _ = std::fs::remove_file(self.packdir().join("multi-pack-index"));
                } else {
                    self.write_pack_by_hand(*no, objs);
                    let _ = std::fs::remove_file(self.packdir().join("multi-pack-index"));
                    for (p, _) in &before.packs {
                        self.remove_pack(*p);
                    }
                    self.remove_loose(&before.loose);
                }
            }
            Act::WriteMidx(v, packs) => self.write_midx(*v, packs),
            Act::RemoveMidx => {
                let _ = std::fs::remove_file(self.packdir().join("multi-pack-index"));
            }
            Act::DeletePack(no) => self.remove_pack(*no),
        }
    }
}

// ---------------------------------------------------------------------------------------------------
// running a history against the real store
// ---------------------------------------------------------------------------------------------------
fn open_store(dir: &Dir, slots: u16) -> Arc<Store> {
    Arc::new(
        Store::at_opts(
            dir.objects(),
            &mut std::iter::empty(),
            gix_odb::store::init::Options {
                slots: gix_odb::store::init::Slots::Given(slots),
                object_hash: gix_hash::Kind::Sha1,
                use_multi_pack_index: true,
                current_dir: Some(dir.root.clone()),
            },
        )
        .expect("store opens"),
    )
}

/// replace `pack-<40 hex>.idx` by `p<number>` and `multi-pack-index` by `m`
fn canon_names(s: &str) -> String {
    let mut out = String::new();
    let b = s.as_bytes();
    let mut i = 0;
    while i < b.len() {
        if b[i..].starts_with(b"pack-") && b.len() >= i + 49 && &b[i + 45..i + 49] == b".idx" {
            let hex = &s[i + 5..i + 45];
            if let Ok(n) = u64::from_str_radix(hex.trim_start_matches('0'), 16) {
                out.push_str(&format!("p{n}"));
                i += 49;
                continue;
            }
        }
        if b[i..].starts_with(b"multi-pack-index") {
            out.push('m');
            i += 16;
            continue;
        }
        out.push(b[i] as char);
        i += 1;
    }
    out
}

#[derive(Debug, PartialEq, Clone)]
enum Look {
    Pack,
    Loose,
    None,
    Wrong(String),
    Err(String),
    InsufficientSlots,
}

fn do_find(h: &Handle, o: u64) -> Look {
    let id = obj_id(o);
    let mut buf = Vec::new();
    match gix_pack::Find::try_find(h, &id, &mut buf) {
        Ok(Some((data, loc))) => {
            let got = gix_object::compute_hash(gix_hash::Kind::Sha1, data.kind, data.data);
            if got != id {
                Look::Wrong(format!("asked {id} got {got}"))
            } else if loc.is_some() {
                Look::Pack
            } else {
                Look::Loose
            }
        }
        Ok(None) => Look::None,
        Err(e) => {
            let s = format!("{e:?}");
            if s.contains("InsufficientSlots") {
                Look::InsufficientSlots
            } else {
                Look::Err(s)
            }
        }
    }
}

struct World {
    dir: Dir,
    sim: Sim,
    store: Arc<Store>,
    handles: Vec<Option<(Handle, bool, bool)>>, // handle, refresh, stable
}

impl World {
    fn new(slots: u16, git: bool) -> World {
        let dir = Dir::new(git);
        let store = open_store(&dir, slots);
        World { dir, sim: Sim::default(), store, handles: vec![] }
    }
    fn after(&self, h: usize) -> String {
        let hs = match self.handles.get(h) {
            Some(Some((hd, _, _))) => canon_names(&hd.verif_snapshot()),
            _ => String::new(),
        };
        format!(" [{}] [{}]", canon_names(&self.store.verif_snapshot()), hs)
    }
    /// run one op; returns the transcript piece and, for lookups, what the property needs
    fn op(&mut self, op: &[u8]) -> (String, Option<(u64, bool, bool, Option<bool>, Option<Look>)>) {
        let (c, args) = split_op(op);
        if is_disk_op(c) {
            let before = self.sim.clone();
            let a = self.sim.apply(op);
            self.dir.act(&a, &before);
            return (".".into(), None);
        }
        if c == b'H' {
            self.handles.push(Some((self.store.to_handle_arc(), true, false)));
            return (format!("H{}", self.after(self.handles.len() - 1)), None);
        }
        let h = args.first().copied().unwrap_or(0) as usize;
        if !matches!(self.handles.get(h), Some(Some(_))) {
            return ((if b"CSNZef".contains(&c) { "x" } else { "?" }).into(), None);
        }
        match c {
            b'C' => {
                let (hd, refresh, stable) = self.handles[h].as_ref().unwrap();
                let n = (hd.clone(), *refresh, *stable);
                self.handles.push(Some(n));
                (format!("C{}", self.after(self.handles.len() - 1)), None)
            }
            b'S' => {
                let e = self.handles[h].as_mut().unwrap();
                e.0.prevent_pack_unload();
                e.2 = true;
                (format!("S{}", self.after(h)), None)
            }
            b'N' => {
                let e = self.handles[h].as_mut().unwrap();
                e.0.refresh_never();
                e.1 = false;
                ("N".into(), None)
            }
            b'Z' => {
                self.handles[h] = None;
                (format!("Z{}", self.after(h)), None)
            }
            b'e' => {
                let o = args.get(1).copied().unwrap_or(0);
                let (hd, refresh, stable) = self.handles[h].as_ref().unwrap();
                let r = hd.exists(&obj_id(o));
                let info = (o, *refresh, *stable, Some(r), None);
                (format!("e={}{}", r as u8, self.after(h)), Some(info))
            }
            b'f' => {
                let o = args.get(1).copied().unwrap_or(0);
                let (hd, refresh, stable) = self.handles[h].as_ref().unwrap();
                let r = do_find(hd, o);
                let t = match &r {
                    Look::Pack => "pack",
                    Look::Loose => "loose",
                    Look::None => "none",
                    Look::Wrong(_) => "wrong",
                    Look::Err(_) | Look::InsufficientSlots => "err",
                };
                let info = (o, *refresh, *stable, None, Some(r.clone()));
                (format!("f={}{}", t, self.after(h)), Some(info))
            }
            _ => ("?".into(), None),
        }
    }
}

fn imp(c: &Case) -> String {
    match f_str(c, 0) {
        b"pid" => {
            let index = f_u64(c, 1) as usize;
            let multi = std::str::from_utf8(f_str(c, 2)).ok().and_then(|s| s.parse::<u32>().ok());
            let id = gix_odb::store::verif::verif_pack_id_to_intrinsic(index, multi);
            let (i, m) = gix_odb::store::verif::verif_pack_id_from_intrinsic(id);
            format!("ok {} {}/{}", id, i, m.map(|m| m.to_string()).unwrap_or("-".into()))
        }
        b"pidr" => {
            let id = f_u64(c, 1) as u32;
            let (i, m) = gix_odb::store::verif::verif_pack_id_from_intrinsic(id);
            let back = std::panic::catch_unwind(|| gix_odb::store::verif::verif_pack_id_to_intrinsic(i, m));
            format!(
                "ok {}/{} {}",
                i,
                m.map(|m| m.to_string()).unwrap_or("-".into()),
                back.map(|b| b.to_string()).unwrap_or("PANIC".into())
            )
        }
        b"hist" => {
            let mut w = World::new(f_u64(c, 1) as u16, false);
            let mut out = Vec::new();
            for op in &c[3..] {
                out.push(w.op(op).0);
            }
            out.join(";")
        }
        _ => "?".into(),
    }
}

// ---------------------------------------------------------------------------------------------------
// the property
// ---------------------------------------------------------------------------------------------------
fn prop_hist(c: &Case) -> Verdict {
    let flags = f_u64(c, 2);
    let git = flags & 1 == 1;
    let stress = flags & 2 == 2;
    let slots = f_u64(c, 1) as u16;
    let mut w = World::new(slots, git);
    let ops = &c[3..];
    let mut lookups = 0usize;
    let mut class = "hist";

    // stress: the first third of the history runs alone; objects on disk at that point stay (no D afterwards)
    let split = if stress { ops.len() / 3 } else { ops.len() };
    let stop = Arc::new(AtomicBool::new(false));
    let failures: Arc<std::sync::Mutex<Vec<(String, String)>>> = Default::default();
    let done_lookups = Arc::new(AtomicUsize::new(0));
    let mut threads = Vec::new();

    for (i, op) in ops.iter().enumerate() {
        if stress && i == split {
            let stable_objs = w.sim.all_objs();
            let has_delete = ops[split..].iter().any(|o| o.first() == Some(&b'D'));
            if !stable_objs.is_empty() && !has_delete {
                class = "stress";
                for t in 0..16u64 {
                    let store = w.store.clone();
                    let objs = stable_objs.clone();
                    let stop = stop.clone();
                    let failures = failures.clone();
                    let done = done_lookups.clone();
                    threads.push(std::thread::spawn(move || {
                        let mut rng = Rng::new(0xC12 + t);
                        let mut h = store.to_handle_arc();
                        let mut n = 0u64;
                        while !stop.load(Ordering::SeqCst) || n < 40 {
                            n += 1;
                            if n % 64 == 0 {
                                h = store.to_handle_arc(); // a fresh snapshot now and then
                            }
                            let r = std::panic::catch_unwind(std::panic::AssertUnwindSafe(|| {
                                if rng.chance(1, 6) {
                                    // an id nobody has: forces a refresh
                                    let miss = 1_000_000 + rng.below(8);
                                    if rng.chance(1, 2) {
                                        if h.exists(&obj_id(miss)) {
                                            return Some(("exists-missing".to_string(), format!("{miss}")));
                                        }
                                    } else if !matches!(do_find(&h, miss), Look::None | Look::InsufficientSlots) {
                                        return Some(("find-missing".to_string(), format!("{miss}")));
                                    }
                                    return None;
                                }
                                let o = objs[rng.below(objs.len() as u64) as usize];
                                if rng.chance(1, 3) {
                                    if !h.exists(&obj_id(o)) {
                                        return Some(("not-found".to_string(), format!("exists({o}) = false")));
                                    }
                                    return None;
                                }
                                match do_find(&h, o) {
                                    Look::Pack | Look::Loose => None,
                                    Look::None => Some((
                                        "not-found".to_string(),
                                        format!(
                                            "try_find({o}) = None; store [{}] handle [{}]",
                                            canon_names(&store.verif_snapshot()),
                                            canon_names(&h.verif_snapshot())
                                        ),
                                    )),
                                    Look::Wrong(d) => Some(("wrong-content".to_string(), d)),
                                    Look::InsufficientSlots => None,
                                    Look::Err(e) => Some(("lookup-error".to_string(), e)),
                                }
                            }));
                            done.fetch_add(1, Ordering::Relaxed);
                            match r {
                                Ok(None) => {}
                                Ok(Some(f)) => failures.lock().unwrap().push(f),
                                Err(_) => {
                                    failures.lock().unwrap().push(("panic".to_string(), "a lookup panicked".to_string()));
                                    h = store.to_handle_arc();
                                }
                            }
                        }
                    }));
                }
            }
        }
        let (c0, _) = split_op(op);
        let on_disk_before = |sim: &Sim, o: u64| sim.on_disk(o);
        let r = std::panic::catch_unwind(std::panic::AssertUnwindSafe(|| w.op(op)));
        let (_t, info) = match r {
            Ok(x) => x,
            Err(_) => {
                stop.store(true, Ordering::SeqCst);
                for t in threads {
                    let _ = t.join();
                }
                return Verdict::fail("panic", format!("op {} ({}) panicked", i, String::from_utf8_lossy(op)));
            }
        };
        let _ = c0;
        if let Some((o, refresh, _stable, ex, look)) = info {
            lookups += 1;
            let present = on_disk_before(&w.sim, o);
            let fail = |cl: &str, d: String| -> Verdict {
                Verdict::fail(cl, format!("op {} ({}): {}", i, String::from_utf8_lossy(op), d))
            };
            let mut bad = None;
            if let Some(found) = ex {
                if !found && present && refresh {
                    // slots exhausted? then the lookup cannot succeed, and says so when asked through try_find
                    let (hd, _, _) = w.handles[split_op(op).1[0] as usize].as_ref().unwrap();
                    if do_find(hd, o) != Look::InsufficientSlots {
                        bad = Some(fail("not-found", format!("exists({o}) = false but the object is on disk")));
                    } else {
                        class = "insufficient-slots";
                    }
                }
                if found && o >= 1_000_000 {
                    bad = Some(fail("exists-missing", format!("{o}")));
                }
            }
            if let Some(l) = look {
                match l {
                    Look::Wrong(d) => bad = Some(fail("wrong-content", d)),
                    Look::None if present && refresh => {
                        bad = Some(fail("not-found", format!("try_find({o}) = None but the object is on disk")))
                    }
                    Look::Err(e) if present => bad = Some(fail("lookup-error", e)),
                    Look::InsufficientSlots => class = "insufficient-slots",
                    Look::Pack | Look::Loose if o >= 1_000_000 => bad = Some(fail("find-missing", format!("{o}"))),
                    _ => {}
                }
            }
            if let Some(b) = bad {
                stop.store(true, Ordering::SeqCst);
                for t in threads {
                    let _ = t.join();
                }
                return b;
            }
        }
        if !threads.is_empty() {
            // give the readers a chance to see this state
            let target = done_lookups.load(Ordering::Relaxed) + 24;
            let t0 = std::time::Instant::now();
            while done_lookups.load(Ordering::Relaxed) < target && t0.elapsed().as_millis() < 60 {
                std::thread::yield_now();
            }
        }
    }
    stop.store(true, Ordering::SeqCst);
    for t in threads {
        let _ = t.join();
    }
    let fl = failures.lock().unwrap();
    if let Some((cl, d)) = fl.first() {
        return Verdict::fail(cl.clone(), format!("reader thread: {d} ({} failures)", fl.len()));
    }
    Verdict::ok(lookups > 0, if git && class == "hist" { "hist-git" } else { class })
}

fn prop(c: &Case) -> Verdict {
    match f_str(c, 0) {
        b"pid" => {
            let index = f_u64(c, 1);
            let multi = std::str::from_utf8(f_str(c, 2)).ok().and_then(|s| s.parse::<u32>().ok());
            let valid = index < (1 << 15) && multi.map_or(true, |m| m <= 0xffff);
            let r = std::panic::catch_unwind(|| {
                let id = gix_odb::store::verif::verif_pack_id_to_intrinsic(index as usize, multi);
                (id, gix_odb::store::verif::verif_pack_id_from_intrinsic(id))
            });
            match r {
                Ok((id, (i, m))) => {
                    if !valid {
                        return Verdict::fail("pid-accepts-out-of-range", format!("{index} {multi:?}"));
                    }
                    if i as u64 != index || m != multi {
                        return Verdict::fail("pid-roundtrip", format!("{index} {multi:?} -> {id} -> {i} {m:?}"));
                    }
                    // independent oracle: the documented bit layout
                    let want = match multi {
                        None => index as u32,
                        Some(m) => index as u32 + 32768 + m * 65536,
                    };
                    if id != want {
                        return Verdict::fail("pid-layout", format!("{id} != {want}"));
                    }
                    Verdict::ok(true, if multi.is_some() { "pid-multi" } else { "pid-single" })
                }
                Err(_) => {
                    if valid {
                        Verdict::fail("pid-panics", format!("{index} {multi:?}"))
                    } else {
                        Verdict::ok(false, "pid-out-of-range")
                    }
                }
            }
        }
        b"pidr" => {
            let id = f_u64(c, 1) as u32;
            let (i, m) = gix_odb::store::verif::verif_pack_id_from_intrinsic(id);
            // ids with bit 15 clear must not carry anything above bit 15 to be the image of a PackId
            let canonical = id & 0x8000 != 0 || id >> 16 == 0;
            match std::panic::catch_unwind(|| gix_odb::store::verif::verif_pack_id_to_intrinsic(i, m)) {
                Ok(back) => {
                    if canonical && back != id {
                        Verdict::fail("pidr-roundtrip", format!("{id} -> {i} {m:?} -> {back}"))
                    } else {
                        Verdict::ok(canonical, if canonical { "pidr" } else { "pidr-noncanonical" })
                    }
                }
                Err(_) => Verdict::fail("pidr-panics", format!("{id}")),
            }
        }
        b"hist" => prop_hist(c),
        _ => Verdict::ok(false, "?"),
    }
}

// ---------------------------------------------------------------------------------------------------
// generator
// ---------------------------------------------------------------------------------------------------
fn hist(slots: u64, flags: u64, ops: &[&str]) -> Case {
    let mut c = vec![tag("hist"), num(slots), num(flags)];
    c.extend(ops.iter().map(|o| tag(o)));
    c
}

fn random_hist(rng: &mut Rng) -> Case {
    let slots = *rng.pick(&[1u64, 2, 2, 3, 3, 4, 5, 8, 32]);
    let flags = match rng.below(100) {
        0 => 1,
        1 | 2 => 2,
        3 => 3,
        _ => 0,
    };
    let nops = if flags != 0 { rng.range(6, 14) } else { rng.range(3, 22) } as usize;
    let mut sim = Sim::default();
    let mut ops: Vec<String> = Vec::new();
    let mut nh = 0u64;
    let mut max_files = 0usize;
    let with_midx = rng.chance(1, 3);
    let with_delete = flags & 2 == 0 && rng.chance(1, 5);
    let with_stable = rng.chance(1, 4);
    while ops.len() < nops {
        let r = rng.below(100);
        let op: String = if nh == 0 && r < 35 {
            "H".into()
        } else if r < 14 {
            format!("P{}", rng.range(1, 6))
        } else if r < 20 {
            format!("L{}", rng.range(1, 3))
        } else if r < 30 {
            "R".into()
        } else if r < 34 {
            "r".into()
        } else if r < 40 && with_midx {
            "M".into()
        } else if r < 42 && with_midx {
            "m".into()
        } else if r < 45 && with_delete {
            format!("D{}", rng.below(4))
        } else if r < 50 {
            "H".into()
        } else if r < 53 && nh > 0 {
            format!("C{}", rng.below(nh))
        } else if r < 56 && nh > 0 && with_stable {
            format!("S{}", rng.below(nh))
        } else if r < 58 && nh > 0 {
            format!("N{}", rng.below(nh))
        } else if r < 60 && nh > 1 {
            format!("Z{}", rng.below(nh))
        } else if nh > 0 {
            let h = rng.below(nh);
            let o = if rng.chance(1, 5) || sim.nobj == 0 {
                1_000_000 + rng.below(3)
            } else if rng.chance(1, 4) {
                rng.below(sim.nobj) // possibly one that was deleted
            } else {
                let all = sim.all_objs();
                if all.is_empty() {
                    1_000_000
                } else {
                    all[rng.below(all.len() as u64) as usize]
                }
            };
            format!("{}{}.{}", if rng.chance(1, 2) { "e" } else { "f" }, h, o)
        } else {
            continue;
        };
        let c = op.as_bytes()[0];
        if is_disk_op(c) {
            let mut s2 = sim.clone();
            s2.apply(op.as_bytes());
            // directory listings are sorted by file size only: equal sizes would make the slot order depend on readdir
            if s2.has_tie() {
                continue;
            }
            // while a repack is going on the new pack and everything old are there together
            max_files = max_files.max(sim.sizes().len() + 1).max(s2.sizes().len());
            sim = s2;
        }
        if c == b'H' || (c == b'C') {
            nh += 1;
        }
        ops.push(op);
    }
    // reader threads see the states in between, too: a full slot map makes lookups fail (InsufficientSlots), which is
    // not what the stress run is about
    let slots = if flags & 2 == 2 { slots.max(max_files as u64 + 1) } else { slots };
    let mut c = vec![tag("hist"), num(slots), num(flags)];
    c.extend(ops.iter().map(|o| tag(o)));
    c
}

fn gen(rng: &mut Rng, n: usize) -> Vec<Case> {
    let mut out: Vec<Case> = Vec::new();
    // PackId boundaries
    for index in [0u64, 1, 2, 32766, 32767, 32768, 65535] {
        out.push(vec![tag("pid"), num(index), vec![]]);
        for m in [0u64, 1, 65534, 65535, 65536] {
            out.push(vec![tag("pid"), num(index), num(m)]);
        }
    }
    for id in [0u64, 1, 32767, 32768, 32769, 65535, 65536, 98304, 0x7fff_ffff, 0x8000_0000, 0xffff_7fff, 0xffff_8000, 0xffff_ffff] {
        out.push(vec![tag("pidr"), num(id)]);
    }
    // the histories behind the three repaired defects, and neighbours (flags 0 / git / stress)
    for flags in [0u64, 1] {
        // cleared slot without a new generation: load_pack hit unreachable!()
        out.push(hist(32, flags, &["P3", "H", "H", "e0.0", "R", "e1.1000000", "f0.0", "f0.2"]));
        // cleared slot reused for another pack: another object's content was returned
        out.push(hist(2, flags, &["P3", "H", "H", "e0.0", "P2", "R", "e1.1000000", "P1", "R", "e1.1000000", "f0.0", "f0.1", "f0.2"]));
        // one slot only: the new index took the slot of the vanished one
        out.push(hist(1, flags, &["P2", "H", "e0.0", "P3", "R", "e0.1000000", "f0.0", "f0.4"]));
        out.push(hist(2, flags, &["P2", "P3", "H", "e0.0", "P1", "R", "e0.1000000", "f0.0", "f0.5"]));
        // more indices than slots
        out.push(hist(2, flags, &["P1", "P2", "H", "e0.0", "P3", "e0.1000000", "f0.0", "f0.3", "e0.3"]));
        // stable handle keeps deleted packs
        out.push(hist(3, flags, &["P2", "H", "S0", "f0.0", "P3", "R", "e0.1000000", "f0.1", "H", "f1.1", "Z0", "P1", "R", "e1.1000001", "f1.0"]));
        // multi-pack index appears, is rewritten, disappears
        out.push(hist(4, flags, &["P2", "P3", "H", "f0.0", "M", "e0.1000000", "f0.3", "P1", "M", "e0.1000000", "f0.5", "f0.0", "m", "e0.1000000", "f0.1"]));
        out.push(hist(4, flags, &["P2", "L1", "H", "f0.2", "r", "f0.2", "e0.1000000", "f0.2", "L2", "R", "f0.3", "e0.1000000", "f0.4"]));
        out.push(hist(3, flags, &["H", "N0", "e0.0", "P1", "e0.0", "H", "e1.0", "C0", "e2.0"]));
    }
    out.push(hist(4, 2, &["P3", "P2", "H", "f0.0", "R", "P1", "R", "L2", "R", "P4", "R", "M", "P5", "R", "f0.1"]));
    out.push(hist(4, 3, &["P3", "P2", "H", "f0.0", "R", "P1", "M", "R", "L2", "r", "R", "f0.1"]));
    out.push(hist(32, 2, &["P3", "L2", "H", "f0.0", "R", "P1", "R", "L2", "r", "M", "P4", "R", "P5", "M", "P6", "M", "R", "f0.1"]));
    while out.len() < n {
        match rng.below(20) {
            0 => {
                let index = if rng.chance(1, 4) { rng.below(70000) } else { rng.below(32768) };
                let m = match rng.below(3) {
                    0 => vec![],
                    1 => num(rng.below(65536)),
                    _ => num(rng.below(70000)),
                };
                out.push(vec![tag("pid"), num(index), m]);
            }
            1 => out.push(vec![tag("pidr"), num(rng.next() & 0xffff_ffff)]),
            _ => out.push(random_hist(rng)),
        }
    }
    out.truncate(n.max(1));
    out
}

fn main() {
    main_with(Harness { gen, imp, prop, git: None, deadline: std::time::Duration::from_secs(240) });
}
