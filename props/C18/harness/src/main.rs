//! C18 harness: gix-ref file store — `iter().all()`, `iter().prefixed()`, `try_find()` over staged
//! mixtures of loose and packed references, compared with a sorted-map oracle and with real git.
//!
//! Case:  <op> <query> <record>*
//!   op      all | pre | find
//!   query   `-` for all, the prefix for pre, the (partial) name for find
//!   record  kind byte, path relative to the git dir, NUL, payload
//!             l  loose file: payload = raw file content
//!             d  directory only (what a deleted loose ref leaves behind): payload empty
//!             p  packed-refs record: payload = 40 hex digits (+ 40 hex digits of the peeled object)
//! The staging rules (when a case is `skip`) are mirrored by `stage_ok` in the Coq model (Run.v).
use gixv_common::*;
use std::collections::BTreeMap;
use std::os::unix::ffi::OsStrExt;
use std::path::{Path, PathBuf};
use std::sync::atomic::{AtomicU64, Ordering as AO};

#[derive(Clone, Debug)]
enum Rec {
    Loose(Vec<u8>, Vec<u8>),
    Dir(Vec<u8>),
    Packed(Vec<u8>, Vec<u8>, Option<Vec<u8>>),
}

fn is_hex40(b: &[u8]) -> bool {
    b.len() == 40 && b.iter().all(|c| matches!(c, b'0'..=b'9' | b'a'..=b'f'))
}

/// None = malformed record (case is skipped)
fn parse_rec(f: &[u8]) -> Option<Rec> {
    let kind = *f.first()?;
    let rest = &f[1..];
    let nul = rest.iter().position(|b| *b == 0)?;
    let (name, payload) = (rest[..nul].to_vec(), rest[nul + 1..].to_vec());
    match kind {
        b'l' => Some(Rec::Loose(name, payload)),
        b'd' if payload.is_empty() => Some(Rec::Dir(name)),
        b'p' => {
            if payload.len() == 40 && is_hex40(&payload) {
                Some(Rec::Packed(name, payload, None))
            } else if payload.len() == 80 && is_hex40(&payload[..40]) && is_hex40(&payload[40..]) {
                Some(Rec::Packed(name, payload[..40].to_vec(), Some(payload[40..].to_vec())))
            } else {
                None
            }
        }
        _ => None,
    }
}

fn path_ok(name: &[u8]) -> bool {
    !name.is_empty()
        && name.split(|b| *b == b'/').all(|c| !c.is_empty() && c != b"." && c != b".." && c.len() <= 200)
        && name.len() <= 1000
}

/// The in-memory picture of what gets staged: files and directories relative to the git dir.
#[derive(Default, Clone)]
struct Staged {
    files: BTreeMap<Vec<u8>, Vec<u8>>,
    dirs: std::collections::BTreeSet<Vec<u8>>,
    packed: Vec<(Vec<u8>, Vec<u8>, Option<Vec<u8>>)>,
}

fn parents(name: &[u8]) -> Vec<Vec<u8>> {
    let mut out = Vec::new();
    for (i, b) in name.iter().enumerate() {
        if *b == b'/' {
            out.push(name[..i].to_vec());
        }
    }
    out
}

/// Mirrors `stage` of the Coq model: None = `skip`.
fn stage(c: &Case) -> Option<Staged> {
    let mut st = Staged::default();
    if f_str(c, 0) == b"pre" {
        // std::path normalises empty and `.` components: such prefixes are out of the model's scope
        let q = f_str(c, 1);
        if q.is_empty() || q.windows(2).any(|w| w == b"//") || q.split(|b| *b == b'/').skip(1).any(|c| c == b".") {
            return None;
        }
    }
    for f in c.iter().skip(2) {
        match parse_rec(f)? {
            Rec::Loose(name, content) => {
                if !path_ok(&name) || name == b"packed-refs" || st.files.contains_key(&name) || st.dirs.contains(&name) {
                    return None;
                }
                for p in parents(&name) {
                    if st.files.contains_key(&p) {
                        return None;
                    }
                    st.dirs.insert(p);
                }
                st.files.insert(name, content);
            }
            Rec::Dir(name) => {
                if !path_ok(&name) || name == b"packed-refs" || st.files.contains_key(&name) {
                    return None;
                }
                for p in parents(&name) {
                    if st.files.contains_key(&p) {
                        return None;
                    }
                    st.dirs.insert(p);
                }
                st.dirs.insert(name);
            }
            Rec::Packed(name, oid, peeled) => {
                if gix_validate::reference::name(name.as_slice().into()).is_err() {
                    return None;
                }
                if let Some((last, _, _)) = st.packed.last() {
                    if last.as_slice() >= name.as_slice() {
                        return None;
                    }
                }
                st.packed.push((name, oid, peeled));
            }
        }
    }
    Some(st)
}

static COUNTER: AtomicU64 = AtomicU64::new(0);

struct TempDir(PathBuf);
impl Drop for TempDir {
    fn drop(&mut self) {
        let _ = std::fs::remove_dir_all(&self.0);
    }
}

fn materialize(st: &Staged, for_git: bool) -> TempDir {
    let n = COUNTER.fetch_add(1, AO::Relaxed);
    let dir = std::env::temp_dir().join(format!("gixv-c18-{}-{}", std::process::id(), n));
    let _ = std::fs::remove_dir_all(&dir);
    std::fs::create_dir_all(&dir).expect("mkdir");
    let p = |name: &[u8]| dir.join(Path::new(std::ffi::OsStr::from_bytes(name)));
    for d in &st.dirs {
        std::fs::create_dir_all(p(d)).expect("mkdir -p");
    }
    for (name, content) in &st.files {
        std::fs::write(p(name), content).expect("write loose");
    }
    if !st.packed.is_empty() {
        let mut buf = b"# pack-refs with: peeled fully-peeled sorted \n".to_vec();
        for (name, oid, peeled) in &st.packed {
            buf.extend_from_slice(oid);
            buf.push(b' ');
            buf.extend_from_slice(name);
            buf.push(b'\n');
            if let Some(pl) = peeled {
                buf.push(b'^');
                buf.extend_from_slice(pl);
                buf.push(b'\n');
            }
        }
        std::fs::write(dir.join("packed-refs"), buf).expect("write packed-refs");
    }
    if for_git {
        let _ = std::fs::create_dir_all(dir.join("objects"));
        let _ = std::fs::create_dir_all(dir.join("refs"));
    }
    TempDir(dir)
}

fn store_at(dir: &Path) -> gix_ref::file::Store {
    gix_ref::file::Store::at(dir.to_owned(), gix_ref::store::init::Options::default())
}

fn show_ref(r: &gix_ref::Reference) -> String {
    let mut s = hexs(r.name.as_bstr());
    s.push('=');
    match &r.target {
        gix_ref::Target::Object(id) => s.push_str(&id.to_hex().to_string()),
        gix_ref::Target::Symbolic(n) => {
            s.push('@');
            s.push_str(&hexs(n.as_bstr()));
        }
    }
    if let Some(p) = &r.peeled {
        s.push('^');
        s.push_str(&p.to_hex().to_string());
    }
    s
}

fn show_iter_err(e: &gix_ref::file::iter::loose_then_packed::Error) -> String {
    use gix_ref::file::iter::loose_then_packed::Error::*;
    match e {
        Traversal(_) => "!Traversal".into(),
        ReadFileContents { .. } => "!ReadFileContents".into(),
        ReferenceCreation { relative_path, .. } => {
            format!("!ReferenceCreation:{}", hexs(relative_path.as_os_str().as_bytes()))
        }
        PackedReference { .. } => "!PackedReference".into(),
    }
}

/// items of `all` / `prefixed`, or Err(kind) when the iterator could not be created
fn run_iter(store: &gix_ref::file::Store, prefix: Option<&[u8]>) -> Result<Vec<String>, String> {
    let platform = store.iter().map_err(|_| "PackedOpen".to_string())?;
    let it = match prefix {
        None => platform.all(),
        Some(p) => platform.prefixed(Path::new(std::ffi::OsStr::from_bytes(p))),
    }
    .map_err(|_| "Init".to_string())?;
    let mut out = Vec::new();
    for (i, item) in it.enumerate() {
        if i > 100_000 {
            out.push("!Endless".into());
            break;
        }
        out.push(match item {
            Ok(r) => show_ref(&r),
            Err(e) => show_iter_err(&e),
        });
    }
    Ok(out)
}

fn run_find(store: &gix_ref::file::Store, name: &[u8]) -> String {
    use gix_ref::file::find::Error::*;
    let name: &gix_ref::bstr::BStr = name.into();
    match store.try_find(name) {
        Ok(None) => "ok none".into(),
        Ok(Some(r)) => format!("ok {}", show_ref(&r)),
        Err(RefnameValidation(_)) => "err RefnameValidation".into(),
        Err(ReadFileContents { .. }) => "err ReadFileContents".into(),
        Err(ReferenceCreation { relative_path, .. }) => {
            format!("err ReferenceCreation:{}", hexs(relative_path.as_os_str().as_bytes()))
        }
        Err(PackedRef(_)) => "err PackedRef".into(),
        Err(PackedOpen(_)) => "err PackedOpen".into(),
    }
}

fn imp(c: &Case) -> String {
    let Some(st) = stage(c) else { return "skip".into() };
    let op = f_str(c, 0).to_vec();
    let q = f_str(c, 1).to_vec();
    let tmp = materialize(&st, false);
    let store = store_at(&tmp.0);
    match op.as_slice() {
        b"all" => match run_iter(&store, None) {
            Ok(items) => format!("ok {}", items.join(" ")).trim_end().to_string(),
            Err(k) => format!("err {k}"),
        },
        b"pre" => match run_iter(&store, Some(&q)) {
            Ok(items) => format!("ok {}", items.join(" ")).trim_end().to_string(),
            Err(k) => format!("err {k}"),
        },
        b"find" => run_find(&store, &q),
        _ => "?".into(),
    }
}

// ------------------------------------------------------------------------------------- oracle

#[derive(Clone, Debug, PartialEq)]
enum Val {
    Obj(Vec<u8>, Option<Vec<u8>>),
    Sym(Vec<u8>),
    Broken,
}

/// What a loose ref file means. Plain string operations; follows git's parse_loose_ref_contents for the
/// shapes the generator produces (symref: `ref:` + blanks + target up to the line end; object: 40 hex
/// digits followed by nothing, or by a line end).
fn parse_loose(content: &[u8]) -> Val {
    if let Some(rest) = content.strip_prefix(b"ref: ") {
        let mut r = rest;
        while let Some(b' ') = r.first() {
            r = &r[1..];
        }
        let end = r.iter().position(|b| *b == b'\n' || *b == b'\r').unwrap_or(r.len());
        let target = &r[..end];
        if gix_validate::reference::name(target.into()).is_ok() {
            return Val::Sym(target.to_vec());
        }
        return Val::Broken;
    }
    if content.len() >= 40 && is_hex40(&content[..40]) {
        return Val::Obj(content[..40].to_vec(), None);
    }
    Val::Broken
}

fn show_val(name: &[u8], v: &Val) -> String {
    match v {
        Val::Obj(o, p) => format!(
            "{}={}{}",
            hexs(name),
            String::from_utf8_lossy(o),
            p.as_ref().map(|p| format!("^{}", String::from_utf8_lossy(p))).unwrap_or_default()
        ),
        Val::Sym(t) => format!("{}=@{}", hexs(name), hexs(t)),
        Val::Broken => format!("!ReferenceCreation:{}", hexs(name)),
    }
}

/// the sorted-map view of the store: every name under `refs/` once, loose shadows packed
fn oracle_all(st: &Staged) -> BTreeMap<Vec<u8>, Val> {
    let mut m = BTreeMap::new();
    for (name, oid, peeled) in &st.packed {
        m.insert(name.clone(), Val::Obj(oid.clone(), peeled.clone()));
    }
    for (name, content) in &st.files {
        if name.starts_with(b"refs/") && gix_validate::reference::name_partial(name.as_slice().into()).is_ok() {
            m.insert(name.clone(), parse_loose(content));
        }
    }
    m
}

fn names_of(items: &[String]) -> Vec<String> {
    items
        .iter()
        .map(|i| {
            if let Some(r) = i.strip_prefix("!ReferenceCreation:") {
                r.to_string()
            } else {
                i.split('=').next().unwrap_or("").to_string()
            }
        })
        .collect()
}

fn lookup(st: &Staged, full: &[u8]) -> Option<Val> {
    // a path below a regular file does not exist (ENOTDIR for the file system, "not found" for git)
    if let Some(c) = st.files.get(full) {
        return Some(parse_loose(c));
    }
    // git never packs per-worktree references (refs/worktree/), and gix-ref does not look for them in packed-refs
    if full.starts_with(b"refs/") && !full.starts_with(b"refs/worktree/") {
        if let Some((_, oid, peeled)) = st.packed.iter().find(|(n, _, _)| n == full) {
            return Some(Val::Obj(oid.clone(), peeled.clone()));
        }
    }
    None
}

/// git's ref_rev_parse_rules
fn dwim_candidates(name: &[u8]) -> Vec<Vec<u8>> {
    let cat = |pre: &[u8], suf: &[u8]| {
        let mut v = pre.to_vec();
        v.extend_from_slice(name);
        v.extend_from_slice(suf);
        v
    };
    vec![
        cat(b"", b""),
        cat(b"refs/", b""),
        cat(b"refs/tags/", b""),
        cat(b"refs/heads/", b""),
        cat(b"refs/remotes/", b""),
        cat(b"refs/remotes/", b"/HEAD"),
    ]
}

fn below_file(st: &Staged, full: &[u8]) -> bool {
    parents(full).iter().any(|p| st.files.contains_key(p))
}

fn is_pseudo(name: &[u8]) -> bool {
    name.iter().all(|b| b.is_ascii_uppercase() || *b == b'_')
}
fn looks_full(name: &[u8]) -> bool {
    name.starts_with(b"refs/") || name.starts_with(b"main-worktree/") || name.starts_with(b"worktrees/") || is_pseudo(name)
}

fn prop(c: &Case) -> Verdict {
    let Some(st) = stage(c) else { return Verdict::ok(false, "skip") };
    let op = f_str(c, 0).to_vec();
    let q = f_str(c, 1).to_vec();
    let tmp = materialize(&st, false);
    let store = store_at(&tmp.0);
    let mixed = !st.packed.is_empty() && st.files.keys().any(|n| n.starts_with(b"refs/"));
    match op.as_slice() {
        b"all" | b"pre" => {
            let prefix = if op == b"pre" { Some(q.as_slice()) } else { None };
            let got = match run_iter(&store, prefix) {
                Ok(items) => items,
                Err(k) => {
                    // only a prefix that is absolute or has `.`/`..` components may be refused
                    let refusable = prefix.map_or(false, |p| {
                        p.starts_with(b"/") || p.split(|b| *b == b'/').any(|c| c == b"." || c == b"..")
                    });
                    return if refusable {
                        Verdict::ok(false, "iter-refused-prefix")
                    } else {
                        Verdict::fail("iter-init-error", k)
                    };
                }
            };
            if let Some(p) = prefix {
                // the oracle is the map of references below refs/: other prefixes also reach files of the git dir
                if !(b"refs/".starts_with(p) || p.starts_with(b"refs/")) {
                    return Verdict::ok(false, "prefix-outside-refs");
                }
            }
            let want: Vec<String> = oracle_all(&st)
                .iter()
                .filter(|(n, _)| prefix.map_or(true, |p| n.starts_with(p)))
                .map(|(n, v)| show_val(n, v))
                .collect();
            if got == want {
                let nontrivial = want.len() >= 2;
                return Verdict::ok(nontrivial, if mixed { format!("{}-mixed", String::from_utf8_lossy(&op)) } else { format!("{}-plain", String::from_utf8_lossy(&op)) });
            }
            let names = names_of(&got);
            let mut sorted = names.clone();
            sorted.sort_by(|a, b| unhex(a).cmp(&unhex(b)));
            let mut dedup = sorted.clone();
            dedup.dedup();
            let detail = format!("got [{}] want [{}]", got.join(" "), want.join(" "));
            let kind = if dedup.len() != names.len() {
                "duplicate"
            } else if sorted != names {
                "order"
            } else if names_of(&want) != names {
                "set"
            } else {
                "value"
            };
            Verdict::fail(format!("{}-{}", if op == b"all" { "iter" } else { "prefix" }, kind), detail)
        }
        b"find" => {
            let got = run_find(&store, &q);
            if gix_validate::reference::name_partial(q.as_slice().into()).is_err() {
                return if got == "err RefnameValidation" {
                    Verdict::ok(false, "find-invalid-name")
                } else {
                    Verdict::fail("find-accepts-invalid-name", got)
                };
            }
            if q.starts_with(b"main-worktree/") || q.starts_with(b"worktrees/") {
                // worktree-qualified names are outside of the rev-parse rules the oracle knows
                return Verdict::ok(false, "find-worktree-syntax");
            }
            let mut want = "ok none".to_string();
            let mut rule = 0;
            for (i, cand) in dwim_candidates(&q).iter().enumerate() {
                if let Some(v) = lookup(&st, cand) {
                    want = match &v {
                        Val::Broken => format!("err ReferenceCreation:{}", hexs(cand)),
                        _ => format!("ok {}", show_val(cand, &v)),
                    };
                    rule = i + 1;
                    break;
                }
            }
            if got == want {
                return Verdict::ok(rule > 0, format!("find-rule{rule}"));
            }
            let detail = format!("got [{got}] want [{want}]");
            // classification of the disagreement
            let class = if got == "err ReadFileContents" && dwim_candidates(&q).iter().any(|c| below_file(&st, c)) {
                "find-below-file-is-error"
            } else if rule == 6 {
                "find-remote-head-packed"
            } else if (rule >= 2 && (q.starts_with(b"refs/") || q.starts_with(b"main-worktree/") || q.starts_with(b"worktrees/")))
                || (rule == 2 && is_pseudo(&q))
                || (rule == 6 && (q == b"refs" || q == b"main-worktree" || q == b"worktrees"))
            {
                // inside Coq's known_fullname_fallback: the name, or its join with /HEAD, looks like a full name,
                // and the rule that hits for git is one gix-ref forms differently
                "find-fullname-fallback"
            } else {
                "find-mismatch"
            };
            Verdict::fail(class, detail)
        }
        _ => Verdict::ok(false, "?"),
    }
}

// ------------------------------------------------------------------------------------- real git

fn git_cmd(dir: &Path, args: &[&[u8]]) -> Option<(bool, Vec<u8>)> {
    let mut cmd = std::process::Command::new("/usr/bin/git");
    cmd.arg("--git-dir").arg(dir);
    for a in args {
        cmd.arg(std::ffi::OsStr::from_bytes(a));
    }
    cmd.env("GIT_CONFIG_NOSYSTEM", "1").env("GIT_CONFIG_GLOBAL", "/dev/null").env("LC_ALL", "C");
    let out = cmd.stdin(std::process::Stdio::null()).output().ok()?;
    Some((out.status.success(), out.stdout))
}

/// git's answer in the transcript format of `run ("spec" :: …)`, or `-` when git has no say
/// (no HEAD staged, symbolic refs below refs/, query that is revision syntax rather than a name).
fn git(c: &Case) -> String {
    let Some(st) = stage(c) else { return "-".into() };
    let op = f_str(c, 0).to_vec();
    let q = f_str(c, 1).to_vec();
    // without a well-formed HEAD git does not take the directory for a repository
    match st.files.get(b"HEAD".as_slice()) {
        Some(c) if matches!(parse_loose(c), Val::Sym(ref t) if t.starts_with(b"refs/")) => {}
        _ => return "-".into(),
    }
    // symbolic refs are resolved by git before it prints anything: out of scope of the comparison
    if st.files.iter().any(|(n, c)| n != b"HEAD" && c.starts_with(b"ref:")) {
        return "-".into();
    }
    // git accepts trailing white space / text after the id differently: keep to clean contents
    if st.files.iter().any(|(n, c)| n != b"HEAD" && parse_loose(c) != Val::Broken && !(c.len() == 40 || (c.len() == 41 && c[40] == b'\n'))) {
        return "-".into();
    }
    // git reads ids case-insensitively, gix-ref wants lower case: git never writes upper case, skip
    if st.files.iter().any(|(n, c)| {
        n != b"HEAD" && parse_loose(c) == Val::Broken && c.len() >= 40 && c[..40].iter().all(|b| b.is_ascii_hexdigit())
    }) {
        return "-".into();
    }
    // a packed name below a loose file or the other way round: git does not define what it shows
    let packed_names: std::collections::BTreeSet<&[u8]> = st.packed.iter().map(|(n, _, _)| n.as_slice()).collect();
    if st.packed.iter().any(|(n, _, _)| below_file(&st, n))
        || st.files.keys().any(|f| parents(f).iter().any(|p| packed_names.contains(p.as_slice())))
    {
        return "-".into();
    }
    let tmp = materialize(&st, true);
    match op.as_slice() {
        b"all" | b"pre" => {
            let mut args: Vec<&[u8]> = vec![b"for-each-ref", b"--format=%(refname) %(objectname)"];
            if op == b"pre" {
                // git's pattern is a directory prefix; only a prefix ending in `/` means the same to both
                if !q.ends_with(b"/") || q.starts_with(b"/") || q.contains(&b'*') || q.contains(&b'?') || q.contains(&b'[') || q.contains(&b'\\') {
                    return "-".into();
                }
                if q.split(|b| *b == b'/').any(|c| c == b"." || c == b"..") || q.windows(2).any(|w| w == b"//") {
                    return "-".into();
                }
                args.push(&q);
            }
            let Some((ok, out)) = git_cmd(&tmp.0, &args) else { return "-".into() };
            if !ok {
                return "-".into();
            }
            let mut items = Vec::new();
            for line in out.split(|b| *b == b'\n').filter(|l| !l.is_empty()) {
                let sp = line.iter().rposition(|b| *b == b' ').unwrap_or(0);
                items.push(format!("{}={}", hexs(&line[..sp]), String::from_utf8_lossy(&line[sp + 1..])));
            }
            format!("ok {}", items.join(" ")).trim_end().to_string()
        }
        b"find" => {
            if gix_validate::reference::name_partial(q.as_slice().into()).is_err()
                || q.contains(&b'@')
                || q.starts_with(b"-")
                || q == b"HEAD"
                || (q.len() >= 4 && q.iter().all(|b| b.is_ascii_hexdigit()))
                || q.windows(2).any(|w| w == b"-g")
            {
                return "-".into();
            }
            let Some((ok, out)) = git_cmd(&tmp.0, &[b"rev-parse", &q, b"--symbolic-full-name", &q]) else {
                return "-".into();
            };
            if !ok {
                return "ok none".into();
            }
            let lines: Vec<&[u8]> = out.split(|b| *b == b'\n').filter(|l| !l.is_empty()).collect();
            if lines.len() != 2 {
                return "-".into();
            }
            format!("ok {}={}", hexs(lines[1]), String::from_utf8_lossy(lines[0]))
        }
        _ => "-".into(),
    }
}

// ------------------------------------------------------------------------------------- generator

const OIDS: [&str; 4] = [
    "1111111111111111111111111111111111111111",
    "2222222222222222222222222222222222222222",
    "00000000000000000000000000000000000000aa",
    "ffffffffffffffffffffffffffffffffffffffff",
];

fn rec_l(name: &[u8], content: &[u8]) -> Vec<u8> {
    let mut v = vec![b'l'];
    v.extend_from_slice(name);
    v.push(0);
    v.extend_from_slice(content);
    v
}
fn rec_d(name: &[u8]) -> Vec<u8> {
    let mut v = vec![b'd'];
    v.extend_from_slice(name);
    v.push(0);
    v
}
fn rec_p(name: &[u8], oid: &str, peeled: Option<&str>) -> Vec<u8> {
    let mut v = vec![b'p'];
    v.extend_from_slice(name);
    v.push(0);
    v.extend_from_slice(oid.as_bytes());
    if let Some(p) = peeled {
        v.extend_from_slice(p.as_bytes());
    }
    v
}

/// component over an alphabet whose bytes sort below, at and above `/`
fn component(rng: &mut Rng) -> Vec<u8> {
    const ALPHA: &[u8] = b"ab-.0+,Z_";
    loop {
        let mut w = if rng.chance(1, 12) {
            rng.pick(&[&b"HEAD"[..], b"main", b"origin", b"a.lock", b"\xc3\xa4", b"a\x7fb", b"~", b"a b", b"@", b"{a"]).to_vec()
        } else {
            rng.word(ALPHA, 1, 3)
        };
        if rng.chance(1, 3) {
            // extend a short stem with a byte next to '/' — the collision this property is about
            let stem = rng.pick(&[&b"a"[..], b"b", b"a-", b"ab"]).to_vec();
            w = stem;
            if rng.chance(2, 3) {
                w.push(*rng.pick(b"-.0+,!#"));
                if rng.chance(1, 2) {
                    w.push(*rng.pick(b"ab0"));
                }
            }
        }
        if w != b"." && w != b".." {
            return w;
        }
    }
}

fn ref_name(rng: &mut Rng) -> Vec<u8> {
    let top: &[u8] = match rng.below(12) {
        0..=5 => b"refs/heads",
        6..=7 => b"refs/tags",
        8..=9 => b"refs/remotes",
        10 => b"refs",
        _ => *rng.pick(&[&b"refs/heads-x"[..], b"refs/heads.d", b"refs/notes", b"refs/tags/refs/heads", b"refs/head"]),
    };
    let depth = match rng.below(10) {
        0..=4 => 1,
        5..=7 => 2,
        _ => 3,
    };
    let mut name = top.to_vec();
    for _ in 0..depth {
        name.push(b'/');
        name.extend_from_slice(&component(rng));
    }
    name
}

fn loose_content(rng: &mut Rng, names: &[Vec<u8>]) -> Vec<u8> {
    let oid = *rng.pick(&OIDS);
    match rng.below(40) {
        0 => b"garbage\n".to_vec(),
        1 => Vec::new(),
        2 => format!("{}", &oid[..39]).into_bytes(),
        3 => format!("{oid}\r\n").into_bytes(),
        4 => oid.as_bytes().to_vec(),
        5 => {
            let mut t = b"ref: ".to_vec();
            if !names.is_empty() && rng.chance(2, 3) {
                let nm: &Vec<u8> = rng.pick(names);
                t.extend_from_slice(nm);
            } else {
                t.extend_from_slice(b"refs/heads/nowhere");
            }
            t.push(b'\n');
            t
        }
        6 => b"ref:   refs/heads/a..b\n".to_vec(),
        7 => oid.to_uppercase().into_bytes(),
        _ => format!("{oid}\n").into_bytes(),
    }
}

fn gen_store(rng: &mut Rng) -> (Vec<Vec<u8>>, Vec<Vec<u8>>) {
    // returns (records, all names used)
    let n = match rng.below(20) {
        0 => 0,
        1 => rng.range(1, 2),
        2..=13 => rng.range(3, 8),
        _ => rng.range(9, 24),
    } as usize;
    let mut names: Vec<Vec<u8>> = Vec::new();
    for _ in 0..n {
        let nm = if !names.is_empty() && rng.chance(1, 3) {
            // sibling or child of an existing name, so that directory and file names share stems
            let base = rng.pick(&names).clone();
            let cut = base.iter().rposition(|b| *b == b'/').unwrap_or(0);
            // the same short name in another namespace: lookups become ambiguous, the rule order decides
            let tops: [&[u8]; 4] = [b"refs/heads/", b"refs/tags/", b"refs/remotes/", b"refs/"];
            let top_of = tops.iter().find(|t| base.starts_with(t));
            if let (Some(t), true) = (top_of, rng.chance(1, 3)) {
                let other = tops[rng.below(4) as usize];
                let mut v = other.to_vec();
                v.extend_from_slice(&base[t.len()..]);
                if !names.contains(&v) {
                    names.push(v);
                }
                continue;
            }
            match rng.below(4) {
                0 => {
                    let mut v = base.clone();
                    v.push(*rng.pick(b"-.0+a"));
                    v
                }
                1 => {
                    let mut v = base.clone();
                    v.push(b'/');
                    v.extend_from_slice(&component(rng));
                    v
                }
                2 if cut > 5 => {
                    // the parent directory's name with a suffix: a file next to a directory
                    let mut v = base[..cut].to_vec();
                    v.push(*rng.pick(b"-.0+a"));
                    v
                }
                _ => {
                    let mut v = base[..cut].to_vec();
                    v.push(b'/');
                    v.extend_from_slice(&component(rng));
                    v
                }
            }
        } else if rng.chance(1, 10) {
            let mut v = b"refs/remotes/".to_vec();
            const WHO: [&[u8]; 5] = [b"origin", b"a", b"a-", b"Z", b"a/b"];
            v.extend_from_slice(WHO[rng.below(5) as usize]);
            v.extend_from_slice(b"/HEAD");
            v
        } else {
            ref_name(rng)
        };
        if !names.contains(&nm) {
            names.push(nm);
        }
    }
    let mut loose: Vec<(Vec<u8>, Vec<u8>)> = Vec::new();
    let mut packed: Vec<(Vec<u8>, String, Option<String>)> = Vec::new();
    let split = rng.below(5); // 0: all loose, 1: all packed, else mixed
    for nm in &names {
        let where_ = match split {
            0 => 0,
            1 => 1,
            _ => rng.below(3), // 0 loose, 1 packed, 2 both (stale packed value)
        };
        let valid_full = gix_validate::reference::name(nm.as_slice().into()).is_ok();
        if where_ != 1 || !valid_full {
            // file/directory conflicts with what is already there are left out
            let conflict = loose.iter().any(|(l, _)| {
                l == nm
                    || (l.len() > nm.len() && l.starts_with(nm) && l[nm.len()] == b'/')
                    || (nm.len() > l.len() && nm.starts_with(l) && nm[l.len()] == b'/')
            });
            if !conflict {
                let content = loose_content(rng, &names);
                loose.push((nm.clone(), content));
            }
        }
        if where_ != 0 && valid_full {
            let oid = rng.pick(&OIDS).to_string();
            let peeled = if rng.chance(1, 5) { Some(rng.pick(&OIDS).to_string()) } else { None };
            packed.push((nm.clone(), oid, peeled));
        }
    }
    packed.sort();
    let mut recs = Vec::new();
    if rng.chance(9, 10) {
        recs.push(rec_l(b"HEAD", b"ref: refs/heads/main\n"));
    }
    if rng.chance(1, 10) {
        recs.push(rec_l(b"FETCH_HEAD", format!("{}\n", OIDS[1]).as_bytes()));
    }
    if rng.chance(1, 8) {
        // an empty directory, as left behind by a deleted loose ref
        let mut d = ref_name(rng);
        if rng.chance(1, 2) {
            d = b"refs/heads/a".to_vec();
        }
        let conflict = loose.iter().any(|(l, _)| *l == d || (d.len() > l.len() && d.starts_with(l) && d[l.len()] == b'/'));
        if !conflict {
            recs.push(rec_d(&d));
        }
    }
    // loose records in random order (the file system does not care)
    while !loose.is_empty() {
        let i = rng.below(loose.len() as u64) as usize;
        let (n, c) = loose.remove(i);
        recs.push(rec_l(&n, &c));
    }
    for (n, o, p) in &packed {
        recs.push(rec_p(n, o, p.as_deref()));
    }
    (recs, names)
}

fn gen_query(rng: &mut Rng, names: &[Vec<u8>], find: bool) -> Vec<u8> {
    if names.is_empty() || rng.chance(1, 25) {
        return if find {
            rng.pick(&[&b"main"[..], b"HEAD", b"a", b"origin", b"refs/heads/a", b"a..b", b"FETCH_HEAD", b"heads/a"]).to_vec()
        } else {
            rng.pick(&[&b"refs/"[..], b"refs/heads/", b"refs/heads", b"refs/h", b"refs", b"/abs", b"refs/../x", b"refs/heads/a", b"refs/heads/a-"]).to_vec()
        };
    }
    let nm = rng.pick(names).clone();
    if find {
        // strip 0..3 leading components; sometimes ask for the directory part or append HEAD's parent
        let comps: Vec<&[u8]> = nm.split(|b| *b == b'/').collect();
        let skip = match rng.below(8) {
            0 => 0,
            1 => 1,
            _ => 2.min(comps.len() - 1),
        };
        let mut take = comps.len();
        if rng.chance(1, 6) && take > skip + 1 {
            take -= 1;
        }
        if nm.starts_with(b"refs/remotes/") && nm.ends_with(b"/HEAD") && nm.len() > 18 && rng.chance(3, 4) {
            return nm[b"refs/remotes/".len()..nm.len() - 5].to_vec();
        }
        let mut q = comps[skip..take].join(&b'/');
        if rng.chance(1, 30) {
            q.extend_from_slice(b"/x");
        }
        if q.is_empty() {
            q = b"a".to_vec();
        }
        if gix_validate::reference::name_partial(q.as_slice().into()).is_err() && rng.chance(3, 4) {
            return gen_query(rng, names, find);
        }
        q
    } else {
        // a prefix of a name: cut at a random byte, biased to component boundaries
        let cuts: Vec<usize> = nm.iter().enumerate().filter(|(_, b)| **b == b'/').map(|(i, _)| i).collect();
        // mostly shallow cuts, so that several references share the prefix
        let shallow = &cuts[..cuts.len().min(2)];
        match rng.below(8) {
            0 => nm[..rng.range(1, nm.len() as i64) as usize].to_vec(),
            1 => nm[..*rng.pick(&cuts)].to_vec(),
            2 => nm[..*rng.pick(&cuts) + 1].to_vec(),
            3 | 4 => nm[..*rng.pick(shallow)].to_vec(),
            5 | 6 => nm[..*rng.pick(shallow) + 1].to_vec(),
            _ => nm.clone(),
        }
    }
}

fn boundary(out: &mut Vec<Case>) {
    let (a, b) = (OIDS[0], OIDS[1]);
    let la = format!("{a}\n");
    let head = rec_l(b"HEAD", b"ref: refs/heads/main\n");
    // the witness of the ordering defect: `a-b` next to directory `a`, stale packed `a-b`
    for op in ["all", "pre"] {
        let q: &[u8] = if op == "all" { b"" } else { b"refs/heads/" };
        out.push(vec![tag(op), q.to_vec(), head.clone(), rec_l(b"refs/heads/a-b", la.as_bytes()), rec_l(b"refs/heads/a/c", la.as_bytes()), rec_p(b"refs/heads/a-b", b, None)]);
        out.push(vec![tag(op), q.to_vec(), head.clone(), rec_l(b"refs/heads/a-b", la.as_bytes()), rec_l(b"refs/heads/a/c", la.as_bytes())]);
        // every byte that may follow the stem `a` in a valid name, next to the directory `a`
        for x in [b'!', b'#', b'+', b',', b'-', b'.', b'0', b'9', b'A', b'a', 0x80u8, 0xff] {
            let mut f = b"refs/heads/a".to_vec();
            f.push(x);
            if x == b'.' {
                f.push(b'x');
            }
            out.push(vec![tag(op), q.to_vec(), head.clone(), rec_l(&f, la.as_bytes()), rec_l(b"refs/heads/a/c", la.as_bytes()), rec_p(&f, b, None), rec_p(b"refs/heads/a/c", b, Some(a))]);
        }
        out.push(vec![tag(op), q.to_vec()]);
        out.push(vec![tag(op), q.to_vec(), head.clone()]);
        out.push(vec![tag(op), q.to_vec(), head.clone(), rec_p(b"refs/heads/main", a, None)]);
        out.push(vec![tag(op), q.to_vec(), head.clone(), rec_l(b"refs/heads/main", la.as_bytes())]);
    }
    for q in [&b"main"[..], b"heads/main", b"refs/heads/main", b"HEAD", b"origin", b"origin/main", b"t", b"tags/t", b"x", b"a..b", b"", b"refs/heads/a/c/d"] {
        out.push(vec![
            tag("find"),
            q.to_vec(),
            head.clone(),
            rec_l(b"refs/heads/main", la.as_bytes()),
            rec_l(b"refs/remotes/origin/HEAD", b"ref: refs/remotes/origin/main\n"),
            rec_l(b"refs/heads/a/c", la.as_bytes()),
            rec_p(b"refs/heads/main", b, None),
            rec_p(b"refs/remotes/origin/main", b, None),
            rec_p(b"refs/tags/main", b, Some(a)),
            rec_p(b"refs/tags/t", b, Some(a)),
        ]);
    }
}

fn gen(rng: &mut Rng, n: usize) -> Vec<Case> {
    let mut out = Vec::new();
    boundary(&mut out);
    while out.len() < n {
        let (recs, names) = gen_store(rng);
        let (op, q) = match rng.below(10) {
            0..=3 => ("all", Vec::new()),
            4..=6 => ("pre", gen_query(rng, &names, false)),
            _ => ("find", gen_query(rng, &names, true)),
        };
        let mut c = vec![tag(op), q];
        c.extend(recs);
        // malformed stream: damage a record now and then
        if rng.chance(1, 60) && c.len() > 2 {
            let i = 2 + rng.below((c.len() - 2) as u64) as usize;
            let j = rng.below(c[i].len() as u64) as usize;
            c[i][j] = rng.next() as u8;
        }
        out.push(c);
    }
    out.truncate(n.max(1));
    out
}

fn main() {
    main_with(Harness { gen, imp, prop, git: Some(git), deadline: std::time::Duration::from_secs(120) });
}
