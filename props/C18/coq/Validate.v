(* C18 — Validate.v: model of gix-validate reference name validation, copied verbatim from
   props/C15/coq/Model.v (C15 owns the proofs about it; here it is only executed: loose file names
   are filtered through [ref_name_partial], symbolic targets and packed names through [ref_name]).
   Sources: gix-validate/src/tag.rs (name_inner), gix-validate/src/reference.rs. *)
From GixV.Base Require Import Bytes Outcome.
Local Open Scope outcome_scope.

Inductive terr :=
| InvalidByte | StartsWithSlash | RepeatedSlash | RepeatedDot | LockFileSuffix | ReflogPortion
| Asterisk | StartsWithDot | EndsWithDot | EndsWithSlash | Empty.
Inductive rerr := Tag (e : terr) | SomeLowercase.

Definition dot : byte := x2e.
Definition slash : byte := x2f.
Definition at_ : byte := x40.
Definition lbrace : byte := x7b.
Definition star : byte := x2a.
Definition dash : byte := x2d.
Definition underscore : byte := x5f.
Definition dot_lock : bytes := [x2e; x6c; x6f; x63; x6b].          (* ".lock" *)

(* b'\\' | b'^' | b':' | b'[' | b'?' | b' ' | b'~' | b'\0'..=b'\x1F' | b'\x7F' *)
Definition is_invalid_byte (b : byte) : bool :=
  let n := b2N b in
  N.leb n 31 || N.eqb n 127 || N.eqb n 92 || N.eqb n 94 || N.eqb n 58 || N.eqb n 91
  || N.eqb n 63 || N.eqb n 32 || N.eqb n 126.

Definition is_ascii_uppercase (b : byte) : bool := N.leb 65 (b2N b) && N.leb (b2N b) 90.

(* input[a..b] and input[a..] with Rust's bounds panics *)
Definition slice {E} (s : bytes) (a b : nat) : outcome bytes E :=
  if Nat.leb a b && Nat.leb b (length s) then Ok (firstn (b - a) (skipn a s)) else Panic.
Definition slice_from {E} (s : bytes) (a : nat) : outcome bytes E :=
  if Nat.leb a (length s) then Ok (skipn a s) else Panic.
Definition index {E} (s : bytes) (i : nat) : outcome byte E :=
  match nth_error s i with Some b => Ok b | None => Panic end.
(* usize subtraction: panics on underflow (debug build; the harness builds with overflow checks) *)
Definition usize_sub {E} (a b : nat) : outcome nat E :=
  if Nat.leb b a then Ok (a - b) else Panic.

Definition ends_with (s suf : bytes) : bool :=
  Nat.leb (length suf) (length s) && bytes_eqb (skipn (length s - length suf) s) suf.

(* on the reversed buffer: does out end with ".lock" ? *)
Definition rlock (r : bytes) : bool :=
  match r with
  | k :: c :: o :: l :: d :: _ =>
      beqb k x6b && beqb c x63 && beqb o x6f && beqb l x6c && beqb d x2e
  | _ => false
  end.

(* while out.ends_with(b".lock") { out.truncate(out.len() - 5) } *)
Fixpoint strip_lock (r : bytes) : bytes :=
  match r with
  | k :: (c :: (o :: (l :: (d :: r')))) =>
      if beqb k x6b && beqb c x63 && beqb o x6f && beqb l x6c && beqb d x2e then strip_lock r' else r
  | _ => r
  end.

(* while x.first()/last() == Some(&b'/') { remove it } — on whichever end is the list head *)
Fixpoint drop_slashes (l : bytes) : bytes :=
  match l with
  | b :: l' => if beqb b slash then drop_slashes l' else l
  | [] => []
  end.

Definition set_first (l : bytes) (b : byte) : bytes := match l with [] => [] | _ :: r => b :: r end.
Definition set_last (l : bytes) (b : byte) : bytes := rev (set_first (rev l) b).

(* the [for (byte_pos, byte) in input.iter().enumerate()] loop of name_inner.
   san = true: Mode::Sanitize (out is Some, here rout); san = false: Mode::Validate (out is None). *)
Fixpoint loop (san : bool) (input : bytes) (lastp : nat) (rest : bytes) (pos : nat)
              (rout : bytes) (prev : byte) (cend : nat) : outcome bytes terr :=
  match rest with
  | [] => Ok rout
  | b :: rest' =>
      let continue (rout' : bytes) (cend' : nat) := loop san input lastp rest' (S pos) rout' b cend' in
      if is_invalid_byte b then (if san then continue (dash :: rout) cend else Err InvalidByte)
      else if beqb b star then (if san then continue (dash :: rout) cend else Err Asterisk)
      else if beqb b dot && beqb prev dot then (if san then continue rout cend else Err RepeatedDot)
      else if beqb b dot && beqb prev slash then (if san then continue (dash :: rout) cend else Err StartsWithDot)
      else if beqb b lbrace && beqb prev at_ then (if san then continue (dash :: rout) cend else Err ReflogPortion)
      else if beqb b slash && beqb prev slash then (if san then continue rout cend else Err RepeatedSlash)
      else
        st <- (if beqb b slash then
                 (* component_start = component_end; component_end = byte_pos *)
                 comp <- slice input cend pos ;;
                 if ends_with comp dot_lock
                 then (if san then Ok (strip_lock rout, pos) else Err LockFileSuffix)
                 else Ok (rout, pos)
               else Ok (rout, cend)) ;;
        let rout1 := fst st in
        let cend1 := snd st in
        let rout2 := if san then b :: rout1 else rout1 in
        rout3 <- (if Nat.eqb pos lastp then
                    tl <- slice_from input (S cend1) ;;
                    if ends_with tl dot_lock
                    then (if san then Ok (strip_lock rout2) else Err LockFileSuffix)
                    else Ok rout2
                  else Ok rout2) ;;
        continue rout3 cend1
  end.

(* the code after the loop *)
Definition finish (san : bool) (input rout : bytes) : outcome (option bytes) terr :=
  if san then
    let out := rev (drop_slashes rout) in          (* while out.last() == Some(&b'/') { out.pop(); } *)
    let out := drop_slashes out in                 (* while out.first() == Some(&b'/') { out.remove(0); } *)
    let out := match out with [] => [dash] | _ => out end in     (* if out.is_empty() { out.push(b'-'); } *)
    b0 <- index out 0 ;;
    let out := if beqb b0 dot then set_first out dash else out in
    lastp <- usize_sub (length out) 1 ;;
    bl <- index out lastp ;;
    let out := if beqb bl dot then set_last out dash else out in
    Ok (Some out)
  else
    b0 <- index input 0 ;;
    if beqb b0 dot then Err StartsWithDot
    else
      lastp <- usize_sub (length input) 1 ;;
      bl <- index input lastp ;;
      if beqb bl dot then Err EndsWithDot else Ok None.

(* tag::name_inner(input, mode) *)
Definition name_inner (input : bytes) (san : bool) : outcome (option bytes) terr :=
  match input with
  | [] => if san then Ok (Some [dash]) else Err Empty
  | _ =>
      if beqb (last input x00) slash && negb san then Err EndsWithSlash
      else if beqb (hd x00 input) slash && negb san then Err StartsWithSlash
      else
        rout <- loop san input (length input - 1) input 0 [] x00 0 ;;
        finish san input rout
  end.

(* tag::name *)
Definition tag_name (input : bytes) : outcome bytes terr :=
  r <- name_inner input false ;;
  match r with None => Ok input | Some _ => Panic end.

Inductive rmode := Complete | Partial | PartialSanitize.

(* reference::validate(path, mode) *)
Definition validate (path : bytes) (mode : rmode) : outcome (option bytes) rerr :=
  match name_inner path (match mode with PartialSanitize => true | _ => false end) with
  | Err e => Err (Tag e)
  | Panic => Panic
  | OutOfFuel => OutOfFuel
  | Ok out =>
      match mode with
      | Complete =>
          let input := match out with Some b => b | None => path end in
          let saw_slash := existsb (beqb slash) input in
          if negb saw_slash && negb (forallb (fun c => is_ascii_uppercase c || beqb c underscore) input)
          then Err SomeLowercase else Ok out
      | _ => Ok out
      end
  end.

(* reference::name, reference::name_partial *)
Definition ref_name (path : bytes) : outcome bytes rerr :=
  r <- validate path Complete ;;
  match r with None => Ok path | Some _ => Panic end.
Definition ref_name_partial (path : bytes) : outcome bytes rerr :=
  r <- validate path Partial ;;
  match r with None => Ok path | Some _ => Panic end.
(* reference::name_partial_or_sanitize: .expect(..).expect(..) *)
Definition ref_sanitize (path : bytes) : outcome bytes rerr :=
  match validate path PartialSanitize with
  | Ok (Some b) => Ok b
  | Ok None => Panic
  | Err _ => Panic
  | Panic => Panic
  | OutOfFuel => OutOfFuel
  end.

(* gix_ref::PartialName::join(self, component): self ++ "/" ++ component, validated as partial *)
Definition partial_join (base comp : bytes) : outcome bytes rerr :=
  ref_name_partial (base ++ slash :: comp).
