(* C18 — transcript printer and case staging (mirrors harness/src/main.rs: stage, imp, git). *)
From GixV.Base Require Import Bytes Outcome.
From GixV.C18 Require Import Validate Model Spec.

Definition show_target (t : target) : bytes :=
  match t with Object h => h | Symbolic n => bs "@" ++ hex_encode n end.
Definition show_ref (r : reference) : bytes :=
  hex_encode (rname r) ++ bs "=" ++ show_target (rtarget r)
  ++ match rpeeled r with Some p => bs "^" ++ p | None => [] end.
Definition show_item (i : item) : bytes :=
  match i with
  | inl r => show_ref r
  | inr (ReferenceCreation p) => bs "!ReferenceCreation:" ++ hex_encode p
  end.
Definition show_items (l : list item) : bytes :=
  match l with [] => bs "ok" | _ => bs "ok " ++ join_sp (map show_item l) end.

(* git's transcript: broken loose refs are left out, peeled values are not shown *)
Definition show_item_git (i : item) : list bytes :=
  match i with
  | inl r => [hex_encode (rname r) ++ bs "=" ++ show_target (rtarget r)]
  | inr _ => []
  end.
Definition show_items_git (l : list item) : bytes :=
  match flat_map show_item_git l with [] => bs "ok" | x => bs "ok " ++ join_sp x end.

(* ---- staging ---------------------------------------------------------------------------- *)

Inductive rec := RLoose (name content : bytes) | RDir (name : bytes) | RPacked (r : prec).

Fixpoint split_nul (s acc_rev : bytes) : option (bytes * bytes) :=
  match s with
  | [] => None
  | b :: s' => if beqb b x00 then Some (rev acc_rev, s') else split_nul s' (b :: acc_rev)
  end.

Definition is_hex40 (h : bytes) : bool := Nat.eqb (length h) 40 && forallb is_hex_lc h.

Definition parse_rec (f : bytes) : option rec :=
  match f with
  | [] => None
  | k :: rest =>
      match split_nul rest [] with
      | None => None
      | Some (name, payload) =>
          if beqb k x6c then Some (RLoose name payload)
          else if beqb k x64 then (if is_nil payload then Some (RDir name) else None)
          else if beqb k x70 then
            if is_hex40 payload then Some (RPacked (name, (payload, None)))
            else if Nat.eqb (length payload) 80 && is_hex40 (firstn 40 payload) && is_hex40 (skipn 40 payload)
            then Some (RPacked (name, (firstn 40 payload, Some (skipn 40 payload))))
            else None
          else None
      end
  end.

Definition comp_ok (c : bytes) : bool :=
  negb (is_nil c) && negb (bytes_eqb c (bs ".")) && negb (bytes_eqb c (bs "..")) && Nat.leb (length c) 200.
Definition path_ok (name : bytes) : bool :=
  negb (is_nil name) && forallb comp_ok (split_slash name) && Nat.leb (length name) 1000.

(* proper parent directories of a path given by its components *)
Fixpoint parents_aux (pre : list bytes) (cs : list bytes) : list bytes :=
  match cs with
  | [] => []
  | [_] => []
  | c :: cs' => join (pre ++ [c]) :: parents_aux (pre ++ [c]) cs'
  end.
Definition parents (name : bytes) : list bytes := parents_aux [] (split_slash name).

Definition mem (x : bytes) (l : list bytes) : bool := existsb (bytes_eqb x) l.

Record staged := { sfiles : list file; sdirs : list bytes; spacked : list prec }.

Fixpoint stage_recs (fs : list bytes) (files : list file) (dirs : list bytes) (packed_rev : list prec)
  : option staged :=
  match fs with
  | [] => Some {| sfiles := rev files; sdirs := dirs; spacked := rev packed_rev |}
  | f :: fs' =>
      match parse_rec f with
      | None => None
      | Some (RLoose name content) =>
          let fnames := map fname files in
          if path_ok name && negb (bytes_eqb name (bs "packed-refs")) && negb (mem name fnames)
             && negb (mem name dirs) && negb (existsb (fun p => mem p fnames) (parents name))
          then stage_recs fs' ((split_slash name, content) :: files) (parents name ++ dirs) packed_rev
          else None
      | Some (RDir name) =>
          let fnames := map fname files in
          if path_ok name && negb (bytes_eqb name (bs "packed-refs")) && negb (mem name fnames)
             && negb (existsb (fun p => mem p fnames) (parents name))
          then stage_recs fs' files (name :: parents name ++ dirs) packed_rev
          else None
      | Some (RPacked r) =>
          if (match ref_name (fst r) with Ok _ => true | _ => false end)
             && (match packed_rev with
                 | [] => true
                 | l :: _ => match bytes_cmp (fst l) (fst r) with Lt => true | _ => false end
                 end)
          then stage_recs fs' files dirs (r :: packed_rev)
          else None
      end
  end.

Fixpoint has_double_slash (s : bytes) : bool :=
  match s with
  | a :: ((b :: _) as s') => (beqb a slash && beqb b slash) || has_double_slash s'
  | _ => false
  end.
Definition prefix_ok (q : bytes) : bool :=
  negb (is_nil q) && negb (has_double_slash q)
  && negb (existsb (bytes_eqb (bs ".")) (tl (split_slash q))).

Definition stage (fs : list bytes) : option staged :=
  let op := nth_field 0 fs in
  if bytes_eqb op (bs "pre") && negb (prefix_ok (nth_field 1 fs)) then None
  else stage_recs (skipn 2 fs) [] [] [].

(* what is on disk: the staged files plus the packed-refs file itself *)
Definition disk_files (st : staged) : list file :=
  match spacked st with
  | [] => sfiles st
  | _ => sfiles st ++ [([bs "packed-refs"], bs "# pack-refs with: peeled fully-peeled sorted ")]
  end.
Definition packed_opt (st : staged) : option (list prec) :=
  match spacked st with [] => None | p => Some p end.

Definition show_find (o : outcome (option reference) find_err) : bytes :=
  match o with
  | Ok None => bs "ok none"
  | Ok (Some r) => bs "ok " ++ show_ref r
  | Err RefnameValidation => bs "err RefnameValidation"
  | Err ReadFileContents => bs "err ReadFileContents"
  | Err (FindReferenceCreation p) => bs "err ReferenceCreation:" ++ hex_encode p
  | Panic => bs "PANIC"
  | OutOfFuel => bs "HANG"
  end.

Definition run_model (fs : list bytes) : bytes :=
  match stage fs with
  | None => bs "skip"
  | Some st =>
      let op := nth_field 0 fs in
      let q := nth_field 1 fs in
      if bytes_eqb op (bs "all") then show_items (iter_all (disk_files st) (packed_opt st))
      else if bytes_eqb op (bs "pre") then
        match iter_prefixed (disk_files st) (packed_opt st) q with
        | Ok l => show_items l
        | Err Init => bs "err Init"
        | Panic => bs "PANIC"
        | OutOfFuel => bs "HANG"
        end
      else if bytes_eqb op (bs "find") then show_find (find (disk_files st) (sdirs st) (packed_opt st) q)
      else bs "?"
  end.

(* git's side: for-each-ref [prefix/], rev-parse <name> --symbolic-full-name <name> *)
Definition run_spec (fs : list bytes) : bytes :=
  match stage fs with
  | None => bs "-"
  | Some st =>
      let op := nth_field 0 fs in
      let q := nth_field 1 fs in
      if bytes_eqb op (bs "all") then show_items_git (spec_all (sfiles st) (spacked st))
      else if bytes_eqb op (bs "pre") then show_items_git (spec_prefixed (sfiles st) (spacked st) q)
      else if bytes_eqb op (bs "find") then
        match spec_dwim (sfiles st) (spacked st) q with
        | Some r => bs "ok " ++ hex_encode (rname r) ++ bs "=" ++ show_target (rtarget r)
        | None => bs "ok none"
        end
      else bs "?"
  end.

Definition run (fs : list bytes) : bytes :=
  match fs with
  | mode :: rest => if bytes_eqb mode (bs "spec") then run_spec rest else run_model rest
  | [] => bs "?"
  end.
