(* C18 — the packed side of prefixed(): on a strictly sorted packed-refs, "binary search to the first
   record not below the prefix, then take while the prefix matches" is the prefix filter. *)
From Coq Require Import List Sorted Lia ZArith Bool.
From GixV.Base Require Import Bytes BytesFacts Outcome.
From GixV.C18 Require Import Validate Model ProofsOrder.
Import ListNotations.

Lemma beqb_b2N a b : beqb a b = true -> N.compare (b2N a) (b2N b) = Eq.
Proof. intros H. apply beqb_eq in H. subst. apply N.compare_refl. Qed.

Lemma beqb_false_b2N a b : beqb a b = false -> N.compare (b2N a) (b2N b) <> Eq.
Proof.
  intros H E. apply N.compare_eq_iff in E. apply b2N_inj in E. subst.
  assert (T : beqb b b = true) by (apply beqb_eq; reflexivity). congruence.
Qed.

(* a name that has the prefix is not below it *)
Lemma prefixed_not_below : forall p s, starts_with s p = true -> bytes_cmp s p <> Lt.
Proof.
  induction p as [|c p IH]; intros [|x s] H; cbn [starts_with bytes_cmp] in *; try discriminate.
  apply andb_true_iff in H. destruct H as [H1 H2]. apply beqb_b2N in H1.
  rewrite N.compare_antisym, H1. cbn [CompOpp]. apply IH, H2.
Qed.

(* names with the prefix form an interval: above a name that is >= p and lacks the prefix, nothing has it *)
Lemma prefix_interval : forall p a b,
  bytes_cmp a p <> Lt -> starts_with a p = false -> blt a b -> starts_with b p = false.
Proof.
  unfold blt. induction p as [|c p IH]; intros a b Hge Hnp Hlt; [destruct a; discriminate|].
  destruct a as [|x a]; [cbn in Hge; congruence|].
  destruct b as [|y b]; [reflexivity|].
  cbn [starts_with bytes_cmp] in *.
  destruct (beqb c y) eqn:Ecy; [|reflexivity]. cbn [andb].
  apply beqb_eq in Ecy. subst y.
  destruct (N.compare (b2N x) (b2N c)) eqn:Exc.
  - (* x = c *) apply N.compare_eq_iff in Exc. apply b2N_inj in Exc. subst x.
    assert (T : beqb c c = true) by (apply beqb_eq; reflexivity). rewrite T in Hnp. cbn [andb] in Hnp.
    apply (IH a b); assumption.
  - congruence.
  - discriminate.
Qed.

Definition pref (p : bytes) (r : prec) : bool := starts_with (fst r) p.

Lemma filter_none_above p a l :
  bytes_cmp (fst a) p <> Lt -> pref p a = false ->
  Forall (fun b => blt (fst a) (fst b)) l -> filter (pref p) l = [].
Proof.
  intros Hge Hnp Hall. induction l as [|b l IH]; [reflexivity|].
  inversion Hall; subst. cbn [filter]. unfold pref at 1.
  rewrite (prefix_interval p (fst a) (fst b) Hge Hnp H1). apply IH. assumption.
Qed.

Lemma take_is_filter p : forall l, StronglySorted (klt fst) l ->
  Forall (fun r => bytes_cmp (fst r) p <> Lt) l -> take_prefixed p l = filter (pref p) l.
Proof.
  induction l as [|r l IH]; intros HS Hge; [reflexivity|].
  inversion HS as [|? ? HS' Hall]; subst. inversion Hge as [|? ? Hr Hge']; subst.
  cbn [take_prefixed filter]. unfold pref at 1. destruct (starts_with (fst r) p) eqn:E.
  - f_equal. apply IH; assumption.
  - symmetry. apply (filter_none_above p r); assumption.
Qed.

Lemma drop_below_spec p : forall l, StronglySorted (klt fst) l ->
  filter (pref p) (drop_below p l) = filter (pref p) l /\
  StronglySorted (klt fst) (drop_below p l) /\
  Forall (fun r => bytes_cmp (fst r) p <> Lt) (drop_below p l).
Proof.
  induction l as [|r l IH]; intros HS; [repeat split; constructor|].
  inversion HS as [|? ? HS' Hall]; subst. cbn [drop_below].
  destruct (bytes_cmp (fst r) p) eqn:E.
  - repeat split; [exact HS|]. constructor; [congruence|].
    rewrite Forall_forall in *. intros b Hb Hlt. specialize (Hall b Hb). unfold klt in Hall.
    apply bytes_cmp_eq_iff in E. rewrite E in Hall. pose proof (blt_trans _ _ _ Hall Hlt) as C. exact (blt_irrefl _ C).
  - destruct (IH HS') as [F [S G]]. repeat split; [|exact S|exact G].
    rewrite F. cbn [filter]. unfold pref at 2. destruct (starts_with (fst r) p) eqn:P; [|reflexivity].
    apply prefixed_not_below in P. congruence.
  - repeat split; [exact HS|]. constructor; [congruence|].
    rewrite Forall_forall in *. intros b Hb Hlt. specialize (Hall b Hb). unfold klt in Hall.
    pose proof (blt_trans _ _ _ Hall Hlt) as C. unfold blt in C. congruence.
Qed.

Lemma L_packed_prefixed_is_filter p packed : StronglySorted (klt fst) packed ->
  packed_iter (Some p) packed = filter (fun r => starts_with (fst r) p) packed.
Proof.
  intros HS. unfold packed_iter. destruct (drop_below_spec p packed HS) as [F [S G]].
  rewrite (take_is_filter p _ S G). exact F.
Qed.
