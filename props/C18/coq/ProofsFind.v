(* C18 — lookup: for short names that do not look like full names, try_find follows git's
   ref_rev_parse_rules; the class of names where it does not is exhibited. *)
From Coq Require Import List Lia ZArith Bool.
From GixV.Base Require Import Bytes BytesFacts Outcome.
From GixV.C18 Require Import Validate Model Spec.
Import ListNotations.
Local Open Scope outcome_scope.

Lemma cat_refs rest :
  match category_and_short_name (bs "refs/" ++ rest) with
  | Some (c, _) =>
      match c with
      | CMainRef | CMainPseudoRef | CLinkedRef | CLinkedPseudoRef | CPseudoRef => False
      | _ => True
      end
  | None => True
  end.
Proof.
  unfold category_and_short_name.
  destruct (strip_prefix (bs "refs/tags/") _); [exact I|].
  destruct (strip_prefix (bs "refs/heads/") _); [exact I|].
  destruct (strip_prefix (bs "refs/remotes/") _); [exact I|].
  destruct (starts_with _ (bs "refs/notes/")); [exact I|].
  destruct (starts_with _ (bs "refs/bisect/")); [exact I|].
  destruct (starts_with _ (bs "refs/worktree/")); [exact I|].
  destruct (starts_with _ (bs "refs/rewritten/")); [exact I|].
  replace (is_pseudo_ref (bs "refs/" ++ rest)) with false by (vm_compute; reflexivity).
  replace (strip_prefix (bs "main-worktree/") (bs "refs/" ++ rest)) with (@None bytes) by (vm_compute; reflexivity).
  replace (strip_prefix (bs "worktrees/") (bs "refs/" ++ rest)) with (@None bytes) by (vm_compute; reflexivity).
  exact I.
Qed.

Lemma rel_refs rest : relative_name (bs "refs/" ++ rest) = bs "refs/" ++ rest.
Proof.
  unfold relative_name. pose proof (cat_refs rest) as H.
  destruct (category_and_short_name (bs "refs/" ++ rest)) as [[c sn]|]; [|reflexivity].
  destruct c; try reflexivity; contradiction.
Qed.

Lemma transform_refs rest :
  transform_full_name_for_lookup (bs "refs/" ++ rest) = Some (bs "refs/" ++ rest)
  \/ transform_full_name_for_lookup (bs "refs/" ++ rest) = None.
Proof.
  unfold transform_full_name_for_lookup. pose proof (cat_refs rest) as H.
  destruct (category_and_short_name (bs "refs/" ++ rest)) as [[c sn]|]; [|left; reflexivity].
  destruct c; try (left; reflexivity); try (right; reflexivity); contradiction.
Qed.

(* packed names are what git packs: the lookup name of a packed reference is its own name *)
Definition packed_ok (packed : list prec) : Prop :=
  forall r, In r packed -> transform_full_name_for_lookup (fst r) = Some (fst r).

Lemma packed_find_some packed n r : packed_find packed n = Some r -> In r packed /\ fst r = n.
Proof.
  induction packed as [|x l IH]; cbn [packed_find]; [discriminate|].
  destruct (bytes_eqb (fst x) n) eqn:E.
  - intros H. inversion H; subst. apply bytes_eqb_eq in E. split; [left; reflexivity|exact E].
  - intros H. apply IH in H. destruct H. split; [right; assumption|assumption].
Qed.

(* one lookup rule of gix-ref applied to a name below refs/ *)
Definition gix_rule (files : list file) (packed : list prec) (full : bytes) : outcome (option reference) find_err :=
  match lookup_file files full with
  | Some c =>
      match parse_loose c with
      | Some t => Ok (Some {| rname := full; rtarget := t; rpeeled := None |})
      | None => Err (FindReferenceCreation full)
      end
  | None => Ok (option_map reference_of_packed (packed_find packed full))
  end.

Lemma find_inner_refs files dirs packed inb name c :
  packed_ok packed -> looks_like_full_name name c = false ->
  find_inner files dirs inb name (Some packed) c
  = gix_rule files packed (bs "refs/" ++ (match inb with [] => [] | _ :: _ => inb ++ [slash] end) ++ name).
Proof.
  intros Hp Hl. unfold find_inner, gix_rule, construct_full_name. rewrite Hl.
  set (rest := (match inb with [] => [] | _ :: _ => inb ++ [slash] end) ++ name).
  rewrite rel_refs. unfold fs_open.
  destruct (lookup_file files (bs "refs/" ++ rest)) as [cnt|]; [reflexivity|].
  assert (E : match transform_full_name_for_lookup (bs "refs/" ++ rest) with
              | Some n => Ok (option_map reference_of_packed (packed_find packed n))
              | None => Ok None
              end = (Ok (option_map reference_of_packed (packed_find packed (bs "refs/" ++ rest)))
                     : outcome (option reference) find_err)).
  { destruct (transform_refs rest) as [-> | E]; [reflexivity|]. rewrite E.
    destruct (packed_find packed (bs "refs/" ++ rest)) as [r|] eqn:F; [|reflexivity].
    apply packed_find_some in F. destruct F as [Hin Hn]. apply Hp in Hin. rewrite Hn in Hin. congruence. }
  destruct (existsb _ dirs); [exact E|]. destruct (existsb _ files); exact E.
Qed.

(* git's rule on the same name, when the loose file (if any) parses *)
Lemma gix_rule_spec files packed full :
  (forall f, In f files -> parse_loose (snd f) <> None) ->
  gix_rule files packed full = Ok (resolve_good files packed full).
Proof.
  intros Hparse. unfold gix_rule, resolve_good, resolve_one.
  destruct (lookup_file files full) as [c|] eqn:L.
  - assert (Hc : parse_loose c <> None).
    { clear -L Hparse. induction files as [|f l IH]; cbn [lookup_file] in L; [discriminate|].
      destruct (bytes_eqb (fname f) full).
      - inversion L; subst. apply Hparse. left. reflexivity.
      - apply IH; [|exact L]. intros g Hg. apply Hparse. right. exact Hg. }
    destruct (parse_loose c); [reflexivity|congruence].
  - destruct (packed_find packed full) as [r|]; reflexivity.
Qed.

(* the names for which gix-ref's rules are not git's: the known class find-fullname-fallback *)
Definition known_fullname_fallback (name : bytes) : bool :=
  looks_like_full_name name true || looks_like_full_name (name ++ slash :: bs "HEAD") false.

Lemma L_dwim_short_names files dirs packed name :
  (exists n', ref_name_partial name = Ok n') ->
  (exists n', ref_name_partial (name ++ slash :: bs "HEAD") = Ok n') ->
  known_fullname_fallback name = false ->
  resolve_good files packed name = None ->
  (forall f, In f files -> parse_loose (snd f) <> None) ->
  packed_ok packed ->
  find files dirs (Some packed) name = Ok (spec_dwim files packed name).
Proof.
  intros [n1 Hv] [n2 Hj] Hk Hroot Hparse Hp.
  unfold known_fullname_fallback in Hk. apply orb_false_iff in Hk. destruct Hk as [Hl Hjl].
  assert (Hl' : looks_like_full_name name false = false).
  { unfold looks_like_full_name in *.
    apply orb_false_iff in Hl. destruct Hl as [Hl _]. rewrite Hl. reflexivity. }
  assert (Hne : bytes_eqb name (bs "HEAD") = false).
  { destruct (bytes_eqb name (bs "HEAD")) eqn:E; [|reflexivity].
    apply bytes_eqb_eq in E. subst name. vm_compute in Hl. discriminate. }
  unfold find. rewrite Hv. unfold rules. cbn [try_rules].
  rewrite (find_inner_refs files dirs packed [] name true Hp Hl).
  rewrite !(find_inner_refs files dirs packed _ name false Hp Hl').
  rewrite !gix_rule_spec by exact Hparse.
  change (bs "refs/" ++ [] ++ name) with (bs "refs/" ++ name).
  change (bs "refs/" ++ match bs "tags" with [] => [] | _ :: _ => bs "tags" ++ [slash] end ++ name)
    with (bs "refs/tags/" ++ name).
  change (bs "refs/" ++ match bs "heads" with [] => [] | _ :: _ => bs "heads" ++ [slash] end ++ name)
    with (bs "refs/heads/" ++ name).
  change (bs "refs/" ++ match bs "remotes" with [] => [] | _ :: _ => bs "remotes" ++ [slash] end ++ name)
    with (bs "refs/remotes/" ++ name).
  unfold spec_dwim, rev_parse_candidates. cbn [first_some]. rewrite Hroot.
  cbn [obind].
  destruct (resolve_good files packed (bs "refs/" ++ name)); [reflexivity|]. cbn [obind].
  destruct (resolve_good files packed (bs "refs/tags/" ++ name)); [reflexivity|]. cbn [obind].
  destruct (resolve_good files packed (bs "refs/heads/" ++ name)); [reflexivity|]. cbn [obind].
  destruct (resolve_good files packed (bs "refs/remotes/" ++ name)); [reflexivity|]. cbn [obind].
  rewrite Hne, Hj.
  rewrite (find_inner_refs files dirs packed _ _ false Hp Hjl).
  rewrite gix_rule_spec by exact Hparse.
  change (bs "refs/" ++ match bs "remotes" with [] => [] | _ :: _ => bs "remotes" ++ [slash] end ++ name ++ slash :: bs "HEAD")
    with (bs "refs/remotes/" ++ name ++ bs "/HEAD").
  destruct (resolve_good files packed (bs "refs/remotes/" ++ name ++ bs "/HEAD")); reflexivity.
Qed.

(* the excluded class is not empty, and there the statement fails: try_find("FOO") with only refs/FOO *)
Definition foo_files : list file :=
  [([bs "HEAD"], bs "ref: refs/heads/main"); ([bs "refs"; bs "FOO"], bs "1111111111111111111111111111111111111111")].

Lemma L_dwim_refuted :
  exists files dirs packed name,
    (exists n', ref_name_partial name = Ok n') /\
    (forall f, In f files -> parse_loose (snd f) <> None) /\ packed_ok packed /\
    resolve_good files packed name = None /\
    known_fullname_fallback name = true /\
    find files dirs (Some packed) name <> Ok (spec_dwim files packed name).
Proof.
  exists foo_files, [bs "refs"], [], (bs "FOO").
  split; [eexists; vm_compute; reflexivity|].
  split; [intros f [<-|[<-|[]]]; vm_compute; discriminate|].
  split; [intros r []|].
  split; [vm_compute; reflexivity|].
  split; [vm_compute; reflexivity|].
  vm_compute. discriminate.
Qed.

(* non-vacuity of the short-name theorem: `main` with a loose branch and a packed tag of that name *)
Definition ex_files : list file :=
  [([bs "HEAD"], bs "ref: refs/heads/main"); ([bs "refs"; bs "heads"; bs "main"], bs "1111111111111111111111111111111111111111")].
Definition ex_packed : list prec :=
  [(bs "refs/heads/main", (bs "2222222222222222222222222222222222222222", None));
   (bs "refs/tags/main", (bs "2222222222222222222222222222222222222222", Some (bs "1111111111111111111111111111111111111111")))].
