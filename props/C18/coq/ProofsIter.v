(* C18 — iter().all() as a whole: the strictly sorted union of loose and packed references, loose wins. *)
From Coq Require Import List Sorted Permutation Lia ZArith Bool.
From GixV.Base Require Import Bytes BytesFacts Outcome.
From GixV.C18 Require Import Validate Model Spec ProofsOrder ProofsMerge.
Import ListNotations.

Definition loose_entries (files : list file) : list (bytes * item) :=
  map (fun f => (fname f, convert_loose f)) (sorted_loose (bs "refs") None files).
Definition packed_entries (p : list prec) : list (bytes * item) :=
  map (fun r => (fst r, convert_packed r)) p.
Definition all_entries (files : list file) (packed : list prec) : list (bytes * item) :=
  merge (loose_entries files) (packed_entries packed).

Definition loose_has (files : list file) (n : bytes) (i : item) : Prop :=
  exists f, In f files /\ is_loose_ref f = true /\ n = fname f /\ i = convert_loose f.
Definition packed_has (packed : list prec) (n : bytes) (i : item) : Prop :=
  exists r, In r packed /\ n = fst r /\ i = convert_packed r.

Lemma iter_all_entries files packed : iter_all files (Some packed) = map snd (all_entries files packed).
Proof. reflexivity. Qed.

Lemma iter_all_no_packed files : iter_all files None = map snd (all_entries files []).
Proof. unfold iter_all. cbn [option_map]. rewrite overlay_none_some. reflexivity. Qed.

Lemma loose_entries_in files n i : In (n, i) (loose_entries files) <-> loose_has files n i.
Proof.
  unfold loose_entries, loose_has. rewrite in_map_iff. split.
  - intros [f [E Hf]]. inversion E; subst. exists f. apply sorted_loose_in in Hf.
    destruct Hf as [Hf [Hu Hc]]. repeat split; auto.
    unfold is_loose_ref. cbn [andb] in Hc. rewrite Hc. change (under (bs "refs") f) with (starts_with (fname f) (bs "refs/")) in Hu.
    rewrite Hu. reflexivity.
  - intros [f [Hf [Hl [-> ->]]]]. exists f. split; [reflexivity|]. apply sorted_loose_in.
    unfold is_loose_ref in Hl. apply andb_true_iff in Hl. destruct Hl as [H1 H2].
    repeat split; auto.
Qed.

Lemma loose_names_in files n : In n (names (loose_entries files)) <-> exists i, loose_has files n i.
Proof.
  unfold names. rewrite in_map_iff. split.
  - intros [[n' i] [E H]]. cbn in E. subst n'. exists i. apply loose_entries_in. exact H.
  - intros [i H]. exists (n, i). split; [reflexivity|]. apply loose_entries_in. exact H.
Qed.

Lemma packed_entries_in packed n i : In (n, i) (packed_entries packed) <-> packed_has packed n i.
Proof.
  unfold packed_entries, packed_has. rewrite in_map_iff. split.
  - intros [r [E Hr]]. inversion E; subst. exists r. auto.
  - intros [r [Hr [-> ->]]]. exists r. auto.
Qed.

Lemma L_iter_all_sorted_union files packed :
  files_wf files -> StronglySorted (klt fst) packed ->
  let m := all_entries files packed in
  iter_all files (Some packed) = map snd m /\
  SSorted m /\ NoDup (names m) /\
  (forall n i, In (n, i) m <->
     loose_has files n i \/ (packed_has packed n i /\ ~ exists j, loose_has files n j)).
Proof.
  intros Hwf Hp m.
  assert (Hl : SSorted (loose_entries files)).
  { apply map_pairs_ssorted. apply sorted_loose_strict. exact Hwf. }
  assert (Hq : SSorted (packed_entries packed)).
  { apply map_pairs_ssorted. exact Hp. }
  assert (Hm : SSorted m) by (apply merge_sorted; assumption).
  split; [reflexivity|]. split; [exact Hm|]. split; [apply ssorted_nodup; exact Hm|].
  intros n i. unfold m, all_entries. split.
  - intros H. apply merge_only in H; try assumption. destruct H as [H|[H Hn]].
    + left. apply loose_entries_in. exact H.
    + right. split; [apply packed_entries_in; exact H|].
      intros Hex. apply Hn. cbn [fst]. apply loose_names_in. exact Hex.
  - intros [H|[H Hn]].
    + apply merge_loose_in. apply loose_entries_in. exact H.
    + apply merge_packed_in; [apply packed_entries_in; exact H|].
      cbn [fst]. intros Hin. apply Hn. apply loose_names_in. exact Hin.
Qed.
