(* C18 — the loose/packed overlay is the sorted union in which loose entries win; the loose walk is
   strictly sorted by full name; together: what iter().all() yields. *)
From Coq Require Import List Sorted Permutation Lia ZArith Bool.
From GixV.Base Require Import Bytes BytesFacts Outcome.
From GixV.C18 Require Import Validate Model Spec ProofsOrder.
Import ListNotations.

Section MergeFacts.
  Context {V : Type}.
  Notation entry := (bytes * V)%type.
  Definition names (l : list entry) : list bytes := map fst l.
  Definition SSorted (l : list entry) : Prop := StronglySorted (fun a b => blt (fst a) (fst b)) l.

  Lemma merge_nil_r (l : list entry) : merge l [] = l.
  Proof. destruct l; reflexivity. Qed.

  Lemma merge_cons_cons (x y : entry) l p :
    merge (x :: l) (y :: p) =
    match bytes_cmp (fst x) (fst y) with
    | Lt => x :: merge l (y :: p)
    | Eq => x :: merge l p
    | Gt => y :: merge (x :: l) p
    end.
  Proof. reflexivity. Qed.

  Lemma ssorted_inv (a : entry) l : SSorted (a :: l) -> SSorted l /\ Forall (fun b => blt (fst a) (fst b)) l.
  Proof. intros H. inversion H; subst. split; assumption. Qed.

  Lemma merge_from (l p : list entry) : forall e, In e (merge l p) -> In e l \/ In e p.
  Proof.
    revert p. induction l as [|x l IHl]; intros p; [cbn; auto|].
    induction p as [|y p IHp]; intros e; [rewrite merge_nil_r; auto|].
    rewrite merge_cons_cons. destruct (bytes_cmp (fst x) (fst y)); cbn [In]; intros [H|H]; auto.
    - apply IHl in H. cbn [In] in H. tauto.
    - apply IHl in H. cbn [In]. tauto.
    - apply IHp in H. cbn [In] in *. tauto.
  Qed.

  Lemma merge_sorted (l : list entry) : forall p, SSorted l -> SSorted p -> SSorted (merge l p).
  Proof.
    induction l as [|x l IHl]; intros p Hl Hp; [exact Hp|].
    induction p as [|y p IHp]; [rewrite merge_nil_r; exact Hl|].
    destruct (ssorted_inv _ _ Hl) as [Hl' Hxl]. destruct (ssorted_inv _ _ Hp) as [Hp' Hyp].
    rewrite Forall_forall in Hxl, Hyp.
    rewrite merge_cons_cons. destruct (bytes_cmp (fst x) (fst y)) eqn:E.
    - apply bytes_cmp_eq_iff in E. constructor; [apply IHl; assumption|].
      apply Forall_forall. intros e He. apply merge_from in He. destruct He as [He|He]; [auto|].
      unfold blt. rewrite E. apply Hyp, He.
    - constructor; [apply IHl; assumption|].
      apply Forall_forall. intros e He. apply merge_from in He. destruct He as [He|[He|He]]; [auto| |].
      + subst e. exact E.
      + eapply blt_trans; [exact E|apply Hyp, He].
    - apply bytes_cmp_gt_lt in E. constructor; [apply IHp; assumption|].
      apply Forall_forall. intros e He. apply merge_from in He. destruct He as [[He|He]|He]; [| |auto].
      + subst e. exact E.
      + eapply blt_trans; [exact E|apply Hxl, He].
  Qed.

  Lemma merge_loose_in (l : list entry) : forall p e, In e l -> In e (merge l p).
  Proof.
    induction l as [|x l IHl]; intros p e He; [destruct He|].
    induction p as [|y p IHp]; [rewrite merge_nil_r; exact He|].
    rewrite merge_cons_cons. destruct (bytes_cmp (fst x) (fst y)); cbn [In] in *.
    - destruct He; auto.
    - destruct He; auto.
    - right. apply IHp.
  Qed.

  Lemma merge_packed_in (l : list entry) : forall p e, In e p -> ~ In (fst e) (names l) -> In e (merge l p).
  Proof.
    induction l as [|x l IHl]; intros p e He Hn; [exact He|].
    induction p as [|y p IHp]; [destruct He|].
    assert (Hnl : ~ In (fst e) (names l)) by (intros H; apply Hn; right; exact H).
    rewrite merge_cons_cons. destruct (bytes_cmp (fst x) (fst y)) eqn:E; cbn [In] in *.
    - right. destruct He as [He|He]; [|auto]. subst e. apply bytes_cmp_eq_iff in E.
      exfalso. apply Hn. left. exact E.
    - right. apply IHl; [|exact Hnl]. cbn [In]. exact He.
    - destruct He as [He|He]; auto.
  Qed.

  Lemma blt_neq a b : blt a b -> a <> b.
  Proof. intros H ->. exact (blt_irrefl _ H). Qed.

  Lemma merge_only (l : list entry) : forall p, SSorted l -> SSorted p ->
    forall e, In e (merge l p) -> In e l \/ (In e p /\ ~ In (fst e) (names l)).
  Proof.
    induction l as [|x l IHl]; intros p Hl Hp e He; [right; split; [exact He|intros []]|].
    revert e He. induction p as [|y p IHp]; intros e He; [rewrite merge_nil_r in He; auto|].
    destruct (ssorted_inv _ _ Hl) as [Hl' Hxl]. destruct (ssorted_inv _ _ Hp) as [Hp' Hyp].
    rewrite Forall_forall in Hxl, Hyp.
    rewrite merge_cons_cons in He. destruct (bytes_cmp (fst x) (fst y)) eqn:E; cbn [In] in He.
    - apply bytes_cmp_eq_iff in E. destruct He as [He|He]; [left; left; exact He|].
      apply (IHl p Hl' Hp') in He. destruct He as [He|[He Hn]]; [left; right; exact He|].
      right. split; [right; exact He|]. cbn. intros [H|H]; [|auto].
      specialize (Hyp e He). rewrite <- E in Hyp. rewrite H in Hyp. exact (blt_irrefl _ Hyp).
    - destruct He as [He|He]; [left; left; exact He|].
      apply (IHl (y :: p) Hl' Hp) in He. destruct He as [He|[He Hn]]; [left; right; exact He|].
      right. split; [exact He|]. cbn. intros [H|H]; [|auto].
      assert (Hlt : blt (fst x) (fst e)).
      { destruct He as [He|He]; [subst e; exact E|]. eapply blt_trans; [exact E|apply Hyp, He]. }
      rewrite H in Hlt. exact (blt_irrefl _ Hlt).
    - apply bytes_cmp_gt_lt in E. destruct He as [He|He].
      + subst e. right. split; [left; reflexivity|]. cbn. intros [H|H].
        * rewrite H in E. exact (blt_irrefl _ E).
        * apply in_map_iff in H. destruct H as [z [Hz Hin]].
          assert (Hlt : blt (fst y) (fst z)) by (eapply blt_trans; [exact E|apply Hxl, Hin]).
          rewrite Hz in Hlt. exact (blt_irrefl _ Hlt).
      + apply (IHp Hp') in He. destruct He as [He|[He Hn]]; [left; exact He|].
        right. split; [right; exact He|exact Hn].
  Qed.

  Lemma ssorted_nodup (l : list entry) : SSorted l -> NoDup (names l).
  Proof.
    induction 1 as [|a l HS IH Hall]; cbn; constructor; [|exact IH].
    intros Hin. apply in_map_iff in Hin. destruct Hin as [b [Hb Hin]].
    rewrite Forall_forall in Hall. specialize (Hall b Hin). rewrite Hb in Hall. exact (blt_irrefl _ Hall).
  Qed.
End MergeFacts.

(* ---- the loose side ------------------------------------------------------------------------ *)

(* a file system has no path twice *)
Definition files_wf (files : list file) : Prop := NoDup (map fname files).

Definition ncmp (a b : file) : comparison := bytes_cmp (fname a) (fname b).

Lemma walk_perm root files : Permutation (filter (under root) files) (walk root files).
Proof. apply isort_perm. Qed.

Lemma sort_by_name_perm l : Permutation l (sort_by_name l).
Proof. apply isort_perm. Qed.

Lemma sort_by_name_strict l : NoDup (map fname l) -> StronglySorted (klt fname) (sort_by_name l).
Proof.
  intros Hnd. unfold sort_by_name. apply (sorted_nodup_strict fname).
  - apply (isort_sorted ncmp fname (fun _ => True)); [reflexivity|].
    apply Forall_forall. intros; exact I.
  - eapply Permutation_NoDup; [apply Permutation_map, isort_perm|exact Hnd].
Qed.

Lemma sorted_loose_strict root prefix files : files_wf files ->
  StronglySorted (klt fname) (sorted_loose root prefix files).
Proof.
  intros Hnd. unfold sorted_loose. apply sort_by_name_strict.
  apply nodup_map_filter.
  eapply Permutation_NoDup; [apply Permutation_map, walk_perm|].
  apply nodup_map_filter. exact Hnd.
Qed.

Lemma sorted_loose_in root prefix files f :
  In f (sorted_loose root prefix files) <->
  In f files /\ under root f = true /\
  (match prefix with Some p => starts_with (fname f) p | None => true end && name_ok (fname f)) = true.
Proof.
  unfold sorted_loose. split.
  - intros H. apply (Permutation_in _ (Permutation_sym (sort_by_name_perm _))) in H.
    apply filter_In in H. destruct H as [Hw Hc].
    apply (Permutation_in _ (Permutation_sym (walk_perm root files))) in Hw.
    apply filter_In in Hw. tauto.
  - intros [Hf [Hu Hc]]. apply (Permutation_in _ (sort_by_name_perm _)).
    apply filter_In. split; [|exact Hc].
    apply (Permutation_in _ (walk_perm root files)). apply filter_In. tauto.
Qed.

Lemma map_pairs_ssorted {A} (key : A -> bytes) (conv : A -> item) (l : list A) :
  StronglySorted (klt key) l -> SSorted (map (fun a => (key a, conv a)) l).
Proof.
  induction 1 as [|a l HS IH Hall]; cbn [map]; constructor; [exact IH|].
  rewrite Forall_forall in *. intros e He. apply in_map_iff in He. destruct He as [b [<- Hb]].
  cbn [fst]. apply Hall, Hb.
Qed.

Lemma overlay_none_some loose : overlay loose None = overlay loose (Some []).
Proof. unfold overlay. cbn [map]. rewrite merge_nil_r. reflexivity. Qed.
