(* C18 — Spec.v: what git shows.  References are a finite map from full name to value: every packed
   record, overridden by every loose file below refs/ whose path is a valid name (refs/files-backend.c:
   loose_fill_ref_dir + the packed/loose overlay of files_ref_iterator / ref-cache merge);
   `git for-each-ref` lists the map in the byte order of the names, a prefix selects the names starting
   with it; `git rev-parse` resolves a short name with ref_rev_parse_rules (refs.c), first hit wins. *)
From GixV.Base Require Import Bytes Outcome.
From GixV.C18 Require Import Validate Model.

Section Map.
  Context {V : Type}.
  Fixpoint map_insert (k : bytes) (v : V) (m : list (bytes * V)) : list (bytes * V) :=
    match m with
    | [] => [(k, v)]
    | e :: m' =>
        match bytes_cmp k (fst e) with
        | Lt => (k, v) :: m
        | Eq => (k, v) :: m'
        | Gt => e :: map_insert k v m'
        end
    end.
  Fixpoint map_find (k : bytes) (m : list (bytes * V)) : option V :=
    match m with
    | [] => None
    | e :: m' => if bytes_eqb (fst e) k then Some (snd e) else map_find k m'
    end.
End Map.

Definition is_loose_ref (f : file) : bool := starts_with (fname f) (bs "refs/") && name_ok (fname f).

(* the map: packed first, loose on top *)
Definition refs_view (files : list file) (packed : list prec) : list (bytes * item) :=
  fold_left (fun m f => map_insert (fname f) (convert_loose f) m) (filter is_loose_ref files)
    (fold_left (fun m r => map_insert (fst r) (convert_packed r) m) packed []).

Definition spec_all (files : list file) (packed : list prec) : list item :=
  map snd (refs_view files packed).
Definition spec_prefixed (files : list file) (packed : list prec) (p : bytes) : list item :=
  map snd (filter (fun e => starts_with (fst e) p) (refs_view files packed)).

(* refs.c: ref_rev_parse_rules *)
Definition rev_parse_candidates (name : bytes) : list bytes :=
  [ name; bs "refs/" ++ name; bs "refs/tags/" ++ name; bs "refs/heads/" ++ name;
    bs "refs/remotes/" ++ name; bs "refs/remotes/" ++ name ++ bs "/HEAD" ].

(* one rule: a loose file at that path of the git dir, else a packed record of that name *)
Definition resolve_one (files : list file) (packed : list prec) (full : bytes) : option item :=
  match lookup_file files full with
  | Some c =>
      Some (match parse_loose c with
            | Some t => inl {| rname := full; rtarget := t; rpeeled := None |}
            | None => inr (ReferenceCreation full)
            end)
  | None => option_map convert_packed (packed_find packed full)
  end.

Fixpoint first_some {A B} (f : A -> option B) (l : list A) : option B :=
  match l with
  | [] => None
  | x :: l' => match f x with Some y => Some y | None => first_some f l' end
  end.

(* a loose file that does not parse is "broken": git warns and goes on to the next rule *)
Definition resolve_good (files : list file) (packed : list prec) (full : bytes) : option reference :=
  match resolve_one files packed full with Some (inl r) => Some r | _ => None end.

Definition spec_dwim (files : list file) (packed : list prec) (name : bytes) : option reference :=
  first_some (resolve_good files packed) (rev_parse_candidates name).
