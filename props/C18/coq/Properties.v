Theorem placeholder : True. Proof. exact I. Qed.
