(* C18 — Reference lookup and iteration match git.
   Only statements here; every proof is [exact <lemma>].
   Model.v: the directory walk sorted by file name, SortedLoosePaths (collect + sort by full name, as fixed),
   packed iteration, the LooseThenPacked overlay, try_find's lookup rules (as fixed).
   Spec.v: git's view — a finite map name -> value, loose over packed; ref_rev_parse_rules.
   [bytes_cmp] is the unsigned lexicographic byte order (memcmp then length), [blt a b] := bytes_cmp a b = Lt.
   [fname f] is the slash-joined path of a file given by its components.
   [files_wf]: no path occurs twice.
   [klt key]: strictly ascending by [key]; [StronglySorted]: every element is below all later ones. *)
From Coq Require Import List Sorted Permutation.
From GixV.Base Require Import Bytes BytesFacts Outcome.
From GixV.C18 Require Import Validate Model Spec ProofsOrder ProofsPrefix ProofsMerge ProofsIter ProofsFind.
Import ListNotations.

(* SortedLoosePaths (walk, filter, collect, sort by full name) yields exactly the regular files below the
   root that have the prefix and a valid name, strictly ascending by full name, whatever order the
   directory walk produced them in *)
Theorem loose_paths_sorted_by_full_name : forall root prefix files, files_wf files ->
  StronglySorted (klt fname) (sorted_loose root prefix files) /\
  (forall f, In f (sorted_loose root prefix files) <->
     In f files /\ under root f = true /\
     (match prefix with Some p => starts_with (fname f) p | None => true end && name_ok (fname f)) = true).
Proof. intros root prefix files H. split; [apply sorted_loose_strict; exact H|intros f; apply sorted_loose_in]. Qed.

(* the directory walk alone (sorted by file name per directory) visits exactly the files below the root *)
Theorem walk_visits_every_file_once : forall root files,
  Permutation (filter (under root) files) (walk root files).
Proof. exact walk_perm. Qed.

(* the overlay of two strictly sorted streams is strictly sorted (ascending, no name twice) and
   contains exactly the loose entries plus the packed entries whose name is not loose *)
Theorem overlay_merge_correct : forall (V : Type) (l p : list (bytes * V)),
  SSorted l -> SSorted p ->
  SSorted (merge l p) /\ NoDup (names (merge l p)) /\
  (forall e, In e (merge l p) <-> In e l \/ (In e p /\ ~ In (fst e) (names l))).
Proof.
  intros V l p Hl Hp. split; [apply merge_sorted; assumption|].
  split; [apply ssorted_nodup, merge_sorted; assumption|].
  intros e. split.
  - apply merge_only; assumption.
  - intros [H|[H Hn]]; [apply merge_loose_in; exact H|apply merge_packed_in; assumption].
Qed.

(* iter().all() over any well-formed tree and any strictly sorted packed-refs: every reference exactly
   once, ascending by full name, the loose value when both exist (broken loose files appear as the
   error item of their name) *)
Theorem iter_all_is_sorted_union : forall files packed,
  files_wf files -> StronglySorted (klt fst) packed ->
  let m := all_entries files packed in
  iter_all files (Some packed) = map snd m /\
  SSorted m /\ NoDup (names m) /\
  (forall n i, In (n, i) m <->
     loose_has files n i \/ (packed_has packed n i /\ ~ exists j, loose_has files n j)).
Proof. exact L_iter_all_sorted_union. Qed.

Theorem iter_all_without_packed_refs : forall files,
  iter_all files None = map snd (all_entries files []).
Proof. exact iter_all_no_packed. Qed.

(* the packed side of prefixed(p): on strictly sorted packed-refs, "seek to the first record not below p,
   take while p is a prefix" yields exactly the records whose name starts with p *)
Theorem packed_prefixed_is_filter : forall p packed, StronglySorted (klt fst) packed ->
  packed_iter (Some p) packed = filter (fun r => starts_with (fst r) p) packed.
Proof. exact L_packed_prefixed_is_filter. Qed.

(* try_find of a short name is git's ref_rev_parse_rules, first hit wins — for names outside the
   known class find-fullname-fallback, when nothing of that name lies in the git dir itself, loose
   files parse and packed-refs holds what git packs *)
Theorem dwim_is_git_except_known : forall files dirs packed name,
  (exists n', ref_name_partial name = Ok n') ->
  (exists n', ref_name_partial (name ++ slash :: bs "HEAD") = Ok n') ->
  known_fullname_fallback name = false ->
  resolve_good files packed name = None ->
  (forall f, In f files -> parse_loose (snd f) <> None) ->
  packed_ok packed ->
  find files dirs (Some packed) name = Ok (spec_dwim files packed name).
Proof. exact L_dwim_short_names. Qed.

(* inside the known class the statement is false: try_find("FOO") with only refs/FOO present *)
Theorem dwim_is_git_refuted :
  exists files dirs packed name,
    (exists n', ref_name_partial name = Ok n') /\
    (forall f, In f files -> parse_loose (snd f) <> None) /\ packed_ok packed /\
    resolve_good files packed name = None /\
    known_fullname_fallback name = true /\
    find files dirs (Some packed) name <> Ok (spec_dwim files packed name).
Proof. exact L_dwim_refuted. Qed.

(* ---- non-vacuity ------------------------------------------------------------------------- *)

(* the witness of the defect: the walk reaches refs/heads/a/c before refs/heads/a-b (file name `a` < `a-b`),
   the full names are the other way round ('-' < '/'): the walk order is not the name order, hence the sort *)
Example walk_order_is_not_name_order :
  path_cmp [bs "refs"; bs "heads"; bs "a"; bs "c"] [bs "refs"; bs "heads"; bs "a-b"] = Lt /\
  bytes_cmp (bs "refs/heads/a/c") (bs "refs/heads/a-b") = Gt.
Proof. split; reflexivity. Qed.

Definition ex_tree : list file :=
  [([bs "refs"; bs "heads"; bs "a"; bs "c"], bs "1111111111111111111111111111111111111111");
   ([bs "HEAD"], bs "ref: refs/heads/main");
   ([bs "refs"; bs "heads"; bs "a-b"], bs "1111111111111111111111111111111111111111");
   ([bs "refs"; bs "heads"; bs "a0"], bs "garbage")].
Definition ex_pack : list prec :=
  [(bs "refs/heads/a-b", (bs "2222222222222222222222222222222222222222", None));
   (bs "refs/tags/t", (bs "2222222222222222222222222222222222222222", Some (bs "1111111111111111111111111111111111111111")))].

Example ex_tree_wf : files_wf ex_tree /\ StronglySorted (klt fst) ex_pack.
Proof.
  split.
  - unfold files_wf. cbn. repeat constructor; cbn; intuition discriminate.
  - repeat constructor.
Qed.

Example ex_iter_all :
  map (fun i => match i with inl r => rname r | inr (ReferenceCreation p) => p end)
      (iter_all ex_tree (Some ex_pack))
  = [bs "refs/heads/a-b"; bs "refs/heads/a/c"; bs "refs/heads/a0"; bs "refs/tags/t"].
Proof. reflexivity. Qed.

Example ex_dwim :
  find ex_files [bs "refs"; bs "refs/heads"] (Some ex_packed) (bs "main")
  = Ok (spec_dwim ex_files ex_packed (bs "main")) /\
  known_fullname_fallback (bs "main") = false /\ packed_ok ex_packed /\
  option_map rname (spec_dwim ex_files ex_packed (bs "main")) = Some (bs "refs/tags/main").
Proof.
  repeat split.
  intros r [<-|[<-|[]]]; reflexivity.
Qed.
