(* C18 — order facts: byte-string order is a strict total order; insertion sort sorts. *)
From Coq Require Import List Sorted Permutation Lia ZArith Bool.
From GixV.Base Require Import Bytes BytesFacts Outcome.
From GixV.C18 Require Import Validate Model.
Import ListNotations.

Definition blt (a b : bytes) : Prop := bytes_cmp a b = Lt.
Definition ble (a b : bytes) : Prop := bytes_cmp a b <> Gt.

Lemma blt_trans a : forall b c, blt a b -> blt b c -> blt a c.
Proof.
  unfold blt. induction a as [|x a IH]; intros [|y b] [|z c]; cbn [bytes_cmp]; try congruence; auto.
  destruct (N.compare (b2N x) (b2N y)) eqn:E1; try discriminate;
  destruct (N.compare (b2N y) (b2N z)) eqn:E2; try discriminate; intros H1 H2.
  - apply N.compare_eq_iff in E1, E2. rewrite E1, E2, N.compare_refl. eauto.
  - apply N.compare_eq_iff in E1. rewrite E1, E2. reflexivity.
  - apply N.compare_eq_iff in E2. rewrite <- E2, E1. reflexivity.
  - rewrite N.compare_lt_iff in E1, E2. assert (H : (b2N x < b2N z)%N) by lia.
    apply N.compare_lt_iff in H. rewrite H. reflexivity.
Qed.

Lemma blt_irrefl a : ~ blt a a.
Proof. unfold blt. rewrite bytes_cmp_refl. discriminate. Qed.

Lemma bytes_cmp_gt_lt a b : bytes_cmp a b = Gt -> bytes_cmp b a = Lt.
Proof. intros H. rewrite bytes_cmp_antisym, H. reflexivity. Qed.

Lemma ble_trans a b c : ble a b -> ble b c -> ble a c.
Proof.
  unfold ble. intros H1 H2.
  destruct (bytes_cmp a b) eqn:E1; try congruence.
  - apply bytes_cmp_eq_iff in E1. subst. exact H2.
  - destruct (bytes_cmp b c) eqn:E2; try congruence.
    + apply bytes_cmp_eq_iff in E2. subst. rewrite E1. discriminate.
    + rewrite (blt_trans a b c E1 E2). discriminate.
Qed.

Lemma bytes_cmp_app_prefix p : forall a b, bytes_cmp (p ++ a) (p ++ b) = bytes_cmp a b.
Proof. induction p as [|x p IH]; intros; cbn [app bytes_cmp]; auto. rewrite N.compare_refl. apply IH. Qed.

(* ---- insertion sort ---------------------------------------------------------------------- *)

Section SortFacts.
  Context {A : Type} (cmp : A -> A -> comparison) (key : A -> bytes) (P : A -> Prop).
  Hypothesis cmp_key : forall a b, P a -> P b -> cmp a b = bytes_cmp (key a) (key b).

  Definition kle (a b : A) : Prop := ble (key a) (key b).
  Definition klt (a b : A) : Prop := blt (key a) (key b).

  Lemma insert_perm x l : Permutation (x :: l) (insert cmp x l).
  Proof.
    induction l as [|y l IH]; cbn [insert]; [reflexivity|].
    destruct (cmp x y); try reflexivity.
    rewrite perm_swap. apply perm_skip. exact IH.
  Qed.

  Lemma isort_perm l : Permutation l (isort cmp l).
  Proof.
    induction l as [|x l IH]; cbn [isort]; [reflexivity|].
    rewrite <- insert_perm. apply perm_skip. exact IH.
  Qed.

  Lemma hdrel_insert a x l : HdRel kle a l -> kle a x -> HdRel kle a (insert cmp x l).
  Proof. intros H Hx. destruct l as [|y l]; cbn [insert]; [constructor; exact Hx|].
    inversion H; subst. destruct (cmp x y); constructor; assumption. Qed.

  Lemma insert_sorted x l : P x -> Forall P l -> Sorted kle l -> Sorted kle (insert cmp x l).
  Proof.
    intros Hx. induction l as [|y l IH]; intros HP HS; cbn [insert].
    - repeat constructor.
    - inversion HP as [|? ? Py Pl]; subst. inversion HS as [|? ? Sl Hd]; subst.
      destruct (cmp x y) eqn:E; rewrite (cmp_key x y Hx Py) in E.
      + constructor; [exact HS|]. constructor. unfold kle, ble. rewrite E. discriminate.
      + constructor; [exact HS|]. constructor. unfold kle, ble. rewrite E. discriminate.
      + constructor; [apply IH; assumption|]. apply hdrel_insert; [exact Hd|].
        unfold kle, ble. rewrite (bytes_cmp_gt_lt _ _ E). discriminate.
  Qed.

  Lemma isort_sorted l : Forall P l -> Sorted kle (isort cmp l).
  Proof.
    induction l as [|x l IH]; intros HP; cbn [isort]; [constructor|].
    inversion HP; subst. apply insert_sorted; auto.
    eapply Permutation_Forall; [apply isort_perm|assumption].
  Qed.

  Lemma kle_trans : Relations_1.Transitive kle.
  Proof. intros a b c. unfold kle. apply ble_trans. Qed.

  (* sorted without repeated keys is strictly sorted *)
  Lemma sorted_nodup_strict l : Sorted kle l -> NoDup (map key l) -> StronglySorted klt l.
  Proof.
    intros HS. apply (Sorted_StronglySorted kle_trans) in HS.
    induction HS as [|a l HSl IH Hall]; intros ND; [constructor|].
    cbn in ND. inversion ND as [|? ? Hni NDl]; subst.
    constructor; [apply IH; assumption|].
    rewrite Forall_forall in *. intros b Hb. specialize (Hall b Hb).
    unfold kle, ble, klt, blt in *. destruct (bytes_cmp (key a) (key b)) eqn:E; try congruence.
    apply bytes_cmp_eq_iff in E. exfalso. apply Hni. rewrite E. apply in_map. exact Hb.
  Qed.

  Lemma strict_filter (g : A -> bool) l : StronglySorted klt l -> StronglySorted klt (filter g l).
  Proof.
    induction 1 as [|a l HS IH Hall]; cbn [filter]; [constructor|].
    destruct (g a); [|exact IH]. constructor; [exact IH|].
    rewrite Forall_forall in *. intros b Hb. apply filter_In in Hb. apply Hall, Hb.
  Qed.
End SortFacts.

Lemma nodup_map_filter {A B} (f : A -> B) (g : A -> bool) l : NoDup (map f l) -> NoDup (map f (filter g l)).
Proof.
  induction l as [|a l IH]; cbn; intros H; [constructor|].
  inversion H as [|? ? Hni ND]; subst. destruct (g a); cbn; [|auto].
  constructor; [|auto]. intros Hin. apply Hni. apply in_map_iff in Hin. destruct Hin as [b [Hb Hin]].
  apply filter_In in Hin. rewrite <- Hb. apply in_map. apply Hin.
Qed.
