(* C18 — model of gix-ref's file store read side after the `fix:` commits listed in NOTES.md.
   Sources: gix-features/src/fs.rs (walkdir_sorted_new),
   gix-ref/src/store/file/loose/iter.rs (SortedLoosePaths), gix-ref/src/store/file/overlay_iter.rs
   (IterInfo::from_prefix, LooseThenPacked::next), gix-ref/src/store/packed/iter.rs (iter, iter_prefixed),
   gix-ref/src/store/file/find.rs (find_one_with_verified_input, find_inner, ref_contents,
   to_base_dir_and_relative_name), gix-ref/src/store/packed/find.rs (transform_full_name_for_lookup,
   try_find_full_name), gix-ref/src/name.rs (construct_full_name_ref, looks_like_full_name),
   gix-ref/src/fullname.rs (category_and_short_name), gix-ref/src/store/file/loose/reference/decode.rs.

   The file system is an abstract directory tree given as the finite set of its regular files, each a
   list of path components plus content, and the set of its directories (slash-joined paths).
   No common dir (no linked worktree), no namespace, precompose_unicode = false. *)
From GixV.Base Require Import Bytes Outcome.
From GixV.C18 Require Import Validate.
Local Open Scope outcome_scope.

(* ---- byte-string helpers ---------------------------------------------------------------- *)

Fixpoint starts_with (s p : bytes) : bool :=
  match p, s with
  | [], _ => true
  | b :: p', c :: s' => beqb b c && starts_with s' p'
  | _ :: _, [] => false
  end.

Fixpoint strip_prefix (p s : bytes) : option bytes :=
  match p, s with
  | [], _ => Some s
  | b :: p', c :: s' => if beqb b c then strip_prefix p' s' else None
  | _ :: _, [] => None
  end.

(* components joined with '/' *)
Fixpoint join (cs : list bytes) : bytes :=
  match cs with
  | [] => []
  | [c] => c
  | c :: cs' => c ++ slash :: join cs'
  end.

Definition is_nil {A} (l : list A) : bool := match l with [] => true | _ => false end.

(* ---- the sorted directory walk ------------------------------------------------------------ *)

(* gix_features::fs::walkdir_sorted_new = walkdir's sort_by_file_name: the entries of every directory are
   visited in the byte order of their file names, directories are descended into when they are reached
   (pre-order).  Relative order in which such a traversal reaches two regular files, given by their
   component lists: decided by the first component in which they differ. *)
Fixpoint path_cmp (xs ys : list bytes) : comparison :=
  match xs, ys with
  | [], [] => Eq
  | [], _ :: _ => Lt
  | _ :: _, [] => Gt
  | x :: xs', y :: ys' =>
      match bytes_cmp x y with
      | Eq => path_cmp xs' ys'
      | c => c
      end
  end.

Section Sort.
  Context {A : Type} (cmp : A -> A -> comparison).
  Fixpoint insert (x : A) (l : list A) : list A :=
    match l with
    | [] => [x]
    | y :: l' => match cmp x y with Gt => y :: insert x l' | _ => x :: l end
    end.
  Fixpoint isort (l : list A) : list A :=
    match l with [] => [] | x :: l' => insert x (isort l') end.
End Sort.

Definition file := (list bytes * bytes)%type.        (* components, content *)
Definition fname (f : file) : bytes := join (fst f).

(* all regular files below directory [root] ("" = the git dir itself), in traversal order *)
Definition under (root : bytes) (f : file) : bool :=
  match root with [] => true | _ => starts_with (fname f) (root ++ [slash]) end.
Definition walk (root : bytes) (files : list file) : list file :=
  isort (fun a b => path_cmp (fst a) (fst b)) (filter (under root) files).

(* `items.sort_by(|a, b| a.1.cmp(&b.1))` of SortedLoosePaths::next: a stable sort by full name *)
Definition sort_by_name (l : list file) : list file :=
  isort (fun a b => bytes_cmp (fname a) (fname b)) l.

(* ---- references ------------------------------------------------------------------------- *)

Inductive target := Object (hex : bytes) | Symbolic (name : bytes).
Record reference := { rname : bytes; rtarget : target; rpeeled : option bytes }.
Inductive iter_err := ReferenceCreation (path : bytes).
Definition item := (reference + iter_err)%type.

Definition is_hex_lc (b : byte) : bool :=
  let n := b2N b in (N.leb 48 n && N.leb n 57) || (N.leb 97 n && N.leb n 102).

Fixpoint drop_spaces (s : bytes) : bytes :=
  match s with b :: s' => if beqb b x20 then drop_spaces s' else s | [] => [] end.
Fixpoint until_eol (s : bytes) : bytes :=
  match s with
  | b :: s' => if beqb b x0d || beqb b x0a then [] else b :: until_eol s'
  | [] => []
  end.

(* loose::reference::decode::parse + TryFrom<MaybeUnsafeState>; None = Err (Parse | RefnameValidation) *)
Definition parse_loose (c : bytes) : option target :=
  match strip_prefix (bs "ref: ") c with
  | Some r =>
      let path := until_eol (drop_spaces r) in
      match ref_name path with Ok _ => Some (Symbolic path) | _ => None end
  | None =>
      let h := firstn 40 c in
      if Nat.eqb (length h) 40 && forallb is_hex_lc h then Some (Object h) else None
  end.

(* LooseThenPacked::convert_loose *)
Definition convert_loose (f : file) : item :=
  match parse_loose (snd f) with
  | Some t => inl {| rname := fname f; rtarget := t; rpeeled := None |}
  | None => inr (ReferenceCreation (fname f))
  end.

Definition name_ok (n : bytes) : bool := match ref_name_partial n with Ok _ => true | _ => false end.

(* SortedLoosePaths: regular files of the walk, filtered by prefix and by name validity
   (next_in_walk_order), then collected and sorted by full name (next) *)
Definition sorted_loose (root : bytes) (prefix : option bytes) (files : list file) : list file :=
  sort_by_name
    (filter (fun f => match prefix with Some p => starts_with (fname f) p | None => true end && name_ok (fname f))
            (walk root files)).

Definition prec := (bytes * (bytes * option bytes))%type.     (* name, (target hex, peeled hex) *)
Definition convert_packed (r : prec) : item :=
  inl {| rname := fst r; rtarget := Object (fst (snd r)); rpeeled := snd (snd r) |}.

(* packed::Buffer::iter_prefixed at record level: the binary search yields the first record whose
   name is not below the prefix; iteration stops at the first name that lacks the prefix *)
Fixpoint drop_below (p : bytes) (l : list prec) : list prec :=
  match l with
  | r :: l' => match bytes_cmp (fst r) p with Lt => drop_below p l' | _ => l end
  | [] => []
  end.
Fixpoint take_prefixed (p : bytes) (l : list prec) : list prec :=
  match l with
  | r :: l' => if starts_with (fst r) p then r :: take_prefixed p l' else []
  | [] => []
  end.
Definition packed_iter (prefix : option bytes) (packed : list prec) : list prec :=
  match prefix with None => packed | Some p => take_prefixed p (drop_below p packed) end.

(* LooseThenPacked::next, run to exhaustion, over (name, item) pairs *)
Section Merge.
  Context {V : Type}.
  Fixpoint merge (l : list (bytes * V)) : list (bytes * V) -> list (bytes * V) :=
    match l with
    | [] => fun p => p
    | x :: l' =>
        fix inner (p : list (bytes * V)) : list (bytes * V) :=
          match p with
          | [] => l
          | y :: p' =>
              match bytes_cmp (fst x) (fst y) with
              | Lt => x :: merge l' p
              | Eq => x :: merge l' p'
              | Gt => y :: inner p'
              end
          end
    end.
End Merge.

Definition overlay (loose : list file) (packed : option (list prec)) : list item :=
  let l := map (fun f => (fname f, convert_loose f)) loose in
  match packed with
  | None => map snd l
  | Some p => map snd (merge l (map (fun r => (fst r, convert_packed r)) p))
  end.

(* file::Store::iter()?.all() *)
Definition iter_all (files : list file) (packed : option (list prec)) : list item :=
  overlay (sorted_loose (bs "refs") None files) (option_map (packed_iter None) packed).

Inductive init_err := Init.

Fixpoint split_slash_aux (s cur_rev : bytes) : list bytes :=
  match s with
  | [] => [rev cur_rev]
  | b :: s' => if beqb b slash then rev cur_rev :: split_slash_aux s' [] else split_slash_aux s' (b :: cur_rev)
  end.
Definition split_slash (s : bytes) : list bytes := split_slash_aux s [].

(* the part of [p] before its last '/', or "" *)
Definition parent_of (p : bytes) : bytes := join (removelast (split_slash p)).

(* IterInfo::from_prefix + iter_from_info, for prefixes whose components are non-empty and not "."
   past the first (anything else is normalised by std::path and is excluded by the harness) *)
Definition iter_prefixed (files : list file) (packed : option (list prec)) (p : bytes)
  : outcome (list item) init_err :=
  let comps := split_slash p in
  if starts_with p [slash] then Err Init                                  (* is_absolute *)
  else if existsb (bytes_eqb (bs "..")) comps || bytes_eqb (hd [] comps) (bs ".") then Err Init
  else
    let loose :=
      if beqb (last p x00) slash
      then sorted_loose (removelast p) None files                         (* BaseAndIterRoot *)
      else sorted_loose (parent_of p) (Some p) files in                   (* ComputedIterationRoot *)
    Ok (overlay loose (option_map (packed_iter (Some p)) packed)).

(* ---- lookup ----------------------------------------------------------------------------- *)

Inductive category :=
| CTag | CLocalBranch | CRemoteBranch | CNote | CMainPseudoRef | CMainRef | CPseudoRef
| CLinkedPseudoRef | CLinkedRef | CBisect | CRewritten | CWorktreePrivate.

Definition is_pseudo_ref (n : bytes) : bool :=
  forallb (fun b => is_ascii_uppercase b || beqb b underscore) n.

Fixpoint find_slash (s : bytes) : option nat :=
  match s with
  | [] => None
  | b :: s' => if beqb b slash then Some O else option_map S (find_slash s')
  end.

(* FullNameRef::category_and_short_name *)
Definition category_and_short_name (name : bytes) : option (category * bytes) :=
  match strip_prefix (bs "refs/tags/") name with Some s => Some (CTag, s) | None =>
  match strip_prefix (bs "refs/heads/") name with Some s => Some (CLocalBranch, s) | None =>
  match strip_prefix (bs "refs/remotes/") name with Some s => Some (CRemoteBranch, s) | None =>
  let short := match strip_prefix (bs "refs/") name with Some s => s | None => name end in
  if starts_with name (bs "refs/notes/") then Some (CNote, short)
  else if starts_with name (bs "refs/bisect/") then Some (CBisect, short)
  else if starts_with name (bs "refs/worktree/") then Some (CWorktreePrivate, short)
  else if starts_with name (bs "refs/rewritten/") then Some (CRewritten, short)
  else if is_pseudo_ref name then Some (CPseudoRef, name)
  else match strip_prefix (bs "main-worktree/") name with
  | Some sh =>
      if starts_with sh (bs "refs/") then Some (CMainRef, sh)
      else if is_pseudo_ref sh then Some (CMainPseudoRef, sh) else None
  | None =>
      match strip_prefix (bs "worktrees/") name with
      | Some sw =>
          match find_slash sw with
          | None => None
          | Some pos =>
              let sh := skipn (S pos) sw in
              if starts_with sh (bs "refs/") then Some (CLinkedRef, sh)
              else if is_pseudo_ref sh then Some (CLinkedPseudoRef, sh) else None
          end
      | None => None
      end
  end end end end.

Definition is_worktree_private (c : category) : bool :=
  match c with
  | CMainPseudoRef | CPseudoRef | CLinkedPseudoRef | CWorktreePrivate | CRewritten | CBisect => true
  | _ => false
  end.

(* to_base_dir_and_relative_name(name, is_reflog = false): without a common dir every base is the
   git dir, what varies is the relative name *)
Definition relative_name (name : bytes) : bytes :=
  match category_and_short_name name with
  | Some (c, sn) =>
      match c with
      | CMainRef | CMainPseudoRef => sn
      | CLinkedRef =>
          match category_and_short_name sn with
          | Some (c', _) => if is_worktree_private c' then name else sn
          | None => sn
          end
      | _ => name
      end
  | None => name
  end.

(* packed::find::transform_full_name_for_lookup *)
Definition transform_full_name_for_lookup (name : bytes) : option bytes :=
  match category_and_short_name name with
  | Some (c, sn) =>
      match c with
      | CMainRef | CLinkedRef => Some sn
      | CTag | CRemoteBranch | CLocalBranch | CBisect | CRewritten | CNote => Some name
      | CMainPseudoRef | CPseudoRef | CLinkedPseudoRef | CWorktreePrivate => None
      end
  | None => Some name
  end.

(* PartialNameRef::looks_like_full_name / construct_full_name_ref *)
Definition looks_like_full_name (name : bytes) (consider_pseudo_ref : bool) : bool :=
  starts_with name (bs "refs/") || starts_with name (bs "main-worktree/")
  || starts_with name (bs "worktrees/") || (consider_pseudo_ref && is_pseudo_ref name).
Definition construct_full_name (inbetween name : bytes) (consider_pseudo_ref : bool) : bytes :=
  (if looks_like_full_name name consider_pseudo_ref then [] else bs "refs/")
  ++ (match inbetween with [] => [] | _ => inbetween ++ [slash] end) ++ name.

(* std::fs::File::open + read_to_end on the abstract tree *)
Inductive opened := Content (c : bytes) | IsDir | NotFound | NotADirectory.
Fixpoint lookup_file (files : list file) (p : bytes) : option bytes :=
  match files with
  | [] => None
  | f :: r => if bytes_eqb (fname f) p then Some (snd f) else lookup_file r p
  end.
Definition fs_open (files : list file) (dirs : list bytes) (p : bytes) : opened :=
  match lookup_file files p with
  | Some c => Content c
  | None =>
      if existsb (bytes_eqb p) dirs then IsDir
      else if existsb (fun f => starts_with p (fname f ++ [slash])) files then NotADirectory
      else NotFound
  end.

(* packed::Buffer::try_find_full_name at record level (the buffer is sorted and without duplicates) *)
Fixpoint packed_find (packed : list prec) (name : bytes) : option prec :=
  match packed with
  | [] => None
  | r :: l => if bytes_eqb (fst r) name then Some r else packed_find l name
  end.

Inductive find_err := RefnameValidation | ReadFileContents | FindReferenceCreation (path : bytes).

Definition reference_of_packed (r : prec) : reference :=
  {| rname := fst r; rtarget := Object (fst (snd r)); rpeeled := snd (snd r) |}.

(* file::Store::find_inner *)
Definition find_inner (files : list file) (dirs : list bytes) (inbetween name : bytes)
           (packed : option (list prec)) (consider_pseudo_ref : bool)
  : outcome (option reference) find_err :=
  let full := construct_full_name inbetween name consider_pseudo_ref in
  match fs_open files dirs (relative_name full) with
  | Content c =>
      match parse_loose c with
      | Some t => Ok (Some {| rname := full; rtarget := t; rpeeled := None |})
      | None => Err (FindReferenceCreation full)
      end
  | IsDir | NotFound | NotADirectory =>      (* EISDIR on read, ENOENT, ENOTDIR with a file above: Ok(None) *)
      match packed with
      | None => Ok None
      | Some p =>
          match transform_full_name_for_lookup full with
          | None => Ok None
          | Some n => Ok (option_map reference_of_packed (packed_find p n))
          end
      end
  end.

(* the (inbetween, consider_pseudo_ref) rules of find_one_with_verified_input *)
Definition rules : list (bytes * bool) :=
  [([], true); (bs "tags", false); (bs "heads", false); (bs "remotes", false)].

Fixpoint try_rules (files : list file) (dirs : list bytes) (name : bytes) (packed : option (list prec))
         (rs : list (bytes * bool)) : outcome (option reference) find_err :=
  match rs with
  | [] => Ok None
  | (inb, c) :: rs' =>
      r <- find_inner files dirs inb name packed c ;;
      match r with Some x => Ok (Some x) | None => try_rules files dirs name packed rs' end
  end.

(* file::Store::try_find(name) *)
Definition find (files : list file) (dirs : list bytes) (packed : option (list prec)) (name : bytes)
  : outcome (option reference) find_err :=
  match ref_name_partial name with
  | Err _ => Err RefnameValidation
  | Panic => Panic
  | OutOfFuel => OutOfFuel
  | Ok _ =>
      r <- try_rules files dirs name packed rules ;;
      match r with
      | Some x => Ok (Some x)
      | None =>
          if bytes_eqb name (bs "HEAD") then Ok None
          else
            let joined := name ++ slash :: bs "HEAD" in
            match ref_name_partial joined with            (* .join("HEAD").expect("HEAD is valid name") *)
            | Ok _ => find_inner files dirs (bs "remotes") joined packed false
            | _ => Panic
            end
      end
  end.
