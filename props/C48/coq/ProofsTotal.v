(* C48 — the tokenizer is total: for every input, every delegate behaviour and every date parser it returns
   Ok or Err — none of its index/slice/expect operations panics and the fuel of [navigate] suffices. *)
From Coq Require Import ZArith NArith Lia ZifyBool ZifyNat ZifyN List.
From GixV.Base Require Import Bytes BytesFacts Outcome.
From GixV.C48 Require Import Model.
Local Open Scope m_scope.

Definition good {A} (o : outcome A err) : Prop := o <> Panic /\ o <> OutOfFuel.
Definition safe {A} (m : M A) : Prop := forall s, good (snd (m s)).

Lemma good_ok {A} (a : A) : good (@Ok A err a). Proof. split; discriminate. Qed.
Lemma good_err {A} e : good (@Err A err e). Proof. split; discriminate. Qed.
#[export] Hint Resolve good_ok good_err : c48.

Lemma safe_ret {A} (a : A) : safe (ret a). Proof. intros s. apply good_ok. Qed.
Lemma safe_fail {A} e : safe (@fail A e). Proof. intros s. apply good_err. Qed.
Lemma safe_bind {A B} (m : M A) (f : A -> M B) (P : A -> Prop) :
  safe m -> (forall s s' a, m s = (s', Ok a) -> P a) -> (forall a, P a -> safe (f a)) -> safe (bind m f).
Proof.
  intros Hm HP Hf s. unfold bind. specialize (Hm s). specialize (HP s).
  destruct (m s) as [s' [a|e| |]]; cbn [snd] in *.
  - apply Hf. eapply HP. reflexivity.
  - apply good_err.
  - destruct Hm as [Hm _]. congruence.
  - destruct Hm as [_ Hm]. congruence.
Qed.
Lemma safe_bind' {A B} (m : M A) (f : A -> M B) :
  safe m -> (forall a, safe (f a)) -> safe (bind m f).
Proof. intros Hm Hf. apply (safe_bind m f (fun _ => True)); auto. Qed.
Lemma safe_lift {A B} (o : outcome A err) (f : A -> M B) :
  good o -> (forall a, o = Ok a -> safe (f a)) -> safe (bind (lift o) f).
Proof.
  intros Ho Hf. apply (safe_bind _ _ (fun a => o = Ok a)).
  - intros s. exact Ho.
  - intros s s' a H. unfold lift in H. congruence.
  - exact Hf.
Qed.
Lemma safe_dcall c : safe (dcall c). Proof. intros s. apply good_ok. Qed.
Lemma safe_must m : safe m -> safe (must m).
Proof. intros H. unfold must. apply safe_bind'; [exact H|]. intros []; [apply safe_ret|apply safe_fail]. Qed.
Lemma safe_find_ref n : safe (find_ref n).
Proof. intros s. unfold find_ref, dcall. destruct (match answers s with [] => true | a :: _ => a end); apply good_ok. Qed.
Lemma safe_disamb p h : safe (disambiguate_prefix p h).
Proof. intros s. unfold disambiguate_prefix, dcall. destruct (match answers s with [] => true | a :: _ => a end); apply good_ok. Qed.
Lemma safe_done : safe done. Proof. intros s. apply good_ok. Qed.
Lemma safe_get_done : safe get_done. Proof. intros s. apply good_ok. Qed.
Lemma safe_tlp : safe take_last_prefix. Proof. intros s. apply good_ok. Qed.
Lemma safe_tlr : safe take_last_ref. Proof. intros s. apply good_ok. Qed.
Lemma safe_slice n l : (n <= length l)%nat -> safe (slice_from n l).
Proof. intros H. unfold slice_from. apply Nat.leb_le in H. rewrite H. apply safe_ret. Qed.
#[export] Hint Resolve safe_ret safe_fail safe_dcall safe_must safe_find_ref safe_disamb safe_done safe_get_done
  safe_tlp safe_tlr : c48.

(* ---- pure parts -------------------------------------------------------------------------------- *)
Lemma parse_isize_nonempty s n : parse_isize s = Some n -> s <> [].
Proof. destruct s; [discriminate|discriminate]. Qed.
Lemma try_parse_i_good s : good (try_parse_i s).
Proof.
  unfold try_parse_i. destruct (parse_isize s) eqn:E; [|apply good_ok].
  destruct s; [discriminate|]. destruct (_ && _); [apply good_err|apply good_ok].
Qed.
Lemma try_parse_u_good s : good (try_parse_u s).
Proof.
  unfold try_parse_u. destruct (parse_usize s) eqn:E; [|apply good_ok].
  destruct s; [discriminate|]. destruct (_ && _); [apply good_err|apply good_ok].
Qed.

Lemma count_while_le p l : (count_while p l <= length l)%nat.
Proof. induction l; cbn [count_while length]; [lia|]. destruct (p a); lia. Qed.

Lemma try_parse_usize_good s : good (try_parse_usize s).
Proof.
  unfold try_parse_usize. destruct (_ || _); [apply good_err|].
  destruct (Nat.eqb _ 0); [apply good_ok|].
  pose proof (try_parse_u_good (firstn (count_while is_digit s) s)) as [H1 H2].
  destruct (try_parse_u _) as [[n|]|e| |]; try apply good_ok; try apply good_err; congruence.
Qed.
Lemma try_parse_usize_consumed s n c : try_parse_usize s = Ok (Some (n, c)) -> (c <= length s)%nat.
Proof.
  unfold try_parse_usize. destruct (_ || _); [discriminate|].
  destruct (Nat.eqb _ 0); [discriminate|].
  destruct (try_parse_u _) as [[m|]|e| |]; try discriminate.
  intros H. injection H as _ H. subst c. apply count_while_le.
Qed.

Lemma try_parse_isize_good s : good (try_parse_isize s).
Proof.
  unfold try_parse_isize. destruct (ob_is (ohd s) c_plus); [apply good_err|].
  destruct (Nat.eqb _ 0); [apply good_ok|]. destruct (_ && _); [apply good_ok|].
  match goal with |- context [try_parse_i ?x] => pose proof (try_parse_i_good x) as [H1 H2]; destruct (try_parse_i x) as [[n|]|e| |] end;
    try apply good_ok; try apply good_err; congruence.
Qed.

Lemma ohd_firstn n s : (1 <= n)%nat -> ohd (firstn n s) = ohd s.
Proof. destruct n; [lia|]. destruct s; reflexivity. Qed.

(* sign facts: the number has the sign the flag says *)
Lemma try_parse_isize_facts s n neg c : try_parse_isize s = Ok (Some (n, neg, c)) ->
  (c <= length s)%nat /\ (neg = true -> (n <= 0)%Z) /\ (neg = false -> (0 <= n)%Z).
Proof.
  unfold try_parse_isize. destruct (ob_is (ohd s) c_plus) eqn:Eplus; [discriminate|].
  set (nd := count_while _ s). pose proof (count_while_le (fun b => is_digit b || beqb b c_minus) s) as Hle.
  fold nd in Hle. destruct (Nat.eqb nd 0) eqn:E0; [discriminate|].
  destruct (Nat.eqb nd 1 && ob_is (ohd s) c_minus) eqn:E1.
  - intros H. injection H as <- <- <-. apply andb_prop in E1 as [_ E1]. rewrite E1.
    split; [exact Hle|]. split; intros; [lia|discriminate].
  - destruct (try_parse_i (firstn nd s)) as [[m|]|e| |] eqn:Et; try discriminate.
    intros H. injection H as <- <- <-. split; [exact Hle|].
    apply Nat.eqb_neq in E0.
    unfold try_parse_i in Et. destruct (parse_isize (firstn nd s)) as [z|] eqn:Ep; [|discriminate].
    assert (Hhd : ohd (firstn nd s) = ohd s) by (apply ohd_firstn; lia).
    destruct (firstn nd s) as [|h t] eqn:Ef; [discriminate|].
    destruct (Z.eqb z 0 && beqb h c_minus); [discriminate|]. injection Et as ->.
    cbn [ohd] in Hhd. rewrite <- Hhd in *. cbn [ob_is] in *.
    unfold parse_isize in Ep. destruct (beqb h c_minus) eqn:Em.
    + destruct (dec_to_N t) as [k|]; [|discriminate]. destruct (N.leb k _); [|discriminate].
      injection Ep as <-. split; intros; [lia|discriminate].
    + rewrite Eplus in Ep. destruct (dec_to_N (h :: t)) as [k|]; [|discriminate]. destruct (N.leb k _); [|discriminate].
      injection Ep as <-. split; intros; [discriminate|lia].
Qed.

Lemma parens_go_good whole : forall l idx open ign acc, good (parens_go l idx open ign acc whole).
Proof.
  induction l as [|b r IH]; intros; cbn [parens_go]; [apply good_err|].
  destruct (beqb b c_lbrace); [|destruct (beqb b c_rbrace); [|destruct (beqb b c_bslash)]];
    repeat match goal with |- context [if ?c then _ else _] => destruct c end; try apply good_ok; apply IH.
Qed.
Lemma parens_good s : good (parens s).
Proof. unfold parens. destruct (ob_is _ _); [apply parens_go_good|apply good_ok]. Qed.

Lemma parens_go_consumed whole : forall l idx open ign acc inner rest c,
  parens_go l idx open ign acc whole = Ok (Some (inner, rest, c)) -> (c + length rest = idx + length l)%nat.
Proof.
  induction l as [|b r IH]; intros idx open ign acc inner rest c; cbn [parens_go]; [discriminate|].
  destruct (beqb b c_lbrace); [|destruct (beqb b c_rbrace); [|destruct (beqb b c_bslash)]];
    repeat match goal with |- context [if ?c then _ else _] => destruct c end;
    intros H; try (injection H as <- <- <-; cbn [length]; lia); apply IH in H; cbn [length]; lia.
Qed.
Lemma parens_consumed s inner rest c : parens s = Ok (Some (inner, rest, c)) -> (c <= length s)%nat.
Proof.
  unfold parens. destruct (ob_is _ _); [|discriminate]. intros H. apply parens_go_consumed in H. lia.
Qed.

Lemma parse_regex_prefix_good s : good (parse_regex_prefix s).
Proof.
  unfold parse_regex_prefix. destruct s as [|b r]; [apply good_ok|].
  destruct (beqb b c_bang); [|apply good_ok]. destruct (ob_is _ c_bang); [apply good_ok|].
  destruct (ob_is _ c_minus); [apply good_ok|apply good_err].
Qed.

(* ---- navigate ----------------------------------------------------------------------------------- *)
Section D.
Variable date : bytes -> option bytes.

Lemma nth_error_lt {A} (l : list A) n x : nth_error l n = Some x -> (n < length l)%nat.
Proof. intros H. apply nth_error_Some. congruence. Qed.

Ltac t :=
  repeat first
    [ apply safe_ret | apply safe_fail | apply safe_must | apply safe_dcall | apply safe_done
    | apply safe_find_ref | apply safe_disamb
    | apply safe_bind'; [|intros] ].

Lemma safe_navigate : forall fuel input cursor,
  (cursor <= length input)%nat -> (length input - cursor < fuel)%nat -> safe (navigate fuel input cursor).
Proof.
  induction fuel as [|fuel IH]; intros input cursor Hc Hf; [lia|].
  cbn [navigate]. destruct (nth_error input cursor) as [b|] eqn:En; [|apply safe_ret].
  apply nth_error_lt in En.
  assert (Hpast : forall k, (k <= length (skipn (S cursor) input))%nat -> (S cursor + k <= length input)%nat).
  { intros k. rewrite skipn_length. lia. }
  assert (Hrec : forall k, (S cursor + k <= length input)%nat -> safe (navigate fuel input (S cursor + k))).
  { intros k Hk. apply IH; lia. }
  destruct (beqb b c_tilde).
  { apply safe_lift; [apply try_parse_usize_good|]. intros r Hr.
    destruct r as [[number consumed]|].
    - apply try_parse_usize_consumed in Hr. apply safe_bind'; [destruct (N.eqb number 0); t|intros _].
      apply Hrec. auto.
    - apply safe_bind'; [destruct (N.eqb 1 0); t|intros _]. apply Hrec. lia. }
  destruct (beqb b c_caret).
  { apply safe_lift; [apply try_parse_isize_good|]. intros r Hr.
    destruct r as [[[number negative] consumed]|].
    - apply try_parse_isize_facts in Hr as (Hcons & Hneg & Hpos). apply Hpast in Hcons.
      destruct negative.
      + specialize (Hneg eq_refl).
        apply safe_bind'; [|intros _].
        { destruct (Z.eqb _ _); [apply safe_fail|]. destruct (Z.ltb 0 number) eqn:E; [lia|]. t. }
        apply safe_bind'; [t|intros _].
        apply safe_bind'; [apply safe_tlp|]. intros lp.
        apply safe_bind'; [|intros _].
        { destruct lp as [[p h]|]; [t|].
          apply safe_bind'; [apply safe_tlr|]. intros [name|]; [t|].
          apply safe_bind'; [apply safe_slice; lia|intros; apply safe_fail]. }
        apply safe_bind'; [apply safe_done|intros _]. apply safe_slice. lia.
      + specialize (Hpos eq_refl).
        apply safe_bind'; [|intros _; apply Hrec; exact Hcons].
        destruct (Z.eqb number 0); [t|]. destruct (Z.ltb number 0) eqn:E; [lia|]. t.
    - apply safe_lift; [apply parens_good|]. intros p Hp.
      destruct p as [[[kind rest] consumed]|].
      + apply parens_consumed in Hp. apply Hpast in Hp.
        repeat match goal with |- safe (if ?c then _ else _) => destruct c end;
          try (apply safe_bind'; [t|intros _; apply Hrec; exact Hp]); try apply safe_fail.
        apply safe_lift; [apply parse_regex_prefix_good|]. intros rn _.
        apply safe_bind'; [destruct (is_nil (fst rn)); t|intros _; apply Hrec; exact Hp].
      + destruct (ob_is (ohd (skipn (S cursor) input)) c_bang) eqn:E1.
        { assert ((S cursor + 1 <= length input)%nat).
          { apply Hpast. destruct (skipn (S cursor) input); [discriminate|cbn [length]; lia]. }
          t. apply safe_slice. lia. }
        destruct (ob_is (ohd (skipn (S cursor) input)) c_at) eqn:E2.
        { assert ((S cursor + 1 <= length input)%nat).
          { apply Hpast. destruct (skipn (S cursor) input); [discriminate|cbn [length]; lia]. }
          t. apply safe_slice. lia. }
        apply safe_bind'; [t|intros _]. replace (S cursor) with (S cursor + 0)%nat by lia. apply Hrec. lia. }
  destruct (beqb b c_colon); [t|]. apply safe_slice. lia.
Qed.

Lemma safe_at_braces input name sep_pos has_ref :
  (sep_pos < length input)%nat -> safe (at_braces date input name sep_pos has_ref).
Proof.
  intros H. unfold at_braces. apply safe_bind'; [apply safe_slice; lia|intros past].
  apply safe_lift; [apply parens_good|]. intros p _. destruct p as [[[nav rest] c]|]; [|apply safe_fail].
  apply safe_lift; [apply try_parse_i_good|]. intros n _.
  destruct n as [n|].
  - destruct (Z.ltb n 0); [destruct (is_nil name)|destruct has_ref]; t.
  - destruct (sibling_parse nav); [destruct has_ref; t|]. destruct has_ref; [|t]. destruct (date nav); t.
Qed.

(* ---- the separator search: what a surviving hex counter says about the scanned bytes --------- *)
Definition nameb (b : byte) : bool := is_hexdigit b || beqb b c_at || beqb b c_dot.

Lemma scan_hex : forall l ofs pos chc sp k, scan l ofs pos chc = (sp, Some k) ->
  (match sp with Some p => (ofs + pos <= p)%nat | None => True end) /\
  forallb nameb (firstn (match sp with Some p => p - (ofs + pos) | None => length l end) l) = true.
Proof.
  induction l as [|b rest IH]; intros ofs pos chc sp k; cbn [scan].
  { intros H. injection H as <- _. split; [exact I|reflexivity]. }
  destruct (beqb b c_at) eqn:Eat.
  { match goal with |- context [if ?c then (Some _, chc) else _] => destruct c end.
    - intros H. injection H as <- _. split; [lia|]. rewrite Nat.sub_diag. reflexivity.
    - intros H. apply IH in H as [H1 H2]. split.
      + destruct sp; [lia|exact I].
      + destruct sp as [p|].
        * replace (p - (ofs + pos))%nat with (S (p - (ofs + S pos))) by lia. cbn [firstn forallb].
          rewrite H2. unfold nameb. rewrite Eat. rewrite orb_true_r. reflexivity.
        * cbn [length firstn forallb]. rewrite H2. unfold nameb. rewrite Eat. rewrite orb_true_r. reflexivity. }
  destruct (is_sep b) eqn:Esep.
  { destruct (negb (beqb b c_dot) || ob_is (ohd rest) c_dot) eqn:Ed.
    - intros H. injection H as <- _. split; [lia|]. rewrite Nat.sub_diag. reflexivity.
    - apply orb_false_iff in Ed as [Ed _]. apply negb_false_iff in Ed.
      intros H. apply IH in H as [H1 H2]. split.
      + destruct sp; [lia|exact I].
      + destruct sp as [p|].
        * replace (p - (ofs + pos))%nat with (S (p - (ofs + pos + 1 + 0))) by lia. cbn [firstn forallb].
          rewrite H2. unfold nameb. rewrite Ed. rewrite orb_true_r. reflexivity.
        * cbn [length firstn forallb]. rewrite H2. unfold nameb. rewrite Ed. rewrite orb_true_r. reflexivity. }
  intros H. destruct chc as [n|].
  - destruct (is_hexdigit b) eqn:Eh.
    + apply IH in H as [H1 H2]. split.
      * destruct sp; [lia|exact I].
      * destruct sp as [p|].
        -- replace (p - (ofs + pos))%nat with (S (p - (ofs + S pos))) by lia. cbn [firstn forallb].
           rewrite H2. unfold nameb. rewrite Eh. reflexivity.
        -- cbn [length firstn forallb]. rewrite H2. unfold nameb. rewrite Eh. reflexivity.
    + exfalso. clear IH. revert H. generalize (S pos). generalize ofs. clear.
      induction rest as [|c r IHr]; intros ofs pos; cbn [scan]; [discriminate|].
      destruct (beqb c c_at).
      { match goal with |- context [if ?c then (Some _, None) else _] => destruct c end; [discriminate|apply IHr]. }
      destruct (is_sep c); [|apply IHr].
      destruct (_ || _); [discriminate|apply IHr].
  - exfalso. clear IH. revert H. generalize (S pos). generalize ofs. clear.
    induction rest as [|c r IHr]; intros ofs pos; cbn [scan]; [discriminate|].
    destruct (beqb c c_at).
    { match goal with |- context [if ?c then (Some _, None) else _] => destruct c end; [discriminate|apply IHr]. }
    destruct (is_sep c); [|apply IHr].
    destruct (_ || _); [discriminate|apply IHr].
Qed.

Lemma ascii_utf8 : forall l, forallb (fun b => N.ltb (b2N b) 128) l = true -> utf8_valid l = true.
Proof.
  induction l as [|a r IH]; [reflexivity|]. cbn [forallb]. intros H. apply andb_prop in H as [H1 H2].
  cbn [utf8_valid]. rewrite H1. auto.
Qed.
Lemma nameb_ascii : forall b, nameb b = true -> N.ltb (b2N b) 128 = true.
Proof.
  assert (H : forall b, implb (nameb b) (N.ltb (b2N b) 128) = true) by (apply forall_bytes; vm_compute; reflexivity).
  intros b Hb. specialize (H b). rewrite Hb in H. exact H.
Qed.
Lemma hex_nameb : forall b, is_hexdigit b = true -> nameb b = true.
Proof. intros b H. unfold nameb. rewrite H. reflexivity. Qed.
Lemma forallb_impl {A} (p q : A -> bool) l : (forall x, p x = true -> q x = true) -> forallb p l = true -> forallb q l = true.
Proof. intros H. induction l; cbn [forallb]; [auto|]. intros E. apply andb_prop in E as [E1 E2]. rewrite H, IHl; auto. Qed.
Lemma nameb_utf8 l : forallb nameb l = true -> utf8_valid l = true.
Proof. intros H. apply ascii_utf8. eapply forallb_impl; [|exact H]. apply nameb_ascii. Qed.

Lemma safe_try_set_prefix name h : forallb nameb name = true -> safe (try_set_prefix name h).
Proof.
  intros H. unfold try_set_prefix. rewrite (nameb_utf8 _ H). destruct (prefix_from_hex name); [apply safe_disamb|apply safe_ret].
Qed.

Lemma find_g_hex : forall rt c lft, find_g rt = Some (c, lft) -> forallb is_hexdigit c = true.
Proof.
  induction rt as [|t more IH]; intros c lft; cbn [find_g]; [discriminate|].
  destruct t as [|b rest]; [apply IH|].
  destruct (beqb b c_g && forallb is_hexdigit rest) eqn:E; [|apply IH].
  intros H. injection H as <- _. apply andb_prop in E as [_ E]. exact E.
Qed.
Lemma long_describe_hex name c h : long_describe_prefix name = Some (c, h) -> forallb is_hexdigit c = true.
Proof.
  unfold long_describe_prefix. destruct (find_g _) as [[cand lft]|] eqn:E; [|discriminate].
  destruct (existsb _ lft); [|discriminate]. intros H. injection H as <- _. eapply find_g_hex. exact E.
Qed.
Lemma short_describe_hex name c : short_describe_prefix name = Some c -> forallb is_hexdigit c = true.
Proof.
  unfold short_describe_prefix. destruct (split_on c_minus name) as [|t0 rest]; [discriminate|].
  destruct (Nat.eqb _ 1); [|discriminate]. destruct (forallb is_hexdigit t0) eqn:E; [|discriminate].
  intros H. injection H as <-. exact E.
Qed.

Lemma safe_revision input : safe (revision date input).
Proof.
  unfold revision, colon_form.
  match goal with |- safe (match ?c with Some m => m | None => ?rest end) => set (colon := c); set (R := rest) end.
  assert (Hcolon : match colon with Some m => safe m | None => True end).
  { subst colon. destruct input as [|c t]; [exact I|]. destruct (beqb c c_colon); [|exact I].
    destruct t as [|c1 t1]; [apply safe_fail|]. destruct (beqb c1 c_slash).
    - destruct t1; [apply safe_fail|]. apply safe_lift; [apply parse_regex_prefix_good|]. intros rn _.
      destruct (is_nil (fst rn)); t.
    - destruct t1 as [|c2 path]; [t|].
      repeat match goal with |- context [if ?c then _ else _] => destruct c end; t. }
  destruct colon as [m|]; [exact Hcolon|]. subst R. clear Hcolon.
  destruct (scan input 0 0 (Some 0%nat)) as [sep_pos chc] eqn:Escan.
  set (plen := match sep_pos with Some p => p | None => length input end).
  set (name := firstn plen input).
  set (sep := match sep_pos with Some p => nth_error input p | None => None end).
  (* everything after the anchor *)
  assert (Hafter : forall sp s hr, (match sp with Some p => s = nth_error input p | None => s = None end) ->
    safe (rest <-
        (if ob_is s c_at then at_braces date input name (match sp with Some p => p | None => length input end) hr
         else if (match sp with Some O => true | _ => false end) && ob_is s c_tilde then fail MissingTildeAnchor
         else ret (skipn (match sp with Some p => p | None => length input end) input)) ;;
      navigate (S (length rest)) rest 0)).
  { intros sp s hr Hs. apply safe_bind'; [|intros rest; apply safe_navigate; lia].
    destruct (ob_is s c_at) eqn:Eat.
    - destruct sp as [p|]; [|subst s; discriminate]. apply safe_at_braces. subst s.
      destruct (nth_error input p) eqn:En; [|discriminate]. eapply nth_error_lt. exact En.
    - destruct (_ && _); t. }
  match goal with |- safe (if ?c then _ else _) => destruct c eqn:Ehead end.
  { apply safe_bind'; [t|intros _].
    destruct sep_pos as [p|].
    - destruct (nth_error input (S p)) as [c0|] eqn:En; [|apply safe_ret].
      apply (Hafter (Some (S p)) (Some c0) true). symmetry. exact En.
    - apply safe_ret. }
  assert (Hname : forall k, chc = Some k -> forallb nameb name = true).
  { intros k ->. apply scan_hex in Escan as [_ H]. subst name plen. destruct sep_pos as [p|]; rewrite ?Nat.sub_0_r in H; exact H. }
  apply safe_bind'.
  - unfold or_else. apply safe_bind'.
    + destruct chc as [k|]; [|apply safe_ret].
      destruct (Nat.leb 4 k); [|apply safe_ret]. apply safe_try_set_prefix. eapply Hname. reflexivity.
    + intros [|]; [apply safe_ret|]. apply safe_bind'; [|intros [|]; apply safe_ret].
      destruct (long_describe_prefix name) as [[c h]|] eqn:El.
      * apply safe_try_set_prefix. eapply forallb_impl; [apply hex_nameb|]. eapply long_describe_hex. exact El.
      * destruct (short_describe_prefix name) as [c|] eqn:Es; [|apply safe_ret].
        apply safe_try_set_prefix. eapply forallb_impl; [apply hex_nameb|]. eapply short_describe_hex. exact Es.
  - intros r. apply safe_bind'.
    + destruct r; [apply safe_ret|]. destruct (is_nil name); t.
    + intros hr. apply (Hafter sep_pos sep hr). subst sep. destruct sep_pos; reflexivity.
Qed.

Lemma safe_parse_m input : safe (parse_m date input).
Proof.
  unfold parse_m. apply safe_bind'.
  - destruct (ob_is (ohd input) c_caret) eqn:E; [|apply safe_ret]. destruct input; [discriminate|]. t.
  - intros [inp pk]. apply safe_bind'; [apply safe_revision|intros rest].
    apply safe_bind'; [apply safe_get_done|intros d]. destruct d.
    + destruct (is_nil rest); t.
    + apply safe_bind'.
      * destruct (try_range rest) as [[r k]|]; [|apply safe_ret]. destruct pk; [apply safe_fail|].
        apply safe_bind'; [destruct (negb _); t|intros _]. apply safe_bind'; [t|intros _].
        apply safe_bind'; [apply safe_revision|intros rem]. apply safe_bind'; [destruct (negb _); t|intros _; t].
      * intros i. destruct (is_nil i); t.
Qed.

Lemma L_tokenizer_total input ans :
  snd (parse date input ans) <> Panic /\ snd (parse date input ans) <> OutOfFuel.
Proof.
  unfold parse. pose proof (safe_parse_m input (init ans)) as H.
  destruct (parse_m date input (init ans)) as [s r]. exact H.
Qed.
End D.
