(* C48 — decimal rendering facts (copied from props/C01/coq/ProofsDec.v, which proves them for Base.Bytes.N_to_dec): dec_to_N inverts N_to_dec *)
From Coq Require Import ZArith NArith Lia ZifyBool ZifyNat ZifyN List.
From GixV.Base Require Import Bytes BytesFacts Outcome.
Definition len (b : bytes) : N := N.of_nat (length b).
Ltac Zify.zify_post_hook ::= Z.div_mod_to_equations.
Local Open Scope N_scope.

Lemma len_app a b : len (a ++ b) = len a + len b.
Proof. unfold len. rewrite app_length. lia. Qed.
Lemma len_cons x a : len (x :: a) = 1 + len a.
Proof. unfold len. cbn [length]. lia. Qed.
Lemma len_nil : len [] = 0.
Proof. reflexivity. Qed.

Lemma pow10_succ k : 10 ^ N.succ k = 10 * 10 ^ k.
Proof. apply N.pow_succ_r'. Qed.

(* [k] digits: n < 10^k and (k = 1 or 10^(k-1) <= n) *)
Lemma N_to_dec_fuel_length : forall (k : nat) fuel n acc,
  (1 <= k <= fuel)%nat -> n < 10 ^ N.of_nat k -> (k = 1%nat \/ 10 ^ (N.of_nat k - 1) <= n) ->
  length (N_to_dec_fuel fuel n acc) = (k + length acc)%nat.
Proof.
  induction k as [|k IH]; intros fuel n acc Hk Hlt Hge; [lia|].
  destruct fuel as [|fuel]; [lia|].
  cbn [N_to_dec_fuel].
  destruct (N.eqb_spec (n / 10) 0) as [Hq|Hq].
  - cbn [length].
    assert (n < 10) by lia.
    destruct Hge as [->|Hge]; [reflexivity|].
    destruct k as [|k]; [reflexivity|].
    exfalso.
    replace (N.of_nat (S (S k)) - 1) with (N.succ (N.of_nat k)) in Hge by lia.
    rewrite pow10_succ in Hge.
    assert (1 <= 10 ^ N.of_nat k) by (pose proof (N.pow_nonzero 10 (N.of_nat k)); lia).
    lia.
  - destruct k as [|k].
    + exfalso. change (N.of_nat 1) with 1 in Hlt. change (10 ^ 1) with 10 in Hlt. lia.
    + rewrite (IH fuel (n / 10) (N2b (48 + n mod 10) :: acc)).
      * cbn [length]. lia.
      * lia.
      * replace (N.of_nat (S (S k))) with (N.succ (N.of_nat (S k))) in Hlt by lia.
        rewrite pow10_succ in Hlt. lia.
      * destruct Hge as [Hge|Hge]; [lia|].
        destruct k as [|k]; [left; reflexivity|right].
        replace (N.of_nat (S (S (S k))) - 1) with (N.succ (N.of_nat (S (S k)) - 1)) in Hge by lia.
        rewrite pow10_succ in Hge. lia.
Qed.

Lemma N_to_dec_length (k : nat) n :
  (1 <= k)%nat -> n < 10 ^ N.of_nat k -> (k = 1%nat \/ 10 ^ (N.of_nat k - 1) <= n) ->
  length (N_to_dec n) = k.
Proof.
  intros Hk Hlt Hge. unfold N_to_dec.
  rewrite (N_to_dec_fuel_length k); [cbn [length]; lia | | exact Hlt | exact Hge].
  split; [exact Hk|].
  destruct Hge as [->|Hge]; [lia|].
  assert (N.of_nat k - 1 <= N.log2 n).
  { rewrite <- (N.log2_pow2 (N.of_nat k - 1)) by lia.
    apply N.log2_le_mono. etransitivity; [|exact Hge].
    apply N.pow_le_mono_l. lia. }
  lia.
Qed.

(* every N has some digit count *)
Lemma digits_exist n : exists k : nat, (1 <= k)%nat /\ n < 10 ^ N.of_nat k /\ (k = 1%nat \/ 10 ^ (N.of_nat k - 1) <= n).
Proof.
  induction n as [n IH] using (well_founded_induction N.lt_wf_0).
  destruct (N.ltb_spec n 10) as [Hs|Hs].
  - exists 1%nat. split; [lia|]. split; [exact Hs|left; reflexivity].
  - destruct (IH (n / 10)) as (k & Hk & Hlt & Hge); [lia|].
    exists (S k). split; [lia|]. split.
    + replace (N.of_nat (S k)) with (N.succ (N.of_nat k)) by lia. rewrite pow10_succ. lia.
    + right. replace (N.of_nat (S k) - 1) with (N.of_nat k) by lia.
      destruct Hge as [->|Hge]; [change (10 ^ N.of_nat 1) with 10; exact Hs|].
      replace (N.of_nat k) with (N.succ (N.of_nat k - 1)) by lia. rewrite pow10_succ. lia.
Qed.

(* ---- dec_to_N (N_to_dec n) = n ------------------------------------------------------------ *)

Lemma digit_ok d : d < 10 -> is_digit (N2b (48 + d)) = true /\ b2N (N2b (48 + d)) - 48 = d.
Proof.
  intros H. unfold is_digit. rewrite b2N_N2b_small by lia. split; lia.
Qed.

Lemma dec_to_N_acc_app a : forall acc b,
  dec_to_N_acc (a ++ b) acc =
  match dec_to_N_acc a acc with Some v => dec_to_N_acc b v | None => None end.
Proof.
  induction a as [|x a IH]; intros acc b; cbn [app dec_to_N_acc]; [reflexivity|].
  destruct (is_digit x); [apply IH|reflexivity].
Qed.

(* the digits produced in front of [acc] read back as n when followed by the value of acc *)
Lemma N_to_dec_fuel_value : forall fuel n acc,
  n < 2 ^ N.of_nat fuel -> (0 < fuel)%nat ->
  exists ds, N_to_dec_fuel fuel n acc = ds ++ acc /\ ds <> [] /\
             forall a0, dec_to_N_acc ds a0 = Some (a0 * 10 ^ N.of_nat (length ds) + n).
Proof.
  induction fuel as [|fuel IH]; intros n acc Hn Hf; [lia|].
  cbn [N_to_dec_fuel].
  destruct (digit_ok (n mod 10)) as [Hd Hv]; [lia|].
  destruct (N.eqb_spec (n / 10) 0) as [Hq|Hq].
  - exists [N2b (48 + n mod 10)]. split; [reflexivity|]. split; [discriminate|].
    intros a0. cbn [dec_to_N_acc length]. rewrite Hd, Hv. f_equal.
    change (10 ^ N.of_nat 1) with 10. lia.
  - destruct fuel as [|fuel].
    + exfalso. change (2 ^ N.of_nat 1) with 2 in Hn. lia.
    + destruct (IH (n / 10) (N2b (48 + n mod 10) :: acc)) as (ds & E & Hne & Hval).
      * replace (N.of_nat (S (S fuel))) with (N.succ (N.of_nat (S fuel))) in Hn by lia.
        rewrite N.pow_succ_r' in Hn. lia.
      * lia.
      * exists (ds ++ [N2b (48 + n mod 10)]). split.
        { rewrite E. rewrite <- app_assoc. reflexivity. }
        split. { destruct ds; discriminate. }
        intros a0. rewrite dec_to_N_acc_app, Hval. cbn [dec_to_N_acc]. rewrite Hd, Hv.
        f_equal. rewrite app_length. cbn [length].
        replace (N.of_nat (length ds + 1)) with (N.succ (N.of_nat (length ds))) by lia.
        rewrite pow10_succ. lia.
Qed.

Lemma N_to_dec_value n :
  N_to_dec n <> [] /\ forall rest a0,
    dec_to_N_acc (N_to_dec n ++ rest) a0 =
    dec_to_N_acc rest (a0 * 10 ^ N.of_nat (length (N_to_dec n)) + n).
Proof.
  unfold N_to_dec.
  destruct (N_to_dec_fuel_value (S (N.to_nat (N.log2 n))) n []) as (ds & E & Hne & Hval).
  - replace (N.of_nat (S (N.to_nat (N.log2 n)))) with (N.succ (N.log2 n)) by lia.
    destruct (N.eq_dec n 0) as [->|Hz]; [reflexivity|].
    apply N.log2_spec. lia.
  - lia.
  - rewrite E, app_nil_r. split; [exact Hne|].
    intros rest a0. rewrite dec_to_N_acc_app, Hval. reflexivity.
Qed.

Lemma dec_to_N_N_to_dec n : dec_to_N (N_to_dec n) = Some n.
Proof.
  destruct (N_to_dec_value n) as [Hne Hval].
  unfold dec_to_N. specialize (Hval [] 0). rewrite app_nil_r in Hval.
  destruct (N_to_dec n) as [|d ds] eqn:E; [congruence|].
  change (dec_to_N_acc (d :: ds) 0 = Some n). rewrite Hval.
  cbn [dec_to_N_acc]. f_equal.
Qed.

Lemma N_to_dec_all_digits n : forallb is_digit (N_to_dec n) = true.
Proof.
  unfold N_to_dec. generalize (S (N.to_nat (N.log2 n))) as fuel.
  assert (G : forall fuel n acc, forallb is_digit acc = true -> forallb is_digit (N_to_dec_fuel fuel n acc) = true).
  { induction fuel as [|fuel IH]; intros m acc Hacc; cbn [N_to_dec_fuel]; [exact Hacc|].
    destruct (digit_ok (m mod 10)) as [Hd _]; [lia|].
    destruct (N.eqb (m / 10) 0).
    - cbn [forallb]. rewrite Hd, Hacc. reflexivity.
    - apply IH. cbn [forallb]. rewrite Hd, Hacc. reflexivity. }
  intros fuel. apply G. reflexivity.
Qed.
