(* C48 — transcript printer: the same observable string the Rust harness prints for a case.
   case:  tok <spec> <answers: ascii 0/1 per delegate call> (<nav> <date result>)*
          rp  <repo> <spec>                      (tokenizer transcript with an all-accepting delegate)
   <date result> is what gix_date::parse gave the generator for <nav>:  "E" (error), "R" (relative to now),
   or "<seconds>:<offset>". A nav that is not in the table prints as "unknown" (never happens for generated cases). *)
From GixV.Base Require Import Bytes Outcome.
From GixV.C48 Require Import Model.
Local Open Scope N_scope.

Definition hx (b : bytes) : bytes := match b with [] => bs "-" | _ => hex_encode b end.
Definition kind_name (k : kind) : bytes :=
  match k with
  | IncludeReachable => bs "IncludeReachable" | ExcludeReachable => bs "ExcludeReachable"
  | RangeBetween => bs "RangeBetween" | ReachableToMergeBase => bs "ReachableToMergeBase"
  | IncludeReachableFromParents => bs "IncludeReachableFromParents"
  | ExcludeReachableFromParents => bs "ExcludeReachableFromParents"
  end.
Definition okind_name (k : okind) : bytes :=
  match k with KCommit => bs "commit" | KTag => bs "tag" | KTree => bs "tree" | KBlob => bs "blob" end.
Definition show_hint (h : hint) : bytes :=
  match h with
  | HNone => bs "-" | HMustBeCommit => bs "c"
  | HDescribe r g => bs "d:" ++ hx r ++ bs ":" ++ N_to_dec g
  end.
Definition show_call (c : call) : bytes :=
  match c with
  | CFindRef n => bs "ref:" ++ hx n
  | CPrefix p h => bs "pfx:" ++ p ++ bs ":" ++ show_hint h
  | CReflogEntry n => bs "rl:" ++ N_to_dec n
  | CReflogDate t => bs "rd:" ++ t
  | CNth n => bs "nth:" ++ N_to_dec n
  | CSibling p => if p then bs "sib:p" else bs "sib:u"
  | CAncestor n => bs "anc:" ++ N_to_dec n
  | CParent n => bs "par:" ++ N_to_dec n
  | CPeelKind k => bs "peel:" ++ okind_name k
  | CPeelValid => bs "peel:obj"
  | CPeelRec => bs "peel:rec"
  | CPeelPath p => bs "path:" ++ hx p
  | CFind r n => bs "find:" ++ hx r ++ bs ":" ++ bool_to_bytes n
  | CIndex p s => bs "idx:" ++ hx p ++ bs ":" ++ N_to_dec s
  | CKind k => bs "kind:" ++ kind_name k
  | CDone => bs "done"
  end.
Definition show_err (e : err) : bytes :=
  match e with
  | MissingTildeAnchor => bs "MissingTildeAnchor" | MissingColonSuffix => bs "MissingColonSuffix"
  | EmptyTopLevelRegex => bs "EmptyTopLevelRegex"
  | UnspecifiedRegexModifier b => bs "UnspecifiedRegexModifier " ++ hx b
  | InvalidObject b => bs "InvalidObject " ++ hx b
  | TimeErr b => bs "Time " ++ hx b
  | SiblingBranchNeedsBranchName b => bs "SiblingBranchNeedsBranchName " ++ hx b
  | ReflogLookupNeedsRefName b => bs "ReflogLookupNeedsRefName " ++ hx b
  | RefnameNeedsPositiveReflogEntries b => bs "RefnameNeedsPositiveReflogEntries " ++ hx b
  | SignedNumber b => bs "SignedNumber " ++ hx b
  | InvalidNumber b => bs "InvalidNumber " ++ hx b
  | NegativeZero b => bs "NegativeZero " ++ hx b
  | UnclosedBracePair b => bs "UnclosedBracePair " ++ hx b
  | KindSetTwice a b => bs "KindSetTwice " ++ kind_name a ++ bs " " ++ kind_name b
  | AtNeedsCurlyBrackets b => bs "AtNeedsCurlyBrackets " ++ hx b
  | UnconsumedInput b => bs "UnconsumedInput " ++ hx b
  | DelegateErr => bs "Delegate"
  end.

Fixpoint show_trace (t : list (call * bool)) : bytes :=
  match t with
  | [] => []
  | (c, a) :: r => show_call c ++ (if a then [] else bs "!") ++ bs ";" ++ show_trace r
  end.

Definition show (r : list (call * bool) * outcome unit err) : bytes :=
  show_trace (fst r) ++ bs "|" ++
  match snd r with
  | Ok _ => bs "ok"
  | Err e => bs "err " ++ show_err e
  | Panic => bs "PANIC"
  | OutOfFuel => bs "HANG"
  end.

Fixpoint lookup (tbl : list bytes) (k : bytes) : option bytes :=
  match tbl with
  | k' :: v :: r => if bytes_eqb k k' then (if bytes_eqb v (bs "E") then None else Some v) else lookup r k
  | _ => Some (bs "unknown")
  end.

Definition answers_of (a : bytes) : list bool := map (fun b => negb (beqb b x30)) a.

Definition run_model (fs : list bytes) : bytes :=
  let op := nth_field 0 fs in
  if bytes_eqb op (bs "tok") then
    show (parse (lookup (skipn 3 fs)) (nth_field 1 fs) (answers_of (nth_field 2 fs)))
  else if bytes_eqb op (bs "rp") then
    show (parse (lookup (skipn 3 fs)) (nth_field 2 fs) [])
  else bs "?".

Definition run (fs : list bytes) : bytes :=
  match fs with
  | _mode :: rest => run_model rest
  | [] => bs "?"
  end.
