(* C48 — printed navigation suffixes tokenize back to exactly their calls (all n, all suffix lists). *)
From Coq Require Import ZArith NArith Lia ZifyBool ZifyNat ZifyN List.
From GixV.Base Require Import Bytes BytesFacts Outcome.
From GixV.C48 Require Import Model Spec ProofsDec.
Local Open Scope m_scope.

Lemma nth_error_app_len {A} (pre : list A) b l : nth_error (pre ++ b :: l) (length pre) = Some b.
Proof. rewrite nth_error_app2 by lia. rewrite Nat.sub_diag. reflexivity. Qed.
Lemma skipn_app_len {A} (pre : list A) l : skipn (length pre) (pre ++ l) = l.
Proof. rewrite skipn_app, Nat.sub_diag, skipn_all. reflexivity. Qed.
Lemma skipn_S_app_len {A} (pre : list A) b l : skipn (S (length pre)) (pre ++ b :: l) = l.
Proof.
  replace (S (length pre)) with (length (pre ++ [b])) by (rewrite app_length; cbn [length]; lia).
  replace (pre ++ b :: l) with ((pre ++ [b]) ++ l) by (rewrite <- app_assoc; reflexivity).
  apply skipn_app_len.
Qed.

(* ---- numbers ------------------------------------------------------------------------------------ *)
Definition nd_start (more : bytes) : Prop :=
  match more with [] => True | b :: _ => is_digit b = false /\ b <> c_minus end.

Lemma N_to_dec_nonempty n : N_to_dec n <> [].
Proof. intros E. pose proof (dec_to_N_N_to_dec n) as H. rewrite E in H. discriminate. Qed.

Lemma count_while_digits p l more :
  forallb p l = true -> match more with [] => True | b :: _ => p b = false end ->
  count_while p (l ++ more) = length l.
Proof.
  induction l as [|a l IH]; cbn [forallb app count_while length]; intros H Hm.
  - destruct more; [reflexivity|]. cbn [count_while]. rewrite Hm. reflexivity.
  - apply andb_prop in H as [H1 H2]. rewrite H1. f_equal. auto.
Qed.
Lemma firstn_app_len {A} (l m : list A) : firstn (length l) (l ++ m) = l.
Proof. rewrite firstn_app, Nat.sub_diag, firstn_all. cbn [firstn]. apply app_nil_r. Qed.

Lemma digit_not_sign : forall b, is_digit b = true -> beqb b c_minus = false /\ beqb b c_plus = false.
Proof.
  assert (H : forall b, implb (is_digit b) (negb (beqb b c_minus) && negb (beqb b c_plus)) = true)
    by (apply forall_bytes; vm_compute; reflexivity).
  intros b Hb. specialize (H b). rewrite Hb in H. cbn [implb] in H. apply andb_prop in H as [H1 H2].
  split; apply negb_true_iff; assumption.
Qed.

Lemma try_parse_usize_printed k more : (1 <= k <= ISIZE_MAX)%N -> nd_start more ->
  try_parse_usize (N_to_dec k ++ more) = Ok (Some (k, length (N_to_dec k))).
Proof.
  intros Hk Hm. pose proof (N_to_dec_all_digits k) as Hd. pose proof (N_to_dec_nonempty k) as Hne.
  pose proof (dec_to_N_N_to_dec k) as Hv.
  unfold try_parse_usize.
  destruct (N_to_dec k) as [|d ds] eqn:E; [congruence|].
  assert (Hdd : is_digit d = true) by (cbn [forallb] in Hd; apply andb_prop in Hd; tauto).
  destruct (digit_not_sign d Hdd) as [Hm1 Hp1].
  cbn [app ohd ob_is]. rewrite Hm1, Hp1. cbn [orb].
  change (d :: ds ++ more) with ((d :: ds) ++ more).
  rewrite (count_while_digits is_digit (d :: ds) more Hd).
  2:{ destruct more; [exact I|]. destruct Hm. assumption. }
  cbn [length Nat.eqb]. change (S (length ds)) with (length (d :: ds)). rewrite firstn_app_len.
  unfold try_parse_u, parse_usize. rewrite Hp1. rewrite Hv.
  assert (N.leb k USIZE_MAX = true) by (unfold USIZE_MAX, ISIZE_MAX in *; lia). rewrite H.
  assert (N.eqb k 0 = false) by lia. rewrite H0. cbn [andb]. reflexivity.
Qed.

Lemma try_parse_isize_printed k more : (1 <= k <= ISIZE_MAX)%N -> nd_start more ->
  try_parse_isize (N_to_dec k ++ more) = Ok (Some (Z.of_N k, false, length (N_to_dec k))).
Proof.
  intros Hk Hm. pose proof (N_to_dec_all_digits k) as Hd. pose proof (N_to_dec_nonempty k) as Hne.
  pose proof (dec_to_N_N_to_dec k) as Hv.
  unfold try_parse_isize.
  destruct (N_to_dec k) as [|d ds] eqn:E; [congruence|].
  assert (Hdd : is_digit d = true) by (cbn [forallb] in Hd; apply andb_prop in Hd; tauto).
  destruct (digit_not_sign d Hdd) as [Hm1 Hp1].
  cbn [app ohd ob_is]. rewrite Hm1, Hp1.
  change (d :: ds ++ more) with ((d :: ds) ++ more).
  rewrite (count_while_digits (fun b => is_digit b || beqb b c_minus) (d :: ds) more).
  2:{ eapply forallb_forall. intros x Hx. rewrite forallb_forall in Hd. rewrite (Hd x Hx). reflexivity. }
  2:{ destruct more as [|b more]; [exact I|]. destruct Hm as [H1 H2]. rewrite H1. cbn [orb].
      destruct (beqb b c_minus) eqn:Eb; [|reflexivity]. apply beqb_eq in Eb. contradiction. }
  cbn [length Nat.eqb andb]. rewrite andb_false_r.
  change (S (length ds)) with (length (d :: ds)). rewrite firstn_app_len.
  unfold try_parse_i, parse_isize. rewrite Hm1, Hp1. rewrite Hv.
  assert (N.leb k ISIZE_MAX = true) by lia. rewrite H.
  assert (Z.eqb (Z.of_N k) 0 = false) by lia. rewrite H0. cbn [andb]. reflexivity.
Qed.

(* ---- one step of navigate on a printed item ------------------------------------------------- *)
Lemma dcall_accepting c s : accepting s -> dcall c s = (pushed [c] s, Ok true).
Proof. unfold accepting, dcall, pushed. intros ->. reflexivity. Qed.
Lemma pushed_accepting cs s : accepting (pushed cs s).
Proof. reflexivity. Qed.
Lemma pushed_app a b s : pushed b (pushed a s) = pushed (a ++ b) s.
Proof. unfold pushed. cbn [trace last_ref last_prefix is_done]. rewrite map_app, rev_app_distr, app_assoc. reflexivity. Qed.
Lemma pushed_nil s : accepting s -> pushed [] s = s.
Proof. unfold accepting, pushed. destruct s; cbn. intros ->. reflexivity. Qed.

Lemma pnav_start n r : exists b l, pnav n ++ r = b :: l /\ (b = c_tilde \/ b = c_caret).
Proof. destruct n; cbn [pnav app]; eauto. Qed.
Lemma pnavs_nd_start ns tail : tail_ok tail -> nd_start (pnavs ns ++ tail).
Proof.
  intros Ht. destruct ns as [|n r]; cbn [pnavs].
  - destruct Ht as [->|[r ->]]; cbn; [exact I|]. split; [reflexivity|discriminate].
  - rewrite <- app_assoc. destruct (pnav_start n (pnavs r ++ tail)) as (b & l & -> & [->| ->]); cbn; split; try reflexivity; discriminate.
Qed.

Lemma must_dcall c s : accepting s -> must (dcall c) s = (pushed [c] s, Ok tt).
Proof. intros H. unfold must, bind. rewrite dcall_accepting by exact H. reflexivity. Qed.

(* ---- braces --------------------------------------------------------------------------------------- *)
Definition plainb (b : byte) : bool := negb (beqb b c_lbrace) && negb (beqb b c_rbrace) && negb (beqb b c_bslash).

Lemma parens_go_plain whole more : forall w idx acc, forallb plainb w = true ->
  parens_go (w ++ c_rbrace :: more) idx 1%Z false acc whole =
  Ok (Some (match rev acc ++ w with [] => [] | _ :: t => t end, more, S (idx + length w))).
Proof.
  induction w as [|b w IH]; intros idx acc Hw.
  - cbn [app parens_go]. change (beqb c_rbrace c_lbrace) with false. change (beqb c_rbrace c_rbrace) with true.
    cbn iota. change (Z.eqb (1 - 1) 0) with true. cbn iota. cbn [tl length]. rewrite app_nil_r, Nat.add_0_r. reflexivity.
  - cbn [forallb] in Hw. apply andb_prop in Hw as [Hb Hw]. unfold plainb in Hb.
    apply andb_prop in Hb as [Hb H3]. apply andb_prop in Hb as [H1 H2].
    apply negb_true_iff in H1, H2, H3.
    cbn [app parens_go]. rewrite H1, H2, H3. change (Z.eqb 1 0) with false. cbn iota.
    rewrite IH by exact Hw. cbn [rev length]. rewrite <- app_assoc. cbn [app].
    replace (S idx + length w)%nat with (idx + S (length w))%nat by lia. reflexivity.
Qed.
Lemma parens_plain w more : forallb plainb w = true ->
  parens (c_lbrace :: w ++ c_rbrace :: more) = Ok (Some (w, more, S (S (length w)))).
Proof.
  intros Hw. unfold parens. cbn [ohd ob_is]. change (beqb c_lbrace c_lbrace) with true. cbn iota.
  cbn [parens_go]. change (beqb c_lbrace c_lbrace) with true. cbn iota. change (Z.eqb (0 + 1) 0) with false. cbn iota.
  change (0 + 1)%Z with 1%Z. rewrite parens_go_plain by exact Hw. cbn [rev app]. reflexivity.
Qed.
Lemma try_parse_isize_brace more : try_parse_isize (c_lbrace :: more) = Ok None.
Proof.
  unfold try_parse_isize. cbn [ohd ob_is count_while]. change (beqb c_lbrace c_plus) with false. cbn iota.
  change (is_digit c_lbrace || beqb c_lbrace c_minus) with false. cbn iota. reflexivity.
Qed.

Ltac eval_eqb := repeat match goal with
  | |- context [bytes_eqb ?a ?b] => let v := eval vm_compute in (bytes_eqb a b) in change (bytes_eqb a b) with v; cbn iota
  | |- context [is_nil ?a] => let v := eval vm_compute in (is_nil a) in change (is_nil a) with v; cbn iota
  end.

Definition sel (w : bytes) : option call :=
  if bytes_eqb w (bs "commit") then Some (CPeelKind KCommit)
  else if bytes_eqb w (bs "tag") then Some (CPeelKind KTag)
  else if bytes_eqb w (bs "tree") then Some (CPeelKind KTree)
  else if bytes_eqb w (bs "blob") then Some (CPeelKind KBlob)
  else if bytes_eqb w (bs "object") then Some CPeelValid
  else if is_nil w then Some CPeelRec else None.

Lemma peel_step w c : forallb plainb w = true -> sel w = Some c ->
  forall fuel pre more s, accepting s ->
  navigate (S fuel) (pre ++ c_caret :: c_lbrace :: w ++ c_rbrace :: more) (length pre) s =
  navigate fuel (pre ++ c_caret :: c_lbrace :: w ++ c_rbrace :: more) (length pre + (3 + length w)) (pushed [c] s).
Proof.
  intros Hw Hsel fuel pre more s Hs.
  cbn [navigate]. rewrite nth_error_app_len. change (beqb c_caret c_tilde) with false.
  change (beqb c_caret c_caret) with true. cbn iota. rewrite skipn_S_app_len.
  unfold bind at 1. unfold lift. rewrite try_parse_isize_brace.
  unfold bind at 1. rewrite parens_plain by exact Hw.
  cbv zeta. unfold sel in Hsel.
  repeat match type of Hsel with (if ?c then _ else _) = _ => destruct c end; try discriminate;
    injection Hsel as <-; unfold bind at 1; rewrite must_dcall by exact Hs; f_equal; lia.
Qed.

Lemma navigate_printed : forall ns fuel pre tail s,
  Forall nav_wf ns -> tail_ok tail -> accepting s -> (length ns < fuel)%nat ->
  navigate fuel (pre ++ pnavs ns ++ tail) (length pre) s = (pushed (map nav_call ns) s, Ok tail).
Proof.
  induction ns as [|n ns IH]; intros fuel pre tail s Hwf Ht Hs Hf.
  - destruct fuel as [|fuel]; [cbn [length] in Hf; lia|]. cbn [pnavs app map navigate].
    rewrite pushed_nil by exact Hs.
    destruct Ht as [->|[r ->]].
    + rewrite app_nil_r. replace (nth_error pre (length pre)) with (@None byte); [reflexivity|].
      symmetry. apply nth_error_None. lia.
    + rewrite nth_error_app_len. change (beqb c_dot c_tilde) with false. change (beqb c_dot c_caret) with false.
      change (beqb c_dot c_colon) with false. cbn iota.
      unfold slice_from. replace (S (length pre) - 1)%nat with (length pre) by lia.
      rewrite app_length. cbn [length].
      replace (Nat.leb (length pre) (length pre + S (length r))) with true by (symmetry; apply Nat.leb_le; lia).
      unfold ret. rewrite skipn_app_len. reflexivity.
  - destruct fuel as [|fuel]; [lia|]. cbn [length] in Hf.
    inversion Hwf as [|? ? Hn Hwf']; subst.
    pose proof (pnavs_nd_start ns tail Ht) as Hnd.
    assert (Hrec : forall item, pnav n = item -> forall s', accepting s' ->
       navigate fuel (pre ++ pnavs (n :: ns) ++ tail) (length pre + length item) s' = (pushed (map nav_call ns) s', Ok tail)).
    { intros item <- s' Hs'. cbn [pnavs]. rewrite <- app_assoc.
      replace (pre ++ pnav n ++ pnavs ns ++ tail) with ((pre ++ pnav n) ++ pnavs ns ++ tail) by (rewrite <- app_assoc; reflexivity).
      rewrite <- app_length. apply IH; auto. lia. }
    cbn [pnavs map]. rewrite <- app_assoc.
    replace (pushed (nav_call n :: map nav_call ns) s) with (pushed (map nav_call ns) (pushed [nav_call n] s))
      by (rewrite pushed_app; reflexivity).
    destruct n as [k|k|k| |]; cbn [pnav nav_wf nav_call] in *.
    + (* ~k *)
      cbn [app navigate]. rewrite nth_error_app_len. change (beqb c_tilde c_tilde) with true. cbn iota.
      rewrite skipn_S_app_len. unfold bind at 1. unfold lift.
      rewrite try_parse_usize_printed by assumption.
      assert (N.eqb k 0 = false) as -> by lia.
      unfold bind at 1. cbv beta. rewrite must_dcall by exact Hs.
      specialize (Hrec _ eq_refl (pushed [CAncestor k] s) (pushed_accepting _ _)).
      cbn [length pnavs app] in Hrec. rewrite <- app_assoc in Hrec. cbn [app] in Hrec.
      replace (S (length pre) + length (N_to_dec k))%nat with (length pre + S (length (N_to_dec k)))%nat by lia.
      exact Hrec.
    + (* ^k *)
      cbn [app navigate]. rewrite nth_error_app_len. change (beqb c_caret c_tilde) with false.
      change (beqb c_caret c_caret) with true. cbn iota.
      rewrite skipn_S_app_len. unfold bind at 1. unfold lift.
      rewrite try_parse_isize_printed by assumption.
      assert (Z.eqb (Z.of_N k) 0 = false) as -> by lia.
      assert (Z.ltb (Z.of_N k) 0 = false) as -> by lia.
      rewrite N2Z.id.
      unfold bind at 1. cbv beta. rewrite must_dcall by exact Hs.
      specialize (Hrec _ eq_refl (pushed [CParent k] s) (pushed_accepting _ _)).
      cbn [length pnavs app] in Hrec. rewrite <- app_assoc in Hrec. cbn [app] in Hrec.
      replace (S (length pre) + length (N_to_dec k))%nat with (length pre + S (length (N_to_dec k)))%nat by lia.
      exact Hrec.
    + (* ^{kind} *)
      specialize (Hrec _ eq_refl (pushed [CPeelKind k] s) (pushed_accepting _ _)).
      cbn [pnavs pnav] in Hrec. cbn [app] in Hrec |- *. rewrite <- !app_assoc in Hrec. rewrite <- !app_assoc. cbn [app] in Hrec |- *.
      rewrite peel_step with (c := CPeelKind k); [ | destruct k; reflexivity | destruct k; reflexivity | exact Hs].
      match goal with |- navigate _ _ ?c _ = _ => match type of Hrec with navigate _ _ ?c' _ = _ => replace c with c' by (cbn [length]; rewrite app_length; cbn [length]; lia) end end.
      exact Hrec.
    + specialize (Hrec _ eq_refl (pushed [CPeelValid] s) (pushed_accepting _ _)).
      cbn [pnavs pnav] in Hrec. cbn [app] in Hrec |- *. rewrite <- !app_assoc in Hrec. rewrite <- !app_assoc. cbn [app] in Hrec |- *.
      rewrite peel_step with (c := CPeelValid); [ | reflexivity | reflexivity | exact Hs].
      match goal with |- navigate _ _ ?c _ = _ => match type of Hrec with navigate _ _ ?c' _ = _ => replace c with c' by (cbn [length]; rewrite app_length; cbn [length]; lia) end end.
      exact Hrec.
    + specialize (Hrec _ eq_refl (pushed [CPeelRec] s) (pushed_accepting _ _)).
      cbn [pnavs pnav] in Hrec. cbn [app] in Hrec |- *.
      change (c_caret :: c_lbrace :: c_rbrace :: pnavs ns ++ tail) with (c_caret :: c_lbrace :: [] ++ c_rbrace :: pnavs ns ++ tail) in *.
      rewrite peel_step with (c := CPeelRec); [ | reflexivity | reflexivity | exact Hs].
      match goal with |- navigate _ _ ?c _ = _ => match type of Hrec with navigate _ _ ?c' _ = _ => replace c with c' by (cbn [length]; lia) end end.
      exact Hrec.
Qed.
