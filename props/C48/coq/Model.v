(* C48 — model of the revision-spec tokenizer  gix_revision::spec::parse  (gix-revision/src/spec/parse/function.rs).
   The tokenizer drives a Delegate whose only feedback is Some(())/None per call; the model is therefore
   parameterised by the list of answers the delegate gives (call k gets the k-th answer, `true` = Some(()),
   an exhausted list answers `true`) and it records the sequence of delegate calls.  gix_date::parse is an
   external component: a parameter [date : bytes -> option bytes] (None = Error::Time, Some t = the printed time).
   Rust panics ([expect], indexing, slicing) are explicit [Panic]s; the one unbounded loop ([navigate]) has fuel.
   NO proofs here. *)
From GixV.Base Require Import Bytes Outcome.
Local Open Scope N_scope.

(* ---- data ---------------------------------------------------------------------------------------- *)
Inductive kind := IncludeReachable | ExcludeReachable | RangeBetween | ReachableToMergeBase
                | IncludeReachableFromParents | ExcludeReachableFromParents.
Inductive okind := KCommit | KTag | KTree | KBlob.
Inductive hint := HNone | HMustBeCommit | HDescribe (ref_name : bytes) (generation : N).

Inductive call :=
| CFindRef (name : bytes)
| CPrefix (hex : bytes) (h : hint)          (* the prefix as it displays: lower-case hex digits *)
| CReflogEntry (n : N)
| CReflogDate (t : bytes)
| CNth (n : N)
| CSibling (push : bool)
| CAncestor (n : N)
| CParent (n : N)
| CPeelKind (k : okind)
| CPeelValid
| CPeelRec
| CPeelPath (p : bytes)
| CFind (re : bytes) (negated : bool)
| CIndex (path : bytes) (stage : N)
| CKind (k : kind)
| CDone.

Inductive err :=
| MissingTildeAnchor | MissingColonSuffix | EmptyTopLevelRegex
| UnspecifiedRegexModifier (b : bytes) | InvalidObject (b : bytes) | TimeErr (b : bytes)
| SiblingBranchNeedsBranchName (b : bytes) | ReflogLookupNeedsRefName (b : bytes)
| RefnameNeedsPositiveReflogEntries (b : bytes) | SignedNumber (b : bytes) | InvalidNumber (b : bytes)
| NegativeZero (b : bytes) | UnclosedBracePair (b : bytes) | KindSetTwice (k1 k2 : kind)
| AtNeedsCurlyBrackets (b : bytes) | UnconsumedInput (b : bytes) | DelegateErr.

(* ---- bytes --------------------------------------------------------------------------------------- *)
Definition c_tilde := x7e.  Definition c_caret := x5e.  Definition c_colon := x3a.  Definition c_dot := x2e.
Definition c_at := x40.     Definition c_lbrace := x7b. Definition c_rbrace := x7d. Definition c_bslash := x5c.
Definition c_minus := x2d.  Definition c_plus := x2b.   Definition c_slash := x2f.  Definition c_bang := x21.
Definition c_g := x67.

Definition is_sep (b : byte) : bool := beqb b c_tilde || beqb b c_caret || beqb b c_colon || beqb b c_dot.
Definition is_hexdigit (b : byte) : bool := match hex_val b with Some _ => true | None => false end.
Definition lower (b : byte) : byte :=
  let n := b2N b in if N.leb 65 n && N.leb n 90 then N2b (n + 32) else b.
Definition eq_ignore_case (a b : bytes) : bool := bytes_eqb (map lower a) (map lower b).
Definition ohd (l : bytes) : option byte := match l with [] => None | b :: _ => Some b end.
Definition ob_is (o : option byte) (c : byte) : bool := match o with Some b => beqb b c | None => false end.
Definition is_nil (l : bytes) : bool := match l with [] => true | _ => false end.

(* core::str::from_utf8(..).is_ok() *)
Definition cont (b : byte) : bool := N.leb 128 (b2N b) && N.leb (b2N b) 191.
Definition rng (lo hi : N) (b : byte) : bool := N.leb lo (b2N b) && N.leb (b2N b) hi.
Fixpoint utf8_valid (l : bytes) : bool :=
  match l with
  | [] => true
  | a :: r =>
    if N.ltb (b2N a) 128 then utf8_valid r else
    match r with
    | [] => false
    | b :: r2 =>
      if rng 194 223 a then cont b && utf8_valid r2 else
      match r2 with
      | [] => false
      | c :: r3 =>
        if (rng 224 224 a && rng 160 191 b) || (rng 225 236 a && cont b) || (rng 237 237 a && rng 128 159 b)
           || (rng 238 239 a && cont b)
        then cont c && utf8_valid r3 else
        match r3 with
        | [] => false
        | d :: r4 =>
          if (rng 240 240 a && rng 144 191 b) || (rng 241 243 a && cont b) || (rng 244 244 a && rng 128 143 b)
          then cont c && cont d && utf8_valid r4 else false
        end
      end
    end
  end.

(* str::parse::<isize>() / ::<usize>() on the bytes (a non-UTF-8 input cannot consist of sign and digits, so the
   preceding to_str().ok() never changes the answer) *)
Definition ISIZE_MAX : N := 9223372036854775807.
Definition USIZE_MAX : N := 18446744073709551615.
Definition parse_isize (s : bytes) : option Z :=
  match s with
  | [] => None
  | c :: r =>
    if beqb c c_minus then
      match dec_to_N r with Some n => if N.leb n (ISIZE_MAX + 1) then Some (Z.opp (Z.of_N n)) else None | None => None end
    else if beqb c c_plus then
      match dec_to_N r with Some n => if N.leb n ISIZE_MAX then Some (Z.of_N n) else None | None => None end
    else
      match dec_to_N s with Some n => if N.leb n ISIZE_MAX then Some (Z.of_N n) else None | None => None end
  end.
Definition parse_usize (s : bytes) : option N :=
  match s with
  | [] => None
  | c :: r =>
    let d := if beqb c c_plus then r else s in
    match dec_to_N d with Some n => if N.leb n USIZE_MAX then Some n else None | None => None end
  end.

(* fn try_parse<T>: Ok(None) when not a number, Err(NegativeZero) for "-0", input[0] is an index (panic on empty) *)
Definition try_parse_i (input : bytes) : outcome (option Z) err :=
  match parse_isize input with
  | None => Ok None
  | Some n =>
    match input with
    | [] => Panic
    | c :: _ => if Z.eqb n 0 && beqb c c_minus then Err (NegativeZero input) else Ok (Some n)
    end
  end.
Definition try_parse_u (input : bytes) : outcome (option N) err :=
  match parse_usize input with
  | None => Ok None
  | Some n =>
    match input with
    | [] => Panic
    | c :: _ => if N.eqb n 0 && beqb c c_minus then Err (NegativeZero input) else Ok (Some n)
    end
  end.

Fixpoint count_while (p : byte -> bool) (l : bytes) : nat :=
  match l with b :: r => if p b then S (count_while p r) else O | [] => O end.

(* fn try_parse_usize -> Option<(number, consumed)> *)
Definition try_parse_usize (input : bytes) : outcome (option (N * nat)) err :=
  if ob_is (ohd input) c_minus || ob_is (ohd input) c_plus then Err (SignedNumber input) else
  let nd := count_while is_digit input in
  if Nat.eqb nd 0 then Ok None else
  let inp := firstn nd input in
  match try_parse_u inp with
  | Ok (Some n) => Ok (Some (n, nd))
  | Ok None => Err (InvalidNumber inp)
  | Err e => Err e | Panic => Panic | OutOfFuel => OutOfFuel
  end.

(* fn try_parse_isize -> Option<(number, negative, consumed)> *)
Definition try_parse_isize (input : bytes) : outcome (option (Z * bool * nat)) err :=
  if ob_is (ohd input) c_plus then Err (SignedNumber input) else
  let negative := ob_is (ohd input) c_minus in
  let nd := count_while (fun b => is_digit b || beqb b c_minus) input in
  if Nat.eqb nd 0 then Ok None
  else if Nat.eqb nd 1 && negative then Ok (Some ((-1)%Z, negative, nd))
  else
  let inp := firstn nd input in
  match try_parse_i inp with
  | Ok (Some n) => Ok (Some (n, negative, nd))
  | Ok None => Err (InvalidNumber inp)
  | Err e => Err e | Panic => Panic | OutOfFuel => OutOfFuel
  end.

(* fn parens(input) -> Ok(None) | Ok(Some(inner, rest, consumed)) | Err(UnclosedBracePair).
   [go] walks the bytes after the state (open_braces, ignore_next); [acc] is the unescaped inner text in reverse,
   where the backslash recorded in skip_list is the one most recently pushed ([pending] = it is still in acc's head
   position and may be popped). The Rust code records indices to skip; we drop the byte instead. *)
Fixpoint parens_go (l : bytes) (idx : nat) (open : Z) (ign : bool) (acc : bytes) (whole : bytes)
  : outcome (option (bytes * bytes * nat)) err :=
  match l with
  | [] => Err (UnclosedBracePair whole)
  | b :: r =>
    (* new state after looking at b; acc' holds inner bytes seen so far (reverse), without skipped backslashes *)
    let '(open', ign', acc') :=
      if beqb b c_lbrace then
        (if ign then open else (open + 1)%Z, false, b :: acc)
      else if beqb b c_rbrace then
        (if ign then open else (open - 1)%Z, false, b :: acc)
      else if beqb b c_bslash then
        (* push idx; if ignore_next: pop it again (this backslash stays, the earlier one stays skipped) *)
        if ign then (open, false, b :: acc) else (open, true, acc)
      else
        (* any other byte: an escaping backslash right before it was no escape: pop it, i.e. keep the backslash *)
        (open, false, if ign then b :: c_bslash :: acc else b :: acc) in
    if Z.eqb open' 0 then
      (* inner = input[1..idx] minus skipped; the closing byte itself (head of acc') and the opening brace are not part *)
      let inner := match rev (tl acc') with [] => [] | _ :: t => t end in
      Ok (Some (inner, r, S idx))
    else parens_go r (S idx) open' ign' acc' whole
  end.
Definition parens (input : bytes) : outcome (option (bytes * bytes * nat)) err :=
  if ob_is (ohd input) c_lbrace then parens_go input 0 0%Z false [] input else Ok None.

(* fn parse_regex_prefix *)
Definition parse_regex_prefix (regex : bytes) : outcome (bytes * bool) err :=
  match regex with
  | b :: r =>
    if beqb b c_bang then
      if ob_is (ohd r) c_bang then Ok (r, false)
      else if ob_is (ohd r) c_minus then Ok (tl r, true)
      else Err (UnspecifiedRegexModifier regex)
    else Ok (regex, false)
  | [] => Ok (regex, false)
  end.

(* SiblingBranch::parse : Some false = Upstream, Some true = Push *)
Definition sibling_parse (nav : bytes) : option bool :=
  if eq_ignore_case nav (bs "u") || eq_ignore_case nav (bs "upstream") then Some false
  else if eq_ignore_case nav (bs "push") then Some true else None.

(* split at every occurrence of [c] (slice::split): always at least one token *)
Fixpoint split_on_acc (c : byte) (l : bytes) (cur : bytes) : list bytes :=
  match l with
  | [] => [rev cur]
  | b :: r => if beqb b c then rev cur :: split_on_acc c r [] else split_on_acc c r (b :: cur)
  end.
Definition split_on (c : byte) (l : bytes) : list bytes := split_on_acc c l [].
Fixpoint join_on (c : byte) (ls : list bytes) : bytes :=
  match ls with [] => [] | [x] => x | x :: r => x ++ c :: join_on c r end.

(* gix_hash::Prefix::from_hex(..).ok(): Some (display form) for 4..=40 hex digits *)
Definition prefix_from_hex (s : bytes) : option bytes :=
  if Nat.leb 4 (length s) && Nat.leb (length s) 40 && forallb is_hexdigit s then Some (map lower s) else None.

(* fn long_describe_prefix(name): tokens right to left; the first one that is 'g' + hex digits is the candidate.
   [rtoks] = tokens still to the left of it, nearest first. *)
Fixpoint find_g (rtoks : list bytes) : option (bytes * list bytes) :=
  match rtoks with
  | [] => None
  | t :: more =>
    match t with
    | b :: rest => if beqb b c_g && forallb is_hexdigit rest then Some (rest, more) else find_g more
    | [] => find_g more
    end
  end.
Definition long_describe_prefix (name : bytes) : option (bytes * hint) :=
  match find_g (rev (split_on c_minus name)) with
  | None => None
  | Some (cand, lft) =>
    if existsb (fun t => negb (is_nil t)) lft then
      let h :=
        match lft with
        | gen :: more =>
          match parse_usize gen with
          | Some g =>
            match more with
            | _ :: _ => HDescribe (join_on c_minus (rev more)) g
            | [] => HMustBeCommit
            end
          | None => HMustBeCommit
          end
        | [] => HMustBeCommit
        end in
      Some (cand, h)
    else None
  end.
(* fn short_describe_prefix(name) *)
Definition short_describe_prefix (name : bytes) : option bytes :=
  match split_on c_minus name with
  | t0 :: rest => if Nat.eqb (length rest) 1 then (if forallb is_hexdigit t0 then Some t0 else None) else None
  | [] => None
  end.

(* the separator search of fn revision: returns (sep_pos, consecutive_hex_chars).
   [pos] = index in the current cursor, [ofs] = start of the cursor in the input. *)
Fixpoint scan (l : bytes) (ofs pos : nat) (chc : option nat) : option nat * option nat :=
  match l with
  | [] => (None, chc)
  | b :: rest =>
    if beqb b c_at then
      let hit :=
        if Nat.eqb pos 0 && is_nil rest then true
        else if negb (Nat.eqb pos 0) && ob_is (ohd rest) c_dot && ob_is (ohd (tl rest)) c_dot then false
        else ob_is (ohd rest) c_lbrace || match ohd rest with Some c => is_sep c | None => false end in
      if hit then (Some (ofs + pos)%nat, chc) else scan rest ofs (S pos) chc
    else if is_sep b then
      if negb (beqb b c_dot) || ob_is (ohd rest) c_dot then (Some (ofs + pos)%nat, chc)
      else scan rest (ofs + pos + 1)%nat 0%nat chc
    else
      scan rest ofs (S pos)
        match chc with Some n => if is_hexdigit b then Some (S n) else None | None => None end
  end.

(* ---- the delegate: a state + error monad ------------------------------------------------------- *)
Record st := mkSt {
  trace : list (call * bool);       (* reversed *)
  answers : list bool;
  last_ref : option bytes;
  last_prefix : option (bytes * hint);
  is_done : bool }.

Definition M (A : Type) := st -> st * outcome A err.
Definition ret {A} (a : A) : M A := fun s => (s, Ok a).
Definition fail {A} (e : err) : M A := fun s => (s, Err e).
Definition panic {A} : M A := fun s => (s, Panic).
Definition hang {A} : M A := fun s => (s, OutOfFuel).
Definition bind {A B} (m : M A) (f : A -> M B) : M B :=
  fun s => match m s with
           | (s', Ok a) => f a s'
           | (s', Err e) => (s', Err e)
           | (s', Panic) => (s', Panic)
           | (s', OutOfFuel) => (s', OutOfFuel)
           end.
Definition lift {A} (o : outcome A err) : M A := fun s => (s, o).
Declare Scope m_scope.
Delimit Scope m_scope with m.
Notation "x <- e1 ;; e2" := (bind e1 (fun x => e2)) (at level 61, e1 at next level, right associativity) : m_scope.
Notation "e1 ;;; e2" := (bind e1 (fun _ => e2)) (at level 61, right associativity) : m_scope.
Local Open Scope m_scope.

(* one call of the inner delegate: returns its answer *)
Definition dcall (c : call) : M bool := fun s =>
  let a := match answers s with [] => true | a :: _ => a end in
  (mkSt ((c, a) :: trace s) (tl (answers s)) (last_ref s) (last_prefix s) (is_done s), Ok a).
(* `.ok_or(Error::Delegate)?` *)
Definition must (m : M bool) : M unit := b <- m ;; if b then ret tt else fail DelegateErr.

(* InterceptRev: the anchor that was resolved last is remembered for `<rev>^-<n>`; a call the delegate rejects
   leaves the memory alone *)
Definition find_ref (name : bytes) : M bool := fun s =>
  match dcall (CFindRef name) s with
  | (s', Ok true) => (mkSt (trace s') (answers s') (Some name) None (is_done s'), Ok true)
  | r => r
  end.
Definition disambiguate_prefix (p : bytes) (h : hint) : M bool := fun s =>
  match dcall (CPrefix p h) s with
  | (s', Ok true) => (mkSt (trace s') (answers s') None (Some (p, h)) (is_done s'), Ok true)
  | r => r
  end.
Definition done : M unit := fun s =>
  (mkSt ((CDone, true) :: trace s) (answers s) (last_ref s) (last_prefix s) true, Ok tt).
Definition get_done : M bool := fun s => (s, Ok (is_done s)).
Definition take_last_prefix : M (option (bytes * hint)) := fun s =>
  (mkSt (trace s) (answers s) (last_ref s) None (is_done s), Ok (last_prefix s)).
Definition take_last_ref : M (option bytes) := fun s =>
  (mkSt (trace s) (answers s) None (last_prefix s) (is_done s), Ok (last_ref s)).

(* fn try_set_prefix: None also when the text is no prefix; to_str().expect() panics on invalid UTF-8 *)
Definition try_set_prefix (hex_name : bytes) (h : hint) : M bool :=
  if utf8_valid hex_name then
    match prefix_from_hex hex_name with
    | Some p => disambiguate_prefix p h
    | None => ret false
    end
  else panic.

(* slicing with Rust's bounds check *)
Definition slice_from (n : nat) (l : bytes) : M bytes :=
  if Nat.leb n (length l) then ret (skipn n l) else panic.

Section WithDate.
Variable date : bytes -> option bytes.

(* fn navigate(input): [cursor] counts consumed bytes; the loop is bounded by fuel *)
Fixpoint navigate (fuel : nat) (input : bytes) (cursor : nat) : M bytes :=
  match fuel with
  | O => hang
  | S fuel' =>
    match nth_error input cursor with
    | None => ret []
    | Some b =>
      let cursor := S cursor in
      if beqb b c_tilde then
        let past := skipn cursor input in
        r <- lift (try_parse_usize past) ;;
        let '(number, consumed) := match r with Some x => x | None => (1, O) end in
        (if N.eqb number 0 then ret tt else must (dcall (CAncestor number))) ;;;
        navigate fuel' input (cursor + consumed)%nat
      else if beqb b c_caret then
        let past := skipn cursor input in
        r <- lift (try_parse_isize past) ;;
        match r with
        | Some (number, negative, consumed) =>
          if negative then
            (if Z.eqb number (- Z.of_N (ISIZE_MAX + 1)) then fail (InvalidNumber past)
             else if Z.ltb 0 number then panic (* try_into().expect("non-negative") *)
             else must (dcall (CParent (Z.to_N (- number))))) ;;;
            must (dcall (CKind RangeBetween)) ;;;
            lp <- take_last_prefix ;;
            match lp with
            | Some (p, h) => must (disambiguate_prefix p h)
            | None =>
              lr <- take_last_ref ;;
              match lr with
              | Some name => must (find_ref name)
              | None => rest <- slice_from cursor input ;; fail (UnconsumedInput rest)
              end
            end ;;;
            done ;;;
            slice_from (cursor + consumed) input
          else
            (if Z.eqb number 0 then must (dcall (CPeelKind KCommit))
             else if Z.ltb number 0 then panic (* try_into().expect("positive number") *)
             else must (dcall (CParent (Z.to_N number)))) ;;;
            navigate fuel' input (cursor + consumed)%nat
        | None =>
          p <- lift (parens past) ;;
          match p with
          | Some (kind, _, consumed) =>
            let cursor := (cursor + consumed)%nat in
            let peel (c : call) := must (dcall c) ;;; navigate fuel' input cursor in
            if bytes_eqb kind (bs "commit") then peel (CPeelKind KCommit)
            else if bytes_eqb kind (bs "tag") then peel (CPeelKind KTag)
            else if bytes_eqb kind (bs "tree") then peel (CPeelKind KTree)
            else if bytes_eqb kind (bs "blob") then peel (CPeelKind KBlob)
            else if bytes_eqb kind (bs "object") then peel CPeelValid
            else if is_nil kind then peel CPeelRec
            else if ob_is (ohd kind) c_slash then
              rn <- lift (parse_regex_prefix (tl kind)) ;;
              (if is_nil (fst rn) then ret tt else must (dcall (CFind (fst rn) (snd rn)))) ;;;
              navigate fuel' input cursor
            else fail (InvalidObject kind)
          | None =>
            if ob_is (ohd past) c_bang then
              must (dcall (CKind ExcludeReachableFromParents)) ;;; done ;;; slice_from (cursor + 1) input
            else if ob_is (ohd past) c_at then
              must (dcall (CKind IncludeReachableFromParents)) ;;; done ;;; slice_from (cursor + 1) input
            else
              must (dcall (CParent 1)) ;;; navigate fuel' input cursor
          end
        end
      else if beqb b c_colon then
        must (dcall (CPeelPath (skipn cursor input))) ;;; ret []
      else slice_from (cursor - 1) input
    end
  end.

(* the `@{…}` part of fn revision *)
Definition at_braces (input name : bytes) (sep_pos : nat) (has_ref : bool) : M bytes :=
  past_sep <- slice_from (S sep_pos) input ;;
  p <- lift (parens past_sep) ;;
  match p with
  | None => fail (AtNeedsCurlyBrackets (skipn sep_pos input))
  | Some (nav, rest, _) =>
    n <- lift (try_parse_i nav) ;;
    match n with
    | Some n =>
      if Z.ltb n 0 then
        if is_nil name then must (dcall (CNth (Z.to_N (- n)))) ;;; ret rest
        else fail (RefnameNeedsPositiveReflogEntries nav)
      else if has_ref then must (dcall (CReflogEntry (Z.to_N n))) ;;; ret rest
      else fail (ReflogLookupNeedsRefName name)
    | None =>
      match sibling_parse nav with
      | Some k =>
        if has_ref then must (dcall (CSibling k)) ;;; ret rest
        else fail (SiblingBranchNeedsBranchName name)
      | None =>
        if has_ref then
          match date nav with
          | Some t => must (dcall (CReflogDate t)) ;;; ret rest
          | None => fail (TimeErr nav)
          end
        else fail (ReflogLookupNeedsRefName name)
      end
    end
  end.

(* `a.or_else(|| b)` on Option<()> results of delegate calls *)
Definition or_else (a b : M bool) : M bool := x <- a ;; if x then ret true else b.

(* the leading match of fn revision: `:`, `:/regex`, `:n:path`, `:path` consume everything *)
Definition colon_form (input : bytes) : option (M bytes) :=
    match input with
    | c :: t =>
      if beqb c c_colon then
        match t with
        | [] => Some (fail MissingColonSuffix)
        | c1 :: t1 =>
          if beqb c1 c_slash then
            match t1 with
            | [] => Some (fail EmptyTopLevelRegex)
            | _ => Some (rn <- lift (parse_regex_prefix t1) ;;
                         if is_nil (fst rn) then fail (UnconsumedInput input)
                         else must (dcall (CFind (fst rn) (snd rn))) ;;; ret [])
            end
          else
            match t1 with
            | c2 :: path =>
              if beqb c2 c_colon && beqb c1 x30 then Some (must (dcall (CIndex path 0)) ;;; ret [])
              else if beqb c2 c_colon && beqb c1 x31 then Some (must (dcall (CIndex path 1)) ;;; ret [])
              else if beqb c2 c_colon && beqb c1 x32 then Some (must (dcall (CIndex path 2)) ;;; ret [])
              else if beqb c2 c_colon && beqb c1 x33 then Some (must (dcall (CIndex path 3)) ;;; ret [])
              else Some (must (dcall (CIndex t 0)) ;;; ret [])
            | [] => Some (must (dcall (CIndex t 0)) ;;; ret [])
            end
        end
      else None
    | [] => None
    end.

(* fn revision(input) -> remaining input *)
Definition revision (input : bytes) : M bytes :=
  match colon_form input with
  | Some m => m
  | None =>
    let '(sep_pos, chc) := scan input 0 0 (Some 0%nat) in
    let name := firstn (match sep_pos with Some p => p | None => length input end) input in
    let sep := match sep_pos with Some p => nth_error input p | None => None end in
    let after_anchor (sep_pos : option nat) (sep : option byte) (has_ref : bool) : M bytes :=
      rest <-
        (if ob_is sep c_at then
           at_braces input name (match sep_pos with Some p => p | None => length input end) has_ref
         else if (match sep_pos with Some O => true | _ => false end) && ob_is sep c_tilde
           then fail MissingTildeAnchor
         else ret (skipn (match sep_pos with Some p => p | None => length input end) input)) ;;
      navigate (S (length rest)) rest 0 in
    if is_nil name && ob_is sep c_at
       && negb (ob_is (match sep_pos with Some p => nth_error input (S p) | None => None end) c_lbrace) then
      must (find_ref (bs "HEAD")) ;;;
      let sep_pos' := match sep_pos with Some p => Some (S p) | None => None end in
      match (match sep_pos' with Some p => nth_error input p | None => None end) with
      | None => ret []
      | Some c => after_anchor sep_pos' (Some c) true
      end
    else
      let a := if Nat.leb 4 (match chc with Some n => n | None => O end) then try_set_prefix name HNone else ret false in
      let b :=
        match (match long_describe_prefix name with
               | Some (c, h) => Some (c, h)
               | None => match short_describe_prefix name with Some c => Some (c, HNone) | None => None end
               end) with
        | Some (c, h) => try_set_prefix c h
        | None => ret false
        end in
      r <- or_else a (or_else b (ret false)) ;;
      (* the last alternative sets has_ref_or_implied_name when find_ref succeeds *)
      hr <- (if r then ret (is_nil name)
             else if is_nil name then ret true
             else must (find_ref name) ;;; ret true) ;;
      after_anchor sep_pos sep hr
  end.

Definition try_range (input : bytes) : option (bytes * kind) :=
  match input with
  | a :: b :: r =>
    if beqb a c_dot && beqb b c_dot then
      match r with
      | c :: r' => if beqb c c_dot then Some (r', ReachableToMergeBase) else Some (r, RangeBetween)
      | [] => Some (r, RangeBetween)
      end
    else None
  | _ => None
  end.

(* pub fn parse(input, delegate) *)
Definition parse_m (input : bytes) : M unit :=
  pk <- (if ob_is (ohd input) c_caret then
           match input with
           | _ :: t => must (dcall (CKind ExcludeReachable)) ;;; ret (t, Some ExcludeReachable)
           | [] => panic
           end
         else ret (input, None)) ;;
  let '(input, prev_kind) := pk in
  rest <- revision input ;;
  let found := negb (bytes_eqb rest input) in
  let input := rest in
  d <- get_done ;;
  if d then (if is_nil input then ret tt else fail (UnconsumedInput input)) else
  input <-
    match try_range input with
    | Some (rest, kind) =>
      match prev_kind with
      | Some pk => fail (KindSetTwice pk kind)
      | None =>
        (if found then ret tt else must (find_ref (bs "HEAD"))) ;;;
        must (dcall (CKind kind)) ;;;
        remainder <- revision rest ;;
        (if negb (bytes_eqb remainder rest) then ret tt else must (find_ref (bs "HEAD"))) ;;;
        ret remainder
      end
    | None => ret input
    end ;;
  if is_nil input then done else fail (UnconsumedInput input).

Definition init (ans : list bool) : st := mkSt [] ans None None false.
Definition parse (input : bytes) (ans : list bool) : list (call * bool) * outcome unit err :=
  let '(s, r) := parse_m input (init ans) in (rev (trace s), r).

End WithDate.
