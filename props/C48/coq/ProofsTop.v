(* C48 — a whole spec  <ref name><navigation…>  tokenizes to find_ref, the navigation calls, done. *)
From Coq Require Import ZArith NArith Lia ZifyBool ZifyNat ZifyN List.
From GixV.Base Require Import Bytes BytesFacts Outcome.
From GixV.C48 Require Import Model Spec ProofsDec ProofsRT.
Local Open Scope m_scope.

Lemma name_byte_facts : forall b, name_byte b = true ->
  beqb b c_at = false /\ is_sep b = false /\ beqb b c_minus = false /\ beqb b c_colon = false /\ beqb b c_caret = false.
Proof.
  assert (H : forall b, implb (name_byte b)
     (negb (beqb b c_at) && negb (is_sep b) && negb (beqb b c_minus) && negb (beqb b c_colon) && negb (beqb b c_caret)) = true)
    by (apply forall_bytes; vm_compute; reflexivity).
  intros b Hb. specialize (H b). rewrite Hb in H. cbn [implb] in H.
  repeat (apply andb_prop in H as [H ?]). repeat split; apply negb_true_iff; assumption.
Qed.

Fixpoint chc_after (name : bytes) (chc : option nat) : option nat :=
  match name with
  | [] => chc
  | b :: r => chc_after r (match chc with Some n => if is_hexdigit b then Some (S n) else None | None => None end)
  end.
Definition nav_start (rest : bytes) : Prop := rest = [] \/ exists l, rest = c_tilde :: l \/ rest = c_caret :: l.

Lemma scan_name : forall name rest ofs pos chc, forallb name_byte name = true -> nav_start rest ->
  scan (name ++ rest) ofs pos chc =
  (match rest with [] => None | _ => Some (ofs + (pos + length name))%nat end, chc_after name chc).
Proof.
  induction name as [|b name IH]; intros rest ofs pos chc Hn Hr.
  - cbn [app chc_after length]. destruct Hr as [->|[l [->| ->]]]; [reflexivity| |].
    + cbn [scan]. change (beqb c_tilde c_at) with false. change (is_sep c_tilde) with true.
      change (negb (beqb c_tilde c_dot)) with true. cbn [orb]. cbn iota. repeat f_equal. lia.
    + cbn [scan]. change (beqb c_caret c_at) with false. change (is_sep c_caret) with true.
      change (negb (beqb c_caret c_dot)) with true. cbn [orb]. cbn iota. repeat f_equal. lia.
  - cbn [forallb] in Hn. apply andb_prop in Hn as [Hb Hn]. destruct (name_byte_facts b Hb) as (H1 & H2 & _).
    cbn [app scan]. rewrite H1, H2. rewrite IH by assumption. cbn [chc_after length]. f_equal.
    destruct rest; [reflexivity|]. f_equal. lia.
Qed.

Lemma chc_after_none name : chc_after name None = None.
Proof. induction name; cbn [chc_after]; auto. Qed.
Lemma chc_after_nonhex : forall name chc, existsb (fun b => negb (is_hexdigit b)) name = true -> chc_after name chc = None.
Proof.
  induction name as [|b r IH]; intros chc H; cbn [existsb] in H; [discriminate|]. cbn [chc_after].
  destruct (is_hexdigit b) eqn:E; cbn [negb orb] in H.
  - apply IH. exact H.
  - destruct chc; apply chc_after_none.
Qed.

Lemma split_no_minus : forall name cur, forallb (fun b => negb (beqb b c_minus)) name = true ->
  split_on_acc c_minus name cur = [rev cur ++ name].
Proof.
  induction name as [|b r IH]; intros cur H; cbn [split_on_acc].
  - rewrite app_nil_r. reflexivity.
  - cbn [forallb] in H. apply andb_prop in H as [Hb H]. apply negb_true_iff in Hb. rewrite Hb.
    rewrite IH by exact H. cbn [rev]. rewrite <- app_assoc. reflexivity.
Qed.
Lemma no_minus name : forallb name_byte name = true -> forallb (fun b => negb (beqb b c_minus)) name = true.
Proof.
  intros H. apply forallb_forall. intros x Hx. rewrite forallb_forall in H.
  destruct (name_byte_facts x (H x Hx)) as (_ & _ & Hm & _). rewrite Hm. reflexivity.
Qed.
Lemma long_describe_none name : forallb name_byte name = true -> long_describe_prefix name = None.
Proof.
  intros H. unfold long_describe_prefix, split_on. rewrite split_no_minus by (apply no_minus; exact H).
  cbn [rev app find_g]. destruct name as [|b rest]; [reflexivity|].
  destruct (beqb b c_g && forallb is_hexdigit rest); reflexivity.
Qed.
Lemma short_describe_none name : forallb name_byte name = true -> short_describe_prefix name = None.
Proof.
  intros H. unfold short_describe_prefix, split_on. rewrite split_no_minus by (apply no_minus; exact H).
  reflexivity.
Qed.

Definition with_ref (name : bytes) (s : st) : st := mkSt (trace s) (answers s) (Some name) None (is_done s).
Lemma find_ref_accepting name s : accepting s -> find_ref name s = (pushed [CFindRef name] (with_ref name s), Ok true).
Proof. intros H. unfold find_ref. rewrite dcall_accepting by exact H. reflexivity. Qed.

Lemma pnavs_length ns : (length ns <= length (pnavs ns))%nat.
Proof. induction ns as [|n r IH]; cbn [pnavs length]; [lia|]. rewrite app_length. destruct n; cbn [pnav length]; lia. Qed.
Lemma pnavs_nav_start ns : nav_start (pnavs ns).
Proof.
  destruct ns as [|n r]; [left; reflexivity|]. right. cbn [pnavs].
  destruct n; cbn [pnav app]; eexists; (left; reflexivity) || (right; reflexivity).
Qed.

Section D.
Variable date : bytes -> option bytes.

Lemma revision_ref name ns s : ref_name_ok name -> Forall nav_wf ns -> accepting s ->
  revision date (name ++ pnavs ns) s =
  (pushed (map nav_call ns) (pushed [CFindRef name] (with_ref name s)), Ok []).
Proof.
  intros (Hne & Hnb & Hnh) Hwf Hs.
  destruct name as [|b0 nm] eqn:En; [congruence|]. rewrite <- En in *.
  assert (Hb0 : name_byte b0 = true) by (rewrite En in Hnb; cbn [forallb] in Hnb; apply andb_prop in Hnb; tauto).
  destruct (name_byte_facts b0 Hb0) as (_ & _ & _ & Hcolon & _).
  unfold revision.
  assert (Hcf : colon_form (name ++ pnavs ns) = None).
  { rewrite En. cbn [app colon_form]. rewrite Hcolon. reflexivity. }
  rewrite Hcf.
  rewrite (scan_name name (pnavs ns) 0 0 (Some 0%nat) Hnb (pnavs_nav_start ns)).
  rewrite (chc_after_nonhex name _ Hnh).
  assert (Hnil : is_nil name = false) by (rewrite En; reflexivity).
  assert (Hlen : (1 <= length name)%nat) by (rewrite En; cbn [length]; lia).
  (* the navigation after the anchor *)
  assert (Hnav : navigate (S (length (pnavs ns))) (pnavs ns) 0 (pushed [CFindRef name] (with_ref name s)) =
                 (pushed (map nav_call ns) (pushed [CFindRef name] (with_ref name s)), Ok [])).
  { assert (H : navigate (S (length (pnavs ns))) ([] ++ pnavs ns ++ []) (length (@nil byte))
                  (pushed [CFindRef name] (with_ref name s)) =
                (pushed (map nav_call ns) (pushed [CFindRef name] (with_ref name s)), Ok [])).
    { apply navigate_printed; [exact Hwf|left; reflexivity|apply pushed_accepting|]. pose proof (pnavs_length ns). lia. }
    cbn [app length] in H. replace (pnavs ns ++ []) with (pnavs ns) in H by (symmetry; apply app_nil_r). exact H. }
  destruct (pnavs ns) as [|c rest] eqn:Ep.
  - (* no navigation: the name is the whole input *)
    rewrite app_nil_r. cbv zeta. rewrite firstn_all. rewrite Hnil. cbn [andb].
    cbn [Nat.leb]. unfold or_else, bind, ret. rewrite (long_describe_none name Hnb), (short_describe_none name Hnb).
    unfold must, bind. rewrite find_ref_accepting by exact Hs. unfold ret. cbn [ob_is].
    rewrite skipn_all. exact Hnav.
  - assert (Hc : (c = c_tilde \/ c = c_caret)).
    { destruct (pnavs_nav_start ns) as [H|[l [H|H]]]; rewrite Ep in H; [discriminate| |]; injection H as -> _; auto. }
    cbv zeta. cbn [Nat.add]. rewrite firstn_app_len. rewrite Hnil. cbn [andb].
    cbn [Nat.leb]. unfold or_else, bind, ret. rewrite (long_describe_none name Hnb), (short_describe_none name Hnb).
    unfold must, bind. rewrite find_ref_accepting by exact Hs. unfold ret.
    rewrite nth_error_app_len.
    assert (Hat : ob_is (Some c) c_at = false) by (destruct Hc as [-> | ->]; reflexivity).
    rewrite Hat.
    destruct (length name) as [|k] eqn:Ek; [lia|]. cbn [andb]. rewrite <- Ek. rewrite skipn_app_len. exact Hnav.
Qed.

Lemma parse_ref_navigation name ns : ref_name_ok name -> Forall nav_wf ns ->
  parse date (name ++ pnavs ns) [] =
  (map (fun c => (c, true)) (CFindRef name :: map nav_call ns ++ [CDone]), Ok tt).
Proof.
  intros Hn Hwf. pose proof Hn as (Hne & Hnb & _).
  destruct name as [|b0 nm] eqn:En; [congruence|]. rewrite <- En in *.
  assert (Hb0 : name_byte b0 = true) by (rewrite En in Hnb; cbn [forallb] in Hnb; apply andb_prop in Hnb; tauto).
  destruct (name_byte_facts b0 Hb0) as (_ & _ & _ & _ & Hcaret).
  unfold parse, parse_m.
  assert (Hhd : ob_is (ohd (name ++ pnavs ns)) c_caret = false) by (rewrite En; cbn [app ohd ob_is]; exact Hcaret).
  rewrite Hhd. unfold bind at 1. unfold ret at 1. cbv iota beta.
  unfold bind at 1. rewrite (revision_ref name ns (init []) Hn Hwf eq_refl).
  assert (Hneq : bytes_eqb [] (name ++ pnavs ns) = false) by (rewrite En; reflexivity).
  rewrite Hneq. cbn [negb].
  unfold bind at 1. unfold get_done. cbn [is_done pushed with_ref init].
  cbn [try_range]. unfold bind at 1. unfold ret at 1. cbn [is_nil].
  unfold done. cbn [trace pushed with_ref init answers last_ref last_prefix is_done].
  f_equal. rewrite app_nil_r. cbn [rev map app].
  rewrite !rev_app_distr. rewrite rev_involutive. cbn [rev app]. rewrite map_app. cbn [map].
  reflexivity.
Qed.
End D.
