(* C48 — Revision specs resolve like git rev-parse: the tokenizer part.
   Only statements here; every proof is [exact <lemma>].
   Model: Model.v = gix_revision::spec::parse (gix-revision/src/spec/parse/function.rs) driving a delegate that
   answers call k with the k-th element of [ans] (true = Some(()), exhausted list = true) and a date parser [date].
   [parse date input ans] = (delegate calls with their answers, Ok tt | Err e | Panic | OutOfFuel). *)
From GixV.Base Require Import Bytes BytesFacts Outcome.
From GixV.C48 Require Import Model Spec ProofsTotal ProofsRT ProofsTop.

(* The tokenizer is total: whatever the bytes of the spec, whatever the delegate answers and whatever the date
   parser does, no index, slice, expect() or unwrap of the tokenizer panics and its only unbounded loop terminates
   within the fuel the model gives it (one step per input byte). *)
Theorem tokenizer_total : forall (date : bytes -> option bytes) (input : bytes) (ans : list bool),
  snd (parse date input ans) <> Panic /\ snd (parse date input ans) <> OutOfFuel.
Proof. exact L_tokenizer_total. Qed.

(* `{text}` without braces and backslashes reads back as that text, the rest is what follows the closing brace
   (the @{…} and ^{…} forms are built on this) *)
Theorem braces_roundtrip : forall w more, forallb plainb w = true ->
  parens (c_lbrace :: w ++ c_rbrace :: more) = Ok (Some (w, more, S (S (length w)))).
Proof. exact parens_plain. Qed.

(* decimal numbers of ~n and ^n read back: all 1 <= n <= isize::MAX, whatever non-digit follows *)
Theorem ancestor_number_roundtrip : forall k more, (1 <= k <= ISIZE_MAX)%N -> nd_start more ->
  try_parse_usize (N_to_dec k ++ more) = Ok (Some (k, length (N_to_dec k))).
Proof. exact try_parse_usize_printed. Qed.
Theorem parent_number_roundtrip : forall k more, (1 <= k <= ISIZE_MAX)%N -> nd_start more ->
  try_parse_isize (N_to_dec k ++ more) = Ok (Some (Z.of_N k, false, length (N_to_dec k))).
Proof. exact try_parse_isize_printed. Qed.

(* parse/print round trip of navigation: the printed form of ANY list of  ~n  ^n  ^{commit|tag|tree|blob}
   ^{object}  ^{}  (1 <= n <= isize::MAX), at any position of the input and followed by the end of the spec or by
   a range operator, is tokenized into exactly the corresponding delegate calls, in order, and the rest of the
   input (the range operator) is handed back unconsumed.  The delegate accepts every call. *)
Theorem navigation_roundtrip : forall ns fuel pre tail s,
  Forall nav_wf ns -> tail_ok tail -> accepting s -> (length ns < fuel)%nat ->
  navigate fuel (pre ++ pnavs ns ++ tail) (length pre) s = (pushed (map nav_call ns) s, Ok tail).
Proof. exact navigate_printed. Qed.

(* whole-spec round trip: a reference name (letters, digits, '/', '_', not all hex digits) followed by any navigation
   list is tokenized — by the complete [parse], with an accepting delegate, for every date parser — into
   find_ref(name), the navigation calls, done; the result is Ok. *)
Theorem ref_with_navigation_roundtrip : forall date name ns, ref_name_ok name -> Forall nav_wf ns ->
  parse date (name ++ pnavs ns) [] =
  (map (fun c => (c, true)) (CFindRef name :: map nav_call ns ++ [CDone]), Ok tt).
Proof. exact parse_ref_navigation. Qed.

(* non-vacuity *)
Example ref_navigation_example :
  ref_name_ok (bs "refs/heads/main") /\ (Forall nav_wf [NAnc 2; NPar 1; NPeel KTree] /\
  bs "refs/heads/main" ++ pnavs [NAnc 2; NPar 1; NPeel KTree] = bs "refs/heads/main~2^1^{tree}")%type.
Proof.
  split; [|split].
  - split; [discriminate|split; reflexivity].
  - repeat constructor; vm_compute; discriminate.
  - reflexivity.
Qed.
Example navigation_example :
  navigate 10 (bs "main~3^2^{tree}^{}..x") 4 (init []) =
  (pushed [CAncestor 3; CParent 2; CPeelKind KTree; CPeelRec] (init []), Ok (bs "..x")).
Proof. vm_compute. reflexivity. Qed.
Example total_example : parse (fun _ => None) (bs "v1.0-3-gabcdef1^{/fix}~2..@{-1}") [] =
  ([(CPrefix (bs "abcdef1") (HDescribe (bs "v1.0") 3), true); (CFind (bs "fix") false, true); (CAncestor 2, true);
    (CKind RangeBetween, true); (CNth 1, true); (CDone, true)], Ok tt).
Proof. vm_compute. reflexivity. Qed.
