(* C48 — the supported grammar as syntax: navigation suffixes and their printed form. *)
From GixV.Base Require Import Bytes Outcome.
From GixV.C48 Require Import Model.
Local Open Scope N_scope.

Inductive nav := NAnc (n : N) | NPar (n : N) | NPeel (k : okind) | NPeelValid | NPeelRec.

Definition w_commit : bytes := Eval vm_compute in bs "commit".
Definition w_tag : bytes := Eval vm_compute in bs "tag".
Definition w_tree : bytes := Eval vm_compute in bs "tree".
Definition w_blob : bytes := Eval vm_compute in bs "blob".
Definition w_object : bytes := Eval vm_compute in bs "object".
Definition okind_text (k : okind) : bytes :=
  match k with KCommit => w_commit | KTag => w_tag | KTree => w_tree | KBlob => w_blob end.

(* ~n, ^n, ^{commit|tag|tree|blob}, ^{object}, ^{} *)
Definition pnav (n : nav) : bytes :=
  match n with
  | NAnc k => c_tilde :: N_to_dec k
  | NPar k => c_caret :: N_to_dec k
  | NPeel k => c_caret :: c_lbrace :: okind_text k ++ [c_rbrace]
  | NPeelValid => c_caret :: c_lbrace :: w_object ++ [c_rbrace]
  | NPeelRec => [c_caret; c_lbrace; c_rbrace]
  end.
Definition nav_call (n : nav) : call :=
  match n with
  | NAnc k => CAncestor k | NPar k => CParent k | NPeel k => CPeelKind k
  | NPeelValid => CPeelValid | NPeelRec => CPeelRec
  end.
(* n-th ancestor / parent with 1 <= n <= isize::MAX *)
Definition nav_wf (n : nav) : Prop :=
  match n with NAnc k | NPar k => 1 <= k <= ISIZE_MAX | _ => True end.

Fixpoint pnavs (ns : list nav) : bytes :=
  match ns with [] => [] | n :: r => pnav n ++ pnavs r end.

(* what may follow a revision: nothing, or a range operator *)
Definition tail_ok (t : bytes) : Prop := t = [] \/ exists r, t = c_dot :: r.

(* a delegate that accepts everything: the calls are appended to the trace, nothing else changes *)
Definition accepting (s : st) : Prop := answers s = [].
Definition pushed (cs : list call) (s : st) : st :=
  mkSt (rev (map (fun c => (c, true)) cs) ++ trace s) [] (last_ref s) (last_prefix s) (is_done s).

(* reference names the theorems cover: letters, digits, '/', '_' , at least one byte that is no hex digit *)
Definition name_byte (b : byte) : bool :=
  let n := b2N b in
  (N.leb 48 n && N.leb n 57) || (N.leb 65 n && N.leb n 90) || (N.leb 97 n && N.leb n 122) || N.eqb n 47 || N.eqb n 95.
Definition ref_name_ok (name : bytes) : Prop :=
  name <> [] /\ forallb name_byte name = true /\ existsb (fun b => negb (is_hexdigit b)) name = true.
