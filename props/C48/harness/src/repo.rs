//! Generated repositories for the `rp` cases: built once with `git fast-import` (deterministic content and
//! dates, hence deterministic ids) into a cache directory under the temp dir, then only read.
use crate::{run_git, tmp_root, CatFile};
use gixv_common::*;
use std::cell::RefCell;
use std::collections::HashMap;
use std::fmt::Write as _;
use std::path::PathBuf;

pub const NREPOS: usize = 6;
const VERSION: &str = "v4";
const WORDS: &[&str] = &["alpha", "beta", "gamma", "fix", "add"];

pub struct Fixture {
    pub id: usize,
    pub dir: PathBuf,
    /// (hex id, kind)
    pub objects: Vec<(String, String)>,
    /// full ref names
    pub refs: Vec<String>,
    pub paths: Vec<&'static str>,
}

fn sig(t: u64) -> String {
    format!("A U Thor <a@example.com> {t} +0000")
}

fn build(id: usize, dir: &PathBuf) -> Result<(), String> {
    let _ = std::fs::remove_dir_all(dir);
    std::fs::create_dir_all(dir).map_err(|e| e.to_string())?;
    run_git(dir, &["init", "-q", "-b", "main", "."], None)?;
    let mut rng = Rng::new(4800 + id as u64);
    let n = 5 + id;
    let mut s = String::new();
    // blobs: marks 1..=8
    let blobs = ["a0\n", "a1\n", "a2\n", "b\n", "c0\n", "c1\n", "d\n", "conflict\n"];
    for (i, b) in blobs.iter().enumerate() {
        write!(s, "blob\nmark :{}\ndata {}\n{}\n", i + 1, b.len(), b).unwrap();
    }
    let mut times = Vec::new();
    let mut parents: Vec<Vec<usize>> = Vec::new();
    for i in 0..n {
        let t = 1_000_000_000 + i as u64 * 100; // distinct: git's order among equal dates is an accident of ref iteration
        times.push(t);
        let mut ps = Vec::new();
        if i > 0 {
            let p1 = if rng.chance(7, 10) { i - 1 } else { rng.below(i as u64) as usize };
            ps.push(p1);
            if i > 1 && rng.chance(1, 3) {
                let p2 = rng.below(i as u64) as usize;
                if p2 != p1 {
                    ps.push(p2);
                    if i > 2 && rng.chance(1, 4) {
                        let p3 = rng.below(i as u64) as usize;
                        if p3 != p1 && p3 != p2 {
                            ps.push(p3);
                        }
                    }
                }
            }
        }
        let msg = format!("c{} {}\n\nbody {}\n", i, rng.pick(WORDS), rng.pick(WORDS));
        write!(s, "reset refs/tmp/x\ncommit refs/tmp/x\nmark :{}\nauthor {}\ncommitter {}\ndata {}\n{}\n", 100 + i, sig(t), sig(t), msg.len(), msg).unwrap();
        for (k, p) in ps.iter().enumerate() {
            writeln!(s, "{} :{}", if k == 0 { "from" } else { "merge" }, 100 + p).unwrap();
        }
        writeln!(s, "deleteall").unwrap();
        writeln!(s, "M 100644 :{} a", 1 + i % 3).unwrap();
        writeln!(s, "M 100755 :4 b").unwrap();
        writeln!(s, "M 100644 :{} dir/c", 5 + i % 2).unwrap();
        if i % 2 == 1 {
            writeln!(s, "M 100644 :7 dir/sub/d").unwrap();
        }
        writeln!(s).unwrap();
        parents.push(ps);
    }
    let tagobj = |s: &mut String, name: &str, mark: usize, from: usize, t: u64| {
        let msg = format!("tag {name}\n");
        write!(s, "tag {name}\nmark :{mark}\nfrom :{from}\ntagger {}\ndata {}\n{}\n", sig(t), msg.len(), msg).unwrap();
    };
    tagobj(&mut s, "v1.0", 200, 100 + n / 2, 1_000_001_000);
    tagobj(&mut s, "vv", 201, 200, 1_000_001_100);
    tagobj(&mut s, "tb", 202, 4, 1_000_001_200);
    let mut set = |name: &str, c: usize| write!(s, "reset {name}\nfrom :{}\n\n", 100 + c).unwrap();
    set("refs/heads/main", n - 1);
    set("refs/heads/dev", n / 2 + 1);
    set("refs/heads/feature/x", n / 3);
    set("refs/tags/v0", 1);
    set("refs/remotes/origin/main", n - 2);
    set("refs/remotes/origin/dev", n / 2);
    if id >= 2 {
        set("refs/heads/abcd", 0);
        set("refs/heads/dup", 1);
        set("refs/tags/dup", 2);
    }
    if id >= 3 {
        set("refs/heads/deadbeef", 2);
    }
    run_git(dir, &["fast-import", "--quiet"], Some(s.as_bytes()))?;
    run_git(dir, &["read-tree", "HEAD"], None)?;
    // a conflicted path: stages 1, 2, 3
    let ids = String::from_utf8(run_git(dir, &["rev-parse", "HEAD:a", "HEAD:b", "HEAD:dir/c"], None)?).map_err(|e| e.to_string())?;
    let ids: Vec<&str> = ids.lines().collect();
    let info = format!("100644 {} 1\tconf\n100644 {} 2\tconf\n100644 {} 3\tconf\n", ids[0], ids[1], ids[2]);
    run_git(dir, &["update-index", "--index-info"], Some(info.as_bytes()))?;
    // reflogs by hand: newest last
    let all = String::from_utf8(run_git(dir, &["rev-list", "--topo-order", "--reverse", "refs/heads/main"], None)?).map_err(|e| e.to_string())?;
    let chain: Vec<&str> = all.lines().collect();
    let zero = "0".repeat(40);
    let dev = String::from_utf8(run_git(dir, &["rev-parse", "refs/heads/dev", "refs/heads/feature/x"], None)?).map_err(|e| e.to_string())?;
    let dev: Vec<&str> = dev.lines().collect();
    let mut main_log = String::new();
    let mut head_log = String::new();
    let mut prev = zero.clone();
    let k = chain.len().min(4);
    for (j, c) in chain[chain.len() - k..].iter().enumerate() {
        let line = format!("{} {} {}\tcommit: step {}\n", prev, c, sig(1_000_002_000 + j as u64 * 10), j);
        main_log.push_str(&line);
        head_log.push_str(&line);
        if j == 1 {
            // visit dev and feature/x, come back
            head_log.push_str(&format!("{} {} {}\tcheckout: moving from main to dev\n", c, dev[0], sig(1_000_002_011)));
            head_log.push_str(&format!("{} {} {}\tcheckout: moving from dev to feature/x\n", dev[0], dev[1], sig(1_000_002_012)));
            head_log.push_str(&format!("{} {} {}\tcheckout: moving from feature/x to main\n", dev[1], c, sig(1_000_002_013)));
        }
        prev = c.to_string();
    }
    let logs = dir.join(".git/logs/refs/heads");
    std::fs::create_dir_all(&logs).map_err(|e| e.to_string())?;
    std::fs::write(logs.join("main"), main_log).map_err(|e| e.to_string())?;
    std::fs::write(dir.join(".git/logs/HEAD"), head_log).map_err(|e| e.to_string())?;
    let _ = std::fs::remove_file(logs.join("dev"));
    let _ = std::fs::remove_file(logs.join("abcd"));
    // upstream configuration for main only
    let mut cfg = std::fs::read_to_string(dir.join(".git/config")).map_err(|e| e.to_string())?;
    cfg.push_str("[remote \"origin\"]\n\turl = .\n\tfetch = +refs/heads/*:refs/remotes/origin/*\n[branch \"main\"]\n\tremote = origin\n\tmerge = refs/heads/main\n[branch \"dev\"]\n\tremote = origin\n\tmerge = refs/heads/dev\n");
    std::fs::write(dir.join(".git/config"), cfg).map_err(|e| e.to_string())?;
    std::fs::write(dir.join("ok"), b"ok").map_err(|e| e.to_string())?;
    Ok(())
}

fn load(id: usize) -> Fixture {
    let root = tmp_root();
    let dir = root.join(format!("{VERSION}-{id}"));
    if !dir.join("ok").exists() {
        std::fs::create_dir_all(&root).expect("tmp root");
        let tmp = root.join(format!("{VERSION}-{id}.tmp{}", std::process::id()));
        build(id, &tmp).expect("fixture repository");
        if std::fs::rename(&tmp, &dir).is_err() {
            let _ = std::fs::remove_dir_all(&tmp); // somebody else was faster
        }
    }
    let objs = String::from_utf8(run_git(&dir, &["cat-file", "--batch-all-objects", "--batch-check"], None).expect("objects")).unwrap();
    let objects = objs
        .lines()
        .filter_map(|l| {
            let mut it = l.split(' ');
            Some((it.next()?.to_string(), it.next()?.to_string()))
        })
        .collect();
    let refs = String::from_utf8(run_git(&dir, &["for-each-ref", "--format=%(refname)"], None).expect("refs")).unwrap();
    Fixture {
        id,
        dir,
        objects,
        refs: refs.lines().map(str::to_string).collect(),
        paths: vec!["a", "b", "dir/c", "dir/sub/d", "dir", "dir/sub", "dir/", "conf", "nope", "", "a/"],
    }
}

pub fn fixtures() -> Vec<Fixture> {
    (0..NREPOS).map(load).collect()
}

fn anchor(rng: &mut Rng, fx: &Fixture) -> Vec<u8> {
    match rng.below(20) {
        0..=4 => {
            // a ref, by one of its names
            let full = rng.pick(&fx.refs).clone();
            let short = full
                .strip_prefix("refs/heads/")
                .or_else(|| full.strip_prefix("refs/tags/"))
                .or_else(|| full.strip_prefix("refs/remotes/"))
                .unwrap_or(&full)
                .to_string();
            match rng.below(4) {
                0 => full.into_bytes(),
                1 => full.strip_prefix("refs/").unwrap_or(&full).as_bytes().to_vec(),
                _ => short.into_bytes(),
            }
        }
        5..=6 => b"HEAD".to_vec(),
        7 => b"@".to_vec(),
        8..=12 => {
            let (id, _) = rng.pick(&fx.objects).clone();
            let len = *rng.pick(&[4usize, 4, 5, 6, 7, 8, 12, 39, 40]);
            let mut t = id[..len].as_bytes().to_vec();
            if rng.chance(1, 6) {
                t.make_ascii_uppercase();
            }
            t
        }
        13..=14 => {
            // describe output for some object: <name>-<n>-g<abbrev>
            let (id, _) = rng.pick(&fx.objects).clone();
            let len = *rng.pick(&[4usize, 7, 10]);
            format!("{}-{}-g{}", rng.pick(&["v1.0", "v0", "nope", "dev"]), rng.below(4), &id[..len]).into_bytes()
        }
        15 => {
            let (id, _) = rng.pick(&fx.objects).clone();
            format!("{}-dirty", &id[..7]).into_bytes()
        }
        16 => rng.pick(&[&b"nope"[..], b"0000", b"abcd", b"dead", b"refs/heads/nope", b"dup", b"heads/dup", b"tags/dup"]).to_vec(),
        17 => b"".to_vec(),
        _ => rng.pick(&[&b"main"[..], b"dev", b"v1.0", b"vv", b"tb", b"v0", b"origin/main"]).to_vec(),
    }
}

fn rev(rng: &mut Rng, fx: &Fixture) -> Vec<u8> {
    if rng.chance(1, 12) {
        // top-level colon forms
        let p = *rng.pick(&fx.paths);
        return match rng.below(4) {
            0 => format!(":{p}").into_bytes(),
            1 => format!(":{}:{p}", rng.below(5)).into_bytes(),
            _ => format!(":/{}", rng.pick(&["alpha", "beta", "c1", "c2 ", "body fix", "nothing-like-this", "!-alpha", "c"])).into_bytes(),
        };
    }
    let mut s = anchor(rng, fx);
    if rng.chance(1, 4) {
        let at: String = match rng.below(8) {
            0..=3 => format!("@{{{}}}", rng.below(6)),
            4 => format!("@{{-{}}}", 1 + rng.below(4)),
            5 => "@{u}".into(),
            6 => "@{upstream}".into(),
            _ => "@{push}".into(),
        };
        s.extend(at.bytes());
    }
    for _ in 0..*rng.pick(&[0usize, 0, 1, 1, 2, 3]) {
        let t: String = match rng.below(14) {
            0 => "~".into(),
            1..=2 => format!("~{}", rng.below(4)),
            3 => "^".into(),
            4..=5 => format!("^{}", rng.below(4)),
            6 => "^{commit}".into(),
            7 => "^{tree}".into(),
            8 => rng.pick(&["^{blob}", "^{tag}", "^{object}"]).to_string(),
            9..=10 => "^{}".into(),
            11 => format!("^{{/{}}}", rng.pick(&["alpha", "beta", "c1", "c0", "body add", "zzz", "!-alpha", "!-c"])),
            _ => format!(":{}", rng.pick(&fx.paths)),
        };
        let stop = t.starts_with(':');
        s.extend(t.bytes());
        if stop {
            break;
        }
    }
    s
}

pub fn gen_case(rng: &mut Rng, fixed: &[Fixture]) -> Case {
    let fx = &fixed[rng.below(fixed.len() as u64) as usize];
    let a = rev(rng, fx);
    let (kind, spec): (String, Vec<u8>) = match rng.below(16) {
        0..=8 => ("s".into(), a.clone()),
        9 => ("x".into(), [&b"^"[..], &a].concat()),
        10..=11 => ("r".into(), [&a[..], b"..", &rev(rng, fx)].concat()),
        12 => ("m".into(), [&a[..], b"...", &rev(rng, fx)].concat()),
        13 => ("e".into(), [&a[..], b"^!"].concat()),
        14 => ("i".into(), [&a[..], b"^@"].concat()),
        _ => {
            let n = rng.below(3);
            if n == 0 {
                ("p1".into(), [&a[..], b"^-"].concat())
            } else {
                (format!("p{n}"), [&a[..], format!("^-{n}").as_bytes()].concat())
            }
        }
    };
    let mut c = vec![tag("rp"), format!("{},{},{}", fx.id, kind, a.len()).into_bytes(), spec.clone()];
    c.extend(crate::date_table(&spec));
    c
}

trait ContainsB {
    fn contains_str_b(&self, needle: &[u8]) -> bool;
}
impl ContainsB for Vec<u8> {
    fn contains_str_b(&self, needle: &[u8]) -> bool {
        self.windows(needle.len()).any(|w| w == needle)
    }
}

// ---------------------------------------------------------------------------------------------------
struct Open {
    repo: gix::Repository,
    git: CatFile,
}
thread_local! {
    static OPEN: RefCell<HashMap<usize, Open>> = RefCell::new(HashMap::new());
}

fn with_repo<T>(id: usize, f: impl FnOnce(&mut Open) -> T) -> T {
    OPEN.with(|m| {
        let mut m = m.borrow_mut();
        let o = m.entry(id).or_insert_with(|| {
            let fx = load_dir(id);
            let repo = gix::open_opts(&fx, gix::open::Options::isolated()).expect("gix open");
            Open { repo, git: CatFile::new(&fx) }
        });
        f(o)
    })
}
fn load_dir(id: usize) -> PathBuf {
    let dir = tmp_root().join(format!("{VERSION}-{id}"));
    if !dir.join("ok").exists() {
        load(id);
    }
    dir
}

fn gix_outcome(repo: &gix::Repository, spec: &[u8]) -> String {
    use gix_revision::Spec::*;
    match repo.rev_parse(gix::bstr::BStr::new(spec)) {
        Ok(s) => match s.detach() {
            Include(a) => format!("include {a}"),
            Exclude(a) => format!("exclude {a}"),
            Range { from, to } => format!("range {from} {to}"),
            Merge { theirs, ours } => format!("merge {theirs} {ours}"),
            IncludeOnlyParents(a) => format!("parents-only {a}"),
            ExcludeParents(a) => format!("without-parents {a}"),
        },
        Err(_) => "error".into(),
    }
}
fn gix_error(repo: &gix::Repository, spec: &[u8]) -> String {
    match repo.rev_parse(gix::bstr::BStr::new(spec)) {
        Ok(_) => String::new(),
        Err(e) => e.to_string().chars().take(160).collect(),
    }
}

/// what `git rev-parse <spec>` says, put together from `git cat-file --batch-check` answers for the sides
fn git_outcome(git: &mut CatFile, kind: &str, a: &[u8], b: &[u8]) -> String {
    let k = kind.as_bytes()[0];
    let side = |git: &mut CatFile, x: &[u8]| {
        if x.is_empty() && matches!(k, b'r' | b'm') {
            git.resolve(b"HEAD")
        } else if x.is_empty() {
            None
        } else {
            git.resolve(x)
        }
    };
    let is_commit = |git: &mut CatFile, id: &str| git.resolve(format!("{id}^{{commit}}").as_bytes()).is_some();
    let err = "error".to_string();
    match k {
        b's' => side(git, a).map_or(err, |a| format!("include {a}")),
        b'x' => side(git, a).map_or(err, |a| format!("exclude {a}")),
        b'r' => match (side(git, a), side(git, b)) {
            (Some(a), Some(b)) => format!("range {a} {b}"),
            _ => err,
        },
        b'm' => match (side(git, a), side(git, b)) {
            (Some(x), Some(y)) if is_commit(git, &x) && is_commit(git, &y) => format!("merge {x} {y}"),
            _ => err,
        },
        b'e' => match side(git, a) {
            Some(x) if is_commit(git, &x) => format!("without-parents {x}"),
            _ => err,
        },
        b'i' => match side(git, a) {
            Some(x) if is_commit(git, &x) => format!("parents-only {x}"),
            _ => err,
        },
        b'p' => {
            let n = &kind[1..];
            let mut p = a.to_vec();
            p.extend_from_slice(format!("^{n}").as_bytes());
            match (side(git, a), git.resolve(&p)) {
                (Some(x), Some(p)) => format!("range {p} {x}"),
                _ => err,
            }
        }
        _ => err,
    }
}

pub fn prop(c: &Case) -> Verdict {
    let meta = String::from_utf8_lossy(f_str(c, 1)).into_owned();
    let mut it = meta.split(',');
    let (Some(id), Some(kind), Some(alen)) = (it.next(), it.next(), it.next()) else { return Verdict::ok(false, "rp-bad-case") };
    let (Ok(id), Ok(alen)) = (id.parse::<usize>(), alen.parse::<usize>()) else { return Verdict::ok(false, "rp-bad-case") };
    let spec = f_str(c, 2);
    // a single revision that starts with `^` (empty anchor, then `^…`) is the exclusion of the rest
    let kind = if (kind == "s" || alen == 0) && spec.first() == Some(&b'^') { "x" } else { kind };
    if id >= NREPOS || spec.contains(&b'\n') || kind.is_empty() {
        return Verdict::ok(false, "rp-bad-case");
    }
    // split the spec into its sides
    let (a, b): (Vec<u8>, Vec<u8>) = match kind.as_bytes()[0] {
        b's' => (spec.to_vec(), vec![]),
        b'x' => (spec[1..].to_vec(), vec![]),
        b'r' => (spec[..alen.min(spec.len())].to_vec(), spec[(alen + 2).min(spec.len())..].to_vec()),
        b'm' => (spec[..alen.min(spec.len())].to_vec(), spec[(alen + 3).min(spec.len())..].to_vec()),
        _ => (spec[..alen.min(spec.len())].to_vec(), vec![]),
    };
    with_repo(id, |o| {
        let got = match std::panic::catch_unwind(std::panic::AssertUnwindSafe(|| gix_outcome(&o.repo, spec))) {
            Ok(g) => g,
            Err(e) => {
                let msg = e.downcast_ref::<String>().cloned().or_else(|| e.downcast_ref::<&str>().map(|s| s.to_string())).unwrap_or_default();
                return Verdict::fail("rp-gix-panics", format!("{:?}: {}", String::from_utf8_lossy(spec), msg));
            }
        };
        let want = git_outcome(&mut o.git, kind, &a, &b);
        // git's last resort for a name ending in `}` that contains `@{`: everything between the LAST-found `@{` … and the
        // final `}` is handed to approxidate, which accepts anything (`dup@{0}^2^{commit}` = reflog of dup at the "date"
        // `0}^2^{commit`). When the ordinary reading fails git therefore still answers; that answer says nothing.
        // The fallback also applies to every prefix git cuts off while parsing (`X@{2}^{tag}~0`), so: an `@{…}` that is
        // followed by another `}` anywhere later.
        let quirk = |x: &[u8]| {
            x.windows(2).position(|w| w == b"@{").map_or(false, |p| {
                x[p..].iter().position(|c| *c == b'}').map_or(false, |q| x[p + q + 1..].contains(&b'}'))
            })
        };
        if got == "error" && want != "error" && (quirk(&a) || quirk(&b)) {
            return Verdict::ok(false, "rp-git-approxidate-fallback");
        }
        if got == want {
            Verdict::ok(want != "error", if want == "error" { "rp-both-refuse" } else { "rp-same" })
        } else {
            Verdict::fail(classify(kind, &a, &b, &got, &want, &mut o.git), format!("{:?}: gix {} / git {} {}", String::from_utf8_lossy(spec), got, want, gix_error(&o.repo, spec)))
        }
    })
}

/// stable names for the ways the two can differ (used for the known-findings mechanism)
fn classify(kind: &str, a: &[u8], b: &[u8], got: &str, want: &str, git: &mut CatFile) -> String {
    let k = kind.as_bytes()[0];
    let anchor_of = |x: &[u8]| -> Vec<u8> {
        let end = x.iter().position(|c| matches!(c, b'~' | b'^' | b':' | b'@')).unwrap_or(x.len());
        x[..end].to_vec()
    };
    let hexs = |x: &[u8]| !x.is_empty() && x.iter().all(u8::is_ascii_hexdigit);
    let sides: Vec<&[u8]> = if b.is_empty() { vec![a] } else { vec![a, b] };
    let gix_ok = got != "error";
    let git_ok = want != "error";
    // 1. `:` swallows the rest of the spec (documented choice of gix-revision, pinned by its tests)
    if matches!(k, b'r' | b'm' | b'e' | b'i' | b'p') && a.contains(&b':') {
        return "colon-swallows-range-operator".into();
    }
    for x in &sides {
        let anc = anchor_of(x);
        let toks: Vec<&[u8]> = anc.split(|c| *c == b'-').collect();
        if x.starts_with(b"@@{") {
            return "at-sign-before-braces-is-not-head".into();
        }
        let low = x.to_ascii_lowercase();
        if low.starts_with(b"head@{u}") || low.starts_with(b"head@{upstream}") || low.starts_with(b"head@{push}") {
            return "sibling-branch-of-head".into();
        }
        if gix_ok && !git_ok && toks.len() == 2 && hexs(toks[0]) && git.resolve(&anc).is_none() {
            return "describe-dirty-suffix-accepted".into();
        }
        if gix_ok && !git_ok && toks.len() >= 2 && toks.last().map_or(false, |t| t.first() == Some(&b'g') && hexs(&t[1..])) {
            let hex = &toks.last().unwrap()[1..];
            if git.resolve_typed(hex).map_or(false, |t| t.1 != "commit") {
                return "describe-name-of-non-commit-accepted".into();
            }
        }
        if gix_ok && !git_ok && x.contains(&b':') && x.ends_with(b"/") {
            return "path-with-trailing-slash-names-blob".into();
        }
    }
    for x in &sides {
        let low = x.to_ascii_lowercase();
        if gix_ok && !git_ok && (low.starts_with(b"refs/") || low.starts_with(b"heads/")) && (low.contains_str_b(b"@{u}") || low.contains_str_b(b"@{upstream}") || low.contains_str_b(b"@{push}")) {
            return "sibling-branch-of-full-ref-name-accepted".into();
        }
    }
    // `X@{n}` where X is both a tag and a branch: git reads the reflog of the one that has a log (the branch),
    // gix picks refs/tags/X first and finds no log
    for x in &sides {
        let anc = anchor_of(x);
        if !gix_ok && git_ok && x[anc.len()..].starts_with(b"@{") && !anc.is_empty() && !anc.contains(&b'/') {
            let t = [&b"refs/tags/"[..], &anc].concat();
            let h = [&b"refs/heads/"[..], &anc].concat();
            if git.resolve(&t).is_some() && git.resolve(&h).is_some() {
                return "reflog-of-name-that-is-tag-and-branch".into();
            }
        }
    }
    // `^{/regex}` without anything in front searches all references like `:/regex` (documented in the delegate trait)
    for x in &sides {
        if gix_ok && !git_ok && x.starts_with(b"^{/") {
            return "regex-peel-without-anchor-accepted".into();
        }
    }
    // `~0`: the tokenizer makes no delegate call at all (pinned by gix-revision test tilde_symbol.rs `@~0`);
    // git peels to a commit (and refuses non-commits)
    for x in &sides {
        if x.windows(2).enumerate().any(|(i, w)| w == b"~0" && !x.get(i + 2).map_or(false, u8::is_ascii_digit)) && gix_ok {
            return "tilde-zero-is-ignored".into();
        }
    }
    if k == b'p' && a.len() > anchor_of(a).len() {
        return "parent-exclusion-shorthand-forgets-navigation".into();
    }
    if matches!(k, b'm' | b'e' | b'i') && gix_ok && !git_ok {
        for x in &sides {
            if git.resolve_typed(x).map_or(false, |t| git.resolve(format!("{}^{{commit}}", t.0).as_bytes()).is_none()) {
                return "non-commit-in-range-spec-accepted".into();
            }
        }
    }
    // navigation that starts at an annotated tag object: cut the side before each `~`/`^` and ask git for the type
    for x in &sides {
        for i in 1..x.len() {
            if matches!(x[i], b'~' | b'^') && !x[..i].contains(&b':') {
                let is_tag = git.resolve_typed(&x[..i]).map_or(false, |t| t.1 == "tag");
                let peel_syntax = x[i..].starts_with(b"^{") && !x[i..].starts_with(b"^{/");
                if is_tag && !peel_syntax {
                    return "navigation-from-annotated-tag".into();
                }
            }
        }
    }
    if !gix_ok {
        "rp-gix-refuses".into()
    } else if !git_ok {
        "rp-git-refuses".into()
    } else {
        "rp-different-object".into()
    }
}
